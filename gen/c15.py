"""C15: counters and prefix limits match the RIB.  Same model and harness as C02;
the oracle recounts from the implementation's own Table::destinations output."""
from gen import ribcommon as R
from gen import ribenum as E
from gen import c15sess as S
from gen.c02 import Prop as C02

U64 = 1 << 64

class Prop(C02):
    pid = 'C15'
    props_file = 'Props/C15.v'
    required_theorems = ['no_empty_destination', 'stats_eq_recount', 'no_counter_underflow', 'table_totals_eq_recount',
                         'limit_counter_refuted', 'limit_respected_outside_known', 'limit_rejection_installs_nothing',
                         'remove_finds_stats', 'stats_eq_adjin_view', 'known_class_narrowed', 'limit_signalled_only_when_full',
                         'limit_counter_eq_recount', 'limit_respected', 'old_discipline_refuted']
    extra_targets = ['Model/Rib.vo', 'Model/RibSession.vo']
    correspondence_name = 'Model/Rib.v step (route_stats, limit counters, Table::state) vs rustybgp_table::Table (harness/hx-rib, debug and release)'
    trusted_base = C02.trusted_base + [
        'a prefix-limit counter (Arc<AtomicU64>) is named by the Source token of the session it belongs to; how daemon/src/event/mod.rs PeerSession.prefix_counters '
        'creates and hands the counters to the table is not modelled (the discipline is a hypothesis of limit_respected_outside_known: every insert, withdrawal and '
        'purge of a session carries that session\'s counter, Table::drop ends the session)',
        'atomic counter operations are sequential (one shard under its mutex); u64 statistics underflow is the model flag t_bad (debug panic / release wrap)']
    assumptions = ['a Source object (allocation token) always denotes the same remote address', 'configured maxima are u32 values']
    rule = ('histories with per-session prefix limits 0..5 over 3 prefixes x 3 path ids, 3 peers sharing prefixes, filtered/unfiltered transitions, '
            'peer drop, stale/LLGR/NO_LLGR purges, limit-exceeded insertions and session restarts; non-trivial = some counter or statistic is > 0 '
            'at some step and some removal happened; distinct = distinct sequence of (statistics, counters, totals)'
            ' Enumerated on every run (gen/ribenum.py, tags enum:*): every operation of a 90-operation alphabet on each of 21 pre-states; two-candidate duels deciding at exactly one step of the decision order with the loser better at every later step, single-step ECMP exclusions, complete ties, EVPN MAC-mobility forms in every extended-community layout, LLGR_STALE / NO_LLGR in every community position; AS_PATH hop counts on both sides of 0/1/63/64/65/127/128/255/256/510 in every segment shape including unknown segment types and hundreds of one-AS segments; 67 (thorough: 131) prefixes crossing the id bitmap words with ids freed and re-used; prefix limits 0/1/2/u32::MAX; u32 ends of path ids, LOCAL_PREF, router ids, CLUSTER_LIST lengths; all role pairs.')

    enum_which = 'c15'

    def gen_cases(self, rng, tier):
        n = 700 if tier == 'quick' else 7000
        cases = E.all_enumerated('c15', tier) + (E.state_x_op(limits=2) + E.state_x_op(limits=3, pairs=True) if tier != 'quick' else [])
        for k in range(n):
            w = dict(ins=10, rem=4, drop=1, dropk=3, restale=2, nhv=1, reconnect=(1 if k % 2 else 0), deferral=0)
            cases.append(R.gen_history(rng, rng.randint(5, 40), limits=(k % 5 != 4), weights=w))
        # the repaired caller discipline: a session synchronises its counter with the RIB when it
        # starts acting for a peer and after a purge that ran without the counter
        for c in cases:
            c['ops'] = R.add_syncs(c['ops'])
        # the same discipline on the real daemon glue (sessions over loopback TCP), enumerated
        return S.enumerate_cases(tier) + cases

    def corpus_cases(self):
        import glob, json, os
        out = []
        for f in sorted(glob.glob(os.path.join(os.path.dirname(os.path.dirname(os.path.abspath(__file__))), 'corpus', 'C15', '*.json'))):
            out.append(R.case_from_json(json.load(open(f))['case']))
        return out

    @staticmethod
    def _split(cases):
        si = [i for i, c in enumerate(cases) if c.get('kind') == 'sess']
        ri = [i for i, c in enumerate(cases) if c.get('kind') != 'sess']
        return si, ri

    def run_impl(self, cases, tier):
        si, ri = self._split(cases)
        out = [None] * len(cases)
        if ri:
            rc = [cases[i] for i in ri]
            a, err = R.run_impl('C15', rc, release=False)
            if a is None:
                return None, err
            b, err = R.run_impl('C15r', rc, release=True)
            if b is None:
                return None, err
            for i, x, y in zip(ri, a, b):
                out[i] = x if R.canon_obs(x) == R.canon_obs(y) else [-1, 'debug/release differ']
        if si:
            a, err = S.run_impl([cases[i] for i in si])
            if a is None:
                return None, err
            for i, x in zip(si, a):
                out[i] = x
        return out, ''

    def run_model(self, cases, tier):
        si, ri = self._split(cases)
        out = [None] * len(cases)
        if ri:
            a, err = R.run_smodel('C15', [cases[i] for i in ri])
            if a is None:
                return None, err
            for i, x in zip(ri, a):
                out[i] = x
        if si:
            a, err = S.run_model([cases[i] for i in si])
            if a is None:
                return None, err
            for i, x in zip(si, a):
                out[i] = ['model', x]
        return out, ''

    def canon(self, c, obs):
        if c.get('kind') == 'sess':
            if obs and obs[0] == 'model':
                return obs[1]
            return S.canon(c, obs, False)
        return R.canon_obs(obs)

    def oracle(self, c, obs):
        if c.get('kind') == 'sess':
            return S.oracle(c, obs)
        if obs and obs[0] == -1:
            return 'panic (statistics underflow) or debug/release divergence in the RIB'
        addr_of_tok = {}
        for o in c['ops']:
            if o[0] in ('ins', 'rem'):
                addr_of_tok[o[1][0]] = o[1][1]
            if o[0] == 'sync':
                addr_of_tok.setdefault(o[1], o[2])
        # the live session of a peer (its counter was synchronised with the RIB) and whether a purge
        # ran without the counter since
        cur = {}; pending = set()
        for k, (o, step) in enumerate(zip(c['ops'], obs)):
            chs, lim, st = step
            loc, dests, totals, stats, ctrs, bad = st[:6]
            prev = {d[0]: d[1] for d in obs[k - 1][2][1]} if k > 0 else {}
            held_before = lambda a: sum(1 for es in prev.values() if any(addr_of_tok.get(e[1]) == a for e in es))
            if o[0] == 'sync':
                cur[o[2]] = o[1]; pending.discard(o[2])
            elif o[0] in ('ins', 'rem'):
                tok, a = o[1][0], o[1][1]
                used = (o[8][1] if o[8] is not None else None) if o[0] == 'ins' else o[4]
                if cur.get(a) is not None and (cur[a] != used or a in pending):
                    cur.pop(a)                       # not the discipline: nothing is claimed for this session any more
                if o[0] == 'ins' and o[8] is not None and cur.get(a) == used:
                    mx = o[8][0]
                    new = not any(addr_of_tok.get(e[1]) == a for e in prev.get(o[2], []))
                    if lim and not (new and held_before(a) >= mx):
                        return 'step %d: peer %d holds %d prefixes, limit %d, yet its %s prefix %d was refused' % (
                            k, a, held_before(a), mx, 'new' if new else 'known', o[2])
                    if not lim and new and held_before(a) >= mx:
                        return 'step %d: a new prefix of peer %d was accepted although the peer already held %d prefixes (limit %d)' % (k, a, held_before(a), mx)
            elif o[0] == 'drop':
                a = o[2]
                if o[1] == 0:
                    cur.pop(a, None); pending.discard(a)
                elif cur.get(a) is not None:
                    if o[3] is None: pending.add(a)
                    elif o[3] != cur[a] or a in pending: cur.pop(a)
            # a rejected insert installs nothing
            if lim and k > 0 and sorted(map(repr, dests)) != sorted(map(repr, obs[k - 1][2][1])):
                return 'step %d: an insert answered PrefixLimitExceeded changed the RIB' % k
            # table totals
            nd = len(dests); npaths = sum(len(d[1]) for d in dests)
            nacc = sum(1 for d in dests for e in d[1] if not e[3])
            if any(len(d[1]) == 0 for d in dests):
                return 'step %d: a prefix with no paths is held as a destination' % k
            if totals != [nd, npaths, nacc]:
                return 'step %d: Table::state %s, recount %s' % (k, totals, [nd, npaths, nacc])
            # per-peer statistics
            for s in stats:
                a = s[0]
                rcv = sum(1 for d in dests if any(addr_of_tok.get(e[1]) == a for e in d[1]))
                acc = sum(1 for d in dests for e in d[1] if addr_of_tok.get(e[1]) == a and not e[3])
                got = s[1:] if len(s) == 3 else [0, 0]
                if got != [rcv, acc]:
                    return 'step %d: peer %d statistics (received, accepted) = %s, recount %s' % (k, a, got, [rcv, acc])
            # the prefix-limit counter of every live session: the prefixes its peer holds, stale ones included
            for a, tok in cur.items():
                if a in pending or tok not in c['ctrs']:
                    continue
                v = ctrs[c['ctrs'].index(tok)]
                mine = sum(1 for d in dests if any(addr_of_tok.get(e[1]) == a for e in d[1]))
                if v >= U64 // 2:
                    return 'step %d: prefix-limit counter of session %d (peer %d) underflowed (%d); the peer holds %d prefixes' % (k, tok, a, v, mine)
                if v != mine:
                    return 'step %d: prefix-limit counter of session %d is %d, its peer %d holds %d prefixes' % (k, tok, v, a, mine)
        return None

    def in_known_class(self, kf, c, obs, why):
        return False

    def nontrivial_key(self, c, obs):
        if obs and obs[0] == -1:
            return ('panic',)
        if c.get('kind') == 'sess':
            return ('sess', c['limit'], tuple((x[0], x[1], x[2]) for x in obs)) if any(x[0] and x[2] > 0 for x in obs) else None
        seq = tuple((tuple(st[2][2]), tuple(map(tuple, st[2][3])), tuple(st[2][4])) for st in obs)
        if any(o[0] in ('rem', 'drop') for o in c['ops']) and any(any(x > 0 for x in s[2]) for s in seq):
            return seq
        return None

    def classify(self, c, obs):
        if c.get('kind') == 'sess':
            return S.classify(c, obs)
        tags = C02.classify(self, dict(c, ops=[o for o in c['ops'] if o[0] != 'sync']), [s for o, s in zip(c['ops'], obs) if o[0] != 'sync'] if obs and obs[0] != -1 else obs)
        if any(o[0] == 'sync' for o in c['ops']):
            tags.append('op_sync')
        return tags
