"""C18: a monitoring subscriber reconstructs the exact Adj-RIB-In.

A case is (configuration, one program per thread, schedule).  The harness
(harness/daemon/table_manager_hx.rs, verif_sub_cases) runs every program on its
own OS thread against one real TableManager with two shards; a deterministic
scheduler grants one step at a time (a step = the code between two
verif_sched::point calls) in the order of the schedule, then lets the threads
finish in index order.  The model is coq/Model/Subscribe.v (run_sched / finish).
Observation: the BgpEvent sequence received on Subscription.rx, the final
iter_reach / iter_reach_post, the fold of the events (bmp.rs apply_snapshot)
and the PeerUp/PeerDown events track_peer_up/down forward."""
import json, os, glob, itertools
from vp import val, coqrun, rustrun
from vp.val import cN, cbool, clist, cpair, copt

def key_coq(k):
    return '{| k_peer := %s; k_sh := %s; k_ix := %s; k_pid := %s |}' % tuple(cN(x) for x in k)

def op_to_val(o):
    t = o[0]
    if t == 'sub': return [0]
    if t == 'ins': return [1] + list(o[1]) + [o[2]]
    if t == 'rem': return [2] + list(o[1])
    return [{'up': 3, 'down': 4, 'reset': 5, 'pol': 6}[t], o[1]]

def op_to_coq(o):
    t = o[0]
    if t == 'sub': return 'Subscribe'
    if t == 'ins': return '(Ins %s %s)' % (key_coq(o[1]), cN(o[2]))
    if t == 'rem': return '(Rem %s)' % key_coq(o[1])
    return '(%s %s)' % ({'up': 'Up', 'down': 'Down', 'reset': 'SoftReset', 'pol': 'SetPol'}[t], cN(o[1]))

NSTEPS = {'sub': 3, 'ins': 2, 'rem': 2, 'up': 1, 'down': 4, 'reset': 3, 'pol': 1}

def canon_events(evs):
    """events of one critical section come out in hash-map order: sort every maximal run
    of consecutive pre-policy (resp. post-policy) events by key, stably"""
    out, i = [], 0
    while i < len(evs):
        k = evs[i][0]
        if k in (0, 1):
            j = i
            while j < len(evs) and evs[j][0] == k:
                j += 1
            out += sorted(evs[i:j], key=lambda e: e[1])
            i = j
        else:
            out.append(evs[i]); i += 1
    return out

class Prop:
    pid = 'C18'
    props_file = 'Props/C18.v'
    required_theorems = ['subscriber_fold_eq_rib', 'last_event_is_current', 'peer_down_only_after_up',
                         'subscriber_fold_eq_rib_legacy_refuted', 'subscriber_fold_eq_rib_legacy_limit_refuted']
    correspondence_name = ('Model/Subscribe.v run_sched/finish vs daemon/src/table_manager.rs TableManager::{subscribe, insert_route, '
                           'remove_route, soft_reset_in, unregister_peer, peer_up, peer_down} on real threads under a deterministic '
                           'scheduler (harness/daemon/table_manager_hx.rs verif_sub_cases), fold by bmp.rs apply_snapshot / track_peer_*')
    rule = ('a case is (programs of <= 3 threads, schedule); non-trivial when the subscriber registers while another thread still has '
            'steps to run and at least one route event is delivered after EndOfSnapshot or during the snapshot walk; distinct = distinct '
            '(programs, canonical event sequence); the thorough tier adds every interleaving (12600 schedules) of subscribe || one session thread '
            '(two inserts / insert+remove / session down) || soft_reset_in after a policy change')
    exhaustive = {'quick': False, 'thorough': False}
    trusted_base = [
        'C18: atomic steps are the stretches between scheduling points (before every shard-lock acquisition and before every operation); '
        'std::sync::Mutex / ArcSwap / tokio mpsc are assumed sequentially consistent and the sends inside one critical section are treated '
        'as one step (sound for the per-key fold because same-key events are serialised by the shard lock and a peer\'s operations come from its own session thread)',
        'C18: the Adj-RIB-In is abstracted to (peer, prefix, path id) -> (attribute-block identity, filtered); next hop and timestamp are constant; '
        'the import policy is "reject these neighbours"; one address family; two shards; one subscriber',
        'C18: the consumer is apply_snapshot (bmp.rs) applied to every AdjRibIn/AdjRibInPost event in channel order, PeerDown forgets the peer '
        '(RFC 7854 s4.9); BmpClient::serve reconstructs peer state from GlobalHandle instead of the PeerUp/PeerDown seen during the snapshot '
        'phase: that glue, the gRPC watch stream and mrt.rs are not modelled',
    ]
    assumptions = [
        'all route operations of one peer are issued by one thread (its session task); soft_reset_in and policy changes may come from any thread',
        'session down is unregister_peer(all families dropped) followed by peer_down, as in event/mod.rs; graceful-restart retention (stale paths kept after PeerDown, purged without Adj-RIB-In events) is not part of the modelled histories',
        'at most one subscribe(true) per case; unsubscribe is not modelled',
    ]

    # ---- rendering
    def case_to_val(self, c):
        return [[c['pols'], c['lims']], [[op_to_val(o) for o in p] for p in c['progs']], c['sched']]

    def case_to_coq(self, c):
        cfg = '{| c_pols := %s; c_lims := %s |}' % (clist([clist([cN(x) for x in p]) for p in c['pols']]),
                                                      clist([cpair(cN(a), cN(b)) for a, b in c['lims']]))
        progs = clist([clist([op_to_coq(o) for o in p]) for p in c['progs']])
        return 'run_case %s %s %s %s' % (os.environ.get('VERIF_C18_VARIANT', 'Fixed'), cfg, progs,
                                         clist(['%d%%nat' % t for t in c['sched']]))

    def case_to_json(self, c):
        return json.loads(json.dumps(c))

    def case_from_json(self, j):
        c = dict(j)
        c['progs'] = [[tuple(tuple(x) if isinstance(x, list) else x for x in o) for o in p] for p in j['progs']]
        return c

    def corpus_cases(self):
        out = []
        d = os.path.join(os.path.dirname(os.path.dirname(os.path.abspath(__file__))), 'corpus', 'C18')
        for f in sorted(glob.glob(os.path.join(d, '*.json'))):
            out.append(self.case_from_json(json.load(open(f))['case']))
        return out

    # ---- generation
    def gen_prog(self, rng, peers, n, with_limit):
        ops = []
        for _ in range(n):
            x = rng.random()
            p = rng.choice(peers)
            k = (p, rng.choice([0, 1]), rng.choice([0, 0, 1]), rng.choice([0, 0, 0, 1]))
            if x < 0.45: ops.append(('ins', k, rng.choice([0, 1, 2, 3])))
            elif x < 0.62: ops.append(('rem', k))
            elif x < 0.70: ops.append(('up', p))
            elif x < 0.78: ops.append(('down', p))
            elif x < 0.90: ops.append(('reset', rng.choice([1, 2, 3])))
            else: ops.append(('pol', rng.choice([0, 1, 2])))
        return ops

    def gen_cases(self, rng, tier):
        cases = []
        n = 900 if tier == 'quick' else 6000
        for k in range(n):
            pols = [[1], [2, 3]] if k % 2 == 0 else [[1, 2], [3]]
            lims = [] if k % 4 else [[1, 1], [2, 2]]
            shape = k % 5
            if shape == 0:      # sequential history, subscribe somewhere inside it
                progs = [[('sub',)], self.gen_prog(rng, [1, 2, 3], rng.randint(2, 9), bool(lims))]
            elif shape in (1, 2):  # subscriber against two sessions
                progs = [[('sub',)], self.gen_prog(rng, [1], rng.randint(1, 5), bool(lims)),
                         self.gen_prog(rng, [2, 3], rng.randint(1, 5), bool(lims))]
            elif shape == 3:    # policy change + soft reset racing the snapshot
                progs = [[('sub',)],
                         [('ins', (1, 0, 0, 0), 1), ('ins', (1, 1, 0, 0), 2)] + self.gen_prog(rng, [1], rng.randint(0, 2), False),
                         [('pol', rng.choice([1, 2])), ('reset', 1)] + self.gen_prog(rng, [2], rng.randint(0, 2), False)]
            else:               # the writers start first
                progs = [self.gen_prog(rng, [1, 2], rng.randint(1, 4), bool(lims)) + [('sub',)],
                         self.gen_prog(rng, [3], rng.randint(1, 5), bool(lims))]
            total = sum(NSTEPS[o[0]] for p in progs for o in p)
            weights = [sum(NSTEPS[o[0]] for o in p) for p in progs]
            sched = []
            left = list(weights)
            # a random interleaving; the subscriber's steps are spread over the run
            while sum(left) > 0 and len(sched) < total:
                t = rng.choices(range(len(progs)), weights=[w + 0.01 for w in left])[0]
                if left[t] > 0:
                    left[t] -= 1
                    sched.append(t)
            if rng.random() < 0.2:
                sched = sched[:rng.randint(0, len(sched))]       # the rest runs thread by thread
            cases.append(dict(pols=pols, lims=lims, progs=progs, sched=sched))
        if tier == 'thorough':
            cases += self.exhaustive_cases()
        return cases

    def exhaustive_cases(self):
        """every interleaving of subscribe (3 steps) with a session thread (4 steps) and a
        soft reset (3 steps), after a sequential prefix that installs routes in both shards
        and changes the import policy: 3 x 10!/(3!4!3!) = 12600 schedules"""
        out = []
        writers = [[('ins', (1, 0, 0, 0), 1), ('ins', (1, 1, 0, 0), 2)],
                   [('ins', (1, 0, 0, 0), 1), ('rem', (1, 0, 1, 0))],
                   [('down', 1)]]
        for w in writers:
            progs = [[('sub',)], [('ins', (1, 0, 1, 0), 3), ('ins', (1, 1, 1, 0), 0)] + w, [('pol', 1), ('reset', 1)]]
            base = [1, 1, 1, 1, 2]
            for perm in self._interleavings([3, 4, 3]):
                out.append(dict(pols=[[1], [2]], lims=[], progs=progs, sched=base + list(perm)))
        return out

    @staticmethod
    def _interleavings(counts):
        def rec(left):
            if sum(left) == 0:
                yield ()
                return
            for t in range(len(left)):
                if left[t]:
                    l2 = list(left); l2[t] -= 1
                    for r in rec(l2):
                        yield (t,) + r
        return rec(list(counts))

    # ---- running
    def run_impl(self, cases, tier):
        return rustrun.daemon_test('C18', 'table_manager::verif_hx::verif_sub_cases', [self.case_to_val(c) for c in cases])

    def run_model(self, cases, tier):
        pre = 'From RB Require Import Base.Val Model.Subscribe.\nOpen Scope N_scope.'
        return coqrun.eval_terms('C18', pre, [self.case_to_coq(c) for c in cases])

    def canon(self, case, obs):
        if obs == [-1]:
            return obs
        evs, rib_pre, rib_post, fpre, fpost, fwd = obs
        return [canon_events(evs), sorted(rib_pre), sorted(rib_post), sorted(fpre), sorted(fpost), fwd]

    # ---- Spec oracle on the implementation's observations (python mirror of Spec/SubscribeSpec.v)
    @staticmethod
    def fold(evs, kind):
        m, last = {}, {}
        for e in evs:
            if e[0] == kind:
                k = tuple(e[1])
                last[k] = e[2][0] if e[2] else None
                if e[2]: m[k] = e[2][0]
                else: m.pop(k, None)
            elif e[0] == 3:
                for k in [k for k in m if k[0] == e[1]]:
                    del m[k]
                for k in [k for k in last if k[0] == e[1]]:
                    last[k] = None
        return m, last

    def oracle(self, c, obs):
        if obs == [-1]:
            return 'panic or deadlock in the real code under this schedule'
        evs, rib_pre, rib_post, fpre, fpost, fwd = obs
        subscribed = any(o[0] == 'sub' for p in c['progs'] for o in p)
        if not subscribed:
            return None if not evs else 'events delivered without a subscription'
        if [4] not in evs:
            return 'EndOfSnapshot never delivered'
        for kind, rib, name in ((0, rib_pre, 'pre-policy'), (1, rib_post, 'post-policy')):
            m, last = self.fold(evs, kind)
            want = {tuple(k): v for k, v in rib}
            if m != want:
                diff = sorted(set(m.items()) ^ set(want.items()))
                return '%s Adj-RIB-In reconstructed by the subscriber differs from the RIB: %s (subscriber %s, RIB %s)' % (
                    name, diff[:3], sorted(m.items())[:6], sorted(want.items())[:6])
            for k, v in last.items():
                if want.get(k) != v:
                    return 'last %s event for %s says %s, the RIB holds %s' % (name, list(k), v, want.get(k))
        up = set()
        for e in fwd:
            if e[0] == 2: up.add(e[1])
            elif e[0] == 3:
                if e[1] not in up:
                    return 'PeerDown for %d forwarded without a forwarded PeerUp' % e[1]
                up.discard(e[1])
        # the harness-side fold (real apply_snapshot) must agree with the python fold
        if sorted(map(lambda x: (tuple(x[0]), x[1]), fpre)) != sorted(self.fold(evs, 0)[0].items()):
            return 'apply_snapshot fold of the pre-policy events differs from the reference fold'
        if sorted(map(lambda x: (tuple(x[0]), x[1]), fpost)) != sorted(self.fold(evs, 1)[0].items()):
            return 'apply_snapshot fold of the post-policy events differs from the reference fold'
        return None

    def in_known_class(self, kf, c, obs, why):
        if kf['id'] == 'C18-1':
            # the class: the history contains an insert for a peer with a prefix limit (the only
            # inserts that can be rejected after having been announced) and the mismatch concerns such a peer
            lim_peers = set(p for p, _ in c['lims'])
            return bool(lim_peers) and any(o[0] == 'ins' and o[1][0] in lim_peers for p in c['progs'] for o in p) and \
                any(('[%d, ' % p) in why or ('(%d, ' % p) in why for p in lim_peers)
        return False

    def shrink(self, c, why):
        """drop operations / schedule entries while the implementation still fails the Spec oracle"""
        cur = dict(c)
        for _ in range(40):
            cands = []
            for t, prog in enumerate(cur['progs']):
                for i, o in enumerate(prog):
                    if o[0] != 'sub':
                        progs = [list(p) for p in cur['progs']]
                        del progs[t][i]
                        cands.append(dict(cur, progs=progs))
            if cur['sched']:
                cands.append(dict(cur, sched=cur['sched'][:-1]))
            if not cands:
                break
            obs, err = self.run_impl(cands, 'quick')
            if obs is None:
                break
            nxt = next((cd for cd, o in zip(cands, obs) if self.oracle(cd, o)), None)
            if nxt is None:
                break
            cur = nxt
        return cur

    def nontrivial_key(self, c, obs):
        if obs == [-1]:
            return None
        evs = obs[0]
        if [4] not in evs:
            return None
        end = evs.index([4])
        live = [e for e in evs[end + 1:] if e[0] in (0, 1)]
        if live or any(e[0] in (0, 1) for e in evs[:end]):
            return (json.dumps(c['progs']), json.dumps(canon_events(evs)))
        return None

    def classify(self, c, obs):
        tags = ['threads_%d' % len(c['progs'])]
        for p in c['progs']:
            for o in p:
                tags.append('op_' + o[0])
        if c['lims']: tags.append('with_prefix_limit')
        if obs != [-1]:
            evs = obs[0]
            if [4] in evs:
                end = evs.index([4])
                if any(e[0] in (0, 1) for e in evs[end + 1:]): tags.append('live_events_after_snapshot')
                if any(e[0] == 3 for e in evs): tags.append('peer_down_delivered')
                if len(evs[:end]) > 0: tags.append('snapshot_nonempty')
        return sorted(set(tags))
