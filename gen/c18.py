"""C18: a monitoring subscriber reconstructs the exact Adj-RIB-In.

A case is (configuration, one program per thread, schedule).  The harness
(harness/daemon/table_manager_hx.rs, verif_sub_cases) runs every program on its
own OS thread against one real TableManager with two shards; a deterministic
scheduler grants one step at a time (a step = the code between two
verif_sched::point calls) in the order of the schedule, then lets the threads
finish in index order.  The model is coq/Model/Subscribe.v (run_sched / finish).
Observation: the final iter_reach (with the stale mark of each path's Source) /
iter_reach_post, and per subscription slot the BgpEvent sequence received on
Subscription.rx, its fold (bmp.rs apply_snapshot) and the PeerUp/PeerDown events
track_peer_up/down forward."""
import json, os, glob, itertools
from vp import val, coqrun, rustrun
from vp.val import cN, cbool, clist, cpair, copt

def key_coq(k):
    return '{| k_peer := %s; k_sh := %s; k_ix := %s; k_pid := %s |}' % tuple(cN(x) for x in k)

OPC = {'up': 3, 'down': 4, 'reset': 5, 'pol': 6, 'grdown': 7, 'dstale': 8, 'dropfam': 9, 'nhv': 10, 'mllgr': 11, 'dllgr': 12, 'unsub': 13}
COQ = {'up': 'Up', 'down': 'Down', 'reset': 'SoftReset', 'pol': 'SetPol', 'grdown': 'GrDown', 'dstale': 'DropStale',
       'dropfam': 'DropFam', 'nhv': 'Nhv', 'mllgr': 'MarkLlgr', 'dllgr': 'DropLlgr'}
NSTEPS = {'sub': 3, 'unsub': 1, 'ins': 2, 'rem': 2, 'up': 1, 'down': 4, 'grdown': 4, 'dstale': 3, 'dropfam': 3,
          'reset': 3, 'pol': 1, 'nhv': 3, 'mllgr': 3, 'dllgr': 3}

def op_slot(o):
    return o[1] if len(o) > 1 else 0

def op_to_val(o):
    t = o[0]
    if t == 'sub': return [0, op_slot(o)]
    if t == 'unsub': return [13, o[1]]
    if t == 'ins': return [1] + list(o[1]) + [o[2]]
    if t == 'rem': return [2] + list(o[1])
    if t == 'nhv': return [10, o[1], 0]
    return [OPC[t], o[1]]

def op_to_coq(o):
    t = o[0]
    if t == 'sub': return '(Subscribe %d%%nat)' % op_slot(o)
    if t == 'unsub': return '(Unsubscribe %d%%nat)' % o[1]
    if t == 'ins': return '(Ins %s %s)' % (key_coq(o[1]), cN(o[2]))
    if t == 'rem': return '(Rem %s)' % key_coq(o[1])
    return '(%s %s)' % (COQ[t], cN(o[1]))

def canon_events(evs):
    """events of one critical section come out in hash-map order.  Two route events
    commute in the subscriber's fold unless they have the same key and the same kind
    (pre- / post-policy), so every maximal block of consecutive route events is put
    in its normal form: sorted by (key, kind), stably.  PeerUp / PeerDown /
    EndOfSnapshot stay where they are."""
    out, i = [], 0
    while i < len(evs):
        if evs[i][0] in (0, 1):
            j = i
            while j < len(evs) and evs[j][0] in (0, 1):
                j += 1
            out += sorted(evs[i:j], key=lambda e: (e[1], e[0]))
            i = j
        else:
            out.append(evs[i]); i += 1
    return out

class Prop:
    pid = 'C18'
    props_file = 'Props/C18.v'
    required_theorems = ['subscriber_fold_eq_rib', 'subscriber_fold_eq_rib_no_stale', 'last_event_is_current', 'peer_down_only_after_up',
                         'subscriber_fold_eq_rib_legacy_refuted', 'subscriber_fold_eq_rib_legacy_limit_refuted',
                         'subscriber_fold_eq_rib_legacy_purge_refuted']
    correspondence_name = ('Model/Subscribe.v run_sched/finish vs daemon/src/table_manager.rs TableManager::{subscribe, unsubscribe, insert_route, '
                           'remove_route, soft_reset_in, unregister_peer, drop_families, drop_stale_families, mark_llgr_stale, drop_llgr_stale_families, update_nexthop_validity, peer_up, '
                           'peer_down} on real threads under a deterministic scheduler (harness/daemon/table_manager_hx.rs verif_sub_cases), '
                           'fold by bmp.rs apply_snapshot / track_peer_*')
    rule = ('a case is (programs of <= 3 threads, schedule); non-trivial when a subscription registers while another thread still has '
            'steps to run and at least one route event is delivered to it; distinct = distinct (programs, canonical event sequences); '
            'every run enumerates ALL interleavings of subscribe with each mutator kind (16, incl. mark_llgr_stale and drop_llgr_stale_families) from each of nine start states (three with an Add-Path peer whose path ids are purged in part), every kept-subset of three path ids x the three selective purges (addpath_subset:*) (classes '
            'race:<mutator>:<state>), two-subscriber and unsubscribe/resubscribe classes, and the track_peer state x input matrix; '
            'the thorough tier adds every interleaving (12600 schedules) of subscribe || one session thread || soft_reset_in')
    exhaustive = {'quick': False, 'thorough': False}
    trusted_base = [
        'C18: atomic steps are the stretches between scheduling points (before every shard-lock acquisition and before every operation); '
        'std::sync::Mutex / ArcSwap / tokio mpsc are assumed sequentially consistent and the sends inside one critical section are treated '
        'as one step (sound for the per-key fold because same-key events are serialised by the shard lock and a peer\'s operations come from its own session thread)',
        'C18: the Adj-RIB-In is abstracted to (peer, prefix, path id) -> (attribute-block identity, filtered, session of the Source); next hop and timestamp are constant; '
        'the import policy is "reject these neighbours"; one address family; two shards',
        'C18: the consumer is apply_snapshot (bmp.rs) applied to every AdjRibIn/AdjRibInPost event in channel order, PeerDown forgets the peer '
        '(RFC 7854 s4.9); a path retained stale after its peer\'s PeerDown may therefore be missing from a subscriber that saw the PeerDown until it is purged or re-announced; '
        'BmpClient::serve reconstructs peer state from GlobalHandle instead of the PeerUp/PeerDown seen during the snapshot phase: that glue, the gRPC watch stream and mrt.rs are not modelled',
    ]
    assumptions = [
        'all route operations of one peer are issued by one thread (its session task); soft_reset_in, purges started by timers, policy changes and reachability reports may come from any thread',
        'session down is unregister_peer followed by peer_down, as in event/mod.rs, either dropping every family or (graceful restart) retaining them stale',
        'a subscription slot is used by one subscribe(true) call; resubscribing takes a new slot, as the daemon allocates a new SubscriptionId',
    ]

    # ---- rendering
    def case_to_val(self, c):
        return [[c['pols'], c['lims']], [[op_to_val(o) for o in p] for p in c['progs']], c['sched']]

    def case_to_coq(self, c):
        cfg = '{| c_pols := %s; c_lims := %s |}' % (clist([clist([cN(x) for x in p]) for p in c['pols']]),
                                                      clist([cpair(cN(a), cN(b)) for a, b in c['lims']]))
        progs = clist([clist([op_to_coq(o) for o in p]) for p in c['progs']])
        return 'run_case %s %s %s %s' % (os.environ.get('VERIF_C18_VARIANT', 'Fixed'), cfg, progs,
                                         clist(['%d%%nat' % t for t in c['sched']]))

    def case_to_json(self, c):
        return json.loads(json.dumps(c))

    def case_from_json(self, j):
        c = dict(j)
        c['progs'] = [[tuple(tuple(x) if isinstance(x, list) else x for x in o) for o in p] for p in j['progs']]
        return c

    def corpus_cases(self):
        out = []
        d = os.path.join(os.path.dirname(os.path.dirname(os.path.abspath(__file__))), 'corpus', 'C18')
        for f in sorted(glob.glob(os.path.join(d, '*.json'))):
            out.append(self.case_from_json(json.load(open(f))['case']))
        return out

    # ---- classes enumerated on every run
    @staticmethod
    def _interleavings(counts):
        def rec(left):
            if sum(left) == 0:
                yield ()
                return
            for t in range(len(left)):
                if left[t]:
                    l2 = list(left); l2[t] -= 1
                    for r in rec(l2):
                        yield (t,) + r
        return rec(list(counts))

    def enum_cases(self):
        out = []
        K = lambda p, sh, ix=0, pid=0: (p, sh, ix, pid)
        # start states (run sequentially by thread 1 before the race)
        states = {
            'routes_both_shards': [('ins', K(1, 0), 1), ('ins', K(1, 1), 2), ('ins', K(2, 0), 3)],
            'filtered_by_policy': [('pol', 1), ('ins', K(1, 0), 1), ('ins', K(1, 1), 2)],
            'stale_retained': [('ins', K(1, 0), 1), ('ins', K(1, 1), 2), ('grdown', 1), ('up', 1), ('ins', K(1, 0), 3)],
            # attribute blocks 4.. carry NO_LLGR (the boundary 3 / 4 on both shards, another peer's NO_LLGR path, a stale one)
            'nollgr_routes': [('ins', K(1, 0), 4), ('ins', K(1, 1), 3), ('ins', K(1, 1, 1), 5), ('ins', K(2, 0), 6)],
            'nollgr_stale': [('ins', K(1, 0), 4), ('ins', K(1, 1), 7), ('grdown', 1)],
            # Sources marked LLGR-stale, paths retained; another peer's and a later session's paths are not marked
            'llgr_marked': [('ins', K(1, 0), 1), ('ins', K(1, 1), 2), ('ins', K(2, 0), 3), ('mllgr', 1), ('ins', K(2, 1), 1)],
            # an Add-Path peer: several path ids on one prefix, of which a purge takes only some
            # (graceful restart, only path id 1 re-advertised by the new session)
            'addpath_gr_partial_refresh': [('ins', K(1, 0, 0, 0), 1), ('ins', K(1, 0, 0, 1), 2), ('ins', K(1, 0, 0, 2), 3), ('ins', K(1, 1, 0, 0), 1),
                                           ('grdown', 1), ('up', 1), ('ins', K(1, 0, 0, 1), 2)],
            # (NO_LLGR on some of the path ids of a prefix, on all of another prefix)
            'addpath_nollgr_some': [('ins', K(1, 0, 0, 0), 4), ('ins', K(1, 0, 0, 1), 1), ('ins', K(1, 0, 0, 2), 5), ('ins', K(1, 1, 0, 0), 2), ('ins', K(1, 1, 0, 1), 6)],
            # (LLGR: old session's Sources marked, one path id per prefix refreshed by the new session)
            'addpath_llgr_partial_refresh': [('ins', K(1, 0, 0, 0), 1), ('ins', K(1, 0, 0, 1), 2), ('ins', K(1, 1, 0, 0), 3), ('ins', K(1, 1, 0, 1), 1),
                                             ('grdown', 1), ('mllgr', 1), ('up', 1), ('ins', K(1, 0, 0, 1), 2), ('ins', K(1, 1, 0, 0), 3)],
        }
        mutators = {
            'ins_new': [('ins', K(1, 1, 1), 0)], 'ins_replace': [('ins', K(1, 0), 0)], 'rem': [('rem', K(1, 0))],
            'rem_absent': [('rem', K(1, 0, 3))], 'down': [('down', 1)], 'grdown': [('grdown', 1)],
            'dstale': [('dstale', 1)], 'dropfam': [('dropfam', 1)], 'reset_after_policy_change': [('pol', 2), ('reset', 1)],
            'reset': [('reset', 1)], 'pol': [('pol', 2)], 'up': [('up', 1)], 'nhv': [('nhv', 1)], 'addpath': [('ins', K(1, 0, 0, 1), 2)],
            'mllgr': [('mllgr', 1)], 'dllgr': [('dllgr', 1)],
        }
        for sname, pre in states.items():
            npre = sum(NSTEPS[o[0]] for o in pre)
            for mname, mut in mutators.items():
                nm = sum(NSTEPS[o[0]] for o in mut)
                progs = [[('sub', 0)], pre + mut]
                for perm in self._interleavings([3, nm]):
                    out.append(dict(pols=[[1], [2]], lims=[], progs=progs, sched=[1] * npre + list(perm),
                                    cls='race:%s:%s' % (mname, sname)))
        # every subset of the three path ids an Add-Path peer holds on one prefix is the part a purge leaves
        # alone (refreshed by the new session / without NO_LLGR), for each purge that selects by path
        for mask in range(8):
            keep = [pid for pid in (0, 1, 2) if mask >> pid & 1]
            three = [('ins', K(1, 0, 0, pid), pid + 1) for pid in (0, 1, 2)]
            refresh = [('ins', K(1, 0, 0, pid), (pid + 2) % 4) for pid in keep]
            kinds = {
                'dstale': (three + [('grdown', 1), ('up', 1)] + refresh, [('dstale', 1)]),
                'dllgr': (three + [('grdown', 1), ('mllgr', 1), ('up', 1)] + refresh, [('dllgr', 1)]),
                'mllgr': ([('ins', K(1, 0, 0, pid), pid + 1 if pid in keep else 4 + pid) for pid in (0, 1, 2)], [('mllgr', 1)]),
            }
            for kname, (pre, mut) in kinds.items():
                npre = sum(NSTEPS[o[0]] for o in pre)
                for perm in self._interleavings([3, 3]):
                    out.append(dict(pols=[], lims=[], progs=[[('sub', 0)], pre + mut], sched=[1] * npre + list(perm),
                                    cls='addpath_subset:%s:kept_%s' % (kname, ''.join(map(str, keep)) or 'none')))
        # two subscriptions: the second registers while the first is live / snapshotting, a writer in between
        for perm in self._interleavings([3, 3, 2]):
            out.append(dict(pols=[[1]], lims=[], progs=[[('sub', 0)], [('sub', 1)], [('ins', K(1, 0), 1), ('ins', K(1, 1), 2)]],
                            sched=[2, 2] + list(perm), cls='two_subscribers:race_insert'))
        for perm in self._interleavings([3, 3, 3]):
            if perm[0] != 0:
                continue
            out.append(dict(pols=[[1]], lims=[], progs=[[('sub', 0)], [('sub', 1)], [('ins', K(1, 0), 1), ('ins', K(1, 1), 2), ('pol', 1), ('reset', 1)]],
                            sched=[2, 2, 2, 2, 2] + list(perm), cls='two_subscribers:race_soft_reset'))
        # unsubscribe, then subscribe again (a new subscription) while a session is writing
        for perm in self._interleavings([4, 4]):
            out.append(dict(pols=[], lims=[], progs=[[('sub', 0), ('unsub', 0)], [('ins', K(1, 0), 1), ('ins', K(1, 1), 2)]],
                            sched=list(perm), cls='unsubscribe:race_insert'))
        for perm in self._interleavings([7, 4]):
            if perm[:4] != (0, 0, 0, 0):
                continue
            out.append(dict(pols=[], lims=[], progs=[[('sub', 0), ('unsub', 0), ('sub', 1)], [('ins', K(1, 0), 1), ('rem', K(1, 0)), ('ins', K(1, 1), 2)]],
                            sched=[1, 1] + list(perm), cls='resubscribe:race_session'))
        # track_peer_up / track_peer_down: every state x input of the pairing, as delivered
        for seq in itertools.product(['up', 'down'], repeat=3):
            out.append(dict(pols=[], lims=[], progs=[[('sub', 0)], [(x, 1) for x in seq] + [('up', 2), ('down', 2)]],
                            sched=[0, 0, 0], cls='peer_updown:%s' % '_'.join(seq)))
        # prefix limit: refused insert racing the snapshot (limit 0 / 1 / 2 boundaries)
        for lim in (0, 1, 2):
            for perm in self._interleavings([3, 4]):
                out.append(dict(pols=[], lims=[[1, lim]], progs=[[('sub', 0)], [('ins', K(1, 0), 1), ('ins', K(1, 1), 2), ('ins', K(1, 0, 1), 3)]],
                                sched=[1, 1] + list(perm), cls='prefix_limit_%d:race' % lim))
        # a session back after a graceful restart (fresh prefix counter) withdraws a path retained from the
        # previous session: Table::remove decrements the counter below zero (wraps), the next new prefix is refused
        for lim in (1, 2):
            pre = [('ins', K(1, 0), 1), ('grdown', 1)]
            for perm in self._interleavings([3, 4]):
                out.append(dict(pols=[], lims=[[1, lim]], progs=[[('sub', 0)], pre + [('rem', K(1, 0)), ('ins', K(1, 1), 2)]],
                                sched=[1] * 6 + list(perm), cls='prefix_limit_%d:withdraw_retained_after_gr' % lim))
        return out

    # ---- generation
    def gen_prog(self, rng, peers, n, with_limit):
        ops = []
        for _ in range(n):
            x = rng.random()
            p = rng.choice(peers)
            k = (p, rng.choice([0, 1]), rng.choice([0, 0, 1]), rng.choice([0, 0, 0, 1]))
            if x < 0.40: ops.append(('ins', k, rng.choice([0, 1, 2, 3, 3, 4, 5])))
            elif x < 0.55: ops.append(('rem', k))
            elif x < 0.62: ops.append(('up', p))
            elif x < 0.68: ops.append(('down', p))
            elif x < 0.75: ops.append(('grdown', p))
            elif x < 0.80: ops.append(('dstale', p))
            elif x < 0.83: ops.append(('dropfam', p))
            elif x < 0.86: ops.append(('mllgr', p))
            elif x < 0.88: ops.append(('dllgr', p))
            elif x < 0.92: ops.append(('reset', rng.choice([1, 2, 3])))
            elif x < 0.95: ops.append(('nhv', rng.choice([1, 2])))
            else: ops.append(('pol', rng.choice([0, 1, 2])))
        return ops

    def gen_cases(self, rng, tier):
        cases = self.enum_cases()
        n = 900 if tier == 'quick' else 6000
        for k in range(n):
            pols = [[1], [2, 3]] if k % 2 == 0 else [[1, 2], [3]]
            lims = [] if k % 4 else [[1, 1], [2, 2]]
            shape = k % 6
            sub0 = [('sub', 0)] + ([('unsub', 0), ('sub', 1)] if k % 11 == 5 else [])
            if shape == 0:      # sequential history, subscribe somewhere inside it
                progs = [sub0, self.gen_prog(rng, [1, 2, 3], rng.randint(2, 9), bool(lims))]
            elif shape in (1, 2):  # subscriber against two sessions
                progs = [sub0, self.gen_prog(rng, [1], rng.randint(1, 5), bool(lims)),
                         self.gen_prog(rng, [2, 3], rng.randint(1, 5), bool(lims))]
            elif shape == 3:    # policy change + soft reset racing the snapshot
                progs = [sub0,
                         [('ins', (1, 0, 0, 0), 1), ('ins', (1, 1, 0, 0), 2)] + self.gen_prog(rng, [1], rng.randint(0, 2), False),
                         [('pol', rng.choice([1, 2])), ('reset', 1)] + self.gen_prog(rng, [2], rng.randint(0, 2), False)]
            elif shape == 4:    # the writers start first
                progs = [self.gen_prog(rng, [1, 2], rng.randint(1, 4), bool(lims)) + [('sub', 0)],
                         self.gen_prog(rng, [3], rng.randint(1, 5), bool(lims))]
            else:               # two subscriptions
                progs = [[('sub', 0)], [('sub', 1)] + ([('unsub', 1)] if rng.random() < 0.3 else []),
                         self.gen_prog(rng, [1, 2], rng.randint(1, 6), bool(lims))]
            weights = [sum(NSTEPS[o[0]] for o in p) for p in progs]
            total = sum(weights)
            sched = []
            left = list(weights)
            while sum(left) > 0 and len(sched) < total:
                t = rng.choices(range(len(progs)), weights=[w + 0.01 for w in left])[0]
                if left[t] > 0:
                    left[t] -= 1
                    sched.append(t)
            if rng.random() < 0.2:
                sched = sched[:rng.randint(0, len(sched))]       # the rest runs thread by thread
            cases.append(dict(pols=pols, lims=lims, progs=progs, sched=sched))
        if tier == 'thorough':
            cases += self.exhaustive_cases()
        return cases

    def exhaustive_cases(self):
        """every interleaving of subscribe (3 steps) with a session thread (4 steps) and a
        soft reset (3 steps), after a sequential prefix that installs routes in both shards
        and changes the import policy: 3 x 10!/(3!4!3!) = 12600 schedules"""
        out = []
        writers = [[('ins', (1, 0, 0, 0), 1), ('ins', (1, 1, 0, 0), 2)],
                   [('ins', (1, 0, 0, 0), 1), ('rem', (1, 0, 1, 0))],
                   [('down', 1)]]
        for w in writers:
            progs = [[('sub', 0)], [('ins', (1, 0, 1, 0), 3), ('ins', (1, 1, 1, 0), 0)] + w, [('pol', 1), ('reset', 1)]]
            base = [1, 1, 1, 1, 2]
            for perm in self._interleavings([3, 4, 3]):
                out.append(dict(pols=[[1], [2]], lims=[], progs=progs, sched=base + list(perm), cls='thorough:sub_session_reset'))
        return out

    # ---- running
    def run_impl(self, cases, tier):
        return rustrun.daemon_test('C18', 'table_manager::verif_hx::verif_sub_cases', [self.case_to_val(c) for c in cases])

    def run_model(self, cases, tier):
        pre = 'From RB Require Import Base.Val Model.Subscribe.\nOpen Scope N_scope.'
        return coqrun.eval_terms('C18', pre, [self.case_to_coq(c) for c in cases])

    def canon(self, case, obs):
        if obs == [-1]:
            return obs
        rib_pre, rib_post, subs = obs
        return [sorted(rib_pre), sorted(rib_post),
                [[canon_events(s[0]), sorted(s[1]), sorted(s[2]), s[3]] if s else [] for s in subs]]

    # ---- Spec oracle on the implementation's observations (python mirror of Spec/SubscribeSpec.v)
    @staticmethod
    def fold(evs, kind):
        m, last = {}, {}
        for e in evs:
            if e[0] == kind:
                k = tuple(e[1])
                last[k] = e[2][0] if e[2] else None
                if e[2]: m[k] = e[2][0]
                else: m.pop(k, None)
            elif e[0] == 3:
                for k in [k for k in m if k[0] == e[1]]:
                    del m[k]
                for k in [k for k in last if k[0] == e[1]]:
                    last[k] = None
        return m, last

    def oracle(self, c, obs):
        if obs == [-1]:
            return 'panic or deadlock in the real code under this schedule'
        rib_pre, rib_post, subs = obs
        subscribed = set(op_slot(o) for p in c['progs'] for o in p if o[0] == 'sub')
        gone = set(o[1] for p in c['progs'] for o in p if o[0] == 'unsub')
        stale = set(tuple(k) for k, v, st in rib_pre if st)
        for j, s in enumerate(subs):
            if j not in subscribed:
                if s and s[0]:
                    return 'events delivered to subscription %d, which nobody asked for' % j
                continue
            if not s:
                return 'subscription %d was never created' % j
            evs, fpre, fpost, fwd = s
            if [4] not in evs:
                return 'subscription %d: EndOfSnapshot never delivered' % j
            # the harness-side fold (real apply_snapshot) must agree with the reference fold
            if sorted(map(lambda x: (tuple(x[0]), x[1]), fpre)) != sorted(self.fold(evs, 0)[0].items()):
                return 'subscription %d: apply_snapshot fold of the pre-policy events differs from the reference fold' % j
            if sorted(map(lambda x: (tuple(x[0]), x[1]), fpost)) != sorted(self.fold(evs, 1)[0].items()):
                return 'subscription %d: apply_snapshot fold of the post-policy events differs from the reference fold' % j
            up = set()
            for e in fwd:
                if e[0] == 2: up.add(e[1])
                elif e[0] == 3:
                    if e[1] not in up:
                        return 'subscription %d: PeerDown for %d forwarded without a forwarded PeerUp' % (j, e[1])
                    up.discard(e[1])
            if j in gone:
                continue            # an unsubscribed consumer makes no claim about later changes
            for kind, rib, name in ((0, [(k, v) for k, v, st in rib_pre], 'pre-policy'), (1, rib_post, 'post-policy')):
                m, last = self.fold(evs, kind)
                want = {tuple(k): v for k, v in rib}
                for k in set(m) | set(want):
                    if m.get(k) == want.get(k):
                        continue
                    if k in stale and k not in m:
                        continue    # retained stale after the peer's PeerDown: forgotten by this consumer, not yet purged
                    return 'subscription %d: %s Adj-RIB-In reconstructed by the subscriber differs from the RIB at %s: subscriber %s, RIB %s (subscriber %s, RIB %s)' % (
                        j, name, list(k), m.get(k), want.get(k), sorted(m.items())[:6], sorted(want.items())[:6])
                for k, v in last.items():
                    if want.get(k) != v and not (k in stale and v is None):
                        return 'subscription %d: last %s event for %s says %s, the RIB holds %s' % (j, name, list(k), v, want.get(k))
        return None

    def in_known_class(self, kf, c, obs, why):
        return False

    def nontrivial_key(self, c, obs):
        if obs == [-1]:
            return None
        subs = obs[2]
        sig = []
        for s in subs:
            if s and [4] in s[0] and any(e[0] in (0, 1) for e in s[0]):
                sig.append(json.dumps(canon_events(s[0])))
        if sig:
            return (json.dumps(c['progs']), tuple(sig))
        return None

    def classify(self, c, obs):
        tags = ['threads_%d' % len(c['progs'])]
        for p in c['progs']:
            for o in p:
                tags.append('op_' + o[0])
        if c['lims']: tags.append('with_prefix_limit')
        if c.get('cls'):
            tags.append('enum_' + c['cls'])
            tags.append('enumclass_' + c['cls'].split(':')[0])
        if obs != [-1]:
            for s in obs[2]:
                if s and [4] in s[0]:
                    evs = s[0]
                    end = evs.index([4])
                    if any(e[0] in (0, 1) for e in evs[end + 1:]): tags.append('live_events_after_snapshot')
                    if any(e[0] == 3 for e in evs): tags.append('peer_down_delivered')
                    if len(evs[:end]) > 0: tags.append('snapshot_nonempty')
            if any(st for _, _, st in obs[0]): tags.append('stale_paths_retained_at_end')
            if sum(1 for s in obs[2] if s) >= 2: tags.append('two_subscriptions')
        return sorted(set(tags))
