"""C13: generators, renderers and Spec oracle for the RTR client (installed VRPs = fold of
the cache's responses; isolation between caches; cleanup at session end; progress)."""
import json, os
from vp import val, coqrun, rustrun
from vp.val import cN, cbool, clist, cpair
from vp.util import VERIF
from gen import c13conn

MODEL_ENTRY = 'run_case'

def be(n, k): return list(n.to_bytes(k, 'big'))

# ------------------------------------------------------------------ RFC 6810 / 8210 PDUs (cache side)
def pdu_cache_response(sid, v=1): return [v, 3] + be(sid, 2) + be(8, 4)
def pdu_eod(sid, serial, v=1):
    if v >= 1: return [v, 7] + be(sid, 2) + be(24, 4) + be(serial, 4) + be(3600, 4) + be(600, 4) + be(7200, 4)
    return [v, 7] + be(sid, 2) + be(12, 4) + be(serial, 4)
def pdu_prefix(flags, net, mx, asn, v=1):
    fam, addr, mask = net
    if fam == 4: return [v, 4, 0, 0] + be(20, 4) + [flags, mask, mx, 0] + list(addr) + be(asn, 4)
    return [v, 6, 0, 0] + be(32, 4) + [flags, mask, mx, 0] + list(addr) + be(asn, 4)
def pdu_notify(sid, serial, v=1): return [v, 0] + be(sid, 2) + be(12, 4) + be(serial, 4)
def pdu_cache_reset(v=1): return [v, 8, 0, 0] + be(8, 4)
def pdu_error(code, inner, text, v=1):
    body = be(len(inner), 4) + list(inner) + be(len(text), 4) + list(text)
    return [v, 10] + be(code, 2) + be(8 + len(body), 4) + body
def pdu_router_key(flags, ski, asn, spki, v=1):
    return [v, 9, flags, 0] + be(8 + 20 + 4 + len(spki), 4) + list(ski) + be(asn, 4) + list(spki)

RESET_QUERY = [1, 2, 0, 0, 0, 0, 0, 8]
def serial_query(sid, serial): return [1, 1] + be(sid, 2) + be(12, 4) + be(serial, 4)

KNOWN_TYPES = {0, 1, 2, 3, 4, 6, 7, 8, 10}

def fixed_size(ty, ver):
    """smallest legal size of a PDU of a type the client uses (RFC 6810 / 8210 section 5)"""
    return {0: 12, 1: 12, 2: 8, 3: 8, 4: 20, 6: 32, 7: 24 if ver >= 1 else 12, 8: 8, 10: 8}.get(ty)

KNOWN_TYPES = {0, 1, 2, 3, 4, 6, 7, 8, 10}

def parse_stream(bs):
    """RFC 8210 framing: (list of complete PDUs as dicts, number of bytes they occupy).
    A PDU is complete when its whole length is present; types the client does not use are kept as 'other'.
    A header announcing fewer than 8 bytes, or a PDU of a used type shorter than that type's fixed
    size, is a protocol error: parsing stops there and the last element is {'type': 'error'}."""
    out, i = [], 0
    while i + 8 <= len(bs):
        v, ty = bs[i], bs[i + 1]
        sid = int.from_bytes(bytes(bs[i + 2:i + 4]), 'big')
        ln = int.from_bytes(bytes(bs[i + 4:i + 8]), 'big')
        if ln < 8:
            out.append({'type': 'error'}); break
        if i + ln > len(bs): break
        if ty in KNOWN_TYPES and ln < fixed_size(ty, v):
            out.append({'type': 'error'}); i += ln; break
        body = bs[i + 8:i + ln]
        p = {'type': ty, 'ver': v, 'sid': sid, 'len': ln}
        if ty in (0, 1): p['serial'] = int.from_bytes(bytes(body[:4]), 'big')
        elif ty == 4:
            p.update(flags=body[0], net=(4, tuple(body[4:8]), body[1]), mx=body[2], asn=int.from_bytes(bytes(body[8:12]), 'big'))
        elif ty == 6:
            p.update(flags=body[0], net=(6, tuple(body[4:20]), body[1]), mx=body[2], asn=int.from_bytes(bytes(body[20:24]), 'big'))
        elif ty == 7: p['serial'] = int.from_bytes(bytes(body[:4]), 'big')
        out.append(p)
        i += ln
    return out, i

# ------------------------------------------------------------------ rendering
def net_to_val(n): return [n[0], list(n[1]), n[2]]
def net_to_coq(n): return '(Build_net %s %s %s)' % ('F4' if n[0] == 4 else 'F6', val.cbytes(n[1]), cN(n[2]))

def ev_to_val(e):
    k = e[0]
    if k == 'feed': return [e[1], 0, list(e[2])]
    if k == 'soft': return [e[1], 1]
    if k == 'close': return [e[1], 2]
    if k == 'cancel': return [e[1], 3]
    raise ValueError(e)

def ev_to_coq(e):
    k = e[0]
    if k == 'feed': return '(EFeed %s %s)' % (cN(e[1]), val.cbytes(e[2]))
    if k == 'soft': return '(ESoftReset %s)' % cN(e[1])
    if k == 'close': return '(EClose %s)' % cN(e[1])
    if k == 'cancel': return '(ECancel %s)' % cN(e[1])
    raise ValueError(e)

def tup(x): return tuple(tup(y) for y in x) if isinstance(x, list) else x

V4POOL = [(4, (10, 0, 0, 0), 8), (4, (10, 1, 0, 0), 16), (4, (10, 1, 128, 0), 17), (4, (192, 0, 2, 0), 24),
          (4, (0, 0, 0, 0), 0), (4, (203, 0, 113, 77), 32)]
V6POOL = [(6, tuple([0x20, 1, 0xd, 0xb8] + [0] * 12), 32), (6, tuple([0x20, 1, 0xd, 0xb8, 0x80] + [0] * 11), 33),
          (6, tuple([0] * 16), 0)]
ASNS = [0, 65001, 65002, 4200000000]

class Prop:
    pid = 'C13'
    ops_field = 'evs'
    props_file = 'Props/C13.v'
    required_theorems = []
    correspondence_name = ('Model/RtrClient.v run_case (RtrCodec::decode + Framed loop + serve_inner + TableManager::rpki_*) vs '
                           'daemon/src/rpki.rs RpkiClient::serve_inner driven over tokio::io::duplex (harness/daemon/rpki_hx.rs); '
                           'Model/RtrConn.v run_conn_case (try_connect task + add/delete/enable/disable/reset_rpki around the session model) vs '
                           'the real GrpcService API functions and the real try_connect task talking to a loopback TCP cache (harness/daemon/grpc_hx.rs verif_rpki_conn_cases)')
    rule = ('a case is one or two RTR sessions sharing a table: per session a byte stream cut into TCP segments, soft resets, close, cancel; '
            'non-trivial when some session receives at least two End-of-Data PDUs with payload PDUs in the incremental round, or payload PDUs of a type the client does not use, '
            'or ends while holding VRPs; distinct = distinct (PDU type sequence per session, segment boundaries classes, event kinds); '
            'a connection-layer case (kind conn) is a history of API calls (add, delete, enable, disable, hard / soft reset), TCP segments and closes of the cache; '
            'non-trivial when a session that holds VRPs after an End of Data is ended through the API')
    exhaustive = {'quick': False, 'thorough': False}
    trusted_base = ['tokio::select! is modelled as: run until the stream is Pending, then serve a stored soft-reset permit (the harness polls the future by hand, '
                    'so Pending is exactly "nothing more to consume"); cancellation and close are delivered when no data is pending',
                    'Framed is modelled as append-then-decode-until-None; decode_eof at close is modelled as leaving the loop',
                    'uptime/downtime wall-clock fields and the per-type counters other than end_of_data are not observed',
                    'connection layer (Model/RtrConn.v): one operation of the model is the API call or cache event TOGETHER with what the woken tasks do until they wait again '
                    '(the old task\'s cleanup, the new task\'s connect and Reset Query); the harness waits for exactly those events (EOF of the old connection, accept of the new one, '
                    'the RpkiState PDU counters reaching the number of PDUs sent) before it observes; the cleanup of an old session and the start of the next touch different source identities',
                    'which select! branch sees a cancellation first cannot be chosen by the harness: the enumerated connection classes end sessions 1 and 4 times per case and the corpus case 6 times, '
                    'so the pre-repair race (lost with probability about 1/2 per cancellation) is exhibited by many cases of every run',
                    'the 10 s retry sleep of try_connect is a model operation (OTimer) covered by the theorems but not driven in the correspondence (real time); connect failures / the 5 s connect timeout are not modelled']
    assumptions = ['the cache is conforming (RFC 6810/8210): payload PDUs only between Cache Response and End of Data, only announcements before the first End of Data, '
                   'every PDU length field >= 8 and equal to the PDU size; other streams are compared with the model but not judged by the fold oracle',
                   'a soft reset requested before the first End-of-Data is served when the client next goes idle (the order relative to PDUs already buffered is a tokio::select! choice)']

    # ---- rendering
    def case_to_val(self, c):
        if c.get('kind') == 'conn': return c13conn.case_to_val(c)
        return [c['n'], [[net_to_val(n), mx, a] for n, mx, a in c['pre']], [ev_to_val(e) for e in c['evs']]]
    def case_to_coq(self, c):
        if c.get('kind') == 'conn': return c13conn.case_to_coq(c)
        pre = clist(['(%s, %s, %s)' % (net_to_coq(n), cN(mx), cN(a)) for n, mx, a in c['pre']])
        return '%s %s %s %s' % (MODEL_ENTRY, cN(c['n']), pre, clist([ev_to_coq(e) for e in c['evs']]))
    def case_to_json(self, c): return json.loads(json.dumps(c))
    def case_from_json(self, j):
        if j.get('kind') == 'conn': return c13conn.case_from_json(j)
        c = dict(j)
        c['pre'] = [(tup(n), mx, a) for n, mx, a in j['pre']]
        c['evs'] = [tuple(e) for e in j['evs']]
        return c
    def corpus_cases(self):
        d = os.path.join(VERIF, 'corpus', 'C13')
        out = []
        if os.path.isdir(d):
            for fn in sorted(os.listdir(d)):
                if fn.endswith('.json'):
                    out.append(self.case_from_json(json.load(open(os.path.join(d, fn)))['case']))
        return out

    # ---- generation
    def fragment(self, rng, bs, mode=None):
        """cut a byte string into TCP segments"""
        if not bs: return []
        mode = mode or rng.choice(['whole', 'whole', 'pdu', 'rand', 'rand', 'tiny', 'header'])
        if mode == 'whole': return [bs]
        cuts = set()
        if mode == 'tiny':
            a = rng.randrange(len(bs)); b = min(len(bs), a + rng.randint(1, 12))
            cuts = set(range(a, b + 1))
        elif mode == 'header':
            # cut inside the 8-byte headers
            pdus, _ = parse_stream(bs)
            off = 0
            for p in pdus:
                if rng.random() < 0.6: cuts.add(off + rng.randint(1, 7))
                if rng.random() < 0.3: cuts.add(off + 8)
                off += p['len']
        elif mode == 'pdu':
            pdus, _ = parse_stream(bs)
            off = 0
            for p in pdus:
                off += p['len']
                if rng.random() < 0.7: cuts.add(off)
        else:
            for _ in range(rng.randint(1, 6)): cuts.add(rng.randrange(1, len(bs) + 1))
        cuts = sorted(x for x in cuts if 0 < x < len(bs))
        out, prev = [], 0
        for x in cuts + [len(bs)]:
            out.append(bs[prev:x]); prev = x
        return [x for x in out if x]

    def session_stream(self, rng, tier, conforming=True):
        """(list of batches, tags); a batch is the bytes a cache writes in one go"""
        v = rng.choice([1, 1, 1, 0, 2])
        sid = rng.choice([0, 1, 7, 65535, rng.randrange(65536)])
        serial = rng.choice([0, 1, 100, 2 ** 32 - 2])
        pool = list(V4POOL) + (list(V6POOL) if rng.random() < 0.6 else [])
        recs = lambda: (rng.choice(pool), None)
        def rec():
            n = rng.choice(pool)
            mx = rng.choice([n[2], min(32 if n[0] == 4 else 128, n[2] + 8), 32 if n[0] == 4 else 128])
            return (n, mx, rng.choice(ASNS))
        def noise(prob=0.25):
            out = []
            if v >= 1 and rng.random() < prob:
                out += pdu_router_key(rng.choice([0, 1]), [rng.randrange(256) for _ in range(20)], rng.choice(ASNS),
                                      [rng.randrange(256) for _ in range(rng.choice([0, 1, 91]))], v)
            return out
        tags = set()
        batches = []
        cur = set()
        # initial response
        b = []
        if rng.random() < 0.1:
            b += pdu_error(2, [], list(b'no data'), v); tags.add('error_report')
        b += pdu_cache_response(sid, v)
        for _ in range(rng.randint(0, 5)):
            r = rec()
            if conforming and r in cur: continue
            cur.add(r); b += pdu_prefix(1, r[0], r[1], r[2], v)
            nz = noise()
            if nz: tags.add('router_key'); b += nz
        if not conforming and rng.random() < 0.5 and cur:
            r = rng.choice(sorted(cur)); b += pdu_prefix(0, r[0], r[1], r[2], v); tags.add('withdraw_in_snapshot')
        b += pdu_eod(sid, serial, v)
        batches.append(b)
        # incremental rounds
        for _ in range(rng.randint(0, 3 if tier == 'quick' else 6)):
            x = rng.random()
            if x < 0.12:
                batches.append(pdu_cache_reset(v)); tags.add('cache_reset'); continue
            if x < 0.2:
                batches.append(pdu_error(rng.choice([0, 2, 4]), pdu_notify(sid, serial, v), [], v)); tags.add('error_report'); continue
            newserial = (serial + rng.choice([1, 1, 2, 5])) % (2 ** 32)
            b = []
            if rng.random() < 0.7:
                batches.append(pdu_notify(sid, newserial, v)); tags.add('serial_notify')
            if rng.random() < 0.1:
                batches.append(pdu_notify(sid, serial, v))      # same serial: no query
            b += pdu_cache_response(sid, v)
            for _ in range(rng.randint(0, 4)):
                if cur and rng.random() < 0.45:
                    r = rng.choice(sorted(cur)); cur.discard(r); b += pdu_prefix(0, r[0], r[1], r[2], v); tags.add('withdraw')
                else:
                    r = rec()
                    if conforming and r in cur: continue
                    cur.add(r); b += pdu_prefix(1, r[0], r[1], r[2], v); tags.add('announce_incremental')
                nz = noise(0.15)
                if nz: tags.add('router_key'); b += nz
            if not conforming and rng.random() < 0.5:
                r = rec(); b += pdu_prefix(0, r[0], r[1], r[2], v); tags.add('withdraw_unknown')
            serial = newserial
            b += pdu_eod(sid, serial, v)
            batches.append(b)
        if not conforming: tags.add('nonconforming')
        return batches, tags

    def gen_case(self, rng, tier, conforming=True):
        n = 2 if rng.random() < 0.3 else 1
        pre = []
        for _ in range(rng.randint(0, 2)):
            nn = rng.choice(V4POOL + V6POOL)
            pre.append((nn, nn[2], rng.choice(ASNS)))
        per = []
        for c in range(n):
            batches, tags = self.session_stream(rng, tier, conforming)
            evs = []
            merged = rng.random() < 0.3
            if merged:
                allb = [x for b in batches for x in b]
                for seg in self.fragment(rng, allb): evs.append(('feed', c, seg))
            else:
                for bi, b in enumerate(batches):
                    for seg in self.fragment(rng, b): evs.append(('feed', c, seg))
                    if bi >= 0 and rng.random() < 0.15: evs.append(('soft', c))
            # session end
            x = rng.random()
            if x < 0.35: evs.append(('close', c))
            elif x < 0.55: evs.append(('cancel', c))
            elif x < 0.65 and evs:
                k = rng.randrange(len(evs)); evs.insert(k, (rng.choice(['close', 'cancel']), c))
            per.append(evs)
        # interleave the sessions, keeping each session's order
        evs = []
        idx = [0] * n
        while any(idx[c] < len(per[c]) for c in range(n)):
            c = rng.choice([c for c in range(n) if idx[c] < len(per[c])])
            evs.append(per[c][idx[c]]); idx[c] += 1
        return {'kind': 'conforming' if conforming else 'nonconforming', 'n': n, 'pre': pre, 'evs': evs}

    # ---- classes enumerated on EVERY run (no randomness)
    def enumerated_cases(self, tier):
        cases = []
        n4 = lambda a, b, c, d, m: (4, (a, b, c, d), m)
        n6 = lambda l, m: (6, tuple(l + [0] * (16 - len(l))), m)
        A, B, C6 = (n4(10, 0, 0, 0, 8), 24, 65001), (n4(10, 1, 0, 0, 16), 16, 65002), (n6([0x20, 1, 0xd, 0xb8], 32), 48, 65003)
        ann = lambda r, v=1: pdu_prefix(1, r[0], r[1], r[2], v)
        wd = lambda r, v=1: pdu_prefix(0, r[0], r[1], r[2], v)
        def add(cls, evs, n=1, pre=(), kind='conforming'):
            cases.append({'kind': kind, 'cls': cls, 'n': n, 'pre': list(pre), 'evs': evs})
        # (a) TCP fragmentation at EVERY offset of a small stream: one cut, every byte alone, (thorough) every pair of cuts
        S = pdu_cache_response(7) + ann(A) + pdu_router_key(1, list(range(20)), 65001, [1, 2, 3]) + pdu_eod(7, 100) + pdu_notify(7, 101)
        for cut in range(1, len(S)):
            add('fragment_one_cut', [('feed', 0, S[:cut]), ('feed', 0, S[cut:]), ('close', 0)])
        add('fragment_every_byte', [('feed', 0, [b]) for b in S] + [('cancel', 0)])
        if tier != 'quick':
            S2 = pdu_cache_response(7, 0) + ann(A, 0) + pdu_eod(7, 100, 0)
            for c1 in range(1, len(S2)):
                for c2 in range(c1 + 1, len(S2)):
                    add('fragment_two_cuts', [('feed', 0, S2[:c1]), ('feed', 0, S2[c1:c2]), ('feed', 0, S2[c2:])])
        # (b) the length field of every PDU type (used, unused, unassigned) on both sides of 8 and of the
        #     type's fixed size, in every protocol version; a Serial Notify behind it shows whether the stream goes on
        good = pdu_cache_response(7) + ann(A) + pdu_eod(7, 100)
        for ver in (0, 1, 2):
            for ty in (0, 1, 2, 3, 4, 5, 6, 7, 8, 9, 10, 11, 255):
                nat = fixed_size(ty, ver) or 8
                for ln in sorted({0, 1, 7, 8, 9, nat - 1, nat, nat + 1, nat + 8}):
                    if ln < 0: continue
                    body = [1, 16, 24, 0, 10, 1, 0, 0, 0, 0, 253, 233] + [0] * 40     # a plausible prefix body, then zeros
                    pdu = [ver, ty, 0, 7] + be(ln, 4) + body[:max(0, ln - 8)]
                    bad = ln < 8 or (ty in KNOWN_TYPES and ln < nat)
                    add('length_field_type%d_%s' % (ty, 'lt8' if ln < 8 else 'short' if bad else 'exact' if ln == nat else 'long'),
                        [('feed', 0, good), ('feed', 0, pdu + pdu_notify(7, 101, ver)), ('feed', 0, pdu_notify(7, 102, ver)), ('close', 0)],
                        kind='conforming' if not bad and ty not in (1, 2) else 'nonconforming')
        # (c) every PDU type at every position of a two-round stream (before Cache Response, in the snapshot,
        #     between the rounds, in the incremental round, after it)
        rounds = [pdu_cache_response(7), ann(A), ann(C6), pdu_eod(7, 100), pdu_cache_response(7), ann(B), wd(A), pdu_eod(7, 101)]
        extras = {'notify_same': pdu_notify(7, 100), 'notify_new': pdu_notify(7, 105), 'notify_other_sid': pdu_notify(9, 106),
                  'serial_query_from_cache': serial_query(7, 100), 'reset_query_from_cache': RESET_QUERY,
                  'cache_reset': pdu_cache_reset(), 'error_report_plain': pdu_error(2, [], []),
                  'error_report_full': pdu_error(3, pdu_notify(7, 1), list(b'corrupt data')), 'router_key': pdu_router_key(0, [9] * 20, 65001, list(range(91))),
                  'aspa_v2': [2, 11, 0, 0] + be(16, 4) + be(65001, 4) + be(65002, 4), 'unassigned_type_5': [1, 5, 0, 0] + be(8, 4)}
        for name, x in extras.items():
            for pos in range(len(rounds) + 1):
                evs = [('feed', 0, pd) for pd in rounds[:pos]] + [('feed', 0, x)] + [('feed', 0, pd) for pd in rounds[pos:]] + [('feed', 0, pdu_notify(7, 110)), ('soft', 0), ('close', 0)]
                add('pdu_%s_in_every_phase' % name, evs, kind='nonconforming' if name.endswith('from_cache') else 'conforming')
        # (d) protocol versions: whole sessions in version 0, 1, 2 (End of Data 12 / 24 / 24 octets), and mixed
        for ver in (0, 1, 2):
            add('session_version_%d' % ver, [('feed', 0, pdu_cache_response(7, ver) + ann(A, ver) + ann(C6, ver) + pdu_eod(7, 5, ver)),
                                             ('feed', 0, pdu_notify(7, 6, ver)), ('feed', 0, pdu_cache_response(7, ver) + wd(A, ver) + ann(B, ver) + pdu_eod(7, 6, ver)), ('cancel', 0)])
        add('session_version_mixed', [('feed', 0, pdu_cache_response(7, 0) + ann(A, 1) + pdu_eod(7, 5, 2)), ('feed', 0, pdu_cache_response(7, 2) + ann(B, 0) + pdu_eod(7, 6, 0)), ('close', 0)])
        add('eod_v1_header_with_v0_size', [('feed', 0, pdu_cache_response(7) + ann(A) + [1, 7, 0, 7] + be(12, 4) + be(5, 4)), ('feed', 0, pdu_notify(7, 9)), ('close', 0)], kind='nonconforming')
        add('eod_v0_header_with_v1_size', [('feed', 0, pdu_cache_response(7, 0) + ann(A, 0) + [0, 7, 0, 7] + be(24, 4) + be(5, 4) + [0] * 12), ('feed', 0, pdu_notify(7, 9, 0)), ('close', 0)])
        # (e) session id and serial: change mid-stream, extremes, wrap
        add('session_id_change_mid_stream', [('feed', 0, pdu_cache_response(1) + ann(A) + pdu_eod(1, 100)), ('feed', 0, pdu_notify(1, 101)),
                                            ('feed', 0, pdu_cache_response(2) + ann(B) + pdu_eod(2, 7)), ('feed', 0, pdu_notify(2, 8)), ('soft', 0), ('close', 0)])
        for sid, ser in ((0, 0), (65535, 4294967295), (65535, 0)):
            add('session_id_serial_extremes', [('feed', 0, pdu_cache_response(sid) + ann(A) + pdu_eod(sid, ser)), ('feed', 0, pdu_notify(sid, (ser + 1) % 2 ** 32)),
                                               ('feed', 0, pdu_cache_response(sid) + ann(B) + pdu_eod(sid, (ser + 1) % 2 ** 32)), ('soft', 0), ('close', 0)])
        # (f) payload corner cases
        add('eod_without_cache_response', [('feed', 0, ann(A) + pdu_eod(7, 1)), ('feed', 0, ann(B) + pdu_eod(7, 2)), ('feed', 0, pdu_eod(7, 3)), ('close', 0)])
        add('empty_snapshot_and_empty_rounds', [('feed', 0, pdu_cache_response(7) + pdu_eod(7, 1)), ('feed', 0, pdu_cache_response(7) + pdu_eod(7, 2)), ('feed', 0, pdu_cache_response(7) + ann(A) + pdu_eod(7, 3)), ('close', 0)])
        add('withdraw_never_announced', [('feed', 0, pdu_cache_response(7) + ann(A) + pdu_eod(7, 1)), ('feed', 0, pdu_cache_response(7) + wd(B) + wd((A[0], 25, 65001)) + wd((A[0], 24, 65002)) + pdu_eod(7, 2)), ('close', 0)])
        add('duplicate_announce', [('feed', 0, pdu_cache_response(7) + ann(A) + ann(A) + ann(B) + pdu_eod(7, 1)), ('feed', 0, pdu_cache_response(7) + ann(A) + ann(B) + ann(B) + pdu_eod(7, 2)),
                                   ('feed', 0, pdu_cache_response(7) + wd(A) + pdu_eod(7, 3)), ('feed', 0, pdu_cache_response(7) + wd(A) + ann(A) + wd(A) + ann(A) + pdu_eod(7, 4)), ('close', 0)])
        add('withdraw_in_snapshot', [('feed', 0, pdu_cache_response(7) + ann(A) + wd(A) + ann(B) + pdu_eod(7, 1)), ('close', 0)], kind='nonconforming')
        add('interleaved_ipv4_ipv6', [('feed', 0, pdu_cache_response(7) + ann(A) + ann(C6) + ann(B) + ann((n6([0x20, 1, 0xd, 0xb8, 0x80], 33), 64, 65001)) + pdu_eod(7, 1)),
                                      ('feed', 0, pdu_cache_response(7) + wd(C6) + ann((n6([], 0), 0, 0)) + wd(B) + pdu_eod(7, 2)), ('close', 0)])
        for fl in (0, 1, 2, 3, 254, 255):
            add('flags_value_%d' % fl, [('feed', 0, pdu_cache_response(7) + ann(A) + ann(B) + pdu_eod(7, 1)),
                                        ('feed', 0, pdu_cache_response(7) + pdu_prefix(fl, A[0], A[1], A[2]) + pdu_prefix(fl, C6[0], C6[1], C6[2]) + pdu_eod(7, 2)), ('close', 0)],
                kind='conforming' if fl < 2 else 'nonconforming')
        ext = [(n4(10, 1, 0, 0, 0), 0, 0), (n4(255, 255, 255, 255, 32), 32, 4294967295), (n4(10, 1, 0, 0, 33), 255, 1), (n4(10, 1, 0, 0, 255), 0, 1),
               (n6([255] * 16, 128), 128, 4294967295), (n6([0x20, 1], 129), 255, 0)]
        add('prefix_field_extremes', [('feed', 0, pdu_cache_response(7) + [x for r in ext for x in ann(r)] + pdu_eod(7, 1)),
                                      ('feed', 0, pdu_cache_response(7) + [x for r in ext[::2] for x in wd(r)] + pdu_eod(7, 2)), ('close', 0)])
        many = [(n4(10, i // 256, i % 256, 0, 24), 24, 65000 + i % 3) for i in range(300)]
        add('snapshot_of_300_then_withdraw_all', [('feed', 0, pdu_cache_response(7) + [x for r in many for x in ann(r)] + pdu_eod(7, 1)),
                                                  ('feed', 0, pdu_cache_response(7) + [x for r in many for x in wd(r)] + pdu_eod(7, 2)), ('cancel', 0)])
        # (g) soft reset, close and cancel in every phase (also in the middle of a PDU)
        flow = [pdu_cache_response(7), ann(A)[:11], ann(A)[11:], pdu_eod(7, 1), pdu_cache_response(7), ann(B), pdu_eod(7, 2)]
        for what in ('soft', 'close', 'cancel'):
            for pos in range(len(flow) + 1):
                evs = [('feed', 0, pd) for pd in flow[:pos]] + [(what, 0)] + [('feed', 0, pd) for pd in flow[pos:]] + [('soft', 0), ('close', 0)]
                add('%s_in_every_phase' % what, evs)
        add('soft_reset_twice_before_eod', [('soft', 0), ('soft', 0), ('feed', 0, pdu_cache_response(7) + pdu_eod(7, 1)), ('soft', 0), ('soft', 0), ('close', 0)])
        # (h) two caches / two sessions
        add('same_vrp_from_two_caches_and_foreign', [('feed', 0, pdu_cache_response(1) + ann(A) + pdu_eod(1, 1)), ('feed', 1, pdu_cache_response(2) + ann(A) + ann(B) + pdu_eod(2, 1)),
                                                     ('feed', 0, pdu_cache_response(1) + wd(A) + pdu_eod(1, 2)), ('feed', 1, pdu_cache_response(2) + wd(B) + pdu_eod(2, 2)), ('close', 0), ('cancel', 1)], n=2, pre=[A, B])
        add('second_session_after_the_first_ended', [('feed', 0, pdu_cache_response(1) + ann(A) + ann(B) + pdu_eod(1, 9)), ('close', 0), ('feed', 0, ann(C6)),
                                                     ('feed', 1, pdu_cache_response(5) + ann(B) + pdu_eod(5, 1)), ('feed', 1, pdu_notify(5, 2)), ('cancel', 1)], n=2)
        add('one_session_broken_other_untouched', [('feed', 0, pdu_cache_response(1) + ann(A) + pdu_eod(1, 1)), ('feed', 1, pdu_cache_response(2) + ann(A) + pdu_eod(2, 1)),
                                                   ('feed', 0, [1, 3, 0, 1, 0, 0, 0, 4]), ('feed', 1, pdu_notify(2, 2)), ('feed', 0, ann(B))], n=2, kind='nonconforming')
        return cases

    def gen_cases(self, rng, tier):
        n4 = lambda a, b, c, d, m: (4, (a, b, c, d), m)
        cases = self.enumerated_cases(tier) + [
            # two incremental rounds: announce + withdraw after the first End-of-Data, then a second End-of-Data
            {'kind': 'seed', 'n': 1, 'pre': [(n4(9, 9, 0, 0, 16), 16, 1)], 'evs': [
                ('feed', 0, pdu_cache_response(7) + pdu_prefix(1, n4(10, 0, 0, 0, 8), 24, 65001) + pdu_prefix(1, n4(10, 1, 0, 0, 16), 16, 65002) + pdu_eod(7, 100)),
                ('feed', 0, pdu_notify(7, 101)),
                ('feed', 0, pdu_cache_response(7) + pdu_prefix(1, n4(10, 2, 0, 0, 16), 16, 65003) + pdu_prefix(0, n4(10, 1, 0, 0, 16), 16, 65002)),
                ('feed', 0, pdu_eod(7, 101)),
                ('soft', 0),
                ('feed', 0, pdu_cache_response(7) + pdu_prefix(1, n4(10, 3, 0, 0, 16), 16, 65003) + pdu_eod(7, 102)),
                ('close', 0)]},
            # a Router Key PDU in the middle of the stream, then a notify that must still be answered
            {'kind': 'seed', 'n': 1, 'pre': [], 'evs': [
                ('feed', 0, pdu_cache_response(7) + pdu_prefix(1, n4(10, 0, 0, 0, 8), 24, 65001)
                 + pdu_router_key(1, list(range(20)), 65001, list(range(91))) + pdu_prefix(1, n4(10, 1, 0, 0, 16), 16, 65002) + pdu_eod(7, 100)),
                ('feed', 0, pdu_notify(7, 102)),
                ('cancel', 0)]},
            # soft reset before the first End-of-Data is served after it
            {'kind': 'seed', 'n': 1, 'pre': [], 'evs': [
                ('soft', 0), ('feed', 0, pdu_cache_response(3)), ('feed', 0, pdu_eod(3, 50)), ('soft', 0), ('close', 0)]},
            # two caches announcing the same VRP; one session ends
            {'kind': 'seed', 'n': 2, 'pre': [(n4(10, 0, 0, 0, 8), 24, 65001)], 'evs': [
                ('feed', 0, pdu_cache_response(1) + pdu_prefix(1, n4(10, 0, 0, 0, 8), 24, 65001) + pdu_eod(1, 5)),
                ('feed', 1, pdu_cache_response(2) + pdu_prefix(1, n4(10, 0, 0, 0, 8), 24, 65001) + pdu_prefix(1, n4(10, 1, 0, 0, 16), 16, 65002) + pdu_eod(2, 9)),
                ('feed', 0, pdu_cache_response(1) + pdu_prefix(0, n4(10, 0, 0, 0, 8), 24, 65001) + pdu_eod(1, 6)),
                ('close', 1), ('cancel', 0)]},
        ]
        nc, nn = (500, 100) if tier == 'quick' else (2000, 300)
        sc = float(os.environ.get('VERIF_RANDOM_SCALE', '1'))
        nc, nn = int(nc * sc), int(nn * sc)
        for _ in range(nc): cases.append(self.gen_case(rng, tier, True))
        for _ in range(nn): cases.append(self.gen_case(rng, tier, False))
        # the connection task and the API around serve_inner (real TCP, real tasks)
        cases += c13conn.gen_cases(rng, tier)
        return cases

    # ---- running
    def run_impl(self, cases, tier):
        ic = [k for k, c in enumerate(cases) if c.get('kind') == 'conn']
        it = [k for k, c in enumerate(cases) if c.get('kind') != 'conn']
        out = [None] * len(cases)
        if it:
            r, err = rustrun.daemon_test('C13', 'rpki::verif_hx::verif_rpki_cases', [self.case_to_val(cases[k]) for k in it])
            if r is None: return None, err
            for k, o in zip(it, r): out[k] = o
        if ic:
            r, err = rustrun.daemon_test('C13conn', 'event::grpc::verif_hx::verif_rpki_conn_cases', [self.case_to_val(cases[k]) for k in ic])
            if r is None: return None, err
            for k, o in zip(ic, r): out[k] = o
        return out, ''

    def run_model(self, cases, tier):
        pre = 'From RB Require Import Base.Val Model.Rpki Model.RtrClient Model.RtrConn.\nOpen Scope N_scope.'
        return coqrun.eval_terms('C13', pre, [self.case_to_coq(c) for c in cases])

    def canon(self, case, obs):
        if case.get('kind') == 'conn': return c13conn.canon(case, obs)
        if obs == [-1]: return obs
        return [[o[0], o[1], sorted(o[2]), o[3]] if o != [-1] else o for o in obs]

    # ---- Spec oracle: the property text evaluated on the implementation's observations
    def failures(self, c, obs):
        if c.get('kind') == 'conn': return c13conn.failures(c, obs)
        if obs == [-1]: return [(-1, 'panic', 'panic in the RTR client')]
        fails = []
        n = c['n']
        foreign = sorted(set((nn[0], tuple(nn[1]), nn[2], mx, a, 9) for nn, mx, a in c['pre']))
        stream = [[] for _ in range(n)]        # bytes delivered so far, per session
        ended = [False] * n                    # the cache closed / the client was cancelled
        conforming = c.get('kind') != 'nonconforming'
        # what a router does with the stream (RFC 8210 sections 5.2, 5.3, 8.2), for the Serial Queries it must write
        rt = [{'done': 0, 'sid': 0, 'serial': 0, 'eod': False, 'permit': False} for _ in range(n)]
        prev_tab = None
        if [list(x) for x in obs[0][1]] != [RESET_QUERY] * n:
            fails.append((0, 'query', 'start: every session must begin with a Reset Query'))
        for k, (e, ob) in enumerate(zip([None] + list(c['evs']), obs)):
            tab = sorted((r[0], tuple(r[1]), r[2], r[3], r[4], r[5]) for r in ob[2])
            if len(set(tab)) != len(tab):
                fails.append((k, 'set', 'event %d: a VRP is installed twice' % k))
            cc = None
            alive_before = None
            if e is not None:
                cc = e[1]
                alive_before = not ended[cc]
                if not ended[cc]:
                    if e[0] == 'feed': stream[cc] = stream[cc] + list(e[2])
                    elif e[0] in ('close', 'cancel'): ended[cc] = True
            # (isolation) VRPs of the foreign cache and of the other sessions are untouched
            if [x for x in tab if x[5] == 9] != foreign:
                fails.append((k, 'isolation', 'event %d: VRPs of another cache changed' % k))
            if prev_tab is not None and cc is not None:
                for oc in range(n):
                    if oc != cc and [x for x in tab if x[5] == oc] != [x for x in prev_tab if x[5] == oc]:
                        fails.append((k, 'isolation', 'event %d on session %d changed the VRPs of session %d' % (k, cc, oc)))
            prev_tab = tab
            expect_sent = []
            for s in range(n):
                mine = [x for x in tab if x[5] == s]
                # (session end) once a session is over, for whatever reason, everything of that cache is gone
                if ob[0][s] and mine:
                    fails.append((k, 'session-end', 'event %d: session %d has ended but %d of its VRPs remain' % (k, s, len(mine))))
                if ended[s]:
                    if not ob[0][s]: fails.append((k, 'session-end', 'event %d: session %d did not terminate' % (k, s)))
                    continue
                pdus, _ = parse_stream(stream[s])
                broken = bool(pdus) and pdus[-1]['type'] == 'error'
                if broken:
                    # a malformed stream: the property leaves the reaction open (the code ends the session);
                    # only "ended => cleared" above is judged
                    continue
                if ob[0][s]:
                    fails.append((k, 'progress', 'event %d: session %d was ended by the client on a well-formed stream' % (k, s)))
                    continue
                # (fold) after an End-of-Data, installed = fold of the responses
                cur, neod, sid, serial, last_payload_after_eod = set(), 0, 0, 0, False
                for p in pdus:
                    if p['type'] in (4, 6):
                        key = (p['net'][0], p['net'][1], p['net'][2], p['mx'], p['asn'], s)
                        if p['flags'] & 1: cur.add(key)
                        else: cur.discard(key)
                        last_payload_after_eod = True
                    elif p['type'] == 7:
                        neod += 1; serial = p['serial']; last_payload_after_eod = False
                    elif p['type'] == 3:
                        sid = p['sid']
                if s == (cc if cc is not None else 0):
                    # (progress) every complete PDU has been consumed: the counters follow the stream
                    st = ob[3]
                    if st[2] != neod or (neod and st[1] != serial) or st[0] != sid:
                        fails.append((k, 'progress', 'event %d: session %d has received %d End-of-Data PDUs (serial %d, session id %d) but the client is at %d (serial %d, session id %d)' % (
                            k, s, neod, serial, sid, st[2], st[1], st[0])))
                if conforming and neod > 0 and not last_payload_after_eod:
                    if mine != sorted(cur):
                        fails.append((k, 'fold', 'event %d: after End-of-Data #%d of session %d the installed VRPs (%d) differ from the fold of the cache\'s responses (%d)' % (
                            k, neod, s, len(mine), len(cur))))
                # (queries) the Serial Queries this event must produce
                if s == cc and alive_before:
                    r = rt[s]
                    if e[0] == 'feed':
                        for p in pdus[r['done']:]:
                            if p['type'] == 3: r['sid'] = p['sid']
                            elif p['type'] == 7: r['serial'] = p['serial']; r['eod'] = True
                            elif p['type'] == 0 and r['eod'] and p['serial'] != r['serial']:
                                expect_sent += serial_query(r['sid'], r['serial'])
                        r['done'] = len(pdus)
                    elif e[0] == 'soft':
                        r['permit'] = True
                    if r['permit'] and r['eod']:
                        expect_sent += serial_query(r['sid'], r['serial']); r['permit'] = False
                    if conforming and list(ob[1][s]) != expect_sent:
                        fails.append((k, 'query', 'event %d: session %d wrote %d bytes, a router answers this event with %d bytes of Serial Queries (session id %d, serial %d)' % (
                            k, s, len(ob[1][s]), len(expect_sent), r['sid'], r['serial'])))
            if e is not None:
                for s in range(n):
                    if s != cc and list(ob[1][s]):
                        fails.append((k, 'query', 'event %d: session %d wrote without being driven' % (k, s)))
        return fails

    KNOWN_CLASS = {}

    def oracle(self, c, obs):
        fails = self.failures(c, obs)
        if not fails: return None
        known = set(self.KNOWN_CLASS.values())
        for k, cls, text in fails:
            if cls not in known: return '%s [class=%s]' % (text, cls)
        k, cls, text = fails[0]
        return '%s [class=%s]' % (text, cls)

    def in_known_class(self, kf, c, obs, why):
        cls = self.KNOWN_CLASS.get(kf['id'])
        return cls is not None and why.endswith('[class=%s]' % cls)

    # ---- evidence
    def shape(self, c):
        out = []
        for s in range(c['n']):
            bs = [x for e in c['evs'] if e[0] == 'feed' and e[1] == s for x in e[2]]
            pdus, used = parse_stream(bs)
            out.append((tuple((p['type'], p.get('flags', 0) & 1) for p in pdus), used != len(bs)))
        return tuple(out)

    def nontrivial_key(self, c, obs):
        if c.get('kind') == 'conn': return c13conn.nontrivial_key(c, obs)
        if obs == [-1]: return ('panic',)
        sh = self.shape(c)
        ok = False
        for types, _ in sh:
            eods = [i for i, t in enumerate(types) if t[0] == 7]
            if len(eods) >= 2 and any(t[0] in (4, 6) for t in types[eods[0]:eods[-1]]): ok = True
            if any(t[0] not in KNOWN_TYPES for t in types): ok = True
        if any(e[0] in ('close', 'cancel') for e in c['evs']) and any(any(r[5] != 9 for r in o[2]) for o in obs if o != [-1]): ok = True
        if not ok: return None
        cuts = tuple((e[0], e[1], min(len(e[2]), 9) if e[0] == 'feed' else 0) for e in c['evs'])
        return (sh, cuts)

    def classify(self, c, obs):
        if c.get('kind') == 'conn': return c13conn.classify(c, obs)
        tags = ['kind_' + c.get('kind', '?'), 'sessions_%d' % c['n']]
        if c.get('cls'): tags.append('enum_' + c['cls'])
        if obs != [-1] and any(o != [-1] and any(o[0]) for o in obs): tags.append('session_ended')
        for types, partial in self.shape(c):
            eods = sum(1 for t in types if t[0] == 7)
            tags.append('eod_%s' % ('0' if eods == 0 else '1' if eods == 1 else '2+'))
            if any(t[0] == 9 for t in types): tags.append('router_key')
            if any(t == (4, 0) or t == (6, 0) for t in types): tags.append('withdraw')
            if any(t[0] == 6 for t in types): tags.append('ipv6')
            if any(t[0] == 8 for t in types): tags.append('cache_reset')
            if any(t[0] == 10 for t in types): tags.append('error_report')
            if any(t[0] == 0 for t in types): tags.append('serial_notify')
            if partial: tags.append('ends_mid_pdu')
        for e in c['evs']:
            if e[0] == 'feed' and len(e[2]) < 8: tags.append('segment_lt_header')
            if e[0] in ('soft', 'close', 'cancel'): tags.append('ev_' + e[0])
        return sorted(set(tags))

Prop.required_theorems = [
    'installed_eq_fold_at_eod', 'installed_eq_fold_pre_refuted', 'apply_evs_runs_pdus', 'rtr_fragmentation_invariant',
    'rtr_idle_buffer_incomplete', 'rtr_client_progress', 'rtr_client_progress_pre_refuted', 'caches_isolated', 'session_end_clears',
    'conn_only_live_session', 'conn_no_session_no_vrps', 'conn_foreign_untouched', 'conn_up_iff_serving', 'conn_session_fold', 'conn_soft_reset_keeps_table', 'conn_cancel_race_pre_refuted',
]
