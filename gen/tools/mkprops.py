#!/usr/bin/env python3
"""Writes a coq/Props/Cxx.v from a list of (comment, name, statement, proof term):
each theorem appears as  Theorem/exact/Check (statement repeated)/Print Assumptions."""
import sys

def render(header, imports, items):
    out = [header, imports, '']
    for comment, name, stmt, proof in items:
        stmt = stmt.strip('\n')
        out.append('(* %s *)' % comment)
        out.append('Theorem %s :\n%s.' % (name, stmt))
        out.append('Proof. exact %s. Qed.' % proof)
        out.append('Check %s :\n%s.' % (name, stmt))
        out.append('Print Assumptions %s.\n' % name)
    return '\n'.join(out)
