"""C07: generators, renderers and Spec oracle for the PeerFsm correspondence."""
import itertools, json, os
from vp import val, coqrun, rustrun
from vp.val import cN, cbool, clist, cpair
from gen.common import *
from gen import c16 as _c16

_P16 = _c16.Prop()
SLOT_CLASSES = ('hard_reset_', 'disable_', 'disable_enable_', 'delete_', 'dynamic_lifecycle', 'disconnect_race_')

A, Pv = 0, 1   # roles

CAPSETS = [
    [],
    [('mp', IPV4), ('as4', 65000)],
    [('mp', IPV4), ('mp', IPV6), ('addpath', [(IPV4, 3), (IPV6, 2)]), ('gr', 0, 120, [(IPV4, 0)])],
    [('mp', IPV4), ('addpath', [(IPV4, 1)]), ('addpath', [(IPV4, 2), (IPV6, 1)]), ('rr',), ('unknown', 99, [1, 2])],
]
REMOTE_CAPSETS = [
    [],
    [('mp', IPV4), ('addpath', [(IPV4, 1), (IPV6, 3)])],
    [('mp', IPV6), ('addpath', [(IPV4, 2)]), ('addpath', [(IPV6, 1)]), ('gr', 8, 90, [(IPV6, 128)]), ('extmsg',)],
]

def mk_open(asn, rid, hold, caps): return ('recv', ('open', asn, rid, hold, caps))
KA = ('recv', ('ka',))
UPD = ('recv', ('update',))
def NOTIF(c, s): return ('recv', ('notif', c, s))
def REFRESH(f): return ('recv', ('refresh', f))

def input_to_val(i):
    t = i[0]
    if t == 'connected': return [0, 1 if i[1] else 0]
    if t == 'recv':
        m = i[1]
        if m[0] == 'open': mv = [1, m[1], m[2], m[3], caps_to_val(m[4])]
        elif m[0] == 'update': mv = [2]
        elif m[0] == 'notif': mv = [3, m[1], m[2]]
        elif m[0] == 'ka': mv = [4]
        elif m[0] == 'refresh': mv = [5, m[1]]
        return [1, mv]
    return [{'kaexp': 2, 'holdexp': 3, 'disc': 4, 'admin': 5, 'updsent': 6}[t]]

def input_to_coq(i):
    t = i[0]
    if t == 'connected': return '(Connected %s)' % cbool(i[1])
    if t == 'recv':
        m = i[1]
        if m[0] == 'open': return '(Recv (MOpen %s %s %s %s))' % (cN(m[1]), cN(m[2]), cN(m[3]), caps_to_coq(m[4]))
        if m[0] == 'update': return '(Recv MUpdate)'
        if m[0] == 'notif': return '(Recv (MNotif %s %s))' % (cN(m[1]), cN(m[2]))
        if m[0] == 'ka': return '(Recv MKeepalive)'
        if m[0] == 'refresh': return '(Recv (MRefresh %s))' % cN(m[1])
    return {'kaexp': 'KaExpired', 'holdexp': 'HoldExpired', 'disc': 'Disconnected',
            'admin': 'AdminShutdown', 'updsent': 'UpdateSent'}[t]

def allowed(s, m):
    k = m[0]
    if k == 'open': return s == 3
    if k == 'ka': return s in (4, 5)
    if k in ('update', 'refresh'): return s == 5
    return True

class Prop:
    pid = 'C07'
    props_file = 'Props/C07.v'
    ops_field = 'ins'
    required_theorems = ['established_only_via_open_exchange', 'unexpected_message_fsm_error',
                         'down_inputs_free_slot', 'at_most_one_confirmed',
                         'established_never_loses', 'collision_survivor']
    correspondence_name = ('Model/Fsm.v peer_step vs daemon/src/fsm.rs PeerFsm::process (harness/daemon/fsm_hx.rs); slot cases: Model/Accept.v vs the real '
                           'connection tasks, ConnArbiter and API teardown paths (harness/daemon/event_accept_hx.rs)')
    rule = ('cases = (local id/AS/hold/capabilities/send-max, expected AS, sequence of (role,input)); '
            'quick: every sequence of length<=2 over a 32-letter alphabet appended to 14 state-reaching prefixes, plus seeded random sequences of length<=40; '
            'a case is non-trivial when some connection reaches OpenConfirm; distinct = distinct (config, trajectory of (active,passive) state pairs and output kinds)')
    exhaustive = {'quick': False, 'thorough': False}
    trusted_base = ['messages are abstracted to what fsm.rs inspects (OPEN: AS, id, hold time, capabilities; NOTIFICATION: code/subcode); '
                    'the PeerCodec inside SessionNegotiated is observed only through the capability lists it was built from (its behaviour is property C16)',
                    'ConnArbiter delivery of the Cease to the losing connection (event/mod.rs) is glue outside the model',
                    'slot cases: the freeing of a slot by the daemon glue (connection task end, apply_disconnect, ConnArbiter, hard ResetPeer / DisablePeer / DeletePeer) is '
                    'compared with Model/Accept.v (C16\'s admission model: a direction without a connection admits a new one) and judged by the oracle on the real PeerFsm '
                    'state of each direction and on the OPEN a new attempt receives; connections there stay in OpenSent (the harness peer sends no OPEN)']
    assumptions = ['inputs reach the FSM after parsing/validation (HoldTime 0 or >=3), as in PeerSession::rx_msg',
                   'Connected is offered to PeerFsm only through PeerFsm::process (never to an existing Connection)']

    # ---- case rendering
    def case_to_val(self, c):
        if c.get('kind') == 'slot': return _P16.case_to_val(c['acc'])
        return [c['lid'], c['lasn'], caps_to_val(c['lcap']), c['lhold'], c['exp'],
                [list(p) for p in c['smax']], [[r, input_to_val(i)] for r, i in c['ins']]]

    def case_to_coq(self, c, order=None):
        if c.get('kind') == 'slot': return _P16.case_to_coq(c['acc'], order)
        ins = clist(['(%s, %s)' % ('RActive' if r == A else 'RPassive', input_to_coq(i)) for r, i in c['ins']])
        return 'run_case %s %s %s %s %s %s %s' % (cN(c['lid']), cN(c['lasn']), caps_to_coq(c['lcap']), cN(c['lhold']),
                                                 cN(c['exp']), clist([cpair(cN(a), cN(b)) for a, b in c['smax']]), ins)

    def case_to_json(self, c):
        return json.loads(json.dumps(c))

    def case_from_json(self, j):
        if j.get('kind') == 'slot': return {'kind': 'slot', 'acc': _P16.case_from_json(j['acc'])}
        def tup(x):
            return tuple(tup(y) for y in x) if isinstance(x, list) else x
        c = dict(j)
        c['lcap'] = [tup(x) for x in j['lcap']]
        c['smax'] = [tuple(x) for x in j['smax']]
        def fix_in(i):
            i = list(i)
            if i[0] == 'recv':
                m = list(i[1])
                if m[0] == 'open':
                    m[4] = [tup(x) for x in m[4]]
                    # capability argument lists stay lists
                    m[4] = [self._fixcap(x) for x in m[4]]
                return ('recv', tuple(m))
            return tuple(i)
        c['lcap'] = [self._fixcap(x) for x in c['lcap']]
        c['ins'] = [(r, fix_in(i)) for r, i in j['ins']]
        return c

    @staticmethod
    def _fixcap(c):
        c = list(c)
        for k in range(1, len(c)):
            if isinstance(c[k], tuple):
                c[k] = [x for x in c[k]]
        return tuple(c)

    # ---- generation
    def configs(self, rng):
        cfgs = []
        # the last configuration has an identifier with the top bit set: the collision rule compares unsigned 32-bit values
        for lid, exp, lhold, ci in [(200, 65001, 90, 1), (200, 0, 0, 2), (100, 65001, 3, 3), (300, 65001, 65535, 0), (0x80000000, 65001, 90, 1)]:
            cfgs.append(dict(lid=lid, lasn=65000, lcap=CAPSETS[ci], lhold=lhold, exp=exp,
                             smax=[(IPV4, 4), (IPV6, 2)] if ci >= 2 else []))
        return cfgs

    def alphabet(self, cfg, rng):
        good = 65001
        al = []
        for r in (A, Pv):
            al += [(r, ('connected', False)), (r, ('connected', True)),
                   (r, mk_open(good, 100, 30, REMOTE_CAPSETS[1])),
                   (r, mk_open(good, 300, 0, REMOTE_CAPSETS[2])),
                   (r, mk_open(65009, 200, 180, REMOTE_CAPSETS[0])),
                   (r, mk_open(good, 0x7fffffff, 30, REMOTE_CAPSETS[1])),
                   (r, mk_open(good, 0x80000001, 30, REMOTE_CAPSETS[1])),
                   (r, KA), (r, UPD), (r, NOTIF(6, 2)), (r, REFRESH(IPV4)),
                   (r, ('kaexp',)), (r, ('holdexp',)), (r, ('disc',)), (r, ('admin',)), (r, ('updsent',))]
        return al

    def prefixes(self):
        go = lambda rid=100, hold=30: mk_open(65001, rid, hold, REMOTE_CAPSETS[1])
        c = ('connected', False)
        return [
            [],
            [(A, c)],
            [(A, c), (A, go())],
            [(A, c), (A, go()), (A, KA)],
            [(Pv, c), (Pv, go(300))],
            [(Pv, c), (Pv, go(300)), (Pv, KA)],
            [(A, c), (Pv, c)],
            [(A, c), (Pv, c), (A, go())],
            [(A, c), (Pv, c), (Pv, go(300))],
            [(A, c), (Pv, c), (A, go()), (A, KA)],
            [(A, c), (Pv, c), (Pv, go(300, 0)), (Pv, KA)],
            [(A, c), (A, go(200)), (Pv, c)],
            [(A, c), (A, go()), (A, ('disc',))],
            [(A, c), (Pv, c), (A, go(300)), (Pv, go(300))],
        ]

    def gen_cases(self, rng, tier):
        cases = []
        cfgs = self.configs(rng)
        depth = 2 if tier == 'quick' else 3
        for ci, cfg in enumerate(cfgs):
            al = self.alphabet(cfg, rng)
            pres = self.prefixes()
            if tier == 'quick':
                # spread the prefixes over the configurations
                pres = [p for k, p in enumerate(pres) if k % len(cfgs) == ci or k < 2]
            for k, pre in enumerate(pres):
                # thorough: depth 3 after the prefixes assigned to this configuration
                # (the first five prefixes get depth 3, each under one configuration), depth 2 elsewhere;
                # depth 3 after all 14 prefixes x 4 configurations is 1.2M cases and
                # does not fit in memory
                dp = depth
                if tier != 'quick' and k != ci:
                    dp = 2
                for d in range(0, dp + 1):
                    if d < dp and pre:
                        continue
                    for seq in itertools.product(al, repeat=d):
                        c = dict(cfg); c['ins'] = list(pre) + list(seq)
                        cases.append(c)
        nrand = 400 if tier == 'quick' else 4000
        for _ in range(nrand):
            cfg = dict(rng.choice(cfgs))
            cfg['lid'] = rng.choice([100, 200, 300])
            cfg['lhold'] = rng.choice([0, 3, 9, 90, 65535])
            al = self.alphabet(cfg, rng)
            n = rng.randint(3, 40)
            ins = []
            for _ in range(n):
                # bias towards progress so that deep states are reached
                x = rng.random()
                r = rng.choice((A, Pv))
                if x < 0.18: ins.append((r, ('connected', rng.random() < 0.3)))
                elif x < 0.40: ins.append((r, mk_open(rng.choice([65001, 65001, 65001, 65002]), rng.choice([100, 200, 300]),
                                                     rng.choice([0, 3, 30, 65535]), rng.choice(REMOTE_CAPSETS))))
                elif x < 0.60: ins.append((r, KA))
                else: ins.append(rng.choice(al))
            cfg['ins'] = ins
            cases.append(cfg)
        # the glue that frees a slot in the running daemon (connection tasks, ConnArbiter, apply_disconnect, the API's
        # teardown paths): enumerated histories of C16's admission harness, judged for "the slot is Idle again and a new
        # attempt gets its OPEN"
        cases += [{'kind': 'slot', 'acc': c} for c in _P16.enum_acc() if (c.get('cls') or '').startswith(SLOT_CLASSES)]
        return cases

    # ---- running
    def run_impl(self, cases, tier):
        a = [k for k, c in enumerate(cases) if c.get('kind') != 'slot']
        b = [k for k, c in enumerate(cases) if c.get('kind') == 'slot']
        out = [None] * len(cases)
        self._orders = {}
        if a:
            r, err = rustrun.daemon_test('C07', 'fsm::verif_hx::verif_fsm_cases', [self.case_to_val(cases[k]) for k in a])
            if r is None: return None, err
            for k, o in zip(a, r): out[k] = o
        if b:
            # the daemon's glue around the FSM: real connection tasks, the ConnArbiter and apply_disconnect (C16's harness)
            r, err = rustrun.daemon_test('C07slot', 'event::verif_hx::accept_hx::verif_accept_cases', [self.case_to_val(cases[k]) for k in b])
            if r is None: return None, err
            for k, o in zip(b, r):
                out[k] = o
                if o != [-1] and o and o[0] and o[0][0] == -7: self._orders[k] = o[0][1:]
        return out, ''

    def run_model(self, cases, tier):
        pre = ('From RB Require Import Base.Val Model.Caps Model.Fsm Model.Negotiate Model.Accept.\nOpen Scope N_scope.')
        orders = getattr(self, '_orders', {})
        # the FSM cases use Model.Fsm.run_case, the slot cases Model.Accept.run_case: qualified names
        terms = []
        for k, c in enumerate(cases):
            if c.get('kind') == 'slot': terms.append(self.case_to_coq(c, orders.get(k)))
            else: terms.append('Fsm.' + self.case_to_coq(c))
        return coqrun.eval_terms('C07', pre, terms)

    def canon(self, case, obs):
        if case.get('kind') == 'slot': return _c16.canon_acc(obs)
        return obs

    # ---- Spec oracle: judges the implementation's observations against the
    # property text (python mirror of Spec/FsmSpec.v)
    def oracle(self, c, obs):
        if c.get('kind') == 'slot':
            # "a ... disconnect or admin shutdown always returns that connection to Idle and frees its slot for a new attempt":
            # the FSM slot of every direction without a connection is Idle and a new attempt is sent an OPEN (judged by C16's oracle)
            return _P16.oracle_acc(c['acc'], obs)
        if obs == [-1]:
            return 'panic in PeerFsm::process'
        st = [0, 0]
        phase = [None, None]
        for k, ((r, i), o) in enumerate(zip(c['ins'], obs)):
            outs, sa, sp = o
            new = [sa, sp]
            o_r = 1 - r
            def has(x): return x in outs
            # (2) unexpected message
            if i[0] == 'recv' and st[r] != 0 and not allowed(st[r], i[1]):
                if not has([0, r, [5, [2, 5, st[r]], [[5, st[r]]]]]) or not has([0, r, [6, 0]]) or new[r] != 0:
                    return 'step %d: message not allowed in state %d did not yield FSM error + Idle' % (k, st[r])
            # (3) down inputs
            if st[r] != 0 and (i[0] in ('holdexp', 'disc', 'admin') or (i[0] == 'recv' and i[1][0] == 'notif')):
                if new[r] != 0 or not has([0, r, [6, 0]]):
                    return 'step %d: down input left the connection in state %d' % (k, new[r])
            # (5a) established survives events on the other connection
            if st[o_r] == 5 and new[o_r] != 5:
                return 'step %d: Established connection lost to an event on the other connection' % k
            # (5b) collision
            if i[0] == 'recv' and i[1][0] == 'open' and st[r] == 3 and st[o_r] in (4, 5) and \
                    (c['exp'] == 0 or c['exp'] == i[1][1]):
                if st[o_r] == 5:
                    loser = r
                else:
                    winner = A if c['lid'] > i[1][2] else Pv
                    loser = 1 - winner
                if new[loser] != 0 or new[1 - loser] not in (4, 5):
                    return 'step %d: wrong collision survivor' % k
                if loser == r and not has([0, r, [5, [2, 6, 7], [[6, 7]]]]):
                    return 'step %d: losing connection not sent Cease/collision' % k
                if loser != r and not has([0, loser, [0, [3, 6, 7]]]):
                    return 'step %d: losing connection not sent Cease/collision' % k
            # ghost phases for (1)
            for q in (A, Pv):
                if new[q] == 0:
                    phase[q] = None
            if new[r] != 0:
                if i[0] == 'connected' and st[r] == 0:
                    phase[r] = 'conn'
                    if not any(x[0] == 0 and x[1] == r and x[2][0] == 0 and x[2][1][0] == 1 for x in outs):
                        return 'step %d: connection created without sending OPEN' % k
                elif i[0] == 'recv' and i[1][0] == 'open' and phase[r] == 'conn' and (c['exp'] == 0 or c['exp'] == i[1][1]):
                    phase[r] = 'open'
                elif i[0] == 'recv' and i[1][0] == 'ka' and phase[r] == 'open':
                    phase[r] = 'ka'
            for q in (A, Pv):
                if new[q] == 5 and phase[q] != 'ka':
                    return 'step %d: Established without Connected/acceptable OPEN/KEEPALIVE history' % k
                if new[q] == 4 and phase[q] != 'open':
                    return 'step %d: OpenConfirm without an acceptable OPEN' % k
            # (4)
            if new[0] in (4, 5) and new[1] in (4, 5):
                return 'step %d: both connections confirmed' % k
            st = new
        return None

    def in_known_class(self, kf, c, obs, why):
        return False

    def nontrivial_key(self, c, obs):
        if c.get('kind') == 'slot':
            return ('slot', json.dumps(c['acc']['ops'])) if obs != [-1] and any(o[0] for o in obs[2:] if isinstance(o, list) and o) else None
        if obs == [-1]:
            return ('panic',)
        traj = tuple((o[1], o[2], tuple(x[2][0] if x[0] == 0 else -x[0] for x in o[0])) for o in obs)
        if any(o[1] >= 4 or o[2] >= 4 for o in obs):
            return (c['lid'], c['exp'], c['lhold'], traj)
        return None

    def classify(self, c, obs):
        if c.get('kind') == 'slot': return ['kind_slot', 'slot_' + (c['acc'].get('cls') or '?')]
        tags = ['len_%s' % ('0-3' if len(c['ins']) <= 3 else '4-8' if len(c['ins']) <= 8 else '9+')]
        if obs != [-1]:
            if any(o[1] == 5 or o[2] == 5 for o in obs): tags.append('reaches_established')
            if any(any(x[0] == 0 and x[2][0] == 5 and x[2][1][:3] == [2, 6, 7] or
                       (x[0] == 0 and x[2][0] == 0 and x[2][1] == [3, 6, 7]) for x in o[0]) for o in obs):
                tags.append('collision')
            if any(any(x[0] == 0 and x[2][0] == 5 and x[2][1][:2] == [2, 5] for x in o[0]) for o in obs):
                tags.append('fsm_error')
            if any(any(x == [1] for x in o[0]) for o in obs): tags.append('close_connection')
        return tags
