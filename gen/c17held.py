# C17, kind 10: NLRIs HELD from the wire (decoded by the repository's decoder), listed and given back.
#   case {'k': 10, 'fam': afi << 16 | safi, 'b': NLRI octets as a peer puts them into MP_REACH, 'cls': class}
# The classes sit on the boundary "the decoder keeps whole octets, the API side checks bits": every field with a length in
# bits is enumerated at lengths that are not a multiple of 8, with the spare bits of the last octet set and clear.
from gen.c17wire import be16, be24, be32

V4U, V6U = (1 << 16) | 1, (2 << 16) | 1
LAB4, LAB6, VPN4, VPN6 = (1 << 16) | 4, (2 << 16) | 4, (1 << 16) | 128, (2 << 16) | 128
EVPN = (25 << 16) | 70
FS4, FS6, FSV4, FSV6 = (1 << 16) | 133, (2 << 16) | 133, (1 << 16) | 134, (2 << 16) | 134
SR4, SR6, RTCF, MUP4, MUP6 = (1 << 16) | 73, (2 << 16) | 73, (1 << 16) | 132, (1 << 16) | 85, (2 << 16) | 85
LSF = (16388 << 16) | 71
RD = [0, 0, 0xfd, 0xe8, 0, 0, 0, 1]          # 65000:1
RDS = (RD, [0, 1, 192, 0, 2, 1, 0, 7], [0, 2, 0, 1, 0, 0, 0, 9])
A4 = [10, 0xa5, 0x5a, 0xff]
A6 = [0x20, 0x01, 0x0d, 0xb8, 0xa5, 0x5a, 0xff, 0x0f, 0xf0, 0x33, 0xcc, 0x55, 0xaa, 0x81, 0x7e, 0xff]
LABEL = be24((100 << 4) | 1)


def hc(cls, fam, b): return {'k': 10, 'fam': fam, 'b': list(b), 'cls': 'held:' + cls}


def pfx_forms(a, m):
    """the octets of a prefix of m bits taken from address a: spare bits of the last octet as in a (set), cleared, all set"""
    n = (m + 7) // 8
    b = list(a[:n])
    if m % 8 == 0 or n == 0: return [b]
    mask = (0xff << (8 - m % 8)) & 0xff
    return [b, b[:-1] + [b[-1] & mask], b[:-1] + [b[-1] | (~mask & 0xff)]]


def lengths(w):
    return sorted(set([0, 1, 7, 8, 9, 12, 15, 16, 17, 23, 24, 25, 31, 32] + ([33, 47, 48, 49, 63, 64, 65, 95, 96, 97, 120, 121, 127, 128] if w == 128 else [])) & set(range(w + 1)))


def mup(rt, body): return [1] + be16(rt) + [len(body) & 255] + body


def enum_mup():
    o = []
    for fam, a, w in ((MUP4, A4, 32), (MUP6, A6, 128)):
        nb = w // 8
        # Type 2 ST: every endpoint length from the address width to width + 32; the TEID octets that travel, spare bits set / clear
        teid = [0x12, 0x3f, 0xa5, 0xff]
        for tl in range(0, 33):
            k = (tl + 7) // 8
            forms = [teid[:k]]
            if tl % 8:
                mask = (0xff << (8 - tl % 8)) & 0xff
                forms = [teid[:k], teid[:k - 1] + [teid[k - 1] & mask], teid[:k - 1] + [0xff], teid[:k - 1] + [0]]
            for t in forms:
                o.append(hc('mup_t2_endpoint_bits', fam, mup(4, RD + [w + tl] + a[:nb] + t)))
        for el in (w - 1, w + 33, 0, 255): o.append(hc('mup_t2_length_out_of_range', fam, mup(4, RD + [el] + a[:nb] + [1, 2, 3, 4, 5][: max(0, min(5, (el - w + 7) // 8))])))
        o.append(hc('mup_t2_extra_octets', fam, mup(4, RD + [w + 12] + a[:nb] + [0x12, 0x30, 0x99])))
        for d in RDS: o.append(hc('mup_rd_types', fam, mup(4, d + [w + 32] + a[:nb] + teid)))
        # ISD and Type 1 ST: every prefix length class, spare bits of the last prefix octet set / clear
        for m in lengths(w):
            for p in pfx_forms(a, m):
                o.append(hc('mup_isd_prefix_bits', fam, mup(1, RD + [m] + p)))
                o.append(hc('mup_t1_prefix_bits', fam, mup(3, RD + [m] + p + be32(0x01020304) + [9, w] + a[:nb] + [0])))
        o.append(hc('mup_isd_prefix_bits', fam, mup(1, RD + [w + 1] + a[:nb] + [0xff])))
        for src in ([0], [w] + a[:nb], [w - 1] + a[:nb], [8, 1]):
            o.append(hc('mup_t1_source', fam, mup(3, RD + [8, a[0]] + be32(0xffffffff) + [255, w] + a[:nb] + src)))
        for q in (0, 1, 255): o.append(hc('mup_t1_qfi_teid', fam, mup(3, RD + [8, a[0]] + be32(q * 0x01010101) + [q, w] + a[:nb] + [0])))
        for ea in (w - 8, w + 8): o.append(hc('mup_t1_endpoint_length', fam, mup(3, RD + [8, a[0]] + be32(1) + [9, ea] + a[:nb] + [0, 0])))
        for d in RDS: o.append(hc('mup_dsd', fam, mup(2, d + a[:nb])))
        o.append(hc('mup_dsd', fam, mup(2, RD + a[:nb - 1]))); o.append(hc('mup_dsd', fam, mup(2, RD + a[:nb] + [0])))
        for rt in (0, 5, 255): o.append(hc('mup_route_type', fam, mup(rt, RD + a[:nb])))
        o.append(hc('mup_two_routes', fam, mup(2, RD + a[:nb]) + mup(4, RD + [w + 12] + a[:nb] + [0x12, 0x3f])))
    return o


def enum_ip():
    o = []
    for v6, a, w, fu, fl, fv in ((False, A4, 32, V4U, LAB4, VPN4), (True, A6, 128, V6U, LAB6, VPN6)):
        for m in lengths(w):
            for p in pfx_forms(a, m):
                o.append(hc('ip_prefix_bits', fu, [m] + p))
                o.append(hc('labeled_prefix_bits', fl, [24 + m] + LABEL + p))
                o.append(hc('vpn_prefix_bits', fv, [24 + 64 + m] + LABEL + RD + p))
        o.append(hc('labeled_prefix_bits', fl, [48 + 12] + be24(16 << 4) + LABEL + a[:2]))
        o.append(hc('vpn_prefix_bits', fv, [24 + 64 + 12] + LABEL + RDS[1] + a[:2]))
    return o


def enum_evpn5():
    o = []
    esi = [0] * 10
    for a, w in ((A4, 32), (A6, 128)):
        nb = w // 8
        for m in lengths(w):
            for host in (a[:nb], [x if i < (m + 7) // 8 else 0 for i, x in enumerate(a[:nb])], pfx_forms(a, m)[1 if m % 8 else 0] + [0] * (nb - (m + 7) // 8)):
                d = RD + esi + be32(7) + [m] + host + [0] * nb + be24(5000)
                o.append(hc('evpn5_prefix_bits', EVPN, [5, len(d)] + d))
    return o


def fs_nlri(body): return ([len(body)] if len(body) < 0xf0 else [0xf0 | (len(body) >> 8), len(body) & 255]) + body


def enum_flowspec():
    o = []
    for fam, a, w, vpn in ((FS4, A4, 32, False), (FSV4, A4, 32, True), (FS6, A6, 128, False), (FSV6, A6, 128, True)):
        for m in lengths(w):
            for p in pfx_forms(a, m):
                for t in (1, 2):
                    comp = [t, m] + ([0] if w == 128 else []) + p
                    o.append(hc('flowspec_prefix_bits', fam, fs_nlri((RD if vpn else []) + comp)))
        if w == 128:
            for m, off in ((12, 4), (12, 8), (12, 11), (12, 12), (64, 63), (20, 9)):
                for p in pfx_forms(a, m):
                    o.append(hc('flowspec_v6_offset_bits', fam, fs_nlri((RD if vpn else []) + [1, m, off] + p)))
    return o


def enum_srpolicy_rtc():
    o = []
    for fam, a, w in ((SR4, A4, 32), (SR6, A6, 128)):
        for ln in (0, 64, 64 + w - 1, 64 + w, 64 + w + 1, 95, 96, 97, 191, 192, 193, 255):
            o.append(hc('srpolicy_length_field', fam, [ln] + be32(1) + be32(2) + a[: w // 8]))
    rt = [0, 2, 0xfd, 0xe8, 0, 0, 0, 100]
    full = be32(65001) + rt
    for ln in list(range(0, 97)):
        n = (ln + 7) // 8
        for p in pfx_forms(full, ln):
            o.append(hc('rtc_prefix_bits', RTCF, [ln] + p))
    for ln in (97, 104, 255): o.append(hc('rtc_prefix_bits', RTCF, [ln] + full + [0xff]))
    return o


def tlv16(t, v): return be16(t) + be16(len(v)) + v


def enum_ls_reach():
    o = []
    node = tlv16(256, tlv16(512, be32(65001)) + tlv16(515, [10, 0, 0, 1]))
    for typ, a, w in ((3, A4, 32), (4, A6, 128)):
        for m in lengths(w):
            for p in pfx_forms(a, m):
                body = [2] + [0] * 8 + node + tlv16(265, [m] + p)
                o.append(hc('ls_reachability_bits', LSF, be16(typ) + be16(len(body)) + body))
        body = [2] + [0] * 8 + node + tlv16(265, [w + 1] + a[: w // 8] + [0xff])
        o.append(hc('ls_reachability_bits', LSF, be16(typ) + be16(len(body)) + body))
    return o


def enum_held():
    return enum_mup() + enum_ip() + enum_evpn5() + enum_flowspec() + enum_srpolicy_rtc() + enum_ls_reach()


# ---------------------------------------------------------------- oracle
def held_known_class(c, entry):
    """the open classes a held NLRI can fall into (judged on the octets of its own encoding)"""
    if c['fam'] == LSF: return 'C17-ls-nlri'
    if c['fam'] == RTCF:
        b = entry[1]
        if isinstance(b, list) and b and b[0] != -1:
            if len(b) == 5 and b[0] == 32 and b[1:5] == [0, 0, 0, 0]: return 'C17-rtc'
            if len(b) == 13 and b[0] == 96 and (b[5] not in (0, 1, 2) or b[6] != 2): return 'C17-rtc'
    return None


def mup_t1_listing_wrong(listed):
    """a listed MUP Type 1 route states the bit lengths of the addresses it shows"""
    if not (isinstance(listed, list) and listed and listed[0] == 16): return None
    w = lambda text: 128 if 58 in text else 32        # ':' in the address text
    if listed[5] != w(listed[6]): return 'endpoint address %s listed with length %d' % (bytes(listed[6]).decode('latin1'), listed[5])
    if listed[7] != (w(listed[8]) if listed[8] else 0): return 'source address %s listed with length %d' % (bytes(listed[8]).decode('latin1'), listed[7])
    return None


def oracle_held(c, obs):
    if obs == [-1]: return 'panic while decoding / listing a received NLRI'
    if obs[0] == 0: return None
    for e in obs[1]:
        text = bytes(e[0]).decode('latin1')[:90]
        if e[1] == [-1]: return 'a held NLRI panics its encoder: ' + text
        if e[2] == [-1]: return 'a held NLRI panics nlri_to_api: ' + text
        if e[3] == [-1]: return 'a held NLRI panics net_from_api when its listed form is given back: ' + text
        why = mup_t1_listing_wrong(e[2])
        if why: return 'held: a held MUP Type 1 route is not shown as it is: ' + why
        if e[3] != 0:
            cls = held_known_class(c, e)
            tag = 'held[%s]: ' % cls if cls else 'held: '
            return tag + 'an NLRI the daemon holds is %s when its listed form is given back: %s' % ('refused' if e[3] == 2 else 'changed', text)
    return None
