"""C09: generators, renderers and Spec oracle for the export pipeline
(daemon/src/event/export.rs, the inbound loop checks, the AS_PATH edits of
packet/src/bgp.rs).

A case is a nested integer list [tag, ...] (the same value is sent to the Rust
harness and rendered as a Gallina `case` term):
  [0, ty, asn, attr]                      as_path_prepend (ty=2) / as_path_prepend_confed (ty=3)
  [1, attr]                               as_path_strip_confed
  [2, attrs, local_asn, confed_id]        is_as_loop
  [3, ctx, attrs]                         PeerExportContext::export_attrs
  [4, ctx, attrs, nh?, family, is_local]  PeerExportContext::pre_policy_defaults
  [5, attrs, router_id, cluster_id]       rr_reflect_attrs
  [6, attrs]                              with_llgr_stale_community
  [7, attrs]                              inject_local_pref_if_absent
  [8, source, dest_role, cid?]            is_ibgp_learned, ibgp_split_horizon_suppress, rs_isolation_suppress
  [9, ctx, emax, raddr, cid?, change, emap, probe]   process_nlri_change with a recording sink
  [10, ctx, router_id, cid?, attrs]       run_select's is_as_loop filter + PeerSession::rx_update
  [11, ctx, emax, raddr, cid?, source, nh?, attrs]   Table::insert + export, then Table::restale_llgr + export
  [13, ctx, emax, raddr, cid?, family, [change..], probe]   a history of changes through one ExportMap
  [14, ..as 9.., [accept_all, [rt8..]]]   process_nlri_change with a real RtcFilter (from_paths)
  [15, [[local_pref, filtered, nexthop_invalid]..]]   the change stream of the real Table::restale_llgr for one destination
  [17, has_family, ctx, emax, raddr, cid?, family, [change..], policy?, [[dest, key]..]]   the real handle_prefix_update for every change, into the real PendingTx
  [18, 1, ctx, emax, raddr, cid?, family, [change..] before, policy1?, probes, [change..] walk, policy2?]   then the real apply_refresh_walk
  [16, ..as 11..]                         the scenario of 11 through the real TableManager (insert_route, event channel, mark_llgr_stale)
  [12, ..as 9.., policy]                  process_nlri_change with a real one-statement table::PolicyAssignment
                                          policy = [nh_action?, med_action?, statement disposition, default disposition, as_prepend?]
with attr = [code, flags, kind(0 Val,1 Bin,2 Opaque), payload], ip = [0|1, bytes],
nexthop = [0,a4] | [1,a16] | [2,a16,ll16], ctx = [role, local_asn, local_addr, link?, confed_id],
source = [0] local | [1] kernel | [2, raddr, rasn, lasn, rid, role, llgr_stale],
change = [family, dest, best_changed, any_changed, replaced?, [path..]], path = [lpid, source, nh?, attrs],
emap = [0] | [1, dests] | [2, [[dest, pids]..]]; x? is [] or [x].
"""
import itertools, json, os
from vp import val, coqrun, rustrun

EBGP, RS, IBGP, RRC, CONFED = 0, 1, 2, 3, 4
ROLES = [EBGP, RS, IBGP, RRC, CONFED]
ROLE_NAMES = ['Ebgp', 'RsClient', 'Ibgp', 'IbgpRrClient', 'ConfedEbgp']

ORIGIN, AS_PATH, NEXTHOP, MED, LOCAL_PREF, ATOMIC, AGGREGATOR, COMMUNITY, ORIGINATOR_ID, CLUSTER_LIST = range(1, 11)
EXT_COMMUNITY, AIGP, LARGE_COMMUNITY = 16, 26, 32
F_PARTIAL, F_TRANS, F_OPT = 0x20, 0x40, 0x80
CANON = {1: 0x40, 2: 0x40, 3: 0x40, 4: 0x80, 5: 0x40, 6: 0x40, 7: 0xC0, 8: 0xC0, 9: 0x80, 10: 0x80, 14: 0x80, 15: 0x80,
         16: 0xC0, 17: 0xC0, 18: 0xC0, 26: 0x80, 32: 0xC0, 40: 0xC0, 29: 0x80, 23: 0xC0}
LLGR_STALE = [255, 255, 0, 6]

IPV4 = (1 << 16) | 1
IPV6 = (2 << 16) | 1
FLOWSPEC4 = (1 << 16) | 133
FLOWSPEC6 = (2 << 16) | 133
FLOWSPEC4_VPN = (1 << 16) | 134
FLOWSPEC6_VPN = (2 << 16) | 134
FLOWSPECS = (FLOWSPEC4, FLOWSPEC6, FLOWSPEC4_VPN, FLOWSPEC6_VPN)
FAMILIES = [IPV4, IPV4, IPV6, FLOWSPEC4, FLOWSPEC6, FLOWSPEC4_VPN, FLOWSPEC6_VPN, (1 << 16) | 128, (1 << 16) | 132]

LOCAL_AS = 65001
CONFED_ID = 65100
ASNS = [LOCAL_AS, LOCAL_AS, 65002, 65003, CONFED_ID, 0, 23456, 4200000000, 4294967295]


def be32(v):
    return [(v >> 24) & 255, (v >> 16) & 255, (v >> 8) & 255, v & 255]


# ---------------------------------------------------------------- AS_PATH (RFC 4271 4.3 / RFC 5065 view, for the oracle)
def enc_path(segs):
    out = []
    for t, asns in segs:
        assert len(asns) <= 255
        out += [t, len(asns)]
        for a in asns:
            out += be32(a)
    return out


def parse_path(b):
    """bytes -> [(type, [asn..])..] or None when the bytes are not a well-formed AS_PATH"""
    segs, i = [], 0
    while i < len(b):
        if i + 2 > len(b):
            return None
        t, n = b[i], b[i + 1]
        if not 1 <= t <= 4:
            return None
        i += 2
        if i + 4 * n > len(b):
            return None
        segs.append((t, [(b[i + 4 * k] << 24) | (b[i + 4 * k + 1] << 16) | (b[i + 4 * k + 2] << 8) | b[i + 4 * k + 3]
                         for k in range(n)]))
        i += 4 * n
    return segs


def tflat(segs):
    """typed flattening: the AS sequence with the kind of segment each AS sits in"""
    return [(t, a) for t, asns in segs for a in asns]


def flat(segs):
    return [a for _, asns in segs for a in asns]


# ---------------------------------------------------------------- rendering to Gallina
def cl(items):
    return '[' + ';'.join(items) + ']'


def cbytes(b):
    return cl([str(x) for x in b])


def copt(v, f):
    return 'None' if not v else '(Some %s)' % f(v[0])


def c_attr(a):
    code, flags, kind, p = a
    d = '(DVal %d)' % p if kind == 0 else '(%s %s)' % ('DBin' if kind == 1 else 'DOpaque', cbytes(p))
    return '(Build_attr %d %d %s)' % (code, flags, d)


def c_attrs(l):
    return cl([c_attr(a) for a in l])


def c_ip(ip):
    return '(%s %s)' % ('IP4' if ip[0] == 0 else 'IP6', cbytes(ip[1]))


def c_nh(n):
    if n[0] == 0:
        return '(NhV4 %s)' % cbytes(n[1])
    if n[0] == 1:
        return '(NhV6 %s)' % cbytes(n[1])
    return '(NhV6LL %s %s)' % (cbytes(n[1]), cbytes(n[2]))


def c_role(r):
    return ROLE_NAMES[r]


def c_ctx(x):
    return '(Build_ectx %s %d %s %s %d)' % (c_role(x[0]), x[1], c_ip(x[2]), copt(x[3], cbytes), x[4])


def c_src(s):
    if s[0] == 0:
        return 'SrcLocal'
    if s[0] == 1:
        return 'SrcKernel'
    return '(SrcPeer (Build_peer_src %s %d %d %d %s %s))' % (c_ip(s[1]), s[2], s[3], s[4], c_role(s[5]),
                                                             'true' if s[6] else 'false')


def c_bool(b):
    return 'true' if b else 'false'


def c_num(n):
    return str(n)


def c_path(p):
    return '(Build_path %d %s %s %s)' % (p[0], c_src(p[1]), copt(p[2], c_nh), c_attrs(p[3]))


def c_change(c):
    return '(Build_change %d %d %s %s %s %s)' % (c[0], c[1], c_bool(c[2]), c_bool(c[3]), copt(c[4], c_num),
                                                 cl([c_path(p) for p in c[5]]))


def c_emap(e):
    if e[0] == 0:
        return 'ENone'
    if e[0] == 1:
        return '(EPlain %s)' % cbytes(e[1])
    return '(EAddPath %s)' % cl(['(%d, %s)' % (kv[0], cbytes(kv[1])) for kv in e[1]])


def case_coq(c):
    t = c[0]
    if t == 0:
        body = 'CPrepend %d %d %s' % (c[1], c[2], c_attr(c[3]))
    elif t == 1:
        body = 'CStrip %s' % c_attr(c[1])
    elif t == 2:
        body = 'CLoop %s %d %d' % (c_attrs(c[1]), c[2], c[3])
    elif t == 3:
        body = 'CExportAttrs %s %s' % (c_ctx(c[1]), c_attrs(c[2]))
    elif t == 4:
        body = 'CPrePolicy %s %s %s %d %s' % (c_ctx(c[1]), c_attrs(c[2]), copt(c[3], c_nh), c[4], c_bool(c[5]))
    elif t == 5:
        body = 'CReflect %s %d %d' % (c_attrs(c[1]), c[2], c[3])
    elif t == 6:
        body = 'CLlgr %s' % c_attrs(c[1])
    elif t == 7:
        body = 'CInjectLp %s' % c_attrs(c[1])
    elif t == 8:
        body = 'CSuppress %s %s %s' % (c_src(c[1]), c_role(c[2]), copt(c[3], c_num))
    elif t == 9:
        body = 'CProcess %s %d %s %s %s %s %s' % (c_ctx(c[1]), c[2], c_ip(c[3]), copt(c[4], c_num), c_change(c[5]),
                                                  c_emap(c[6]), cbytes(c[7]))
    elif t == 10:
        body = 'CRxLoop %s %d %s %s' % (c_ctx(c[1]), c[2], copt(c[3], c_num), c_attrs(c[4]))
    elif t == 12:
        pol = c[8]
        def c_nha(a):
            return ['(NaAddress %s)' % c_ip(a[1]) if a[0] == 0 else None, 'NaSelf', 'NaPeer', 'NaUnchanged'][a[0]] if a[0] else '(NaAddress %s)' % c_ip(a[1])
        def c_med(a):
            return '(%s (%d)%%Z)' % ('MedMod' if a[0] == 0 else 'MedReplace', a[1])
        dn = ['DPass', 'DAccept', 'DReject']
        def c_pre(a):
            return '(Build_prepend_action %d %d %s)' % (a[0], a[1], c_bool(a[2]))
        body = 'CProcessPol %s %d %s %s %s %s %s (Build_stmt %s %s %s) %s %s' % (
            c_ctx(c[1]), c[2], c_ip(c[3]), copt(c[4], c_num), c_change(c[5]), c_emap(c[6]), cbytes(c[7]),
            copt(pol[0], c_nha), copt(pol[1], c_med), dn[pol[2]], copt(pol[4] if len(pol) > 4 else [], c_pre), dn[pol[3]])
    elif t in (17, 18):
        dn = ['DPass', 'DAccept', 'DReject']
        def c_nha(a):
            return ['(NaAddress %s)' % c_ip(a[1]) if a[0] == 0 else None, 'NaSelf', 'NaPeer', 'NaUnchanged'][a[0]] if a[0] else '(NaAddress %s)' % c_ip(a[1])
        def c_med(a):
            return '(%s (%d)%%Z)' % ('MedMod' if a[0] == 0 else 'MedReplace', a[1])
        def c_pre(a):
            return '(Build_prepend_action %d %d %s)' % (a[0], a[1], c_bool(a[2]))
        def c_pol(pol):
            return '(Build_stmt %s %s %s, %s, %s)' % (copt(pol[0], c_nha), copt(pol[1], c_med), dn[pol[2]],
                                                       copt(pol[4] if len(pol) > 4 else [], c_pre), dn[pol[3]])
        if t == 17:
            body = 'CUpdates %s %s %d %s %s %s %s %s' % (
                c_bool(c[1]), c_ctx(c[2]), c[3], c_ip(c[4]), copt(c[5], c_num), cl([c_change(ch) for ch in c[7]]),
                copt(c[8], c_pol), cl(['(%d, %d)' % (dk[0], dk[1]) for dk in c[9]]))
        else:
            body = 'CRefresh %s %d %s %s %s %s %s %s %s' % (
                c_ctx(c[2]), c[3], c_ip(c[4]), copt(c[5], c_num), cl([c_change(ch) for ch in c[7]]),
                cl([c_change(ch) for ch in c[10]]), copt(c[8], c_pol), copt(c[11], c_pol),
                cl(['(%d, %d)' % (dk[0], dk[1]) for dk in c[9]]))
    elif t == 15:
        # the eligible paths in their order after marking: by LOCAL_PREF, highest first (all
        # paths are the marked peer's, so staleness does not separate them)
        specs = c[1]
        elig = sorted([k for k, sp in enumerate(specs) if not sp[1] and not sp[2]], key=lambda k: -specs[k][0])
        any_from = any(not sp[1] for sp in specs)
        src = '(SrcPeer (Build_peer_src (IP4 [10;0;0;2]) 65002 65001 167772162 Ebgp true))'
        paths = cl(['(Build_path %d %s None [])' % (k + 1, src) for k in elig])
        body = 'CRestale %s %s (IP4 [10;0;0;2]) %s' % ('(Some %d)' % (elig[0] + 1) if elig else 'None', c_bool(any_from), paths)
    elif t == 14:
        r = c[8]
        body = 'CProcessRtc %s %d %s %s %s %s %s %s %s' % (
            c_ctx(c[1]), c[2], c_ip(c[3]), copt(c[4], c_num), c_change(c[5]), c_emap(c[6]), cbytes(c[7]),
            c_bool(r[0]), cl([cbytes(rt) for rt in r[1]]))
    elif t == 13:
        body = 'CHistory %s %d %s %s %s %s' % (c_ctx(c[1]), c[2], c_ip(c[3]), copt(c[4], c_num),
                                               cl([c_change(ch) for ch in c[6]]), cbytes(c[7]))
    elif t in (11, 16):
        body = 'CLlgrScenario %s %d %s %s %s %s %s' % (c_ctx(c[1]), c[2], c_ip(c[3]), copt(c[4], c_num),
                                                       c_src(c[5])[len('(SrcPeer '):-1], copt(c[6], c_nh), c_attrs(c[7]))
    else:
        raise ValueError(c)
    return '(run_case (%s))%%N' % body


# ---------------------------------------------------------------- helpers over attribute lists (oracle side)
def codes(attrs):
    return [a[0] for a in attrs]


def find(attrs, code):
    for a in attrs:
        if a[0] == code:
            return a
    return None


def partitioned_lt5(attrs):
    """the precondition under which partition_point(code < 5) is specified"""
    seen_ge = False
    for a in attrs:
        if a[0] < LOCAL_PREF:
            if seen_ge:
                return False
        else:
            seen_ge = True
    return True


def path_of(attrs):
    """('absent',) | ('ok', segs) | ('bad',)   for the first AS_PATH attribute"""
    a = find(attrs, AS_PATH)
    if a is None:
        return ('absent',)
    if a[2] == 0:
        return ('bad',)
    s = parse_path(a[3])
    return ('ok', s) if s is not None else ('bad',)


def attrs_wf(attrs):
    """attribute sets the wire decoder can produce: no duplicate codes, well-formed
    AS_PATH bytes, Val/Bin kinds as decoded, opaque only for unknown optional codes"""
    cs = codes(attrs)
    if len(set(cs)) != len(cs):
        return False
    for a in attrs:
        code, flags, kind, p = a
        if kind == 2:
            if code in CANON or not flags & F_OPT:
                return False
        else:
            if code not in CANON:
                return False
            want = 0 if code in (ORIGIN, MED, LOCAL_PREF, ORIGINATOR_ID) else 1
            if kind != want:
                return False
            if code == AS_PATH and parse_path(p) is None:
                return False
            if code in (COMMUNITY, CLUSTER_LIST) and len(p) % 4:
                return False
    return True


def chunks4(b):
    return [b[i:i + 4] for i in range(0, len(b), 4)]


def ip_unspec(ip):
    return all(x == 0 for x in ip[1])


def nh_addr(n):
    return [0 if n[0] == 0 else 1, n[1]]


def local_nh(x):
    if x[2][0] == 0:
        return [0, x[2][1]]
    if x[3]:
        return [2, x[2][1], x[3][0]]
    return [1, x[2][1]]


def src_fields(s):
    """(raddr, rasn, lasn, rid, role, llgr, is_local)"""
    if s[0] in (0, 1):
        return ([0, [0, 0, 0, 0]], 0, 0, 0, IBGP, False, s[0] == 0)
    return (s[1], s[2], s[3], s[4], s[5], bool(s[6]), False)


# ---------------------------------------------------------------- the Spec oracle (property text -> checks on observations)
def spec_attrs_for_dest(x, inp, out, what, policy_path=False):
    """sentences about the attribute rewrite for receiver context x: inp = attributes
    entering export_attrs (after policy / reflection / LLGR marking), out = what was sent"""
    role = x[0]
    if not attrs_wf(inp):
        return None
    pin, pout = path_of(inp), path_of(out)
    if role == EBGP:
        asn = x[4] if x[4] != 0 else x[1]
        for c in (LOCAL_PREF, ORIGINATOR_ID, CLUSTER_LIST, AIGP):
            if find(out, c) is not None:
                return '%s: attribute %d sent to an eBGP peer' % (what, c)
        if pout[0] != 'ok' or codes(out).count(AS_PATH) != 1:
            return '%s: no well-formed single AS_PATH towards an eBGP peer' % what
        base = [ta for ta in tflat(pin[1]) if ta[0] in (1, 2)] if pin[0] == 'ok' else []
        if tflat(pout[1]) != [(2, asn)] + base:
            return '%s: eBGP AS_PATH is not (local AS | confederation id) prepended once to the path without confederation segments' % what
    elif role in (IBGP, RRC):
        if find(out, LOCAL_PREF) is None:
            return '%s: no LOCAL_PREF towards an iBGP peer' % what
        if find(inp, LOCAL_PREF) is not None and find(out, LOCAL_PREF) != find(inp, LOCAL_PREF):
            return '%s: LOCAL_PREF changed towards an iBGP peer' % what
        if policy_path:
            # inp carries the path as rewritten by the policy's as-prepend action, packed by
            # the oracle: compare the AS sequence and segment kinds, not the segmentation
            if pout[0] != pin[0] or (pin[0] == 'ok' and tflat(pout[1]) != tflat(pin[1])):
                return '%s: AS_PATH towards an iBGP peer is not the path the policy produced' % what
        elif find(out, AS_PATH) != find(inp, AS_PATH):
            return '%s: AS_PATH touched towards an iBGP peer' % what
    elif role == CONFED:
        if pout[0] != 'ok' or codes(out).count(AS_PATH) != 1:
            return '%s: no well-formed single AS_PATH towards a confed-eBGP peer' % what
        base = tflat(pin[1]) if pin[0] == 'ok' else []
        if tflat(pout[1]) != [(3, x[1])] + base or pout[1][0][0] != 3:
            return '%s: member AS not prepended in an AS_CONFED_SEQUENCE' % what
        if find(inp, LOCAL_PREF) is not None and find(out, LOCAL_PREF) != find(inp, LOCAL_PREF):
            return '%s: LOCAL_PREF not retained towards a confed-eBGP peer' % what
    # unknown attributes, every role
    for a in inp:
        if a[2] == 2:
            fw = [b for b in out if b[0] == a[0]]
            if a[1] & F_TRANS:
                if fw != [[a[0], a[1] | F_PARTIAL, 2, a[3]]]:
                    return '%s: unknown transitive attribute %d not forwarded with Partial set' % (what, a[0])
            elif fw:
                return '%s: unknown non-transitive attribute %d forwarded' % (what, a[0])
    for b in out:
        if b[2] == 2 and find(inp, b[0]) is None:
            return '%s: unknown attribute %d appeared' % (what, b[0])
    return None


def spec_llgr(out, what):
    c = find(out, COMMUNITY)
    if c is None or c[2] == 0 or LLGR_STALE not in chunks4(c[3]):
        return '%s: LLGR-stale route sent without the LLGR_STALE community' % what
    return None


def spec_reflect(inp, out, rid, cid, what):
    """inp -> out is a reflection by cluster cid of a route learned from router rid"""
    o_in, o_out = find(inp, ORIGINATOR_ID), find(out, ORIGINATOR_ID)
    if o_out is None:
        return '%s: reflected route has no ORIGINATOR_ID' % what
    if o_in is not None and o_out != o_in:
        return '%s: reflection overwrote ORIGINATOR_ID' % what
    if o_in is None and o_out[2:] != [0, rid]:
        return '%s: ORIGINATOR_ID is not the router id of the originating peer' % what
    c_in, c_out = find(inp, CLUSTER_LIST), find(out, CLUSTER_LIST)
    old = c_in[3] if c_in is not None and c_in[2] != 0 else []
    if c_out is None or c_out[2] == 0 or c_out[3] != be32(cid) + old:
        return '%s: cluster id not prepended to CLUSTER_LIST' % what
    if codes(out).count(CLUSTER_LIST) != 1 or codes(out).count(ORIGINATOR_ID) != max(1, codes(inp).count(ORIGINATOR_ID)):
        return '%s: duplicate ORIGINATOR_ID / CLUSTER_LIST after reflection' % what
    return None


def spec_nexthop(x, nh_in, nh_out, fam, is_local, what):
    """next-hop sentences: self towards eBGP; untouched towards iBGP"""
    role = x[0]
    has = bool(nh_in)
    explicit_local = is_local and has and not ip_unspec(nh_addr(nh_in[0]))
    if role == EBGP:
        if explicit_local:
            return None     # see Known_C09 discussion in Spec/ExportSpec.v: API-supplied next hop is kept
        if not has and fam in FLOWSPECS:
            return None     # Flowspec carries no next hop
        if nh_out != [local_nh(x)]:
            return '%s: next hop towards an eBGP peer is not self' % what
    elif role in (IBGP, RRC):
        if has and not (is_local and ip_unspec(nh_addr(nh_in[0]))) and nh_out != nh_in:
            return '%s: next hop touched towards an iBGP peer' % what
    return None


def _strip_rust(src):
    """comments and white space removed: the token stream that matters"""
    out, i, n = [], 0, len(src)
    while i < n:
        if src.startswith('//', i):
            j = src.find('\n', i)
            i = n if j < 0 else j
        elif src.startswith('/*', i):
            j = src.find('*/', i + 2)
            i = n if j < 0 else j + 2
        elif src[i].isspace():
            i += 1
        else:
            out.append(src[i])
            i += 1
    return ''.join(out)


def source_fingerprint(repo):
    """hash of the anchored code the model mirrors (DESIGN 5.4): a change does not raise
    an alarm, it makes the quick run as deep as the thorough one for this property"""
    import hashlib
    h = hashlib.sha256()
    try:
        ex = open(os.path.join(repo, 'daemon/src/event/export.rs')).read()
        ex = ex.split('// Verification harness')[0]
        h.update(_strip_rust(ex).encode())
        bg = open(os.path.join(repo, 'packet/src/bgp.rs')).read()
        a, b = bg.find('pub fn as_path_count'), bg.find('pub fn as_path_origin')
        h.update(_strip_rust(bg[a:b]).encode())
        a = bg.find('pub fn is_opaque')
        b = bg.find('pub fn canonical_flags')
        h.update(_strip_rust(bg[a:b]).encode())
        ev = open(os.path.join(repo, 'daemon/src/event/mod.rs')).read()
        a = ev.find('async fn rx_update')
        b = ev.find('if let Some(s) = reach {', a)
        h.update(_strip_rust(ev[a:b]).encode())
        a = ev.find('if !is_as_loop(')
        h.update(_strip_rust(ev[a - 400:a + 600]).encode())
        for start, end in (('fn handle_prefix_update', 'async fn rx_msg'), ('fn apply_refresh_walk', 'async fn apply_outputs')):
            a = ev.find(start)
            b = ev.find(end, a)
            h.update(_strip_rust(ev[a:b]).encode())
        tb = open(os.path.join(repo, 'table/src/lib.rs')).read()
        a = tb.find('pub fn restale_llgr')
        b = tb.find('pub fn drop_no_llgr', a)
        h.update(_strip_rust(tb[a:b]).encode())
    except OSError:
        return 'unreadable'
    return h.hexdigest()


class Prop:
    pid = 'C09'
    props_file = 'Props/C09.v'
    required_theorems = ['no_echo', 'no_ibgp_nonclient_to_nonclient', 'no_rs_boundary_crossing', 'loops_never_installed', 'ebgp_rewrite', 'ebgp_any_policy', 'ibgp_rewrite', 'ibgp_local_pref_any_policy', 'reflection_adds_originator_and_cluster', 'confed_rewrite', 'llgr_stale_marked', 'llgr_stale_readvertised', 'llgr_stale_readvertised_refuted', 'unknown_attr_rule', 'unknown_attr_rule_any_policy', 'as_path_prepend_spec', 'as_path_full_segment_rule', 'as_path_strip_confed_spec', 'as_path_count_spec', 'ebgp_policy_med', 'policy_actions_keep_decodable', 'no_panic_on_decodable', 'as_path_view_unambiguous', 'llgr_view_refreshed', 'llgr_refresh_addpath', 'llgr_refresh_best_only', 'llgr_stream_best_only', 'as_path_prepend_total', 'export_map_covers_view_addpath', 'export_map_covers_view_addpath_history', 'llgr_stream_addpath', 'no_llgr_route_withdrawn', 'llgr_scenario_full_without_no_llgr', 'export_map_within_view_addpath', 'export_map_exact_addpath_history', 'queued_announcements_are_advertised', 'family_not_negotiated_sends_nothing', 'refresh_announcements_are_advertised', 'propagation_exactly_where_allowed', 'kernel_routes_withheld_from_nonclient_ibgp', 'best_only_complete', 'history_view_allowed', 'process_change_r_lower', 'process_change_r_lift', 'policy_prepend_then_export', 'loop_free_installed', 'rtc_filter_is_a_policy_wrapper', 'export_map_tracks_view', 'export_map_tracks_view_history']
    correspondence_name = ('Model/Export.v run_case vs daemon/src/event/export.rs + packet/src/bgp.rs AS_PATH edits '
                           '(harness/daemon/export_hx.rs)')
    rule = ('cases = one call of a real function each (AS_PATH edit, is_as_loop, export_attrs, pre_policy_defaults, '
            'rr_reflect_attrs, with_llgr_stale_community, inject_local_pref_if_absent, the suppress predicates, '
            'process_nlri_change with a recording sink, rx_update); the role x role x RR x confederation x origin-kind '
            'matrix is enumerated completely on every run and crossed with seeded random attribute sets; a case is '
            'non-trivial when the call rewrites, suppresses or drops something; distinct = distinct (tag, roles, '
            'configuration, shape of input attributes, shape of the observation)')
    exhaustive = {'quick': False, 'thorough': False}
    trusted_base = [
        'attribute vectors are built in the harness with Attribute::new_with_value / new_with_bin / new_opaque, and, for '
        'recognised attributes with non-canonical flag bits (Partial, Extended Length, unused bits), by parsing a one-attribute '
        'UPDATE with the real PeerCodec::parse_message',
        'the receive side runs the real PeerSession::rx_msg (is_as_loop guard, FSM, rx_update) on a session brought to '
        'Established by feeding its FSM Connected / OPEN / KEEPALIVE; the Loc-RIB is read back through '
        'TableManager::collect_loc_rib_paths; validate_message (C05) is not in the path',
        'export policy is an arbitrary function in the theorems (a Gallina parameter); against the implementation it is '
        'None or a one-statement table::PolicyAssignment with next-hop / MED / as-prepend actions and accept / reject '
        '(model: stmt_policy_r, which can panic like the code); conditions, the other actions and multi-statement chains '
        'are property C14',
        'the caller: the real PeerSession::handle_prefix_update (family negotiated or not, its own send-max lookup, address, cluster id, export '
        'context, session export policy) and the real PendingTx::reach / unreach / drain_messages are run on histories (kind 17); the RTC branch '
        'of handle_prefix_update (VPN families) and BMP senders are not entered; the real PeerSession::apply_refresh_walk runs after such a '
        'history, under the same or another session export policy (kind 18)',
        'BMP Adj-RIB-Out notifications of process_nlri_change are passed as None (they do not feed back); the RTC filter is None or a real '
        'RtcFilter built with from_paths from wildcard / exact-match RTC NLRIs (model: with_rtc, a wrapper around the policy)',
        'HashSet iteration order of the Add-Path withdrawals and the partition_point position of an injected LOCAL_PREF in a '
        'vector that is not partitioned by code are compared modulo order (the property does not constrain them)',
        'the LLGR scenario runs the real Table::insert / restale_llgr / drop_no_llgr on a one-destination, one-path table, and '
        'once more through the real TableManager (insert_route, the registered neighbour channel, mark_llgr_stale); the '
        'model of restale_llgr\'s change stream (restale_llgr_changes) takes the re-sorted eligible path list as an input '
        '(sorting and eligibility are the Rib properties C02/C06) and is tied to the real table for that shape only',
    ]
    assumptions = [
        'decodable: attribute vectors are what the UPDATE decoder produces (opaque only for unrecognised codes, well-formed '
        'AS_PATH segments, COMMUNITY length a multiple of 4) - guaranteed by packet/src/bgp.rs (properties C03/C05); '
        'API-injected vectors (C17) may violate it, and the model then shows the panics / oddities the code has',
        'Source.role in {Ibgp, IbgpRrClient} implies remote_asn = local_asn (session set-up, properties C07/C16)',
        'AS numbers of PeerExportContext are u32 (wf_ctx)',
        'filter_only / policy_keeps_decodable hypotheses on the export policy are stated per theorem',
    ]

    def case_to_json(self, c):
        return c

    def corpus_cases(self):
        d = os.path.join(os.path.dirname(os.path.dirname(os.path.abspath(__file__))), 'corpus', 'C09')
        out = []
        if os.path.isdir(d):
            for fn in sorted(os.listdir(d)):
                if fn.endswith('.json'):
                    out.append(json.load(open(os.path.join(d, fn)))['case'])
        return out

    def case_from_json(self, j):
        return j

    # ---------------------------------------------------------------- generators
    def gen_path_segs(self, rng, allow_full=True):
        n = rng.choice([0, 1, 1, 2, 2, 3, 4])
        segs = []
        for k in range(n):
            t = rng.choice([2, 2, 2, 1, 3, 3, 4])
            m = rng.choice([0, 1, 1, 2, 3, 5])
            if allow_full and k == 0 and rng.random() < 0.12:
                m = rng.choice([254, 255, 255])
            segs.append((t, [rng.choice(ASNS) if rng.random() < 0.5 else rng.choice([64512, 64513, 100, 200, 300])
                             for _ in range(m)]))
        return segs

    def gen_path_bytes(self, rng, malformed=False):
        b = enc_path(self.gen_path_segs(rng))
        if malformed:
            k = rng.random()
            if k < 0.3 and b:
                b = b[:rng.randrange(len(b))]
            elif k < 0.5:
                b = [rng.choice([2, 3, 1, 4])]
            elif k < 0.7:
                b = b + [rng.choice([2, 3]), rng.choice([1, 2, 255])] + [0] * rng.choice([0, 1, 3, 5])
            elif k < 0.85:
                b = [rng.choice([0, 5, 255]), 1, 0, 0, 0, 9] + b
            else:
                b = [rng.choice([3, 4]), rng.choice([2, 255])] + [0, 0, 0, 1]
        return b

    def gen_attrs(self, rng, mode='wire'):
        """mode 'wire': what the decoder can produce; 'any': also API-shaped oddities
        (duplicates, Val-typed AS_PATH, opaque with known codes, malformed AS_PATH bytes)"""
        attrs = []
        p = rng.choice([0.25, 0.5, 0.75])

        def maybe(q=None):
            return rng.random() < (p if q is None else q)
        if maybe(0.8):
            attrs.append([ORIGIN, 0x40, 0, rng.choice([0, 1, 2])])
        if maybe(0.8):
            attrs.append([AS_PATH, 0x40, 1, self.gen_path_bytes(rng, malformed=(mode == 'any' and rng.random() < 0.3))])
        if maybe(0.3):
            attrs.append([NEXTHOP, 0x40, 1, [10, 0, 0, rng.choice([1, 2, 3])]])
        if maybe():
            attrs.append([MED, 0x80, 0, rng.choice([0, 10, 4294967295])])
        if maybe():
            attrs.append([LOCAL_PREF, 0x40, 0, rng.choice([0, 100, 200])])
        if maybe(0.2):
            attrs.append([ATOMIC, 0x40, 1, []])
        if maybe(0.2):
            attrs.append([AGGREGATOR, 0xC0, 1, be32(65002) + [10, 0, 0, 9]])
        if maybe():
            comms = [rng.choice([LLGR_STALE, [255, 255, 0, 7], [253, 233, 0, 1], [255, 255, 255, 1], [0, 6, 255, 255]])
                     for _ in range(rng.choice([0, 1, 2, 3]))]
            attrs.append([COMMUNITY, 0xC0, 1, [x for c in comms for x in c]])
        if maybe():
            attrs.append([ORIGINATOR_ID, 0x80, 0, rng.choice([0, 0x0a000001, 0x01000001, 0x0a000002])])
        if maybe():
            attrs.append([CLUSTER_LIST, 0x80, 1, [x for _ in range(rng.choice([0, 1, 2, 3]))
                                                 for x in be32(rng.choice([0x01020304, 0x01000001, 0x0a0a0a0a]))]])
        if maybe(0.3):
            rts = [rng.choice(self.RTS) for _ in range(rng.choice([0, 1, 1, 2, 3]))]
            b = [x for rt in rts for x in rt]
            if mode == 'any' and rng.random() < 0.2:
                b = b + [0, 2, 253]                                  # ragged tail: chunks_exact ignores it
            attrs.append([EXT_COMMUNITY, 0xC0, 1, b])
        if maybe():
            attrs.append([AIGP, 0x80, 1, [1, 0, 11, 0, 0, 0, 0, 0, 0, 0, 5]])
        if maybe(0.2):
            attrs.append([LARGE_COMMUNITY, 0xC0, 1, be32(65001) + be32(1) + be32(2)])
        # unknown attributes: transitive (kept by the decoder as opaque) and, in 'any'
        # mode, non-transitive ones (the decoder drops these itself; API / MRT may not)
        used = set()
        for _ in range(rng.choice([0, 0, 1, 1, 2, 3])):
            code = rng.choice([c for c in (11, 19, 99, 128, 200, 254, 255) if c not in used])
            used.add(code)
            if mode == 'wire':
                flags = rng.choice([0xC0, 0xC0, 0xE0, 0xD0, 0xF0])
            else:
                flags = rng.choice([0xC0, 0xE0, 0xD0, 0x80, 0x80, 0xA0, 0x90, 0x40, 0x00])
            attrs.append([code, flags, 2, [rng.randrange(256) for _ in range(rng.choice([0, 1, 4, 9]))]])
        if mode == 'any':
            k = rng.random()
            if k < 0.15 and attrs:
                attrs.append(list(rng.choice(attrs)))            # duplicate code
            elif k < 0.25:
                attrs.append([AS_PATH, 0x40, 0, 7])              # Val-typed AS_PATH: binary() is None
            elif k < 0.35:
                attrs.append([rng.choice([LOCAL_PREF, COMMUNITY, AS_PATH, CLUSTER_LIST, ORIGINATOR_ID, MED]),
                              rng.choice([0xC0, 0x80, 0x40]), 2, be32(rng.choice([LOCAL_AS, 7]))])   # opaque, known code
            elif k < 0.42:
                attrs.append([COMMUNITY, 0xC0, 1, [255, 255, 0]])   # ragged community list
        # flag bits only the decoder can put on a recognised attribute: Partial, Extended
        # Length, the four unused bits (the harness then builds that attribute by parsing an
        # UPDATE); only on values the decoder accepts
        for a in attrs:
            if a[2] != 2 and a[0] in (ORIGIN, AS_PATH, MED, LOCAL_PREF, COMMUNITY, ORIGINATOR_ID, CLUSTER_LIST,
                                      EXT_COMMUNITY, AIGP, LARGE_COMMUNITY) and rng.random() < 0.12:
                if a[0] == AS_PATH and (a[2] != 1 or parse_path(a[3]) is None
                                        or any(not sg[1] for sg in parse_path(a[3]))):
                    continue        # the decoder refuses malformed paths and (5e6671b) zero-length segments
                if a[0] in (COMMUNITY, CLUSTER_LIST) and (len(a[3]) % 4 or not a[3]):
                    continue        # ... and (36a2dde) empty COMMUNITIES / CLUSTER_LIST
                if (a[0] == EXT_COMMUNITY and (len(a[3]) % 8 or not a[3])) or (a[0] == LARGE_COMMUNITY and (len(a[3]) % 12 or not a[3])):
                    continue
                if a[2] == 1 and len(a[3]) > 255:
                    a[1] = CANON[a[0]] | 0x10 | rng.choice([0, 0x20])
                else:
                    a[1] = CANON[a[0]] | rng.choice([0x20, 0x10, 0x30, 0x01, 0x2f])
        if rng.random() < (0.15 if mode == 'wire' else 0.3):
            rng.shuffle(attrs)
        return attrs

    RTS = [[0, 2, 253, 233, 0, 0, 0, 1], [0, 2, 253, 233, 0, 0, 0, 2], [1, 2, 10, 0, 0, 1, 0, 9], [0, 2, 253, 234, 0, 0, 0, 1]]
    ADDR4 = [[0, [10, 0, 0, 1]], [0, [10, 0, 0, 2]], [0, [10, 0, 0, 3]], [0, [0, 0, 0, 0]]]
    ADDR6 = [[1, [0x20, 1, 0xd, 0xb8] + [0] * 11 + [1]], [1, [0x20, 1, 0xd, 0xb8] + [0] * 11 + [2]], [1, [0] * 16]]
    LL = [0xfe, 0x80] + [0] * 13 + [1]

    def gen_ctx(self, rng, role=None, confed=None):
        role = rng.choice(ROLES) if role is None else role
        v6 = rng.random() < 0.3
        laddr = [1, [0x20, 1, 0xd, 0xb8] + [0] * 11 + [0xfe]] if v6 else [0, [192, 0, 2, 1]]
        link = [self.LL] if rng.random() < 0.5 else []
        if confed is None:
            confed = rng.choice([0, 0, CONFED_ID, LOCAL_AS])
        return [role, LOCAL_AS, laddr, link, confed]

    def gen_nh(self, rng):
        k = rng.random()
        if k < 0.15:
            return []
        if k < 0.55:
            return [[0, rng.choice(self.ADDR4)[1]]]
        if k < 0.8:
            return [[1, rng.choice(self.ADDR6)[1]]]
        return [[2, rng.choice(self.ADDR6)[1], self.LL]]

    def gen_source(self, rng, kind=None, role=None):
        kind = rng.choice([0, 1, 2, 2, 2, 2]) if kind is None else kind
        if kind != 2:
            return [kind]
        role = rng.choice(ROLES) if role is None else role
        rasn = LOCAL_AS if role in (IBGP, RRC) else rng.choice([65002, 65003, 65002, LOCAL_AS])
        if rng.random() < 0.05:
            rasn = rng.choice([LOCAL_AS, 65002])       # role / AS disagreement (expected_remote_asn = 0 configs)
        return [2, rng.choice(self.ADDR4[:3] + self.ADDR6[:2]), rasn, LOCAL_AS,
                rng.choice([0x0a000001, 0x0a000002, 0]), role, 1 if rng.random() < 0.25 else 0]

    def matrix(self):
        """source kind/role x destination role x cluster id x confederation: complete"""
        srcs = [[0], [1]] + [[2, self.ADDR4[1], (LOCAL_AS if r in (IBGP, RRC) else 65002), LOCAL_AS, 0x0a000002, r, 0]
                             for r in ROLES]
        for s in srcs:
            for d in ROLES:
                for cid in ([], [0x01020304]):
                    for confed in (0, CONFED_ID):
                        yield s, d, cid, confed

    # ================================================================ audit classes: enumerated on every run
    # (no randomness: every clause of the property and every branch of the anchored code has a
    # class here, with the boundary values on both sides of each comparison; classify() tags them)
    A_RX = [0, [10, 0, 0, 1]]                 # the receiver's address
    A_PEER = [0, [10, 0, 0, 2]]
    A_PEER6 = [1, [0x20, 1, 0xd, 0xb8] + [0] * 11 + [2]]
    OWN_RID = 0x01000001
    OWN_CID = 0x01020304
    NO_LLGR = [255, 255, 0, 7]
    # AS numbers whose octets look like segment headers / counts
    HDR_ASNS = [0x02010000, 0x03FF0203, 65002, 0x01020304, 0x04000000, 0x0000FDE9]

    def a_ctx(self, role, confed=0, laddr=0):
        la = [0, [192, 0, 2, 1]] if laddr in (0, 3) else [1, [0x20, 1, 0xd, 0xb8] + [0] * 11 + [0xfe]]
        return [role, LOCAL_AS, la, [self.LL] if laddr in (2, 3) else [], confed]

    def a_src(self, kind, llgr=0, addr=None):
        """kind: 'local' | 'kernel' | role number"""
        if kind == 'local':
            return [0]
        if kind == 'kernel':
            return [1]
        rasn = LOCAL_AS if kind in (IBGP, RRC) else 65002
        return [2, addr or self.A_PEER, rasn, LOCAL_AS, 0x0a000002, kind, llgr]

    def a_path_attr(self, segs):
        return [AS_PATH, 0x40, 1, enc_path(segs)]

    def a_one(self, x, emax, cid, path, em=None, fam=IPV4, bc=1, ac=1, rep=None):
        ch = [fam, 1, bc, ac, rep or [], [path] if isinstance(path[0], int) else path]
        return [x, emax, self.A_RX, cid, ch, em if em is not None else ([0] if emax == 1 else [2, []]), [1, 2]]

    def cid_for(self, d):
        return [self.OWN_CID] if d in (IBGP, RRC) else []

    def gen_audit(self):
        out = []

        def add(cls, case):
            out.append((cls, case))
        big = lambda n, k=0: [self.HDR_ASNS[(i + k) % len(self.HDR_ASNS)] for i in range(n)]
        # ---- AS_PATH edits: head type x count byte at every boundary, AS octets that look like headers,
        # a second segment behind so that a lost step shows
        tail = [2, 1] + be32(LOCAL_AS)
        for b0 in (1, 2, 3, 4):
            for n in (0, 1, 63, 64, 127, 128, 253, 254, 255):
                a = [AS_PATH, 0x40, 1, [b0, n] + [b for v in big(n) for b in be32(v)] + tail]
                add('cls_path_count_boundaries', [0, 2, 65003, a])
                add('cls_path_count_boundaries', [0, 3, 65003, a])
                add('cls_path_count_boundaries', [1, a])
                add('cls_path_count_boundaries', [2, [a], LOCAL_AS, 0])
                add('cls_path_count_boundaries', [2, [a], 64999, LOCAL_AS])
        for b0 in (0, 5, 255):
            for n in (0, 1, 255):
                a = [AS_PATH, 0x40, 1, [b0, n] + [b for v in big(n) for b in be32(v)]]
                for cse in ([0, 2, 65003, a], [0, 3, 65003, a], [1, a], [2, [a], 65002, 0]):
                    add('cls_path_bad_type_head', cse)
        for asn in (0, 1, 255, 256, 65535, 65536, 23456, 2147483648, 4294967295, 0x02010000, 0x03ff0000):
            for ty in (2, 3):
                for head in ([], [(ty, [65002])], [(5 - ty, [65002])]):
                    add('cls_prepend_asn_boundaries', [0, ty, asn, self.a_path_attr(head)])
        # ---- every segment type at every position (1..3 segments), an empty / a full segment at each position
        for n in (1, 2, 3):
            for types in itertools.product((1, 2, 3, 4), repeat=n):
                base = [(t, [64512 + k]) for k, t in enumerate(types)]
                variants = [base]
                for k in range(n):
                    variants.append(base[:k] + [(types[k], [])] + base[k + 1:])
                    if n <= 2:
                        variants.append(base[:k] + [(types[k], big(255, k))] + base[k + 1:])
                for v in variants:
                    a = self.a_path_attr(v)
                    add('cls_strip_every_type_position', [1, a])
                    if n <= 2:
                        add('cls_strip_every_type_position', [0, 2 + (n % 2), LOCAL_AS, a])
        # ---- the local AS / confederation id at the first / last place of each kind of segment, of the
        # first / last segment, behind a full segment; confederation id below, above and equal to the local AS
        for t in (1, 2, 3, 4):
            for where in ('first', 'last', 'last255'):
                for which in (0, 1):
                    for confed in (0, 65100, 65000, LOCAL_AS):
                        for target in ('local', 'confed'):
                            if target == 'confed' and confed in (0, LOCAL_AS):
                                continue
                            asn = LOCAL_AS if target == 'local' else confed
                            if where == 'first':
                                seg = (t, [asn, 64512, 64513])
                            elif where == 'last':
                                seg = (t, [64512, 64513, asn])
                            else:
                                seg = (t, big(254) + [asn])
                            other = (2 if t != 2 else 1, [64600, 64601])
                            segs = [seg, other] if which == 0 else [other, seg]
                            attrs = [[ORIGIN, 0x40, 0, 0], self.a_path_attr(segs)]
                            add('cls_loop_position', [2, attrs, LOCAL_AS, confed])
                            if where != 'last255':
                                for role in ROLES:
                                    add('cls_loop_position_rx', [10, self.a_ctx(role, confed), self.OWN_RID, self.cid_for(role), attrs])
        # near misses: neighbours of the local AS, the local AS split over two AS numbers' octets
        for asn in (LOCAL_AS - 1, LOCAL_AS + 1, LOCAL_AS << 16, LOCAL_AS >> 8):
            attrs = [[ORIGIN, 0x40, 0, 0], self.a_path_attr([(2, [asn & 0xffffffff, 64512])])]
            add('cls_loop_near_miss', [2, attrs, LOCAL_AS, 0])
            add('cls_loop_near_miss', [10, self.a_ctx(EBGP), self.OWN_RID, [], attrs])
        attrs = [[ORIGIN, 0x40, 0, 0], self.a_path_attr([(2, [0x0000FDE9 >> 8, (0xE9 << 24) | 0x00FDE9])])]
        add('cls_loop_near_miss', [2, attrs, LOCAL_AS, 0])
        # ---- export_attrs: every receiver role x confederation configuration x path shape
        shapes = [None, []]
        shapes += [[(t, [64512])] for t in (1, 2, 3, 4)]
        shapes += [[(t, big(255)), (2, [64600])] for t in (1, 2, 3, 4)]
        shapes += [[(t, big(254)), (2, [64600])] for t in (2, 3)]
        shapes += [[(t1, [64512, 64513]), (t2, [64600])] for t1 in (1, 2, 3, 4) for t2 in (1, 2, 3, 4)]
        shapes += [[(3, [64512]), (4, [64513]), (2, [64600])], [(2, [64512]), (3, [64513]), (2, [64600])],
                   [(4, [64512]), (1, [64513]), (3, [64600])], [(3, []), (2, [64600])], [(2, []), (3, [64513])]]
        for role in ROLES:
            for confed in (0, 65100, 65000, LOCAL_AS):
                for sh in shapes:
                    attrs = [[ORIGIN, 0x40, 0, 0]] + ([self.a_path_attr(sh)] if sh is not None else []) + \
                            [[MED, 0x80, 0, 7], [LOCAL_PREF, 0x40, 0, 200]]
                    add('cls_export_role_confed_path', [3, self.a_ctx(role, confed), attrs])
        # ---- MED: received / locally set / policy-set, per source kind x receiver role
        for sk in ('local', 'kernel', EBGP, IBGP, RRC, CONFED, RS):
            for d in ROLES:
                for med in (None, 0, 4294967295):
                    for pol in (None, [1, 5], [0, 7], [0, -3]):
                        attrs = [[ORIGIN, 0x40, 0, 0], self.a_path_attr([(2, [65002])])] + ([[MED, 0x80, 0, med]] if med is not None else [])
                        p = [1, self.a_src(sk), [[0, [10, 0, 0, 9]]], attrs]
                        c = self.a_one(self.a_ctx(d), 1, self.cid_for(d), p)
                        if pol is None:
                            add('cls_med_by_role_pair', [9] + c)
                        else:
                            add('cls_med_by_role_pair', [12] + c + [[[], [pol], 1, 2, []]])
        # MED action clamps at the u32 ends
        for cur in (0, 1, 4294967295):
            for act in ([0, -1], [0, 0], [0, 1], [0, 4294967295], [0, 4294967296], [0, -4294967296],
                        [1, -1], [1, 0], [1, 4294967295], [1, 4294967296]):
                for d in (EBGP, IBGP):
                    attrs = [[ORIGIN, 0x40, 0, 0], self.a_path_attr([(2, [65002])]), [MED, 0x80, 0, cur]]
                    p = [1, self.a_src(EBGP), [[0, [10, 0, 0, 9]]], attrs]
                    add('cls_med_clamp', [12] + self.a_one(self.a_ctx(d), 1, self.cid_for(d), p) + [[[], [act], 1, 2, []]])
        # ---- next hop: stored kind x session address kind x origin x receiver role x family
        nhs = [[], [[0, [10, 0, 0, 9]]], [[0, [0, 0, 0, 0]]], [[1, self.A_PEER6[1]]], [[1, [0] * 16]], [[2, self.A_PEER6[1], self.LL]],
               [[2, [0] * 16, self.LL]]]
        for nh in nhs:
            for la in (0, 1, 2, 3):
                for il in (0, 1):
                    for role in ROLES:
                        for fam in (IPV4, IPV6, FLOWSPEC4, FLOWSPEC6, FLOWSPEC4_VPN, FLOWSPEC6_VPN):
                            if fam not in (IPV4, FLOWSPEC6_VPN) and (nh or la == 1):
                                continue
                            add('cls_nexthop_default', [4, self.a_ctx(role, 0, la), [[ORIGIN, 0x40, 0, 0], [MED, 0x80, 0, 1]], nh, fam, il])
        # ... and under the export policy's next-hop actions
        for nh in ([], [[0, [10, 0, 0, 9]]], [[2, self.A_PEER6[1], self.LL]], [[0, [0, 0, 0, 0]]]):
            for la in (0, 2):
                for sk in ('local', EBGP):
                    for d in ROLES:
                        for act in ([1], [3], [0, [0, [10, 0, 0, 77]]], [0, self.A_PEER6], [2]):
                            sk2 = RS if (d == RS and sk == EBGP) else sk
                            p = [1, self.a_src(sk2), nh, [[ORIGIN, 0x40, 0, 0], self.a_path_attr([(2, [65002])])]]
                            add('cls_nexthop_policy_action',
                                [12] + self.a_one(self.a_ctx(d, 0, la), 1, self.cid_for(d), p) + [[[act], [], 1, 2, []]])
        # ---- ORIGINATOR_ID / CLUSTER_LIST at the boundaries
        own = be32(self.OWN_CID)

        def clist(L, where):
            ids = [0x0a0a0a00 + (k % 200) for k in range(L)]
            b = [x for i in ids for x in be32(i)]
            if where == 'first' and L >= 1:
                b[0:4] = own
            elif where == 'last' and L >= 1:
                b[-4:] = own
            elif where == 'middle' and L >= 3:
                b[4 * (L // 2):4 * (L // 2) + 4] = own
            elif where == 'misaligned' and L >= 2:
                b[2:6] = own                      # own id across two entries: chunks(4) must not see it
            elif where == 'ragged':
                b = b + own[:2]
            return b
        cl_variants = [None]
        for L in (0, 1, 2, 3, 63, 64, 255):
            for where in ('absent', 'first', 'last', 'middle', 'misaligned', 'ragged'):
                if (where in ('first', 'last') and L < 1) or (where == 'middle' and L < 3) or (where == 'misaligned' and L < 2):
                    continue
                if L in (63, 64, 255) and where in ('middle', 'ragged'):
                    continue
                cl_variants.append(clist(L, where))
        for clv in cl_variants:
            for orig in (None, self.OWN_RID, self.OWN_RID + 1, self.OWN_RID - 1, 0):
                if clv is not None and len(clv) > 16 and orig not in (None, self.OWN_RID):
                    continue
                for role in (IBGP, RRC, EBGP):
                    attrs = [[ORIGIN, 0x40, 0, 0], self.a_path_attr([(2, [65002])])]
                    if orig is not None:
                        attrs.append([ORIGINATOR_ID, 0x80, 0, orig])
                    if clv is not None:
                        attrs.append([CLUSTER_LIST, 0x80, 1, clv])
                    add('cls_rr_loop_boundaries', [10, self.a_ctx(role), self.OWN_RID, self.cid_for(role), attrs])
        for L in (None, 0, 1, 63, 64, 255):
            for orig in (None, 0x0a000009):
                attrs = [[ORIGIN, 0x40, 0, 0]] + ([[ORIGINATOR_ID, 0x80, 0, orig]] if orig is not None else []) + \
                        ([[CLUSTER_LIST, 0x80, 1, clist(L, 'absent')]] if L is not None else [])
                add('cls_reflect_list_sizes', [5, attrs, 0x0a000002, self.OWN_CID])
                if L in (None, 1, 64, 255):
                    p = [1, self.a_src(RRC), [[0, [10, 0, 0, 9]]], attrs + [self.a_path_attr([(2, [65002])])]]
                    for d in (IBGP, RRC):
                        for emax in (1, 2):
                            add('cls_reflect_list_sizes', [9] + self.a_one(self.a_ctx(d), emax, [self.OWN_CID], p))
        # ---- unknown attributes: every combination of optional x transitive x partial x extended-length
        for hi in range(16):
            for low in ((0, 0xf) if hi in (0xc, 0x8) else (0,)):
                for role in ROLES:
                    for dl in (1, 256):
                        attrs = [[ORIGIN, 0x40, 0, 0], self.a_path_attr([(2, [65002])]),
                                 [99, (hi << 4) | low, 2, [(7 * k) % 256 for k in range(dl)]]]
                        add('cls_unknown_flag_combinations', [3, self.a_ctx(role), attrs])
        for role in ROLES:
            attrs = [[ORIGIN, 0x40, 0, 0], [11, 0xc0, 2, []], [255, 0xe0, 2, [1]], [128, 0x80, 2, [2]], [200, 0x90, 2, [3]],
                     self.a_path_attr([(2, [65002])])]
            add('cls_unknown_flag_combinations', [3, self.a_ctx(role), attrs])
        # ---- LLGR_STALE / NO_LLGR: what the COMMUNITY attribute holds when a stale route is exported
        llgr, nol, oth = LLGR_STALE, self.NO_LLGR, [253, 233, 0, 1]
        comm_variants = [None, [], nol, llgr, nol + llgr, llgr + nol, oth, oth * 63 + llgr, oth * 64, oth * 63 + nol,
                         [0, 255, 255, 0, 6, 0, 0, 0], [255, 255, 0], oth + [255, 255, 0, 6][:3], [0, 6, 255, 255]]
        for cv in comm_variants:
            base = [[ORIGIN, 0x40, 0, 0], self.a_path_attr([(2, [65002])])] + ([[COMMUNITY, 0xC0, 1, cv]] if cv is not None else [])
            add('cls_llgr_community_shapes', [6, base])
            for stale in (0, 1):
                for d in ROLES:
                    sk = RS if d == RS else (RRC if d in (IBGP, RRC) else EBGP)
                    p = [1, self.a_src(sk, stale), [[0, [10, 0, 0, 9]]], base]
                    add('cls_llgr_community_shapes', [9] + self.a_one(self.a_ctx(d), 1 + stale, self.cid_for(d), p))
        # ... and through the real table: Table::insert, export, restale_llgr + drop_no_llgr, export
        for cv in comm_variants:
            base = [[ORIGIN, 0x40, 0, 0], self.a_path_attr([(2, [65002])])] + ([[COMMUNITY, 0xC0, 1, cv]] if cv is not None else [])
            for d in ROLES:
                sk = RS if d == RS else (RRC if d in (IBGP, RRC) else EBGP)
                for emax in (1, 2):
                    add('cls_llgr_no_llgr_real_table', [11, self.a_ctx(d), emax, self.A_RX, self.cid_for(d), self.a_src(sk), [[0, [10, 0, 0, 9]]], base])
        # ---- route-server boundary, with the route server's own (local / kernel) routes
        for sk in ('local', 'kernel', EBGP, RS, IBGP, RRC, CONFED):
            for d in ROLES:
                for emax in (1, 2):
                    p = [1, self.a_src(sk), [[0, [10, 0, 0, 9]]], [[ORIGIN, 0x40, 0, 0], self.a_path_attr([(2, [65002])])]]
                    add('cls_rs_boundary' if (d == RS or sk == RS) else 'cls_role_pair', [9] + self.a_one(self.a_ctx(d), emax, self.cid_for(d), p))
        # ---- process_nlri_change: every small state.  Three labelled paths (two that may go, one that is the
        # receiver's own), every order of every subset, send-max 1 / 2 / 3, every recorded state of the
        # export map, the change flags, a replaced id
        mk = lambda pid, addr: [pid, self.a_src(EBGP, 0, addr), [[0, [10, 0, 0, 9]]], [[ORIGIN, 0x40, 0, pid % 3], self.a_path_attr([(2, [65002])])]]
        labelled = [mk(1, self.A_PEER), mk(2, [0, [10, 0, 0, 3]]), mk(3, self.A_RX)]
        orders = [[]]
        for n in (1, 2, 3):
            orders += [list(o) for o in itertools.permutations(labelled, n)]
        x = self.a_ctx(EBGP)
        for od in orders:
            for bc, ac in ((1, 1), (0, 1), (1, 0)):
                for sent in (0, 1):
                    add('cls_process_states_best_only', [9] + self.a_one(x, 1, [], od if od else [], em=[1, [1]] if sent else [1, []], bc=bc, ac=ac) if od
                        else [9, x, 1, self.A_RX, [], [IPV4, 1, bc, ac, [], []], [1, [1]] if sent else [1, []], [1, 2]])
                for emax in (2, 3):
                    for sent_ids in ([], [1], [1, 2], [3], [1, 2, 3]):
                        for rep in ([], [1]):
                            em = [2, [[1, sent_ids]]] if sent_ids else [2, []]
                            add('cls_process_states_addpath', [9, x, emax, self.A_RX, [], [IPV4, 1, bc, ac, rep, od], em, [1, 2]])
        for emax in (0, 255, 256, 65536):
            add('cls_process_send_max_values', [9, x, emax, self.A_RX, [], [IPV4, 1, 1, 1, [], labelled], [2, [[1, [2]]]], [1, 2]])
        # ---- send-max cuts the list: three paths that may go, every order, send-max below / at / above their number
        l4 = [labelled[0], labelled[1], mk(4, [0, [10, 0, 0, 4]])]
        for od in itertools.permutations(l4, 3):
            for emax in (1, 2, 3, 4):
                for sent_ids in ([], [1, 2], [1, 2, 4], [4]):
                    em = ([1, [1]] if sent_ids else [1, []]) if emax == 1 else ([2, [[1, sent_ids]]] if sent_ids else [2, []])
                    for rep in ([], [4]):
                        add('cls_send_max_truncation', [9, x, emax, self.A_RX, [], [IPV4, 1, 1, 1, rep, list(od)], em, [1, 2]])
        # ---- the echo test between IPv6 sessions, and an IPv4 / IPv6 pair that must not be confused
        rx6 = self.A_PEER6
        for saddr, ra in ((rx6, rx6), (rx6, [1, rx6[1][:15] + [3]]), ([0, rx6[1][:4]], rx6), (self.A_RX, [1, [0] * 12 + self.A_RX[1]])):
            for emax in (1, 2):
                pth = [1, self.a_src(EBGP, 0, saddr), [[1, rx6[1]]], [[ORIGIN, 0x40, 0, 0], self.a_path_attr([(2, [65002])])]]
                c9 = self.a_one(self.a_ctx(EBGP, 0, 2), emax, [], pth)
                c9[2] = ra
                add('cls_echo_address_families', [9] + c9)
        # ---- the as-prepend action next to the 255-entry limit, and its left-most form
        for headn in (None, 0, 1, 253, 254, 255):
            for rep_ in (0, 1, 2, 3):
                for d in (EBGP, CONFED, IBGP):
                    for lm in (0, 1):
                        ty = 3 if d == CONFED else 2
                        attrs = [[ORIGIN, 0x40, 0, 0]] + ([self.a_path_attr([(ty, big(headn)), (1, [64600])])] if headn is not None else [])
                        p = [1, self.a_src(EBGP), [[0, [10, 0, 0, 9]]], attrs]
                        add('cls_policy_prepend_limits',
                            [12] + self.a_one(self.a_ctx(d, 65100 if d != IBGP else 0), 1, self.cid_for(d), p) + [[[], [], 1, 2, [[65009, rep_, lm]]]])
        # ---- RTC filter: route targets first / last / misaligned / in a short tail / in a second attribute
        rt1, rt2, rt3 = self.RTS[0], self.RTS[1], self.RTS[2]
        ext_variants = [None, [], rt1, rt2 + rt1, rt2 + rt3 + rt1, rt2[:4] + rt1 + rt2[4:], rt2 + rt1[:7], rt1[:7], rt2 * 31 + rt1]
        for ev in ext_variants:
            for rtc in ([0, []], [0, [rt1]], [0, [rt3, rt1]], [1, []]):
                attrs = [[ORIGIN, 0x40, 0, 0], self.a_path_attr([(2, [65002])])] + ([[EXT_COMMUNITY, 0xC0, 1, ev]] if ev is not None else [])
                p = [1, self.a_src(EBGP), [[0, [10, 0, 0, 9]]], attrs]
                for em in ([0], [1, [1]]):
                    add('cls_rtc_filter', [14] + self.a_one(x, 1, [], p, em=em) + [rtc])
        attrs = [[ORIGIN, 0x40, 0, 0], [EXT_COMMUNITY, 0xC0, 1, rt2], self.a_path_attr([(2, [65002])]), [EXT_COMMUNITY, 0xC0, 1, rt1]]
        add('cls_rtc_filter', [14] + self.a_one(x, 2, [], [1, self.a_src(EBGP), [[0, [10, 0, 0, 9]]], attrs]) + [[0, [rt1]]])
        # ---- LOCAL_PREF injection: every position the new attribute can take
        lp_lists = [[], [[ORIGIN, 0x40, 0, 0]], [[ORIGIN, 0x40, 0, 0], self.a_path_attr([(2, [65002])]), [MED, 0x80, 0, 1]],
                    [[ORIGIN, 0x40, 0, 0], self.a_path_attr([(2, [65002])]), [MED, 0x80, 0, 1], [COMMUNITY, 0xC0, 1, oth]],
                    [[COMMUNITY, 0xC0, 1, oth]], [[MED, 0x80, 0, 1], [ATOMIC, 0x40, 1, []]],
                    [[ORIGIN, 0x40, 0, 0], [LOCAL_PREF, 0x40, 0, 0]], [[LOCAL_PREF, 0x40, 0, 4294967295], [ORIGIN, 0x40, 0, 0]],
                    [[COMMUNITY, 0xC0, 1, oth], [ORIGIN, 0x40, 0, 0]], [[ATOMIC, 0x40, 1, []], [MED, 0x80, 0, 1], [ORIGIN, 0x40, 0, 0]]]
        for l in lp_lists:
            add('cls_local_pref_positions', [7, l])
            for role in (IBGP, RRC):
                add('cls_local_pref_positions', [3, self.a_ctx(role), l])
                add('cls_local_pref_positions', [10, self.a_ctx(role), self.OWN_RID, [self.OWN_CID], l])
        # ---- unknown attributes next to a missing AS_PATH (the locally originated route)
        for role in ROLES:
            add('cls_unknown_without_as_path', [3, self.a_ctx(role, 65100), [[ORIGIN, 0x40, 0, 0], [99, 0xc0, 2, [1]], [200, 0x80, 2, [2]]]])
        # ---- the family map of the wrong kind for the send-max, and no map at all
        for emax, em in ((1, [2, [[1, [1, 2]]]]), (1, [2, []]), (2, [1, [1]]), (2, [1, []]), (2, [0]), (1, [0]), (3, [1, [1, 2]])):
            for od in ([], [labelled[0]], [labelled[1], labelled[0]], [labelled[2], labelled[0]]):
                for rep in ([], [1]):
                    add('cls_process_map_kind', [9, x, emax, self.A_RX, [], [IPV4, 1, 1, 1, rep, od], em, [1, 2]])
        # ---- every disposition of the statement x default of the assignment
        for sd in (0, 1, 2):
            for dd in (0, 1, 2):
                for emax in (1, 2):
                    for sent in (0, 1):
                        em = ([1, [1]] if sent else [1, []]) if emax == 1 else ([2, [[1, [1]]]] if sent else [2, []])
                        add('cls_policy_dispositions', [12] + self.a_one(x, emax, [], labelled[0], em=em) + [[[], [], sd, dd, []]])
        # ---- fixed histories: announce, replace, the LLGR period begins (03ea310 stream), withdraw
        for d in (EBGP, IBGP):
            for emax in (1, 2):
                sk = RRC if d == IBGP else EBGP
                pa = [1, self.a_src(sk), [[0, [10, 0, 0, 9]]], [[ORIGIN, 0x40, 0, 0], self.a_path_attr([(2, [65002])])]]
                pb = [1, self.a_src(sk), [[0, [10, 0, 0, 9]]], [[ORIGIN, 0x40, 0, 1], self.a_path_attr([(2, [65002, 65003])])]]
                ps = [1, self.a_src(sk, 1), [[0, [10, 0, 0, 9]]], pb[3]]
                p2 = [2, self.a_src(EBGP if d == EBGP else RRC, 0, [0, [10, 0, 0, 3]]), [[0, [10, 0, 0, 8]]], pa[3]]
                hist = [[IPV4, 1, 1, 1, [], [pa]], [IPV4, 1, 1, 1, [1], [pb]], [IPV4, 1, 0, 1, [], [pb, p2]],
                        [IPV4, 1, 1, 1, [1], [ps, p2]], [IPV4, 1, 1, 1, [], [p2]], [IPV4, 1, 1, 1, [], []],
                        [IPV4, 2, 1, 1, [], [pa]], [IPV4, 1, 1, 1, [], []]]
                for n in range(1, len(hist) + 1):
                    add('cls_fixed_histories', [13, self.a_ctx(d), emax, self.A_RX, self.cid_for(d), IPV4, hist[:n], [1, 2]])
        # ---- attribute kinds the decoder never produces (API-shaped): recognised codes carried as opaque
        # blobs, a Val-typed AS_PATH (the unwrap panic); judged by the correspondence only
        for code in (MED, LOCAL_PREF, AS_PATH, COMMUNITY, ORIGINATOR_ID, CLUSTER_LIST, AIGP):
            for fl in (0xC0, 0x80):
                for role in ROLES:
                    add('cls_attr_kind_confusion', [3, self.a_ctx(role, 65100), [[ORIGIN, 0x40, 0, 0], [code, fl, 2, be32(LOCAL_AS)]]])
        for role in ROLES:
            add('cls_attr_kind_confusion', [3, self.a_ctx(role), [[ORIGIN, 0x40, 0, 0], [AS_PATH, 0x40, 0, 7]]])
            add('cls_attr_kind_confusion', [2, [[AS_PATH, 0x40, 0, LOCAL_AS]], LOCAL_AS, 0])
        # ---- destination and path ids at the ends of u32
        for dest in (0, 1, 4294967295):
            for pid in (0, 1, 4294967295):
                pth = [pid, self.a_src(EBGP), [[0, [10, 0, 0, 9]]], [[ORIGIN, 0x40, 0, 0], self.a_path_attr([(2, [65002])])]]
                for emax, em in ((1, [1, [dest]]), (1, [1, []]), (2, [2, [[dest, [pid]]]]), (2, [2, [[dest, [7]]]])):
                    for rep in ([], [pid]):
                        add('cls_id_boundaries', [9, x, emax, self.A_RX, [], [IPV4, dest, 1, 1, rep, [pth]], em, [dest, 1]])
        # ---- the caller's arguments: role pairs, MED by role pair (with the session's policy) and the fixed
        # histories once more through the real handle_prefix_update / PendingTx; a family not negotiated
        for cls_, case_ in list(out):
            if cls_ in ('cls_role_pair', 'cls_rs_boundary') and case_[0] == 9:
                add('cls_caller_arguments', [17, 1, case_[1], case_[2], case_[3], case_[4], case_[5][0], [case_[5]], [], self.PROBES17])
            elif cls_ == 'cls_med_by_role_pair' and case_[1][0] in (EBGP, IBGP, CONFED):
                add('cls_caller_arguments', [17, 1, case_[1], case_[2], case_[3], case_[4], case_[5][0], [case_[5]],
                                             [case_[8]] if case_[0] == 12 else [], self.PROBES17])
            elif cls_ == 'cls_fixed_histories':
                add('cls_caller_arguments', self.to_updates(case_, []))
                if len(case_[6]) == 8:
                    add('cls_caller_arguments', self.to_updates(case_, [], 0))
        for d_ in ROLES:
            for emax_ in (1, 2):
                own = [3, self.a_src(RS if d_ == RS else EBGP, 0, self.A_RX), [[0, [10, 0, 0, 9]]], [[ORIGIN, 0x40, 0, 0], self.a_path_attr([(2, [65002])])]]
                oth_ = [1, self.a_src(RS if d_ == RS else EBGP), [[0, [10, 0, 0, 9]]], own[3]]
                for pl in ([own], [own, oth_], [oth_, own]):
                    add('cls_caller_arguments', [17, 1, self.a_ctx(d_), emax_, self.A_RX, self.cid_for(d_), IPV4,
                                                 [[IPV4, 1, 1, 1, [], pl]], [], self.PROBES17])
                    add('cls_route_refresh', [18, 1, self.a_ctx(d_), emax_, self.A_RX, self.cid_for(d_), IPV4,
                                              [[IPV4, 1, 1, 1, [], pl]], [], self.PROBES17, [[IPV4, 1, 1, 1, [], pl]], []])
        # ---- route refresh: the fixed histories, then a walk under no / another export policy
        for cls_, case_ in list(out):
            if cls_ == 'cls_fixed_histories':
                c17 = self.to_updates(case_, [])
                for pol2 in ([], [[[], [[1, 5]], 1, 2, []]], [[[], [], 2, 1, []]], [[[[1]], [], 1, 2, []]]):
                    add('cls_route_refresh', [18] + c17[1:] + [self.walk_of(case_[6]), pol2])
        # ... the real-table scenario once more through the real TableManager (insert_route, the
        # neighbour's event channel, mark_llgr_stale)
        for cls_, case_ in list(out):
            if cls_ == 'cls_llgr_no_llgr_real_table':
                add('cls_llgr_no_llgr_table_manager', [16] + case_[1:])
        return out

    def fingerprint_changed(self):
        from vp.util import REPO
        fp = os.path.join(os.path.dirname(os.path.abspath(__file__)), 'c09_fingerprint.json')
        try:
            want = json.load(open(fp))['sha256']
        except (OSError, ValueError, KeyError):
            return True
        return source_fingerprint(REPO) != want

    def gen_cases(self, rng, tier):
        cases = []
        scale = 1 if tier == 'quick' else 8
        if tier == 'quick' and not os.environ.get('VERIF_C09_NO_ESCALATE') and self.fingerprint_changed():
            # the anchored code differs from the text the model was written against: go deeper
            scale = 4
            self.rule += ' [source fingerprint changed: quick run at 4x size]'
        # --- the audit classes (deterministic, every run)
        self._cls = {}
        for cls, case in self.gen_audit():
            self._cls[id(case)] = cls
            cases.append(case)
        # --- AS_PATH edits
        for _ in range(250 * scale):
            mal = rng.random() < 0.25
            a = [AS_PATH, 0x40, 1, self.gen_path_bytes(rng, mal)]
            if rng.random() < 0.03:
                a = [AS_PATH, 0x40, 0, 5]
            cases.append([0, rng.choice([2, 3]), rng.choice(ASNS), a])
            cases.append([1, a])
        for n in (253, 254, 255):
            for t in (1, 2, 3, 4):
                a = [AS_PATH, 0x40, 1, enc_path([(t, [64512 + (i % 7) for i in range(n)]), (2, [65002])])]
                cases += [[0, 2, LOCAL_AS, a], [0, 3, LOCAL_AS, a], [1, a]]
        # --- the former slice-index corner of the prepends (a one-byte buffer; guarded since a62a64e), every head byte
        for b0 in (0, 1, 2, 3, 4, 5, 255):
            for ty in (2, 3):
                cases.append([0, ty, LOCAL_AS, [AS_PATH, 0x40, 1, [b0]]])
                cases.append([0, ty, LOCAL_AS, [AS_PATH, 0x40, 1, [b0, 255]]])
                cases.append([0, ty, LOCAL_AS, [AS_PATH, 0x40, 1, [b0, 254]]])
            cases.append([1, [AS_PATH, 0x40, 1, [b0]]])
            cases.append([1, [AS_PATH, 0x40, 1, [b0, 1]]])
            cases.append([1, [AS_PATH, 0x40, 1, [b0, 1, 0, 0, 0]]])
        # --- exhaustive: every path of at most 1 (quick) / 2 (thorough) segments over types 1-4,
        # 0-2 ASes drawn from {local AS, another AS}, through every edit and the loop test
        small_segs = [(t, list(a)) for t in (1, 2, 3, 4) for n in (0, 1, 2) for a in itertools.product((LOCAL_AS, 65002), repeat=n)]
        small_paths = [[]] + [[sg] for sg in small_segs]
        if tier != 'quick':
            small_paths += [[a, b] for a in small_segs for b in small_segs]
        for sp in small_paths:
            a = [AS_PATH, 0x40, 1, enc_path(sp)]
            cases += [[0, 2, 65003, a], [0, 3, 65003, a], [1, a], [2, [a], LOCAL_AS, 0], [2, [a], 65009, 65002]]
        # --- is_as_loop
        for _ in range(200 * scale):
            attrs = self.gen_attrs(rng, 'any' if rng.random() < 0.3 else 'wire')
            cases.append([2, attrs, LOCAL_AS, rng.choice([0, 0, CONFED_ID, LOCAL_AS, 65002])])
        # --- suppress predicates: complete matrix + random sources
        for s, d, cid, confed in self.matrix():
            if confed == 0:
                cases.append([8, s, d, cid])
                self._cls[id(cases[-1])] = 'cls_role_matrix_predicates'
        # every (role, same AS / different AS) combination, also the inconsistent ones
        for r in ROLES:
            for rasn in (LOCAL_AS, 65002):
                for d in ROLES:
                    for cid in ([], [0x01020304]):
                        cases.append([8, [2, self.ADDR4[1], rasn, LOCAL_AS, 0x0a000002, r, 0], d, cid])
        for _ in range(100 * scale):
            cases.append([8, self.gen_source(rng), rng.choice(ROLES), rng.choice([[], [0x01020304]])])
        # --- export_attrs / pre_policy_defaults per role x confed
        for role in ROLES:
            for confed in (0, CONFED_ID, LOCAL_AS):
                for _ in range(30 * scale):
                    mode = 'any' if rng.random() < 0.25 else 'wire'
                    x = self.gen_ctx(rng, role, confed)
                    cases.append([3, x, self.gen_attrs(rng, mode)])
                    cases.append([4, self.gen_ctx(rng, role, confed), self.gen_attrs(rng, mode), self.gen_nh(rng),
                                  rng.choice(FAMILIES), 1 if rng.random() < 0.3 else 0])
        for _ in range(120 * scale):
            mode = 'any' if rng.random() < 0.25 else 'wire'
            cases.append([5, self.gen_attrs(rng, mode), rng.choice([0, 0x0a000002]), 0x01020304])
            cases.append([6, self.gen_attrs(rng, mode)])
            cases.append([7, self.gen_attrs(rng, mode)])
        # --- process_nlri_change: the complete matrix, one best path, both branches
        for s_, d, cid, confed in self.matrix():
            for emax in (1, 2):
                for local_nh_kind in (0, 1):
                    x = self.gen_ctx(rng, d, confed)
                    mode = 'any' if rng.random() < 0.1 else 'wire'
                    src = list(s_)
                    if src[0] == 2:
                        src[6] = 1 if rng.random() < 0.3 else 0
                    p = [rng.choice([1, 2, 3]), src, self.gen_nh(rng) if local_nh_kind else [[0, [10, 0, 0, 9]]],
                         self.gen_attrs(rng, mode)]
                    ch = [rng.choice([IPV4, IPV4, IPV4, IPV6, FLOWSPEC4]), 1, 1, 1, [], [p]]
                    cases.append([9, x, emax, self.ADDR4[0], cid, ch, [0] if emax == 1 else [2, []], [1, 2]])
                    self._cls[id(cases[-1])] = 'cls_role_matrix_process'
        # --- process_nlri_change: random histories (several paths, export map pre-state, echo collisions)
        for _ in range(500 * scale):
            cases.append(self.gen_process(rng))
        # --- process_nlri_change with a real export policy (next-hop / MED actions, reject)
        for s_, d, cid, confed in self.matrix():
            if confed:
                continue
            c9 = self.gen_process(rng, d)
            src = list(s_)
            c9[5][5] = [[1, src, self.gen_nh(rng), self.gen_attrs(rng, 'wire')]] + c9[5][5][:1]
            if len(c9[5][5]) == 2 and c9[5][5][1][0] == 1:
                c9[5][5][1][0] = 2
            cases.append([12] + c9[1:] + [self.gen_policy(rng)])
        for _ in range(250 * scale):
            c9 = self.gen_process(rng)
            cases.append([12] + c9[1:] + [self.gen_policy(rng)])
        # --- process_nlri_change with a real RtcFilter (RFC 4684 route-target constraint)
        for _ in range(120 * scale):
            c9 = self.gen_process(rng)
            for p_ in c9[5][5]:
                if rng.random() < 0.7 and find(p_[3], EXT_COMMUNITY) is None:
                    rts = [rng.choice(self.RTS) for _ in range(rng.choice([1, 2]))]
                    p_[3].append([EXT_COMMUNITY, 0xC0, 1, [b for rt in rts for b in rt]])
            k = rng.random()
            rtc = [1 if k < 0.1 else 0, [list(rt) for rt in rng.sample(self.RTS, rng.choice([0, 1, 1, 2]))]]
            cases.append([14] + c9[1:] + [rtc])
        # --- the change stream of the real Table::restale_llgr on multi-path destinations
        for n in (1, 2, 3):
            for flags in itertools.product(((0, 0), (1, 0), (0, 1)), repeat=n):
                lps = rng.sample([50, 100, 150, 200, 250], n)
                cases.append([15, [[lps[k], flags[k][0], flags[k][1]] for k in range(n)]])
        # --- histories through one ExportMap: announce / replace / re-rank / withdraw sequences over
        # two destinations and a small pool of paths, sources flipping to LLGR-stale in between
        for _ in range(150 * scale):
            cases.append(self.gen_history(rng))
        # --- histories through the real handle_prefix_update and PendingTx
        for _ in range(120 * scale):
            h = self.gen_history(rng)
            cases.append(self.to_updates(h, [self.gen_policy(rng)] if rng.random() < 0.4 else [], 1 if rng.random() < 0.92 else 0))
        # --- a route refresh after a history, possibly under a new export policy
        for _ in range(80 * scale):
            cases.append(self.gen_refresh(rng))
        # --- the LLGR period begins for the source of an advertised route
        for s_, d, cid, confed in self.matrix():
            if s_[0] != 2 or confed:
                continue
            for emax in (1, 2):
                src = list(s_); src[6] = 0
                cases.append([11, self.gen_ctx(rng, d, 0), emax, self.ADDR4[0], cid, src, [[0, [10, 0, 0, 9]]],
                              self.gen_attrs(rng, 'wire')])
        # --- receive side: a stream aimed at each loop test (one loop kind per case, at
        # a random position of the path / cluster list), and its near misses
        for role in ROLES:
            for _ in range(24 * scale):
                x = self.gen_ctx(rng, role, rng.choice([0, CONFED_ID]))
                cid = [0x01020304] if role in (IBGP, RRC) else []
                rid = 0x01000001
                segs = [(rng.choice([1, 2, 3, 4]), [rng.choice([65002, 65003, 64512]) for _ in range(rng.choice([1, 2, 4]))])
                        for _ in range(rng.choice([1, 2, 3]))]
                clist = [rng.choice([0x0a0a0a0a, 0x01000001, 0x02020202]) for _ in range(rng.choice([0, 1, 3]))]
                orig = rng.choice([None, 0x0a000001, 0x01000002])
                kind = rng.choice(['as', 'confed', 'orig', 'cluster', 'near'])
                if kind in ('as', 'confed'):
                    k = rng.randrange(len(segs))
                    asn = LOCAL_AS if kind == 'as' else CONFED_ID
                    segs[k][1].insert(rng.randrange(len(segs[k][1]) + 1), asn)
                elif kind == 'orig':
                    orig = rid
                elif kind == 'cluster':
                    clist.insert(rng.randrange(len(clist) + 1), 0x01020304)
                else:
                    clist = [0x01020305, 0x04030201][:rng.choice([1, 2])]
                    orig = rid ^ 1
                attrs = [[ORIGIN, 0x40, 0, 0], [AS_PATH, 0x40, 1, enc_path(segs)]]
                if orig is not None:
                    attrs.append([ORIGINATOR_ID, 0x80, 0, orig])
                if clist or rng.random() < 0.3:
                    attrs.append([CLUSTER_LIST, 0x80, 1, [b for i in clist for b in be32(i)]])
                cases.append([10, x, rid, cid, attrs])
                cases.append([2, attrs, x[1], x[4]])
        for role in ROLES:
            for _ in range(40 * scale):
                mode = 'any' if rng.random() < 0.15 else 'wire'
                x = self.gen_ctx(rng, role)
                cid = [0x01020304] if (role in (IBGP, RRC) or rng.random() < 0.1) else []
                cases.append([10, x, 0x01000001, cid, self.gen_attrs(rng, mode)])
        return cases

    def gen_history(self, rng):
        d = rng.choice(ROLES)
        x = self.gen_ctx(rng, d)
        emax = rng.choice([1, 1, 2, 3])
        raddr = rng.choice(self.ADDR4[:3])
        cid = [0x01020304] if d in (IBGP, RRC) else []
        fam = rng.choice([IPV4, IPV4, IPV6])
        pool = []
        for pid in (1, 2, 3, 4):
            pool.append([pid, self.gen_source(rng), self.gen_nh(rng), self.gen_attrs(rng, 'wire')])
        changes = []
        state = {1: [], 2: []}
        for _ in range(rng.choice([2, 3, 4, 6])):
            dest = rng.choice([1, 2])
            cur = state[dest]
            k = rng.random()
            replaced = []
            if k < 0.35 or not cur:
                cand = [p for p in pool if p[0] not in [q[0] for q in cur]]
                if cand:
                    cur = cur + [json.loads(json.dumps(rng.choice(cand)))]
            elif k < 0.55:
                cur = cur[1:] if rng.random() < 0.5 else cur[:-1]
            elif k < 0.75:
                i = rng.randrange(len(cur))
                cur = [json.loads(json.dumps(q)) for q in cur]
                cur[i][3] = self.gen_attrs(rng, 'wire')
                replaced = [cur[i][0]]
            elif k < 0.9:
                cur = [json.loads(json.dumps(q)) for q in cur]
                for q in cur:
                    if q[1][0] == 2:
                        q[1][6] = 1          # the LLGR period of the sources begins
            else:
                cur = list(reversed(cur))
            state[dest] = cur
            changes.append([fam, dest, 1 if rng.random() < 0.85 else 0, 1 if rng.random() < 0.9 else 0, replaced,
                            json.loads(json.dumps(cur))])
        return [13, x, emax, raddr, cid, fam, changes, [1, 2]]

    PROBES17 = [[d_, k_] for d_ in (1, 2) for k_ in (0, 1, 2, 3, 4, 5)]

    def to_updates(self, h, pol, has_family=1):
        """a history (kind 13) as a run of the real handle_prefix_update (kind 17)"""
        return [17, has_family, h[1], h[2], h[3], h[4], h[5], h[6], pol, self.PROBES17]

    def walk_of(self, changes):
        """what collect_loc_rib_paths reports for the destinations the history ends with"""
        last = {}
        for ch in changes:
            last[ch[1]] = ch
        return [[ch[0], ch[1], 1, 1, [], ch[5]] for d_, ch in sorted(last.items()) if ch[5]]

    def gen_refresh(self, rng):
        h = self.gen_history(rng)
        pol1 = [self.gen_policy(rng)] if rng.random() < 0.3 else []
        pol2 = [self.gen_policy(rng)] if rng.random() < 0.6 else []
        c = self.to_updates(h, pol1)
        return [18] + c[1:] + [self.walk_of(h[6]), pol2]

    def gen_policy(self, rng):
        nh = []
        k = rng.random()
        if k < 0.2:
            nh = [[0, rng.choice(self.ADDR4[:3] + self.ADDR6[:2])]]
        elif k < 0.35:
            nh = [[1]]
        elif k < 0.5:
            nh = [[2]]
        elif k < 0.7:
            nh = [[3]]
        med = []
        k = rng.random()
        if k < 0.3:
            med = [[1, rng.choice([0, 5, 77, 4294967295, 4294967296, -3])]]
        elif k < 0.6:
            med = [[0, rng.choice([1, 20, -5, -20, 4294967295, 8589934592])]]
        pre = []
        if rng.random() < 0.35:
            pre = [[rng.choice([65009, LOCAL_AS, 65002]), rng.choice([0, 1, 1, 2, 3]), 1 if rng.random() < 0.3 else 0]]
        return [nh, med, rng.choice([0, 0, 1, 1, 1, 2]), rng.choice([1, 1, 1, 0, 2]), pre]

    def gen_process(self, rng, d=None):
        d = rng.choice(ROLES) if d is None else d
        x = self.gen_ctx(rng, d)
        emax = rng.choice([1, 1, 2, 3, 255])
        raddr = rng.choice(self.ADDR4[:3] + self.ADDR6[:2])
        cid = [0x01020304] if (d in (IBGP, RRC) and rng.random() < 0.9) or rng.random() < 0.1 else []
        npaths = rng.choice([0, 1, 1, 2, 3, 4])
        pids = rng.sample([1, 2, 3, 4, 5], npaths)
        paths = []
        for pid in pids:
            mode = 'any' if rng.random() < 0.05 else 'wire'
            paths.append([pid, self.gen_source(rng), self.gen_nh(rng), self.gen_attrs(rng, mode)])
        fam = rng.choice([IPV4, IPV4, IPV4, IPV6, FLOWSPEC4, FLOWSPEC6_VPN])
        dest = rng.choice([1, 2])
        ch = [fam, dest, 1 if rng.random() < 0.9 else 0, 1 if rng.random() < 0.9 else 0,
              [rng.choice([1, 2, 3])] if rng.random() < 0.3 else [], paths]
        k = rng.random()
        plain = (emax == 1) != (k < 0.1)
        if k > 0.9:
            em = [0]
        elif plain:
            em = [1, sorted(rng.sample([1, 2, 3], rng.choice([0, 1, 2])))]
        else:
            em = [2, [[dd, sorted(rng.sample([0, 1, 2, 3, 4, 5], rng.choice([1, 2, 3])))]
                      for dd in sorted(rng.sample([1, 2, 3], rng.choice([0, 1, 2])))]]
        return [9, x, emax, raddr, cid, ch, em, [1, 2, 3]]

    # ---------------------------------------------------------------- running
    def run_impl(self, cases, tier):
        return rustrun.daemon_test('C09', 'event::export::verif_hx::verif_export_cases', cases)

    def run_model(self, cases, tier):
        pre = 'From RB Require Import Base.Val Model.Export.'
        return coqrun.eval_terms('C09', pre, [case_coq(c) for c in cases])

    # ---------------------------------------------------------------- comparison
    def _lp_unspecified(self, c):
        """inputs on which inject_local_pref_if_absent's partition_point is a binary
        search over a non-partitioned vector: the position of LOCAL_PREF is unspecified"""
        t = c[0]
        if t == 7:
            lists = [c[1]]
        elif t == 3 and c[1][0] in (IBGP, RRC):
            lists = [c[2]]
        elif t == 10 and c[1][0] in (IBGP, RRC):
            lists = [c[4]]
        elif t in (9, 12, 14) and c[1][0] in (IBGP, RRC):
            lists = [p[3] for p in c[5][5]]
        elif t in (11, 16) and c[1][0] in (IBGP, RRC):
            lists = [c[7]]
        elif t == 13 and c[1][0] in (IBGP, RRC):
            lists = [p[3] for ch in c[6] for p in ch[5]]
        elif t in (17, 18) and c[2][0] in (IBGP, RRC):
            lists = [p[3] for ch in c[7] + (c[10] if t == 18 else []) for p in ch[5]]
            pols = [c[8]] + ([c[11]] if t == 18 else [])
            if any(pl and (pl[0][1] or (len(pl[0]) > 4 and pl[0][4])) for pl in pols):
                return any(find(l, LOCAL_PREF) is None for l in lists)
        else:
            return False
        if t == 12 and (c[8][1] or (len(c[8]) > 4 and c[8][4])):
            # the med / as-prepend actions re-append their attribute at the end of the vector before LOCAL_PREF is injected
            return any(find(l, LOCAL_PREF) is None for l in lists)
        return any(find(l, LOCAL_PREF) is None and not partitioned_lt5(l) for l in lists)

    def canon(self, case, obs):
        if obs == [-1] or not self._lp_unspecified(case):
            return obs
        srt = lambda l: sorted(l, key=lambda a: a[0])
        t = case[0]
        if t in (3, 7):
            return srt(obs)
        if t == 10:
            return [srt(o) for o in obs]
        if t in (9, 12, 13, 14):
            ops = [[o[0], o[1], o[2], o[3], srt(o[4]), o[5]] if o[0] == 1 else o for o in obs[0]]
            return [ops, obs[1]]
        if t in (11, 16):
            return [[[o[0], o[1], o[2], o[3], srt(o[4]), o[5]] if o[0] == 1 else o for o in ph] for ph in obs]
        if t in (17, 18):
            return [[[e_[0], e_[1], srt(e_[2])] if e_ and e_[0] == 1 else e_ for e_ in obs[0]], obs[1]]
        return obs

    # ---------------------------------------------------------------- Spec oracle
    def oracle(self, c, obs):
        t = c[0]
        if obs == [-1] and t in (5, 6, 7, 8):
            return 'panic in a function that has no panicking path (or the harness could not build the case)'
        if t == 0:
            a = c[3]
            segs = parse_path(a[3]) if a[2] != 0 else None
            if segs is None:
                return None
            if obs == [-1]:
                return 'as_path_prepend panicked on a well-formed AS_PATH'
            out = parse_path(obs[3]) if obs[2] == 1 else None
            if out is None or tflat(out) != [(c[1], c[2])] + tflat(segs) or out[0][0] != c[1]:
                return 'AS not prepended exactly once at the head in a segment of the right type'
            return None
        if t == 1:
            a = c[1]
            segs = parse_path(a[3]) if a[2] != 0 else None
            if segs is None:
                return None
            if obs == [-1]:
                return 'as_path_strip_confed panicked on a well-formed AS_PATH'
            out = parse_path(obs[3]) if obs[2] == 1 else None
            if out is None or out != [s for s in segs if s[0] in (1, 2)]:
                return 'confederation segments not removed exactly'
            return None
        if t == 2:
            p = path_of(c[1])
            if p[0] != 'ok':
                return None
            if obs == [-1]:
                return 'is_as_loop panicked'
            want = c[2] in flat(p[1]) or (c[3] != 0 and c[3] in flat(p[1]))
            if want and obs != 1:
                return 'AS_PATH contains the local AS / confederation id but no loop was detected'
            return None
        if t == 3:
            if not attrs_wf(c[2]):
                return None
            if obs == [-1]:
                return 'export_attrs panicked on decodable attributes'
            return spec_attrs_for_dest(c[1], c[2], obs, 'export_attrs')
        if t == 4:
            x = c[1]
            if obs == [-1]:
                return 'pre_policy_defaults panicked'
            if x[0] == EBGP and find(obs[0], MED) is not None:
                return 'received MED kept towards an eBGP peer'
            if x[0] != EBGP and obs[0] != c[2]:
                return None
            return spec_nexthop(x, c[3], obs[1], c[4], bool(c[5]), 'pre_policy_defaults')
        if t == 5:
            if not attrs_wf(c[1]):
                return None
            return spec_reflect(c[1], obs, c[2], c[3], 'rr_reflect_attrs')
        if t == 6:
            if not attrs_wf(c[1]):
                return None
            if obs == [-1]:
                return 'with_llgr_stale_community panicked'
            return spec_llgr(obs, 'with_llgr_stale_community')
        if t == 7:
            if obs == [-1]:
                return 'inject_local_pref_if_absent panicked'
            if find(obs, LOCAL_PREF) is None:
                return 'LOCAL_PREF not present after inject_local_pref_if_absent'
            if find(c[1], LOCAL_PREF) is not None and obs != c[1]:
                return 'attributes changed although LOCAL_PREF was present'
            return None
        if t == 8:
            (_, rasn, lasn, _, role, _, is_local) = src_fields(c[1])
            d = c[2]
            if c[1][0] == 2 and role == IBGP and rasn == lasn and d == IBGP and obs[1] != 1:
                return 'non-client iBGP route not suppressed towards a non-client iBGP peer'
            if (role == RS) != (d == RS) and obs[2] != 1:
                return 'route-server boundary not enforced'
            return None
        if t in (9, 12, 14):
            return self.oracle_process(c, obs)
        if t == 18:
            if obs == [-1]:
                return None
            ops = [[1, dk[0], dk[1], e_[1], e_[2], []] for dk, e_ in zip(c[9], obs[0]) if e_ and e_[0] == 1]
            return self.oracle_history([13, c[2], c[3], c[4], c[5], c[6], c[10], []], [ops, []], pol=(c[11][0] if c[11] else None))
        if t == 17:
            if obs == [-1]:
                if all(attrs_wf(p_[3]) for ch in c[7] for p_ in ch[5]) and not (c[8] and len(c[8][0]) > 4 and c[8][0][4]):
                    return 'handle_prefix_update panicked on decodable attributes'
                return None
            ops = [[1, dk[0], dk[1], e_[1], e_[2], []] for dk, e_ in zip(c[9], obs[0]) if e_ and e_[0] == 1]
            return self.oracle_history([13, c[2], c[3], c[4], c[5], c[6], c[7], []], [ops, []], pol=(c[8][0] if c[8] else None))
        if t == 15:
            # RFC 9494 4.3 needs every eligible path of the marked peer to be looked at again by
            # the exporter: named as replaced once, and the best reported as changed
            specs = c[1]
            elig = sorted([k for k, sp in enumerate(specs) if not sp[1] and not sp[2]], key=lambda k: -specs[k][0])
            if obs == [-1]:
                return 'restale_llgr panicked'
            named = [ch[2][0] for ch in obs if ch[2]]
            if sorted(named) != sorted(k + 1 for k in elig):
                return 'restale_llgr does not name every eligible path of the marked peer as replaced exactly once'
            if elig and not any(ch[0] for ch in obs):
                return 'restale_llgr does not report the marked best path as changed'
            return None
        if t == 13:
            return self.oracle_history(c, obs)
        if t in (11, 16):
            if not attrs_wf(c[7]):
                return None
            if obs == [-1]:
                return 'LLGR scenario panicked'
            # the neighbour's view after both phases
            view = None
            for op in obs[0] + obs[1]:
                view = op[4] if op[0] == 1 else None
            if view is not None and spec_llgr(view, '') is not None:
                return ('route of a source whose LLGR period has begun stays advertised without LLGR_STALE '
                        '(%s -> %s, %s)' % (ROLE_NAMES[c[5][5]], ROLE_NAMES[c[1][0]], 'add-path' if c[2] != 1 else 'best-only'))
            return None
        if t == 10:
            if not attrs_wf(c[4]):
                return None
            if obs == [-1]:
                return 'receive path panicked on decodable attributes'
            x, rid, cid, attrs = c[1], c[2], c[3], c[4]
            p = path_of(attrs)
            why = None
            if p[0] == 'ok' and (x[1] in flat(p[1]) or (x[4] != 0 and x[4] in flat(p[1]))):
                why = 'AS_PATH contains the local AS / confederation id'
            o = find(attrs, ORIGINATOR_ID)
            if o is not None and o[3] == rid:
                why = 'ORIGINATOR_ID is the local router id'
            cl_ = find(attrs, CLUSTER_LIST)
            if cid and cl_ is not None and be32(cid[0]) in chunks4(cl_[3]):
                why = 'CLUSTER_LIST contains the local cluster id'
            if why and obs != []:
                return 'route installed although ' + why
            return None
        return None

    def oracle_history(self, c, obs, pol=None):
        """every Reach of the history is judged like a single-step advertisement against the
        paths of the changes for its destination (the path with the same id and attributes
        that explains it), so the never-rules and the rewrite rules are checked along the way"""
        x, emax, raddr, cid, fam, changes = c[1], c[2], c[3], c[4], c[5], c[6]
        if obs == [-1]:
            if all(attrs_wf(p[3]) for ch in changes for p in ch[5]):
                return 'process_nlri_change panicked on decodable attributes'
            return None
        for op in obs[0]:
            if op[0] != 1:
                continue
            dest, pid = op[1], op[2]
            cands = []
            for ch in changes:
                if ch[1] != dest:
                    continue
                ps = ch[5][:1] if emax == 1 else [p for p in ch[5] if p[0] == pid]
                cands += ps
            if not cands:
                return 'history: advertisement of a path that is in no change'
            whys = []
            for p in cands:
                one = [9, x, emax, raddr, cid, [fam, dest, 1, 1, [], [p]], [0], []] if pol is None else \
                      [12, x, emax, raddr, cid, [fam, dest, 1, 1, [], [p]], [0], [], pol]
                whys.append(self.oracle_process(one, [[[op[0], op[1], op[2] if emax != 1 else 0, op[3], op[4], op[5]]], []]))
            if all(whys):
                return 'history: ' + whys[0]
        return None

    def oracle_process(self, c, obs):
        x, emax, raddr, cid, ch = c[1], c[2], c[3], c[4], c[5]
        fam, paths = ch[0], ch[5]
        if obs == [-1]:
            if all(attrs_wf(p[3]) for p in paths):
                return 'process_nlri_change panicked on decodable attributes'
            return None
        d = x[0]
        for op in obs[0]:
            if op[0] != 1:
                continue
            pid, nh_out, out, src_o = op[2], op[3], op[4], op[5]
            if emax == 1:
                cand = paths[:1]
            else:
                cand = [p for p in paths if p[0] == pid]
            if len(cand) != 1:
                return 'advertisement of a path that is not in the change'
            p = cand[0]
            (s_raddr, rasn, lasn, rid, srole, llgr, is_local) = src_fields(p[1])
            what = 'process_nlri_change (%s -> %s)' % (ROLE_NAMES[srole] if p[1][0] == 2 else ('local', 'kernel')[p[1][0]], ROLE_NAMES[d])
            if s_raddr == raddr:
                return what + ': route advertised back to the peer it was learned from'
            peer = p[1][0] == 2
            if peer and srole == IBGP and rasn == lasn and d == IBGP:
                return what + ': non-client iBGP route advertised to a non-client iBGP peer'
            if (srole == RS) != (d == RS):
                return what + ': route crossed the route-server boundary'
            pol = c[8] if c[0] == 12 else None
            if pol is not None and (pol[2] == 2 or (pol[2] == 0 and pol[3] == 2)):
                return what + ': route advertised although the export policy rejects it'
            if pol is not None and pol[0]:
                # a next-hop action decides: the pre-policy default must not clobber it
                a = pol[0][0]
                if a[0] == 0:
                    want = [[0 if a[1][0] == 0 else 1, a[1][1]]]
                elif a[0] == 1:
                    want = [[0 if x[2][0] == 0 else 1, x[2][1]]]
                elif a[0] == 2:
                    want = [[0 if raddr[0] == 0 else 1, raddr[1]]]
                else:
                    want = p[2] if p[2] else None
                if want is not None and nh_out != want:
                    return what + ': export-policy next-hop action not honoured'
            else:
                why = spec_nexthop(x, p[2], nh_out, fam, is_local, what)
                if why:
                    return why
            if not attrs_wf(p[3]):
                continue
            rule_in = p[3]
            if pol is not None and len(pol) > 4 and pol[4] and pol[4][0][1] > 0:
                # the as-prepend action rewrites the path before the role rewrite sees it:
                # k copies, in the kind of segment the receiver calls for
                pa = pol[4][0]
                pi = path_of(p[3])
                segs0 = pi[1] if pi[0] == 'ok' else []
                asn = pa[0]
                if pa[2] and segs0 and segs0[0][1]:
                    asn = segs0[0][1][0]
                newp = [AS_PATH, 0x40, 1, enc_path([(3 if d == CONFED else 2, [asn] * pa[1])] + segs0)]
                rule_in = [a for a in p[3] if a[0] != AS_PATH] + [newp]
            if pol is not None and pol[1]:
                m = find(out, MED)
                if d == EBGP:
                    # the received MED is removed first: the action starts from nothing
                    a = pol[1][0]
                    want = max(0, min(4294967295, a[1]))
                    if m is None or m[2:] != [0, want]:
                        return what + ': MED towards an eBGP peer is not the one set by export policy on a cleared MED'
            elif d == EBGP and find(out, MED) is not None:
                return what + ': received MED sent to an eBGP peer'
            why = spec_attrs_for_dest(x, rule_in, out, what, policy_path=(rule_in is not p[3]))
            if why:
                return why
            if peer and srole in (IBGP, RRC) and rasn == lasn and d in (IBGP, RRC):
                if not cid:
                    return what + ': iBGP route reflected without a cluster id'
                why = spec_reflect(p[3], out, rid, cid[0], what)
                if why:
                    return why
            if llgr:
                why = spec_llgr(out, what)
                if why:
                    return why
        return None

    # ---------------------------------------------------------------- shrinking a failing case
    def _variants(self, obj):
        """one-step simplifications: drop one element of any nested list of structures
        (attribute vectors, path lists, export-map entries, optional values), or drop one
        segment of a well-formed AS_PATH"""
        out = []

        def rec(o, rebuild):
            if not isinstance(o, list):
                return
            if o and all(isinstance(x, list) for x in o):
                for i in range(len(o)):
                    out.append(rebuild(o[:i] + o[i + 1:]))
            if len(o) == 4 and o[0] == AS_PATH and o[2] == 1 and isinstance(o[3], list):
                sg = parse_path(o[3])
                if sg:
                    for i in range(len(sg)):
                        out.append(rebuild([o[0], o[1], o[2], enc_path(sg[:i] + sg[i + 1:])]))
                    for i, (t, asns) in enumerate(sg):
                        if len(asns) > 1:
                            out.append(rebuild([o[0], o[1], o[2], enc_path(sg[:i] + [(t, asns[:len(asns) // 2])] + sg[i + 1:])]))
            for i, x in enumerate(o):
                rec(x, lambda v, i=i, o=o, rebuild=rebuild: rebuild(o[:i] + [v] + o[i + 1:]))
        rec(obj, lambda v: v)
        return out

    def shrink(self, case, why):
        """greedy: keep applying a one-step simplification under which the real code still
        fails the property text for the same reason (the harness judges every candidate)"""
        cur = case
        for _ in range(25):
            cands = [v for v in self._variants(cur) if isinstance(v, list) and v and v[0] == cur[0]][:400]
            if not cands:
                break
            obs, err = self.run_impl(cands, 'quick')
            if obs is None:
                break
            nxt = None
            for v, o in zip(cands, obs):
                try:
                    w = self.oracle(v, o)
                except Exception:
                    w = None
                if w and w[:40] == why[:40]:
                    nxt = v
                    break
            if nxt is None:
                break
            cur = nxt
        return cur

    def in_known_class(self, kf, c, obs, why):
        return False

    # ---------------------------------------------------------------- evidence
    def _shape(self, attrs):
        return tuple(sorted((a[0], a[2]) for a in attrs))

    def nontrivial_key(self, c, obs):
        t = c[0]
        if obs == [-1]:
            return (t, 'panic', json.dumps(c)[:200])
        if t in (0, 1):
            a = c[3] if t == 0 else c[1]
            segs = parse_path(a[3]) if a[2] != 0 else None
            if segs is None:
                return None
            return (t, c[1] if t == 0 else 0, tuple((s[0], min(len(s[1]), 3) if len(s[1]) < 254 else len(s[1])) for s in segs))
        if t == 2:
            return (t, c[3] != 0, obs, self._shape(c[1])) if obs == 1 else None
        if t == 3:
            return (t, c[1][0], c[1][4] != 0, self._shape(c[2]), self._shape(obs)) if obs != c[2] else None
        if t == 4:
            return (t, c[1][0], bool(c[3]), c[5], c[4] in FLOWSPECS, obs[1] != c[3], obs[0] != c[2])
        if t in (5, 6, 7):
            return (t, self._shape(c[1]), self._shape(obs)) if obs != c[1] else None
        if t == 8:
            return (t, c[1][0], c[1][5] if c[1][0] == 2 else -1, c[2], bool(c[3]), tuple(obs)) if (obs[1] or obs[2]) else None
        if t in (9, 12, 14):
            ch = c[5]
            srcs = tuple((p[1][0], p[1][5] if p[1][0] == 2 else -1) for p in ch[5])
            ops = tuple((o[0], self._shape(o[4]) if o[0] == 1 else ()) for o in obs[0])
            if not ch[5] and not obs[0]:
                return None
            return (t, c[1][0], c[1][4] != 0, min(c[2], 2), bool(c[4]), srcs, ops, json.dumps(c[8]) if t == 12 else '')
        if t == 10:
            return (t, c[1][0], bool(c[3]), obs == [], self._shape(c[4]))
        if t in (11, 16):
            return (t, c[1][0], c[5][5], c[2], bool(c[4]), len(obs[0]), len(obs[1])) if obs[0] else None
        if t == 15:
            return (t, json.dumps([sp[1:] for sp in c[1]]), len(obs)) if obs != [-1] else None
        if t in (17, 18):
            return (t, c[2][0], min(c[3], 2), bool(c[8]), json.dumps([e_[:1] for e_ in obs[0]]), json.dumps(obs[1])) if any(obs[0]) else None
        if t == 13:
            return (t, c[1][0], min(c[2], 2), tuple((o[0], o[1], o[2]) for o in obs[0]), json.dumps(obs[1])) if obs[0] else None
        return None

    def classify(self, c, obs):
        names = ['prepend', 'strip_confed', 'is_as_loop', 'export_attrs', 'pre_policy_defaults', 'rr_reflect',
                 'llgr_stale', 'inject_local_pref', 'suppress_predicates', 'process_nlri_change', 'rx_update', 'llgr_scenario', 'process_nlri_change_policy', 'history', 'process_nlri_change_rtc', 'restale_llgr_stream', 'llgr_scenario_table_manager', 'handle_prefix_update_pending_tx', 'apply_refresh_walk']
        tags = ['op_' + names[c[0]]]
        cls = getattr(self, '_cls', {}).get(id(c))
        if cls:
            tags.append(cls)
        if obs == [-1]:
            tags.append('panic')
        if c[0] in (3, 4, 9, 10, 11, 12, 13, 14, 16):
            tags.append('dest_' + ROLE_NAMES[c[1][0]])
        # which branch of the model the case drives
        t = c[0]
        if t == 0:
            a = c[3]
            b = a[3] if a[2] != 0 else None
            if b is None: tags.append('br_prepend_no_binary')
            elif not b: tags.append('br_prepend_empty')
            elif b[0] != c[1]: tags.append('br_prepend_other_type_head')
            elif len(b) < 2: tags.append('br_prepend_one_byte')
            elif b[1] < 255: tags.append('br_prepend_extend')
            else: tags.append('br_prepend_full_segment')
        if t == 1 and c[1][2] != 0:
            sg = parse_path(c[1][3])
            tags.append('br_strip_malformed' if sg is None else
                        'br_strip_has_confed' if any(x[0] in (3, 4) for x in sg) else 'br_strip_no_confed')
        if t == 3:
            tags.append('br_export_has_as_path' if find(c[2], AS_PATH) is not None else 'br_export_no_as_path')
            tags.append('br_export_opaque' if any(a[2] == 2 for a in c[2]) else 'br_export_no_opaque')
        if t == 4:
            tags.append('br_nh_none' if not c[3] else 'br_nh_local_explicit' if c[5] and not ip_unspec(nh_addr(c[3][0]))
                        else 'br_nh_local_unspecified' if c[5] else 'br_nh_stored')
            if c[4] in FLOWSPECS: tags.append('br_nh_flowspec')
        if t == 5:
            tags.append('br_reflect_has_originator' if find(c[1], ORIGINATOR_ID) is not None else 'br_reflect_no_originator')
            tags.append('br_reflect_has_cluster_list' if find(c[1], CLUSTER_LIST) is not None else 'br_reflect_no_cluster_list')
        if t == 6:
            cm = find(c[1], COMMUNITY)
            tags.append('br_llgr_no_community' if cm is None or cm[2] == 0 else
                        'br_llgr_already_marked' if LLGR_STALE in chunks4(cm[3]) else 'br_llgr_append')
        if t == 7:
            tags.append('br_lp_present' if find(c[1], LOCAL_PREF) is not None else
                        'br_lp_inject_partitioned' if partitioned_lt5(c[1]) else 'br_lp_inject_unpartitioned')
        if t == 8 and obs != [-1]:
            tags.append('br_suppress_%d%d%d' % tuple(obs))
        if t in (9, 12, 14):
            tags.append('br_emap_%s' % ['none', 'plain', 'addpath'][c[6][0]])
            if c[5][4]: tags.append('br_replaced_path_id')
            if not c[5][2]: tags.append('br_best_unchanged')
            if not c[5][3]: tags.append('br_any_unchanged')
        if t == 12:
            pol = c[8]
            tags.append('br_pol_nh_%s' % (['address', 'self', 'peer', 'unchanged'][pol[0][0][0]] if pol[0] else 'none'))
            tags.append('br_pol_med_%s' % (['mod', 'replace'][pol[1][0][0]] if pol[1] else 'none'))
            tags.append('br_pol_%s' % ('reject' if pol[2] == 2 or (pol[2] == 0 and pol[3] == 2) else 'accept'))
            tags.append('br_pol_prepend_%s' % (('left_most' if pol[4][0][2] else 'asn') + ('_x0' if pol[4][0][1] == 0 else '') if len(pol) > 4 and pol[4] else 'none'))
        if t == 10 and obs != [-1]:
            tags.append('br_rx_%s' % ('dropped' if obs == [] else 'installed'))
        if c[0] in (9, 12, 14) and obs != [-1]:
            tags.append('emax_%s' % ('1' if c[2] == 1 else 'addpath'))
            tags.append('reach_%d' % min(3, sum(1 for o in obs[0] if o[0] == 1)))
            if any(o[0] == 0 for o in obs[0]): tags.append('withdraw')
        if c[0] == 10 and obs == []:
            tags.append('rx_dropped')
        return tags
