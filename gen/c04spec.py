"""stub"""
def oracle(c, obs): return None
def in_known_class(kf, c, obs, why): return False
def nontrivial_key(c, obs): return None
def classify(c, obs): return list(c.get('tags', []))
