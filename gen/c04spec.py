"""C04 Spec oracle (python mirror of coq/Spec/WireRead.v and coq/Spec/WireEncSpec.v).

Judges, against the property text, what the implementation did with one case:
  * the bytes PeerCodec::negotiate(l, r).encode_to wrote (frame sizes, length fields, tiling),
  * what PeerCodec::negotiate(r, l).try_parse made of them (same routes, next hop, attributes).
Written from RFC 4271/4760/7911/6793/8277/4364/5492, not from the Rust."""
from gen import c04wire as W
from gen.c04wire import Bad, be16, be32, rd16, rd32

CANON = {1: 64, 2: 64, 3: 64, 5: 64, 6: 64, 4: 128, 9: 128, 10: 128, 14: 128, 15: 128, 26: 128, 29: 128,
         7: 192, 8: 192, 16: 192, 17: 192, 18: 192, 32: 192, 40: 192, 23: 192}
VAL_CODES = (1, 4, 5, 9)
FLOWSPEC = (W.IPV4_FS, W.IPV6_FS, W.IPV4_FSVPN, W.IPV6_FSVPN)
KNOWN_FAMILIES = [W.IPV4, W.IPV6, W.IPV4_MC, W.IPV6_MC, W.IPV4_MPLS, W.IPV6_MPLS, W.LS, W.IPV4_MUP, W.IPV6_MUP,
                  W.IPV4_VPN, W.IPV6_VPN, W.IPV4_FS, W.IPV6_FS, W.IPV4_FSVPN, W.IPV6_FSVPN, W.IPV4_SRP, W.IPV6_SRP, W.EVPN, W.RTC]

def expand_entries(segs):
    from gen.c04 import expand_entries as ee
    return ee(segs)

def expand_bytes(d):
    from gen.c04 import expand_bytes as eb
    return eb(d)

# ------------------------------------------------------------------ session parameters (RFC 5492, 4760, 7911, 8654, 6793, 8950)
def mp_fams(caps): return [c[1] for c in caps if c[0] == 'mp']
def addpath_mode(caps, f):
    m = 0
    for c in caps:
        if c[0] == 'addpath':
            for g, mode in c[1]:
                if g == f:
                    m = mode
    return m
def extnh(caps, f):
    return any(c[0] == 'enh' and any(g == f and (g >> 16) == 1 and a == 2 for g, a in c[1]) for c in caps)

class Session:
    def __init__(self, l, r):
        self.common = [f for f in mp_fams(l) if f in mp_fams(r)]
        self.max = 65535 if any(c[0] == 'extmsg' for c in l) and any(c[0] == 'extmsg' for c in r) else 4096
        self.two_byte = not (any(c[0] == 'as4' for c in l) and any(c[0] == 'as4' for c in r))
        self.ext_nh = any(extnh(l, f) and extnh(r, f) for f in self.common)
        self.l, self.r = l, r
    def addpath(self, f):   # sender transmits path ids: it advertised "send" and the peer "receive"
        return f in self.common and bool(addpath_mode(self.l, f) & 2) and bool(addpath_mode(self.r, f) & 1)

# ------------------------------------------------------------------ the values of a case
def be24(n): return [(n >> 16) & 255, (n >> 8) & 255, n & 255]

def rd_ok(rd): return len(rd) == 8 and rd[0] == 0 and rd[1] <= 2

def fs_comp_ok(c, v6):
    if c[0] == 'p':
        # RFC 8956 3.1: length 0 with offset 0 matches every address; otherwise offset < length < 129
        return c[1] in (1, 2) and c[2] <= (128 if v6 else 32) and (c[3] == 0 or (v6 and c[3] < c[2]))
    ops = c[2]
    # RFC 8955 4.2.1.1: the end-of-list bit is set in the last <operator, value> pair and only there;
    # the length bits are derived from the value
    return (3 <= c[1] <= (13 if v6 else 12)) and len(ops) >= 1 and all(0 <= o[0] < 256 and o[0] & 0x30 == 0 and 0 <= o[1] < 2 ** 64 for o in ops) and \
        all((o[0] & 0x80 != 0) == (k == len(ops) - 1) for k, o in enumerate(ops))

def evpn_ok(n):
    k = n[1]
    if not rd_ok(n[2]): return False
    ipok = lambda b: len(b) in (4, 16)
    if k == 1: return len(n[3]) == 10 and n[4] < 2 ** 32 and n[5] < 2 ** 24
    if k == 2: return len(n[3]) == 10 and n[4] < 2 ** 32 and len(n[5]) == 6 and len(n[6]) in (0, 4, 16) and n[7] < 2 ** 24 and (n[8] is None or n[8] < 2 ** 24)
    if k == 3: return n[3] < 2 ** 32 and ipok(n[4])
    if k == 4: return len(n[3]) == 10 and ipok(n[4])
    if k == 5: return len(n[3]) == 10 and n[4] < 2 ** 32 and ipok(n[6]) and len(n[7]) == len(n[6]) and n[5] <= 8 * len(n[6]) and n[8] < 2 ** 24
    return False

def enc_op(o):
    v = o[1]
    order = 0 if v <= 0xff else 1 if v <= 0xffff else 2 if v <= 0xffffffff else 3
    return [o[0] | (order << 4)] + list(v.to_bytes(1 << order, 'big'))

FS6_FROM_BIT0 = [False]

def fs6_pattern(length, off, addr):
    """RFC 8956 3.1: <type, length, offset, pattern, padding>: the pattern is the length - offset bits of
    the address that follow the first [offset] bits, left-aligned and padded to an octet boundary.
    (The code under test and its decoder -- and GoBGP -- write ceil(length / 8) octets from bit 0 whatever
    the offset: known finding C04-fs6-prefix-offset; FS6_FROM_BIT0 selects that layout.)"""
    if FS6_FROM_BIT0[0] or off == 0:
        return list(addr[:(length + 7) // 8])
    v = (int.from_bytes(bytes(addr), 'big') << off) & ((1 << 128) - 1)
    return list(v.to_bytes(16, 'big'))[:(max(length - off, 0) + 7) // 8]

def enc_nlri(n, withdraw=False):
    """the octets of one NLRI as the RFCs lay it out (4271 4.3, 4364 4.3.4, 8277 2, 8955 4 / 8956 3,
    4684 4, 7432 7 / 9136 3, 9830 2.1)"""
    t = n[0]
    def labs(ls):
        out = []
        for k, v in enumerate(ls):
            raw = (v << 4) | (1 if k == len(ls) - 1 else 0)
            out += be24(raw)
        return out
    if t in ('v4', 'v6'): return [n[1]] + n[2][:(n[1] + 7) // 8]
    if t in ('vpn4', 'vpn6'): return [24 * len(n[1]) + 64 + n[3]] + labs(n[1]) + n[2] + n[4][:(n[3] + 7) // 8]
    if t in ('lab4', 'lab6'):
        if withdraw: return [24 + n[2], 0x80, 0, 0] + n[3][:(n[2] + 7) // 8]
        return [24 * len(n[1]) + n[2]] + labs(n[1]) + n[3][:(n[2] + 7) // 8]
    if t == 'fs':
        body = list(n[2] or [])
        for c in n[3]:
            if c[0] == 'p':
                if n[1]: body += [c[1], c[2], c[3]] + fs6_pattern(c[2], c[3], c[4])
                else: body += [c[1], c[2]] + c[4][:(c[2] + 7) // 8]
            else:
                body += [c[1]]
                for o in c[2]: body += enc_op(o)
        return ([len(body)] if len(body) < 240 else [0xF0 | (len(body) >> 8), len(body) & 255]) + body
    if t == 'rtc':
        return [[0], [32] + be32(n[2]), [96] + be32(n[2]) + list(n[3])][n[1]]
    if t == 'evpn':
        k = n[1]
        if k == 1: d = n[2] + n[3] + be32(n[4]) + be24(n[5])
        elif k == 2: d = n[2] + n[3] + be32(n[4]) + [48] + n[5] + [8 * len(n[6])] + n[6] + be24(n[7]) + (be24(n[8]) if n[8] is not None else [])
        elif k == 3: d = n[2] + be32(n[3]) + [8 * len(n[4])] + n[4]
        elif k == 4: d = n[2] + n[3] + [8 * len(n[4])] + n[4]
        else: d = n[2] + n[3] + be32(n[4]) + [n[5]] + n[6] + n[7] + be24(n[8])
        return [k, len(d)] + d
    if t == 'srp': return [8 * (8 + len(n[3]))] + be32(n[1]) + be32(n[2]) + n[3]
    if t == 'ls':
        # RFC 9552 5.2: <NLRI type (2), length (2), protocol id, identifier (8), descriptor TLVs <type (2), length (2), value>>;
        # node descriptors in the container TLV 256 (local) / 257 (remote); RFC 9514 6: SRv6 SID information TLV 518
        tlv = lambda t_, v_: be16(t_) + be16(len(v_)) + list(v_)
        tl = lambda l: sum((tlv(x[0], x[1]) for x in l), [])
        k = n[1]
        if k == 0:
            body, ty = list(n[3]), n[2]
        else:
            body = [n[2]] + be32(n[3] >> 32) + be32(n[3] & 0xffffffff) + tlv(256, tl(n[4]))
            ty = k
            if k == 2: body += tlv(257, tl(n[5])) + tl(n[6])
            elif k in (3, 4): body += tl(n[5])
            elif k == 6: body += sum((tlv(518, be16(s[0]) + [0, 0] + list(s[1])) for s in n[5]), [])
        return be16(ty) + be16(len(body)) + body
    if t == 'mup':
        # draft-ietf-bess-mup-safi 3.1: architecture type (1 = 3GPP-5G), route type (2), length (1), route
        k = n[1]
        if k == 1: d = n[2] + [n[3]] + n[4][:(n[3] + 7) // 8]
        elif k == 2: d = n[2] + n[3]
        elif k == 3: d = n[2] + [n[3]] + n[4][:(n[3] + 7) // 8] + be32(n[5]) + [n[6]] + [8 * len(n[7])] + n[7] + ([0] if n[8] is None else [8 * len(n[8])] + n[8])
        else: d = n[2] + [n[3]] + n[4] + be32(n[5])[:(n[3] - 8 * len(n[4]) + 7) // 8]
        return [1, 0, k, len(d)] + d
    return list(n[2])

def nlri_ok(n):
    t = n[0]
    if t == 'fs':
        if not ((n[2] is None or rd_ok(n[2])) and all(fs_comp_ok(c, n[1]) for c in n[3])): return False
        e = enc_nlri(n)
        return len(e) - (1 if e[0] < 0xF0 else 2) <= 4095     # the length prefix has 12 bits
    if t == 'rtc': return n[1] in (0, 1, 2) and n[2] < 2 ** 32 and (n[1] != 2 or len(n[3]) == 8)
    if t == 'evpn': return evpn_ok(n)
    if t == 'srp': return n[1] < 2 ** 32 and n[2] < 2 ** 32 and len(n[3]) in (4, 16)
    if t == 'ls':
        k = n[1]
        if k == 0:
            return n[2] < 65536 and len(n[3]) < 65536 and (n[2] not in (1, 2, 3, 4, 6) or len(n[3]) < 9)
        def nd_ok(l):
            tys = [x[0] for x in l]
            return tys == sorted(set(tys)) and all(x[0] in (512, 513, 514, 515, 516, 517) and (x[0] == 515 or len(x[1]) == 4) for x in l)
        tl_ok = lambda l: all(x[0] < 65536 and len(x[1]) < 65536 for x in l)
        if not (n[2] < 256 and n[3] < 2 ** 64 and nd_ok(n[4])): return False
        if k == 1: return True
        if k == 2: return nd_ok(n[5]) and tl_ok(n[6]) and all(x[0] != 263 or len(x[1]) % 2 == 0 for x in n[6])
        if k in (3, 4): return tl_ok(n[5]) and all((x[0] != 263 or len(x[1]) % 2 == 0) for x in n[5])
        if k == 6: return all(s[0] < 65536 and len(s[1]) == 16 for s in n[5])
        return False
    if t == 'mup':
        k = n[1]
        if not rd_ok(n[2]): return False
        w = len(n[4]) if k != 2 else len(n[3])
        if w not in (4, 16): return False
        if k == 1: return n[3] <= 8 * w
        if k == 2: return True
        if k == 3: return n[3] <= 8 * w and n[5] < 2 ** 32 and n[6] < 256 and len(n[7]) == w and (n[8] is None or len(n[8]) == w)
        tb = (n[3] - 8 * w + 7) // 8
        return 8 * w <= n[3] <= 8 * w + 32 and n[5] < 2 ** 32 and n[5] % (256 ** (4 - tb)) == 0
    if t == 'v4': return n[1] <= 32
    if t == 'v6': return n[1] <= 128
    if t in ('vpn4', 'vpn6'):
        return len(n[1]) >= 1 and n[3] <= (32 if t == 'vpn4' else 128) and 24 * len(n[1]) + 64 + n[3] <= 255 and n[2][0] == 0 and n[2][1] <= 2
    if t in ('lab4', 'lab6'):
        return len(n[1]) >= 1 and n[2] <= (32 if t == 'lab4' else 128) and 24 * len(n[1]) + n[2] <= 255
    return True

def nlri_size(n):
    t = n[0]
    if t in ('v4', 'v6'): return 1 + (n[1] + 7) // 8
    if t in ('vpn4', 'vpn6'): return 1 + 3 * len(n[1]) + 8 + (n[3] + 7) // 8
    if t in ('lab4', 'lab6'): return 1 + 3 * len(n[1]) + (n[2] + 7) // 8
    if t in ('fs', 'rtc', 'evpn', 'srp', 'mup', 'ls'): return len(enc_nlri(n))
    return len(n[2])

def nlri_key(n, withdraw=False):
    """what identifies the route: prefix (mask + significant octets), RD, label stack where it is
    part of the advertisement"""
    t = n[0]
    def sig(m, a): return (m, tuple(a[:(m + 7) // 8]))
    if t in ('v4', 'v6'): return (t,) + sig(n[1], n[2])
    if t in ('vpn4', 'vpn6'): return (t, tuple(n[1]), tuple(n[2])) + sig(n[3], n[4])
    if t in ('lab4', 'lab6'):
        # RFC 8277 2.4: the label field of a withdrawal carries no information
        return (t, None if withdraw else tuple(n[1])) + sig(n[2], n[3])
    if t == 'fs':
        comps = tuple(('p', c[1], c[2], c[3] if n[1] else 0) + sig(c[2], c[4])[1:] if c[0] == 'p' else ('o', c[1], tuple(tuple(o) for o in c[2])) for c in n[3])
        return ('fs', n[1], None if n[2] is None else tuple(n[2]), comps)
    if t == 'rtc': return ('rtc', n[1], n[2] if n[1] else 0, tuple(n[3]) if n[1] == 2 else ())
    if t == 'evpn': return ('evpn',) + tuple(tuple(x) if isinstance(x, list) else x for x in n[1:])
    if t == 'srp': return ('srp', n[1], n[2], tuple(n[3]))
    if t == 'ls':
        fz = lambda x: tuple(fz(y) for y in x) if isinstance(x, list) else x
        return ('ls',) + fz(list(n[1:]))
    if t == 'mup':
        k = n[1]
        # a prefix is identified by its length and significant octets
        if k in (1, 3):
            nb = (n[3] + 7) // 8
            return ('mup', k, tuple(n[2]), n[3], tuple(n[4][:nb])) + tuple(tuple(x) if isinstance(x, list) else x for x in n[5:])
        return ('mup',) + tuple(tuple(x) if isinstance(x, list) else x for x in n[1:])
    return ('raw', tuple(n[2]))

def as_input_kind(n, raw_input):
    """a case that gives its NLRI as wire octets is compared on the RFC encoding of what the peer decoded"""
    if raw_input and n[0] in ('fs', 'rtc', 'evpn', 'srp', 'mup', 'ls'):
        # (octets in, octets out: a Flowspec IPv6 prefix with an offset in the layout the crate's decoder read it in)
        old, FS6_FROM_BIT0[0] = FS6_FROM_BIT0[0], True
        try: return ['raw', 0, enc_nlri(n)]
        finally: FS6_FROM_BIT0[0] = old
    return n

def val_to_nlri(v):
    t = v[0]
    if t == 0: return ['v4', v[1], v[2]]
    if t == 1: return ['v6', v[1], v[2]]
    if t == 2: return ['vpn4', v[1], v[2], v[3], v[4]]
    if t == 3: return ['vpn6', v[1], v[2], v[3], v[4]]
    if t == 4: return ['lab4', v[1], v[2], v[3]]
    if t == 5: return ['lab6', v[1], v[2], v[3]]
    if t == 10:
        comps = [['p', c[1], c[2], c[3], c[4]] if c[0] == 0 else ['o', c[1], c[2]] for c in v[3]]
        return ['fs', v[1], v[2][0] if v[2] else None, comps]
    if t == 11: return ['rtc', v[1], v[2], v[3]]
    if t == 12:
        if v[1] == 2: return ['evpn', 2, v[2], v[3], v[4], v[5], v[6], v[7], v[8][0] if v[8] else None]
        return ['evpn'] + list(v[1:])
    if t == 13: return ['srp', v[1], v[2], v[3]]
    if t == 15: return ['ls'] + list(v[1:])
    if t == 14:
        if v[1] == 3: return ['mup', 3, v[2], v[3], v[4], v[5], v[6], v[7], v[8][0] if v[8] else None]
        return ['mup'] + list(v[1:])
    return ['raw', v[1], v[2]]

def aspath_segments(b):
    segs, pos = [], 0
    while pos < len(b):
        if pos + 2 > len(b): return None
        t, n = b[pos], b[pos + 1]
        if not 1 <= t <= 4 or pos + 2 + 4 * n > len(b): return None
        segs.append((t, [rd32(b, pos + 2 + 4 * k) for k in range(n)]))
        pos += 2 + 4 * n
    return segs

def attr_ok(a):
    kind, code, flags, v, bd = a
    b = expand_bytes(bd)
    if kind == 0: return code in VAL_CODES and (code != 1 or v <= 2)
    if kind == 1:
        if code in VAL_CODES or code in (3, 14, 15, 17, 18) or code not in CANON: return False
        if code == 2: return aspath_segments(b) is not None
        if code == 6: return len(b) == 0
        if code == 7: return len(b) == 8
        if code in (8, 10): return len(b) % 4 == 0
        if code == 16: return len(b) % 8 == 0
        if code == 32: return len(b) % 12 == 0
        return True
    # opaque: an attribute the speaker does not recognise, kept because it is optional
    return code not in CANON and bool(flags & 0x80) and len(b) < 65536

def attrs_ok(attrs):
    codes = [a[1] for a in attrs]
    return len(set(codes)) == len(codes) and all(attr_ok(a) for a in attrs) and all(len(expand_bytes(a[4])) < 65536 for a in attrs)

def wire_attrs(attrs, two_byte):
    """(flags, code, value) the sender puts on the wire: RFC 4271 4.3, RFC 6793 4.2.2"""
    out = []
    for kind, code, flags, v, bd in attrs:
        b = expand_bytes(bd)
        if kind == 0:
            out.append((CANON[code], code, [v] if code == 1 else be32(v)))
            continue
        fl = flags if kind == 2 else CANON[code]
        if two_byte and code == 2:
            segs = aspath_segments(b)
            down = []
            for t, asns in segs:
                down += [t, len(asns)]
                for x in asns: down += be16(23456 if x > 65535 else x)
            out.append((64, 2, down))
            if any(x > 65535 for _, asns in segs for x in asns):
                v4 = []
                for t, asns in segs:
                    if t in (1, 2):
                        v4 += [t, len(asns)]
                        for x in asns: v4 += be32(x)
                if v4:      # nothing but confederation segments: there is no AS4_PATH to send (an empty one is malformed, RFC 6793 6)
                    out.append((192, 17, v4))
        elif two_byte and code == 7:
            asn = rd32(b, 0)
            out.append((192, 7, be16(23456 if asn > 65535 else asn) + b[4:8]))
            if asn > 65535:
                out.append((192, 18, b))
        else:
            out.append((fl, code, b))
    return out

def wire_attr_len(wa):
    return sum(len(v) + (4 if (len(v) > 255 or fl & 0x10) else 3) for fl, code, v in wa)

def seg_hops(segs):
    return sum(1 if t == 1 else len(a) if t == 2 else 0 for t, a in segs)

def rfc6793_reconcile(as_path, as4_path):
    """RFC 6793 4.2.3 on segment lists: AS4_PATH is ignored when it has more hops than AS_PATH, else the
    leading (difference) hops of AS_PATH are prepended to it"""
    n = seg_hops(as_path) - seg_hops(as4_path)
    if n < 0:
        return list(as_path)
    out = []
    for t, a in as_path:
        if n == 0:
            break
        if t == 2:
            k = min(n, len(a)); out.append((2, a[:k])); n -= k
        elif t == 1:
            out.append((t, a)); n -= 1
        else:
            out.append((t, a))
    return out + list(as4_path)

def expected_attrs(attrs, two_byte):
    """what the receiver must hold: the same attributes, modulo the extended-length flag; an
    unrecognised optional non-transitive attribute is not kept by a receiver (RFC 4271 5)"""
    out = []
    aspath_exact = True
    for kind, code, flags, v, bd in attrs:
        b = expand_bytes(bd)
        if kind == 0:
            out.append((0, code, CANON[code], v))
        elif kind == 1:
            out.append((1, code, CANON[code], tuple(b)))
            if two_byte and code == 2:
                segs = aspath_segments(b)
                # RFC 6793 carries no confederation segments in AS4_PATH: with both confederation
                # segments and wide AS numbers the receiver's reconstruction (4.2.3) is not the identity;
                # what it must hold is the reconstruction from the two attributes the RFC has the sender write
                if any(x > 65535 for _, a in segs for x in a):
                    down = [(t, [23456 if x > 65535 else x for x in a]) for t, a in segs]
                    as4 = [(t, a) for t, a in segs if t in (1, 2)]
                    rec = rfc6793_reconcile(down, as4) if as4 else down
                    rb = []
                    for t, a in rec:
                        rb += [t, len(a)]
                        for x in a: rb += be32(x)
                    out[-1] = (1, code, CANON[code], tuple(rb))
        else:
            if flags & 0x40:
                out.append((2, code, flags & ~0x10 & 0xff, tuple(b)))
    return out, aspath_exact

def got_attrs(av):
    out = []
    for a in av:
        if a[0] == 0: out.append((0, a[1], a[2] & ~0x10 & 0xff, a[3]))
        else: out.append((a[0], a[1], a[2] & ~0x10 & 0xff, tuple(a[3])))
    return out

def mp_family(f, sess):
    return not (f == W.IPV4 and not sess.ext_nh)

def nexthop_plan(f, nh, sess):
    """('skip',) when the pair (family, next hop) is not something a speaker can announce;
    ('expect', bytes|None, wire_len) otherwise"""
    if not mp_family(f, sess):
        return ('expect', nh, 7) if nh is not None and len(nh) == 4 else ('skip',)
    if f in FLOWSPEC:
        return ('expect', None, 1)          # RFC 8955 4: next hop length 0
    if nh is None:
        return ('skip',)
    afi = f >> 16
    vpn = 8 if f in (W.IPV4_VPN, W.IPV6_VPN) else 0
    if len(nh) == 4:
        if afi == 2 and not vpn and f not in (W.IPV6_MC, W.IPV6_SRP):
            # AFI 2 needs a 16-octet next hop (RFC 4760 3, RFC 2545 3): an IPv4 next hop travels as the
            # IPv4-mapped IPv6 address ::ffff:a.b.c.d (RFC 4798 2; what GoBGP sends)
            return ('expect', [0] * 10 + [255, 255] + nh, 1 + 16)
        return ('expect', nh, 1 + vpn + 4)
    if len(nh) == 16:
        return ('expect', nh, 1 + vpn + 16)
    return ('expect', nh, 1 + 2 * (vpn + 16))

def notif_norm(code, sub, data):
    keeps = {(1, 2), (1, 3), (2, 1), (2, 4), (2, 7), (2, 6), (3, 2), (3, 3), (3, 4), (3, 5), (3, 6), (3, 8), (7, 1)}
    known = keeps | {(2, 0), (2, 2), (2, 3), (3, 1), (3, 9), (3, 10), (3, 11)} | {(6, s) for s in range(1, 10)}
    if code == 4: return [4, 0, []]
    if code == 5: return [5, sub, []]
    if (code, sub) in known: return [code, sub, data if (code, sub) in keeps else []]
    return [code, sub, data]

def cap_ok(c):
    t = c[0]
    if t == 'mp': return True
    if t == 'enh': return all((f >> 16) == 1 and a == 2 for f, a in c[1])
    if t == 'gr': return c[1] < 16 and c[2] < 4096 and all(fl < 256 for _, fl in c[3])
    if t == 'addpath': return all(1 <= m <= 3 for _, m in c[1])
    if t == 'llgr': return all(fl < 256 and tm < 2 ** 24 for _, fl, tm in c[1])
    if t == 'fqdn': return all(b < 128 for b in c[1] + c[2]) and len(c[1]) < 256 and len(c[2]) < 256
    if t == 'unknown': return c[1] not in (1, 2, 5, 6, 64, 65, 69, 70, 71, 73)
    return True

def cap_wire_len(c):
    t = c[0]
    if t == 'mp': return 6
    if t in ('rr', 'extmsg', 'err'): return 2
    if t == 'enh': return 2 + 6 * len(c[1])
    if t == 'gr': return 4 + 4 * len(c[3])
    if t == 'as4': return 6
    if t == 'addpath': return 2 + 4 * len(c[1])
    if t == 'llgr': return 2 + 7 * len(c[1])
    if t == 'fqdn': return 4 + len(c[1]) + len(c[2])
    if t == 'unknown': return 2 + len(c[2])
    raise ValueError(c)

def cap_canon(c):
    from gen.common import cap_to_val
    if c[0] == 'fqdn':
        low = lambda s: [b + 32 if 65 <= b <= 90 else b for b in s]
        c = ('fqdn', low(c[1]), low(c[2]))
    return cap_to_val(c)

# ------------------------------------------------------------------ the oracle
def check_frames_structure(frames, sess, want_type):
    """length fields mutually consistent (RFC 4271 4.1, 4.3; RFC 4760 3, 4)"""
    for k, fr in enumerate(frames):
        if fr[18] != want_type:
            return 'frame %d has type %d, expected %d' % (k, fr[18], want_type)
        if want_type == 2:
            try:
                wd, attrs, nlri = W.read_update(fr)
                for fl, code, v in attrs:
                    if code == 14: W.read_mp_reach(v)
                    if code == 15: W.read_mp_unreach(v)
            except Bad as e:
                return 'frame %d: %s' % (k, e)
        elif want_type == 4 and len(fr) != 19:
            return 'KEEPALIVE of %d bytes' % len(fr)
        elif want_type == 5 and len(fr) != 23:
            return 'ROUTE-REFRESH of %d bytes' % len(fr)
        elif want_type == 1:
            if len(fr) < 29:
                return 'OPEN of %d bytes' % len(fr)
            opt = fr[28]
            if 29 + opt != len(fr):
                return 'OPEN: optional parameters length %d but %d bytes follow' % (opt, len(fr) - 29)
            pos = 29
            while pos < len(fr):
                if pos + 2 > len(fr): return 'OPEN: optional parameter header cut short'
                pl = fr[pos + 1]
                if pos + 2 + pl > len(fr): return 'OPEN: optional parameter length %d runs past the message' % pl
                if fr[pos] == 2:
                    q, end = pos + 2, pos + 2 + pl
                    while q < end:
                        if q + 2 > end: return 'OPEN: capability header cut short'
                        if q + 2 + fr[q + 1] > end: return 'OPEN: capability %d length %d runs past its parameter' % (fr[q], fr[q + 1])
                        q += 2 + fr[q + 1]
                pos += 2 + pl
    return None

def routes_from_frames(frames, sess, f, reach):
    """Spec reader applied to the implementation's bytes, for the families it covers"""
    ap = sess.addpath(f)
    maxbits = 32 if (f >> 16) == 1 else 128
    got = []
    for fr in frames:
        wd, attrs, nlri = W.read_update(fr)
        if not mp_family(f, sess):
            got += W.read_prefixes(nlri if reach else wd, ap, maxbits)
        else:
            for fl, code, v in attrs:
                if reach and code == 14:
                    g, nh, res, body = W.read_mp_reach(v)
                    if g != f: raise Bad('MP_REACH_NLRI for family %d' % g)
                    got += W.read_prefixes(body, ap, maxbits)
                if not reach and code == 15:
                    g, body = W.read_mp_unreach(v)
                    if g != f: raise Bad('MP_UNREACH_NLRI for family %d' % g)
                    got += W.read_prefixes(body, ap, maxbits)
    return got

def judge(c, o, prof):
    m = c['m']
    t = m[0]
    sess = Session(c['l'], c['r'])
    if o == [-9]:
        return None
    # ---- which demands apply to this value
    entries = []
    encodable = True
    if t in ('reach', 'unreach'):
        f = m[1]
        entries = expand_entries(m[4] if t == 'reach' else m[2])
        if f not in sess.common or f not in KNOWN_FAMILIES:
            return None
        if not all(nlri_ok(e[1]) for e in entries):
            return None
        plan = ('expect', None, 0)
        fixed = 23
        if t == 'reach':
            if not attrs_ok(m[3]):
                return None
            plan = nexthop_plan(f, m[2], sess)
            if plan[0] == 'skip':
                return None
            wa = wire_attrs(m[3], sess.two_byte)
            fixed += wire_attr_len(wa) + (plan[2] if not mp_family(f, sess) else 4 + 3 + plan[2] + 1)
        elif mp_family(f, sess):
            fixed += 4 + 3
        ap = 4 if sess.addpath(f) else 0
        if t == 'reach' and not mp_family(f, sess) and not entries:
            fixed -= 7
        encodable = all(fixed + ap + nlri_size(e[1]) <= sess.max for e in entries) and (entries or fixed <= sess.max)
    elif t == 'open':
        if not all(cap_ok(x) for x in m[4]):
            return None
        if m[1] > 65535 and not any(x[0] == 'as4' and x[1] == m[1] for x in m[4]):
            return None
        if m[1] == 23456:
            return None
        if m[3] == 0 or m[3] >= 0xe0000000:
            return None          # identifiers the peer's OPEN validation refuses (C07/C03 territory)
        encodable = sum(cap_wire_len(x) for x in m[4]) + (2 if m[4] else 0) <= 255 and all(cap_wire_len(x) <= 257 for x in m[4])
    elif t == 'notif':
        encodable = 21 + len(notif_norm(m[1], m[2], expand_bytes(m[3]))[2]) <= sess.max
    elif t in ('eor', 'refresh'):
        if t == 'eor' and (m[1] not in sess.common or m[1] not in KNOWN_FAMILIES):
            return None

    if o == [-1]:
        return '%s: the encoder panicked' % prof
    enc, buf, decoded, leftover, fix = o[:5]
    if enc == -2:
        if buf:
            return '%s: encode_to returned an error after writing %d bytes' % (prof, len(buf))
        if encodable:
            return '%s: encode_to refused a message that fits the negotiated maximum' % prof
        return None
    # ---- frames: sizes, tiling, inner lengths
    try:
        frames = W.split_frames(buf, sess.max)
    except Bad as e:
        return '%s: %s' % (prof, e)
    if len(frames) != enc:
        return '%s: encode_to reported %d wire messages, the bytes hold %d frames' % (prof, enc, len(frames))
    want_type = {'open': 1, 'reach': 2, 'unreach': 2, 'eor': 2, 'notif': 3, 'ka': 4, 'refresh': 5}[t]
    why = check_frames_structure(frames, sess, want_type)
    if why:
        return '%s: %s' % (prof, why)
    # ---- the peer's decoder
    if leftover != 0 or len(decoded) != len(frames) or any(d[0] < 0 for d in decoded):
        bad = [d for d in decoded if d[0] < 0]
        return '%s: the peer codec did not accept the frames (%s, %d of %d frames decoded, %d bytes left)' % (
            prof, 'error %s' % bad[0] if bad else 'no error', len([d for d in decoded if d[0] >= 0]), len(frames), leftover)
    # a decoded UPDATE carrying attribute errors is rewritten by validate_message on purpose
    # (treat-as-withdraw / attribute discard, property C05): the fixed-point clause is about
    # values the decoder accepted as they are
    for i, f in enumerate(fix):
        d = decoded[i] if i < len(decoded) else None
        has_errors = isinstance(d, list) and len(d) >= 7 and d[0] == 2 and len(d[6]) > 0
        if f == 0 and not has_errors:
            return '%s: decode(encode(y)) differs from y for the value y decoded from frame %d' % (prof, i)
    if t == 'ka':
        return None if decoded == [[6]] else '%s: KEEPALIVE decoded as %s' % (prof, decoded)
    if t == 'refresh':
        return None if decoded == [[7, m[1]]] else '%s: ROUTE-REFRESH decoded as %s' % (prof, decoded)
    if t == 'notif':
        return None if decoded == [[5] + notif_norm(m[1], m[2], expand_bytes(m[3]))] else '%s: NOTIFICATION decoded as %s' % (prof, str(decoded)[:200])
    if t == 'eor':
        return None if decoded == [[4, m[1]]] else '%s: End-of-RIB for family %d decoded as %s' % (prof, m[1], str(decoded)[:200])
    if t == 'open':
        want = [1, m[1], m[2], m[3], [cap_canon(x) for x in m[4]]]
        return None if decoded == [want] else '%s: OPEN decoded as %s, expected %s' % (prof, str(decoded)[:300], str(want)[:300])
    # ---- routes
    f = m[1]
    reach = t == 'reach'
    ap = sess.addpath(f)
    want_keys = sorted((e[0] if ap else 0, nlri_key(e[1], not reach)) for e in entries)
    # the NLRI fields of the frames, concatenated, are the RFC encodings of the entries, in order
    # (python mirror of reach_frames_all_families / unreach_frames_all_families with the RFC encoders)
    try:
        region = []
        for fr in frames:
            wd_, tl_, nl_ = W.read_update(fr)
            if not mp_family(f, sess):
                region += nl_ if reach else wd_
            else:
                for fl, code, v in tl_:
                    if reach and code == 14:
                        g, nhb, res_, body = W.read_mp_reach(v)
                        if g != f: raise Bad('MP_REACH_NLRI for family %d' % g)
                        region += body
                    if not reach and code == 15:
                        g, body = W.read_mp_unreach(v)
                        if g != f: raise Bad('MP_UNREACH_NLRI for family %d' % g)
                        region += body
    except Bad as e:
        return '%s: %s' % (prof, e)
    want_region = []
    for e in entries:
        want_region += (be32(e[0]) if ap else []) + enc_nlri(e[1], withdraw=not reach)
    if region != want_region:
        k = next((x for x in range(min(len(region), len(want_region))) if region[x] != want_region[x]), min(len(region), len(want_region)))
        return '%s: the NLRI octets of the frames differ from the RFC encoding of the entries at offset %d (%d octets written, %d expected): got %s, expected %s' % (
            prof, k, len(region), len(want_region), region[max(0, k - 4):k + 12], want_region[max(0, k - 4):k + 12])
    if (f >> 16) in (1, 2) and (f & 255) in (1, 2):
        try:
            got = routes_from_frames(frames, sess, f, reach)
        except Bad as e:
            return '%s: %s' % (prof, e)
        kind = 'v4' if (f >> 16) == 1 else 'v6'
        gk = sorted((pid, (kind, mk, oct_)) for pid, mk, oct_ in got)
        if gk != want_keys:
            return '%s: the frames carry %d prefixes, the message %d: %s' % (prof, len(gk), len(want_keys), diff(gk, want_keys))
    if reach:
        # the attributes on the wire are the message's, in the RFC 6793 4.2.2 form on a two-octet-AS
        # session, the same in every frame (read by the Spec reader, not by the peer's decoder)
        want_wire = [(fl & ~0x10 & 0xff, code, tuple(v)) for fl, code, v in wire_attrs(m[3], sess.two_byte)]
        for k, fr in enumerate(frames):
            wd_, tl, nl_ = W.read_update(fr)
            got_wire = [(fl & ~0x10 & 0xff, code, tuple(v)) for fl, code, v in tl if code not in (3, 14)]
            if got_wire != want_wire:
                return '%s: frame %d: attributes on the wire differ from the message: %s' % (prof, k, diff(got_wire, want_wire))
            for fl, code, v in tl:
                if (fl & 0x10 == 0) != (len(v) <= 255) and code not in (14,) and not any(a[1] == code and a[0] == 2 and a[2] & 0x10 for a in m[3]):
                    return '%s: frame %d: attribute %d of %d octets has extended-length flag %d' % (prof, k, code, len(v), fl & 0x10)
    raw_input = any(e[1][0] == 'raw' for e in entries)
    got_keys = []
    exp_attrs, aspath_exact = expected_attrs(m[3], sess.two_byte) if reach else ([], True)
    for k, d in enumerate(decoded):
        if d[0] != 2:
            if d[0] == 4 and not entries:
                continue
            return '%s: frame %d decoded as message kind %d' % (prof, k, d[0])
        _, r1, r2, u1, u2, attrs, errs = d
        if errs:
            return '%s: frame %d: the peer reports attribute errors %s' % (prof, k, errs)
        slots = [('reach', r1), ('mp_reach', r2), ('unreach', u1), ('mp_unreach', u2)]
        want_slot = ('mp_reach' if mp_family(f, sess) else 'reach') if reach else ('mp_unreach' if mp_family(f, sess) else 'unreach')
        for name, s in slots:
            if s and name != want_slot:
                return '%s: frame %d carries an unexpected %s section' % (prof, k, name)
            if s and name == want_slot:
                s = s[0]
                if s[0] != f:
                    return '%s: frame %d: family %d, expected %d' % (prof, k, s[0], f)
                ents = s[2] if reach else s[1]
                got_keys += [(e[0], nlri_key(as_input_kind(val_to_nlri(e[1]), raw_input), not reach)) for e in ents]
                if reach:
                    nh = s[1][0] if s[1] else None
                    if nh != plan[1]:
                        return '%s: frame %d: next hop %s, expected %s' % (prof, k, nh, plan[1])
        if reach and (r1 or r2):
            ga = got_attrs(attrs)
            ea = exp_attrs
            if not aspath_exact:
                ga = [a for a in ga if a[1] != 2]
                ea = [a for a in ea if a[1] != 2]
            if ga != ea:
                return '%s: frame %d: attributes differ: %s' % (prof, k, diff(ga, ea))
    got_keys.sort()
    if got_keys != want_keys:
        return '%s: the peer decodes %d routes, the message holds %d: %s' % (prof, len(got_keys), len(want_keys), diff(got_keys, want_keys))
    return None

def diff(got, want):
    gs, ws = list(got), list(want)
    extra = [x for x in gs if x not in ws][:2]
    missing = [x for x in ws if x not in gs][:2]
    return 'got-only %s, expected-only %s' % (str(extra)[:200], str(missing)[:200])

def oracle(c, obs):
    for o, prof in zip(obs, ('debug', 'release')):
        why = judge(c, o, prof)
        if why:
            return why
        # hidden encoder state (harness field 6): a codec that has encoded the earlier messages of the run writes the
        # same octets as a fresh codec, for this message and for the previous one built again
        if isinstance(o, list) and len(o) == 6 and 0 in o[5]:
            return ('%s: the octets written for %s depend on the messages the session codec encoded before (a codec that lived through the run and a '
                    'fresh one differ): the frames do not decode to the routes of this message [class=encoder-memory]' % (
                        prof, 'this message' if o[5][0] == 0 else 'the previous message, built again after this one was dropped'))
    return None

def in_known_class(kf, c, obs, why):
    if kf.get('id') == 'C04-fs6-prefix-offset':
        # exactly the known deviation: the case holds an IPv6 Flowspec prefix component with a non-zero
        # offset, the oracle objects to the NLRI octets, and with the layout of the finding (pattern
        # counted from bit 0) in place of RFC 8956's the oracle has no objection left
        m = c['m']
        if m[0] not in ('reach', 'unreach') or 'NLRI octets of the frames differ' not in (why or ''):
            return False
        es = expand_entries(m[4] if m[0] == 'reach' else m[2])
        if not any(e[1][0] == 'fs' and e[1][1] and any(x[0] == 'p' and x[3] != 0 for x in e[1][3]) for e in es):
            return False
        old, FS6_FROM_BIT0[0] = FS6_FROM_BIT0[0], True
        try: return oracle(c, obs) is None
        finally: FS6_FROM_BIT0[0] = old
    return False

def nontrivial_key(c, obs):
    o = obs[0]
    if o in ([-1], [-9]):
        return None
    t = c['m'][0]
    if t in ('reach', 'unreach') and o[0] >= 1:
        n = len(expand_entries(c['m'][4] if t == 'reach' else c['m'][2]))
        if n >= 1:
            from gen.c04 import hash_bytes
            return (t, c['m'][1], o[0], n, hash_bytes(o[1]))
    if t == 'open' and c['m'][4]:
        return ('open', len(o[1]), tuple(o[1][:80]))
    return None

def applicable(c):
    """does the property text demand anything of this case (False: a value the daemon cannot build)"""
    return judge(c, [-1], '') is not None

def classify(c, obs):
    tags = list(c.get('tags', []))
    if not applicable(c):
        tags = ['unjudged'] + ['unjudged_' + t for t in tags if t not in ('audit', 'reach', 'unreach', 'mp')]
    o = obs[0]
    if o == [-1]: tags.append('obs_panic')
    elif o == [-9]: tags.append('obs_rejected_by_harness')
    elif o[0] == -2: tags.append('obs_err')
    elif o[0] == 1: tags.append('frames_1')
    elif o[0] <= 3: tags.append('frames_2-3')
    else: tags.append('frames_4+')
    if obs[0] != obs[1] and [obs[0][:2]] != [obs[1][:2]]:
        tags.append('debug_release_differ')
    s = Session(c['l'], c['r'])
    tags.append('max_%d' % s.max)
    if s.two_byte: tags.append('two_byte_as')
    m = c['m']
    if m[0] in ('reach', 'unreach', 'eor', 'refresh'):
        from gen.c04 import FNAME
        tags.append('fam_' + FNAME.get(m[1], 'unknown'))
        if m[0] != 'refresh' and s.addpath(m[1]): tags.append('addpath')
    return sorted(set(tags))
