"""C06: the change stream reproduces the RIB.  Same model and harness as C02;
the oracle folds the implementation's NlriChange stream with three consumers."""
from gen import ribcommon as R
from gen import ribenum as E
from gen.c02 import Prop as C02

class Prop(C02):
    pid = 'C06'
    props_file = 'Props/C06.v'
    required_theorems = ['dest_ids_unique', 'change_carries_current_list', 'skip_flags_sound', 'silent_prefix_unchanged',
                         'fold_all_changes_eq_locrib', 'best_only_consumer_correct', 'addpath_consumer_correct',
                         'end_deferral_emits_all', 'quiet_while_deferring', 'addpath_window_eq_limited',
                         'replaced_path_id_sound', 'lpids_unique', 'delta_exporter_sound', 'alloc_lowest_free']
    extra_targets = ['Model/Rib.vo']
    correspondence_name = 'Model/Rib.v step (notifications and Loc-RIB) vs rustybgp_table::Table (harness/hx-rib)'
    trusted_base = C02.trusted_base + [
        'consumers are functions from prefix to the last path list they looked at (full / best-only / add-path window n); the daemon\'s own consumers '
        '(PendingTx and the export maps keyed by dest_id) belong to property C01',
        'the order of the notifications inside the vector returned by drop*/restale*/update_nexthop_validity follows hash-map iteration and is not modelled; '
        'theorem change_carries_current_list shows every notification of one operation for one prefix carries the same final list, so folding is order-independent',
        'dest_ids_unique assumes the allocator\'s own debug_assert (fewer than 2^24 destinations per shard) along the history; shard index < 256 is not needed in the '
        'model because ids are unbounded naturals there (the u32 shift of a shard index >= 256 would wrap in release builds)']
    assumptions = ['a Source object (allocation token) always denotes the same remote address (consistent histories)']
    rule = ('histories over 3 prefixes, 3 peers (each with a restarted session), path ids 0-2, with insert/replace/remove/drop/stale mark and purge/'
            'LLGR mark and purges/NO_LLGR purge/next-hop flips/start-end deferral; non-trivial = at least one change with best_changed=false or '
            'any_changed=false was emitted; distinct = distinct sequence of (prefix, flags, path list) changes'
            ' Enumerated on every run (gen/ribenum.py, tags enum:*): every operation of a 90-operation alphabet on each of 21 pre-states; two-candidate duels deciding at exactly one step of the decision order with the loser better at every later step, single-step ECMP exclusions, complete ties, EVPN MAC-mobility forms in every extended-community layout, LLGR_STALE / NO_LLGR in every community position; AS_PATH hop counts on both sides of 0/1/63/64/65/127/128/255/256/510 in every segment shape including unknown segment types and hundreds of one-AS segments; 67 (thorough: 131) prefixes crossing the id bitmap words with ids freed and re-used; prefix limits 0/1/2/u32::MAX; u32 ends of path ids, LOCAL_PREF, router ids, CLUSTER_LIST lengths; all role pairs.')

    enum_which = 'c06'

    def gen_cases(self, rng, tier):
        n = 700 if tier == 'quick' else 7000
        cases = E.all_enumerated('c06', tier) + (E.state_x_op(pairs=True) if tier != 'quick' else [])
        for k in range(n):
            if k % 6 == 3:
                # deferral-heavy histories: a start-up deferral during which paths come, go, lose their next hop
                # and are replaced by filtered ones, ended (and sometimes ended again) by end_deferral
                w = dict(ins=10, rem=3, drop=1, dropk=1, restale=1, nhv=4, reconnect=0, deferral=3)
                cases.append(R.gen_history(rng, rng.randint(5, 40), weights=w, deferral=True))
            else:
                cases.append(R.gen_history(rng, rng.randint(5, 40), evpn=(k % 9 == 8), deferral=(k % 3 == 0), limits=(k % 4 == 1)))
            if k % 5 == 2:
                # the same table holds other families: the Restarting-Speaker deferral of ANOTHER family starts somewhere in
                # the history and ends later (or never); next-hop flips, inserts and purges of the family under test in between
                # must be reported as if it were not there
                w = dict(ins=8, rem=3, drop=1, dropk=1, restale=2, nhv=6, reconnect=1, deferral=0)
                c = R.gen_history(rng, rng.randint(6, 30), weights=w, deferral=False)
                ops = list(c['ops'])
                i = rng.randrange(0, max(1, len(ops) // 2))
                ops.insert(i, ('odef', True))
                if rng.random() < 0.7:
                    ops.insert(rng.randrange(i + 1, len(ops) + 1), ('odef', False))
                c['ops'] = ops
                cases.append(c)
        return cases

    def corpus_cases(self):
        import glob, json, os
        out = []
        for f in sorted(glob.glob(os.path.join(os.path.dirname(os.path.dirname(os.path.abspath(__file__))), 'corpus', 'C06', '*.json'))):
            out.append(R.case_from_json(json.load(open(f))['case']))
        return out

    def run_impl(self, cases, tier):
        return R.run_impl('C06', cases, release=False)

    def run_model(self, cases, tier):
        return R.run_model('C06', cases)

    def oracle(self, c, obs):
        if obs and obs[0] == -1:
            return 'panic in the RIB'
        full, best, addp = {}, {}, {}
        delta = {}    # an add-path exporter that re-sends a path only if it is new to it or named by replaced_path_id
        deferring = False
        for k, (o, step) in enumerate(zip(c['ops'], obs)):
            chs, lim, st = step
            if o[0] == 'startdef': deferring = True
            if o[0] == 'enddef': deferring = False
            for ch in chs:
                net, did, bc, ac, rep, paths, ecmp = ch
                content = [(p[1], p[2], tuple(p[3])) for p in paths]
                ids = [(p[0],) + x for p, x in zip(paths, content)]
                if paths: full[net] = ids
                else: full.pop(net, None)
                if bc:
                    if paths: best[net] = content[0]
                    else: best.pop(net, None)
                if ac:
                    if paths: addp[net] = ids
                    else: addp.pop(net, None)
                    # end_deferral's changes are a fresh dump (best_changed and any_changed
                    # both set for every destination): the exporter advertises them all
                    cur = {} if o[0] == 'enddef' else delta.get(net, {})
                    nxt = {}
                    for i in ids:
                        if i[0] in cur and (not rep or rep[0] != i[0]):
                            nxt[i[0]] = cur[i[0]]
                        else:
                            nxt[i[0]] = i[1:]
                    if nxt: delta[net] = nxt
                    else: delta.pop(net, None)
            loc = {x[0]: x for x in st[0]}
            if len(st) > 7:
                for m, lv in ((1, st[7][0]), (2, st[7][1])):
                    got = {x[0]: [tuple_(q) for q in map(tuple, x[1])] for x in lv}
                    want = {n: [tuple_(q) for q in map(tuple, x[5])][:m] for n, x in loc.items()}
                    if {n: [repr(q) for q in v] for n, v in got.items()} != {n: [repr(q) for q in v] for n, v in want.items()}:
                        return 'step %d: collect_loc_rib_paths_limited(%d) is not the %d-path window of the Loc-RIB' % (k, m, m)
            # destination ids unique among live prefixes
            dids = [x[1] for x in st[0]]
            if len(set(dids)) != len(dids):
                return 'step %d: two live prefixes share a destination id %s' % (k, dids)
            for ch in chs:
                if ch[0] in loc and loc[ch[0]][1] != ch[1]:
                    return 'step %d: change carries id %d for prefix %d whose id is %d' % (k, ch[1], ch[0], loc[ch[0]][1])
            if o[0] == 'enddef':
                # every prefix held is announced (with an empty list when nothing is eligible)
                held = sorted(d[0] for d in st[1])
                if sorted(ch[0] for ch in chs) != held:
                    return 'step %d: end_deferral announced prefixes %s, the RIB holds %s' % (k, sorted(ch[0] for ch in chs), held)
            if deferring:
                continue
            want_full = {n: [(p[0], p[1], p[2], tuple(p[3])) for p in x[5]] for n, x in loc.items()}
            if full != want_full:
                return 'step %d: folding every change gives %s, the Loc-RIB is %s' % (k, full, want_full)
            want_best = {n: v[0][1:] for n, v in want_full.items()}
            if best != want_best:
                return 'step %d: a consumer skipping best_changed=false holds %s, the best paths are %s' % (k, best, want_best)
            want_delta = {n: {p[0]: p[1:] for p in v} for n, v in want_full.items()}
            if delta != want_delta:
                return 'step %d: an add-path exporter that re-sends only new paths and the one named by replaced_path_id holds %s, the Loc-RIB is %s' % (k, delta, want_delta)
            if addp != want_full:
                return 'step %d: a consumer skipping any_changed=false holds %s, the Loc-RIB is %s' % (k, addp, want_full)
        return None

    def nontrivial_key(self, c, obs):
        if obs and obs[0] == -1:
            return ('panic',)
        seq = tuple((ch[0], ch[2], ch[3], tuple((p[1], p[2]) for p in ch[5])) for st in obs for ch in st[0])
        if any((not x[1]) or (not x[2]) for x in seq):
            return seq
        return None

def tuple_(x):
    return tuple(x) if isinstance(x, list) else x
