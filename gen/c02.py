"""C02: best-path ranking.  Correspondence of Model/Rib.v with rustybgp_table::Table
and the Spec oracle for the decision order."""
import itertools
from gen import ribcommon as R
from gen import ribenum as E

def split_hops(rng, h):
    """a segment list with exactly h hops (AS_SEQUENCE counts its length, AS_SET one, confederation
    segments nothing), cut at random places"""
    segs = []
    while h > 0:
        x = rng.random()
        if x < 0.15:
            segs.append((1, rng.choice([1, 2, 5, 64, 100]))); h -= 1
        elif x < 0.25:
            segs.append((rng.choice([3, 4]), rng.choice([1, 2, 64, 70])))
        else:
            n = min(h, rng.choice([1, 2, 3, 10, 63, 64, 65, 100, 128, 200, 255, 255]))
            segs.append((2, n)); h -= n
    if rng.random() < 0.2:
        segs.insert(rng.randrange(len(segs) + 1), (rng.choice([3, 4]), rng.choice([1, 64, 255])))
    return segs

class Prop:
    pid = 'C02'
    props_file = 'Props/C02.v'
    ops_field = 'ops'
    required_theorems = ['cmp_code_refines_spec', 'hops_code_refines_spec', 'decision_order_total_preorder', 'dest_sorted_reachable',
                         'best_eligible_maximal', 'ranking_order_independent', 'limited_and_ecmp_are_prefixes', 'ecmp_code_refines_spec', 'rs_local_best', 'adj_in_view']
    extra_targets = ['Model/Rib.vo']
    correspondence_name = 'Model/Rib.v step vs rustybgp_table::Table (harness/hx-rib)'
    rule = ('histories of insert/replace/remove/drop/stale marks/purges/next-hop flips over 3 prefixes, 3 peers (each with a restarted '
            'session), attribute blocks from small colliding domains; non-trivial = some prefix holds >= 2 candidate paths at some step; '
            'distinct = distinct sequence of ranked lists'
            ' Enumerated on every run (gen/ribenum.py, tags enum:*): every operation of a 90-operation alphabet on each of 21 pre-states; two-candidate duels deciding at exactly one step of the decision order with the loser better at every later step, single-step ECMP exclusions, complete ties, EVPN MAC-mobility forms in every extended-community layout, LLGR_STALE / NO_LLGR in every community position; AS_PATH hop counts on both sides of 0/1/63/64/65/127/128/255/256/510 in every segment shape including unknown segment types and hundreds of one-AS segments; 67 (thorough: 131) prefixes crossing the id bitmap words with ids freed and re-used; prefix limits 0/1/2/u32::MAX; u32 ends of path ids, LOCAL_PREF, router ids, CLUSTER_LIST lengths; all role pairs.')
    exhaustive = {'quick': False, 'thorough': False}
    trusted_base = ['one address family per case (the model is one family of one shard); flag flips happen only through restale/restale_llgr of that family '
                    '(the cross-shard / cross-family transient between a flag flip and the re-sort of another table is not modelled)',
                    'sort_unstable is modelled as a stable insertion sort (what std runs for <= 20 elements); theorems use only "sorted permutation"',
                    'attribute blocks are abstracted to the values the comparator reads']
    assumptions = ['attributes satisfy the wire invariants (C17 covers API input)']

    case_to_json = staticmethod(R.case_to_json)
    case_from_json = staticmethod(R.case_from_json)

    enum_which = 'c02'

    def gen_cases(self, rng, tier):
        # classes enumerated on every run (gen/ribenum.py) come first
        cases = E.all_enumerated(self.enum_which, tier)
        n = 600 if tier == 'quick' else 6000
        for k in range(n):
            evpn = (k % 7 == 6)
            cases.append(R.gen_history(rng, rng.randint(4, 28), evpn=evpn, long_paths=(k % 5 == 0)))
        # every arrival order of a small candidate set
        for k in range(12 if tier == 'quick' else 60):
            pool = R.attr_pool(rng, False, n=4)
            srcs = R.sources(rng)
            cand = [('ins', srcs[1 + (i % 3)], 1, i // 3, 1, pool[i % 4], False, False, None) for i in range(4)]
            for perm in itertools.permutations(cand):
                cases.append(dict(shard=0, addrs=[1, 2, 3], ctrs=[], evpn=False, ops=list(perm) + [('restale', False, 2), ('restale', True, 1)]))
        # AS_PATH length duels: candidates that differ (or tie) only in the hop count, the counts
        # close to each other and spread over segment structures of every shape (sequences below and
        # above 64 and up to 255 ASes, sets, confederation segments, empty segments), so that the
        # byte-level walk of Attribute::as_path_length decides the order
        for k in range(60 if tier == 'quick' else 600):
            srcs = R.sources(rng)
            base = rng.choice([1, 3, 6, 30, 62, 64, 66, 80, 127, 129, 200, 254, 256, 300, 511, 700])
            cand = []
            for i in range(rng.choice([2, 3, 3, 4])):
                h = max(0, base + rng.choice([-2, -1, -1, 0, 0, 1, 1, 2]))
                a = R.mk_attr(100 + 2 * i + rng.choice([0, 1]), lp=100, segs=split_hops(rng, h), origin=0)
                cand.append(('ins', srcs[1 + (i % 3)], 1, i // 3, 1, a, False, False, None))
            rng.shuffle(cand)
            tail = [('rem', c[1], 1, c[3], None) for c in cand[:rng.choice([0, 1])]]
            cases.append(dict(shard=0, addrs=[1, 2, 3], ctrs=[], evpn=False, ops=cand + tail))
        return cases

    def run_impl(self, cases, tier):
        a, err = R.run_impl('C02', cases, release=False)
        if a is None:
            return None, err
        b, err = R.run_impl('C02r', cases, release=True)
        if b is None:
            return None, err
        self.release_obs = b
        # both profiles must agree; a divergence is reported as a panic-like observation
        return [x if R.canon_obs(x) == R.canon_obs(y) else [-1, 'debug/release differ'] for x, y in zip(a, b)], ''

    def run_model(self, cases, tier):
        return R.run_model('C02', cases)

    def canon(self, case, obs):
        return R.canon_obs(obs)

    # ---- Spec oracle
    def oracle(self, c, obs):
        if obs and obs[0] == -1:
            return 'panic (or debug/release divergence) in the RIB'
        ref = R.RefRib()
        for k, (o, step) in enumerate(zip(c['ops'], obs)):
            chs, lim, st = step
            prev = None
            if o[0] == 'ins':
                prev = ref.paths.get(o[2], {}).get((o[1][1], o[3]))
                prev = dict(prev) if prev else None
            ref.apply(o)
            if o[0] == 'ins' and lim:
                ref.undo_insert(o, prev)
            loc, dests = st[0], st[1]
            locd = {x[0]: x for x in loc}
            # what the RIB holds, prefix by prefix
            seen = {d[0]: d[1] for d in dests}
            if set(seen) != set(ref.paths):
                return 'step %d: prefixes held %s, expected %s' % (k, sorted(seen), sorted(ref.paths))
            for net, d in ref.paths.items():
                got = seen[net]
                byk = {}
                for p in d.values():
                    byk[(p['rpid'], p['src'][0], p['attr']['tok'])] = p
                gk = [(e[0], e[1], e[2]) for e in got]
                if sorted(gk) != sorted(byk):
                    return 'step %d: prefix %d holds paths %s, expected %s' % (k, net, sorted(gk), sorted(byk))
                keys = [ref.key(net, byk[x]) for x in gk]
                if any(keys[i] > keys[i + 1] for i in range(len(keys) - 1)):
                    return 'step %d: prefix %d is not ranked by the decision order: %s' % (k, net, keys)
                elig = [x for x in gk if ref.eligible(byk[x])]
                if ref.deferring:
                    continue
                lp = locd.get(net)
                got_paths = [(p[1], p[2]) for p in lp[5]] if lp else []
                if got_paths != [(x[1], x[2]) for x in elig]:
                    # ties may be listed in either order
                    gkeys = None
                    return 'step %d: prefix %d Loc-RIB paths %s, expected eligible ranking %s' % (k, net, got_paths, [(x[1], x[2]) for x in elig])
                if lp:
                    ek = [ref.key_before_rid(net, byk[x]) for x in elig]
                    want = [x for x, kk in zip(elig, ek) if kk == ek[0]]
                    # leading run only
                    n = 0
                    while n < len(ek) and ek[n] == ek[0]:
                        n += 1
                    got_ecmp = [(p[1], p[2]) for p in lp[6]]
                    if net >= 1000:
                        # ECMP sets are only consumed for IPv4/IPv6 FIB installation; for
                        # EVPN the property only asks for a prefix of the ranking
                        if got_ecmp != [(x[1], x[2]) for x in elig[:len(got_ecmp)]]:
                            return 'step %d: prefix %d ECMP set is not a prefix of the ranking' % (k, net)
                    elif got_ecmp != [(x[1], x[2]) for x in elig[:n]]:
                        return 'step %d: prefix %d ECMP set %s, expected %s' % (k, net, [(p[1], p[2]) for p in lp[6]], [(x[1], x[2]) for x in elig[:n]])
            # route-server local RIB view shown by the API
            for a, per in st[6]:
                got_rs = {x[0]: tuple(x[1:]) for x in per}
                for net, d in ref.paths.items():
                    cands = [p for p in d.values() if p['src'][3] == 1 and p['src'][1] != a and ref.eligible(p)]
                    if not cands:
                        if got_rs.get(net, ()) != ():
                            return 'step %d: RS-local view of peer %d shows a path for prefix %d, none is eligible' % (k, a, net)
                        continue
                    bestk = min(ref.key(net, p) for p in cands)
                    g = got_rs.get(net, ())
                    ok = [p for p in cands if ref.key(net, p) == bestk and (p['src'][0], R.orig_tok(p['attr'])) == g]
                    if not ok:
                        return 'step %d: RS-local view of peer %d for prefix %d shows %s, which is not a best path among the other route-server clients' % (k, a, net, g)
            for net in locd:
                if net not in ref.paths:
                    return 'step %d: Loc-RIB lists prefix %d which holds no path' % (k, net)
            # read-only views: the limited Loc-RIB collection is the head of the ranking; the
            # Adj-RIB-In view of a peer and the soft-reset input are its paths in the RIB
            if len(st) > 7:
                lim1, lim2, adj = st[7]
                for m, lv in ((1, lim1), (2, lim2)):
                    got = {x[0]: [(p[0], p[1], p[2]) for p in x[1]] for x in lv}
                    want = {x[0]: [(p[0], p[1], p[2]) for p in x[5]][:m] for x in loc}
                    if got != want:
                        return 'step %d: collect_loc_rib_paths_limited(%d) gives %s, the first %d paths of the Loc-RIB are %s' % (k, m, got, m, want)
                addr_of = {}; orig_of = {}
                for o2 in c['ops']:
                    if o2[0] in ('ins', 'rem'):
                        addr_of[o2[1][0]] = o2[1][1]
                    if o2[0] == 'ins':
                        orig_of[o2[5]['tok']] = R.orig_tok(o2[5])
                for a, per in adj:
                    if sorted(r[0] for r in per) != sorted(seen):
                        return 'step %d: Adj-RIB-In view of peer %d lists prefixes %s, the RIB holds %s' % (k, a, sorted(r[0] for r in per), sorted(seen))
                    for net, adj_f, adj_t, soft_f, soft_t in per:
                        mine = [e for e in seen[net] if addr_of.get(e[1]) == a]
                        view = lambda e: [e[0], e[1], orig_of.get(e[2], e[2]), e[3]]      # the view shows the attributes as received
                        if [view(e) for e in mine] != adj_t:
                            return 'step %d: Adj-RIB-In view (with filtered) of peer %d for prefix %d is %s, its paths in the RIB are %s' % (k, a, net, adj_t, mine)
                        if [view(e) for e in mine if not e[3]] != adj_f:
                            return 'step %d: Adj-RIB-In view of peer %d for prefix %d is %s, its accepted paths in the RIB are %s' % (k, a, net, adj_f, [e for e in mine if not e[3]])
                        nh_of = {(p['src'][0], p['rpid']): p['nh'] for p in ref.paths.get(net, {}).values()}
                        want_t = [[e[0], e[1], [] if nh_of.get((e[1], e[0])) is None else [nh_of[(e[1], e[0])]], orig_of.get(e[2], e[2])] for e in mine]
                        want_f = [w for w, e in zip(want_t, mine) if not e[4]]
                        if soft_t != want_t or soft_f != want_f:
                            return 'step %d: soft-reset input of peer %d for prefix %d is %s / %s, expected %s / %s' % (k, a, net, soft_f, soft_t, want_f, want_t)
        return None

    def in_known_class(self, kf, c, obs, why):
        return False

    def nontrivial_key(self, c, obs):
        if obs and obs[0] == -1:
            return ('panic',)
        if any(any(len(d[1]) >= 2 for d in st[2][1]) for st in obs):
            return tuple(tuple((d[0], tuple((e[1], e[2]) for e in d[1])) for d in sorted(st[2][1])) for st in obs)
        return None

    def classify(self, c, obs):
        tags = ['evpn' if c['evpn'] else 'ipv4', 'ops_%s' % ('<=8' if len(c['ops']) <= 8 else '9-16' if len(c['ops']) <= 16 else '17+')]
        if c.get('cls'):
            parts = c['cls'].split(':')
            tags.append('enum:' + parts[0])
            tags.append('enum:' + ':'.join(parts[:2]))
            if parts[0] == 'sxo':
                tags.append('enum:sxo:*:' + parts[2].split('+')[0])
            else:
                tags.append('enum:' + c['cls'])
        for o in c['ops']:
            tags.append('op_' + o[0] + (str(o[1]) if o[0] == 'drop' else ''))
        if obs and obs[0] != -1:
            for o, st in zip(c['ops'], obs):
                nm = o[0] + (str(o[1]) if o[0] == 'drop' else ('_llgr' if o[0] == 'restale' and o[1] else ''))
                if st[1]:
                    tags.append('limit_exceeded')
                if not st[0]:
                    tags.append('silent_' + nm)
                for ch in st[0]:
                    tags.append('chg_%s_best%d_any%d_%s%s' % (nm, ch[2], ch[3], 'withdraw' if not ch[5] else 'paths', '_replaced' if ch[4] else ''))
                if len(st[0]) > 1:
                    tags.append('multi_change_' + nm)
        return sorted(set(tags))
