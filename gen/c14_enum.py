"""C14 case classes that are ENUMERATED ON EVERY RUN (no random draw decides whether a
branch is entered): one class per clause of the property text and per branch of the
anchored functions, with the boundary values on both sides of every comparison.
Every class is tagged enum_* in the evidence (classify)."""
import itertools
from gen.c14 import *
from gen.c14_gen import setup, mk, gmk, with_rpki, EXTS, LARGES, COMMS

R0 = n4(10, 1, 2, 0, 24)
C = [(65000 << 16) | 100, (65000 << 16) | 200, (65001 << 16) | 100]

def one(cls, sets, conds, routes, disp=None, action=None, default=1, profile='debug', both=True, extra=None):
    """statement 1 (conds, Reject unless given) in policy 1, assigned to export (and import), then the routes"""
    ops = setup(sets, [(1, conds, [2] if disp is None else disp, action or NOACT())], [(1, [1])],
                [(1, default, [1])] + ([(0, default, [1])] if both else []))
    return mk(cls, ops + (extra or []) + routes, profile=profile)

# ---------------------------------------------------------------- prefix sets
def enum_prefix():
    out = []
    W = {4: 32, 6: 128}
    bases = [(4, ip4(10, 1, 2, 0), 24), (4, ip4(10, 0, 0, 0), 8), (4, ip4(10, 1, 2, 3), 32), (4, ip4(128, 0, 0, 0), 1),
             (6, ip6(V6BASE), 32), (6, ip6(V6BASE | 5), 128), (6, ip6(1 << 127), 1)]
    for fam, a, L in bases:
        w = W[fam]
        ranges = [(L, L), (L, w), (0, w), (min(L + 1, w), w), (0, max(L - 1, 0)), (w, w), (0, 0), (w, L), (max(L - 1, 0), min(L + 1, w))]
        for lo, hi in ranges:
            masks = sorted({m for m in (lo - 1, lo, lo + 1, hi - 1, hi, hi + 1, L - 1, L, L + 1, 0, 1, w - 1, w) if 0 <= m <= w})
            def route(m, inside=True):
                addr = ipv(a)[1]
                if not inside: addr ^= (1 << (w - 1)) if L == 0 else (1 << (w - L))       # flip the last covered bit
                addr_m = (addr >> (w - m)) << (w - m) if m else 0
                return [4, addr_m, m] if fam == 4 else [6, addr_m >> 64, addr_m & ((1 << 64) - 1), m]
            routes = [ev(route(m), [], d=d) for m in masks for d in (0, 1)]
            routes += [ev(route(m, False), []) for m in masks if m >= L][:6]
            # the other family, same masks: an IPv6 set never matches an IPv4 route and vice versa
            other = [ev([4, 0, m] if fam == 6 else [6, 0, 0, m], []) for m in (0, min(L, 32), min(lo, 32), min(hi, 32))]
            for opt in (0, 2):
                out.append(one('enum_prefix', [[0, 1, [[[a, L], lo, hi]]]], [[0, 1, opt]], routes + other))
    # the default-route entries 0.0.0.0/0 and ::/0 with ranges at 0 / 32 / 128 and reversed, alone, together, with the other family's only
    z4 = lambda lo, hi: [[ip4(0, 0, 0, 0), 0], lo, hi]
    z6 = lambda lo, hi: [[ip6(0), 0], lo, hi]
    for ents in ([z4(0, 32)], [z4(0, 0)], [z4(32, 32)], [z4(8, 24)], [z4(24, 8)], [z6(0, 128)], [z6(128, 128)], [z6(0, 0)], [z6(33, 64)],
                 [z4(8, 24), z6(33, 64)], [z4(0, 32), z4(16, 16)], [z6(64, 32)], [z4(0, 32), [[ip4(10, 0, 0, 0), 8], 8, 8]]):
        routes = [ev([4, (10 << 24) if m else 0, m] if m <= 8 else n4(10, 1, 2, 0, m) if m <= 24 else n4(10, 1, 2, 3, m), []) for m in (0, 7, 8, 9, 16, 23, 24, 25, 31, 32)]
        routes += [ev([6, ((V6BASE >> (128 - m)) << (128 - m)) >> 64 if m else 0, 0, m], []) for m in (0, 1, 16, 32, 33, 63, 64, 65, 127, 128)]
        for opt in (0, 2):
            out.append(one('enum_prefix_zero', [[0, 1, ents]], [[0, 1, opt]], routes))
    # nested and duplicate entries: every entry of the set is tried
    nested = [[[ip4(10, 0, 0, 0), 8], 8, 32], [[ip4(10, 1, 0, 0), 16], 16, 16], [[ip4(10, 1, 2, 0), 24], 30, 32]]
    for perm in itertools.permutations(nested):
        routes = [ev(r, []) for r in (n4(10, 0, 0, 0, 8), n4(10, 1, 0, 0, 16), n4(10, 1, 0, 0, 17), n4(10, 1, 2, 0, 24), n4(10, 1, 2, 0, 30),
                                      n4(10, 1, 2, 4, 30), n4(10, 1, 2, 3, 32), n4(10, 2, 0, 0, 16), n4(11, 0, 0, 0, 8), n4(10, 0, 0, 0, 7))]
        out.append(one('enum_prefix_nested', [[0, 1, list(perm)]], [[0, 1, 0]], routes))
    return out

# ---------------------------------------------------------------- neighbor sets
def enum_neighbor():
    out = []
    ents = [[ip4(10, 0, 0, 1), 32], [ip4(10, 0, 0, 0), 24], [ip4(10, 0, 0, 0), 25], [ip4(10, 0, 0, 128), 25], [ip4(10, 0, 0, 0), 8], [ip4(0, 0, 0, 0), 0],
            [ip4(10, 0, 0, 0), 31], [ip6(V6BASE | 1), 128], [ip6(V6BASE), 32], [ip6(V6BASE), 127], [ip6(0), 0], [ip6(V6BASE), 33]]
    peers = [ip4(10, 0, 0, 1), ip4(10, 0, 0, 0), ip4(10, 0, 0, 2), ip4(10, 0, 0, 127), ip4(10, 0, 0, 128), ip4(10, 0, 0, 255), ip4(10, 0, 1, 1),
             ip4(10, 255, 255, 255), ip4(11, 0, 0, 0), ip6(V6BASE | 1), ip6(V6BASE), ip6(V6BASE | 2), ip6(V6BASE | (1 << 95)), ip6(V6BASE | (1 << 96)), ip6(1)]
    for e in ents:
        for opt in (0, 2):
            out.append(one('enum_neighbor', [[1, 1, [e]]], [[1, 1, opt]], [ev(R0, [], peer=p) for p in peers], both=False))
    # several entries: first / last position
    out.append(one('enum_neighbor', [[1, 1, [ents[0], ents[3], ents[7]]]], [[1, 1, 0]], [ev(R0, [], peer=p) for p in peers], both=False))
    # import: the peer is the source's remote address
    for src in (SRC_E, SRC_6, SRC_L):
        out.append(one('enum_neighbor', [[1, 1, [ents[1], ents[8]]]], [[1, 1, 0]], [ev(R0, [], d=0, src=src), ev(R0, [], d=1, src=src, peer=ip4(10, 0, 0, 9))]))
    # import: exactly the remote address / exactly the local address of the source (they must not be confused)
    for e in ([ip4(10, 0, 0, 1), 32], [ip4(10, 0, 0, 254), 32], [ip6(V6BASE | 1), 128], [ip6(V6BASE | 2), 128]):
        for opt in (0, 2):
            out.append(one('enum_neighbor_import', [[1, 1, [e]]], [[1, 1, opt]], [ev(R0, [], d=0, src=src, peer=ip4(10, 9, 9, 9)) for src in (SRC_E, SRC_I, SRC_6, SRC_L)]))
    return out

# ---------------------------------------------------------------- as-path sets
def enum_aspath():
    out = []
    A, B = 65001, 65003
    paths = [None, [], [(2, [A])], [(2, [A, 65002])], [(2, [65002, A])], [(2, [65002, A, 65004])], [(2, [65002])], [(1, [A, 65002])], [(3, [A]), (2, [65002])],
             [(2, [65002]), (4, [A])], [(2, [A]), (2, [65002])], [(2, [65002]), (2, [A])], [(2, [A - 1])], [(2, [A + 1])], [(2, [B])], [(2, [B + 1])],
             [(2, [B - 1])], [(2, [A]), (2, [A])], [(2, [A, A])], [(2, [0])], [(2, [U32])], [(2, [65000, 65004]), (1, [A, B])]]
    routes = [ev(R0, [] if p is None else [aspath_attr(p)], d=d) for p in paths for d in ((0, 1) if p in (None, [(2, [A])]) else (1,))]
    for k in range(8):
        for opt in range(3):
            out.append(one('enum_aspath_single', [[2, 1, [[0, k, A, B if k >= 4 else 0]]]], [[2, 1, opt]], routes))
    # range boundaries incl. reversed and degenerate ranges, 0 and u32::MAX
    for k in (4, 5, 6, 7):
        for a, b in ((A, A), (B, A), (0, U32), (0, 0), (U32, U32), (A, A + 1)):
            out.append(one('enum_aspath_range', [[2, 1, [[0, k, a, b]]]], [[2, 1, 0]], routes))
    # two and three patterns: ANY / ALL / INVERT over singles and general patterns together, every position
    pats = [[0, 0, A, 0], [0, 2, 65002, 0], rx_entry(401), rx_entry(407), rx_entry(404), rx_entry(412)]
    for r in (2, 3):
        for combo in itertools.combinations(pats, r):
            for opt in range(3):
                out.append(one('enum_aspath_multi', [[2, 1, list(combo)]], [[2, 1, opt]], routes[:24]))
    # every general pattern of the vocabulary against every segment type and separator
    rpaths = [[(2, [65001])], [(2, [65001, 65002])], [(1, [65001, 65002])], [(3, [65001]), (2, [65002])], [(4, [65001, 65002])], [(2, [65004, 65002]), (2, [65001])],
              [(2, [])], [], [(2, [65001]), (2, [])], [(3, [65000, 65004]), (1, [65001, 65003]), (2, [65002])], [(2, [165001])], [(2, [65001, 650020])],
              [(5, [65001])], [(2, [99999999999 & U32])], [(2, [65001]), (2, [99999])]]
    rroutes = [ev(R0, [aspath_attr(p)]) for p in rpaths] + [ev(R0, [])]
    for i in range(401, 419):
        for opt in range(3):
            out.append(one('enum_aspath_regex', [[2, 1, [rx_entry(i)]]], [[2, 1, opt]], rroutes))
    return out

# ---------------------------------------------------------------- AS_PATH length
def enum_hops():
    out = []
    hdr = 0x02010000            # an AS number whose octets read as a segment header
    def seg(n, asn=None): return (2, [(asn if asn is not None else hdr + (i & 0xff)) for i in range(n)])
    shapes = {0: [], 1: [seg(1)], 63: [seg(63)], 64: [seg(64)], 65: [seg(65)], 127: [seg(127)], 128: [seg(128)], 129: [seg(64), seg(65)],
              254: [seg(254)], 255: [seg(255)], 256: [seg(255), seg(1)], 257: [seg(255), seg(2)], 510: [seg(255), seg(255)], 511: [seg(255), seg(255), seg(1)]}
    for prof in ('debug', 'release'):
        for total, segs in shapes.items():
            extra_segs = [segs, segs + [(1, [hdr, hdr + 1, 0x01020304])], [(3, [hdr] * 64)] + segs + [(4, [1, 2])], [(1, [7])] + segs]
            routes = [ev(R0, [aspath_attr(s)]) for s in extra_segs]
            conds = [(c, v) for c in (0, 1, 2) for v in sorted({max(total - 1, 0), total, total + 1, total + 2, total & 255, 0})]
            stmts = [(i + 1, [[6, c, v]], [], act(comm=[0, [i + 1]])) for i, (c, v) in enumerate(conds)]     # statement i marks the route when it holds
            ops = setup([], stmts, [(1, [s[0] for s in stmts])], [(1, 1, [1])])
            out.append(mk('enum_hops', ops + routes + [ev(R0, [])], profile=prof))
    return out

# ---------------------------------------------------------------- community / ext / large sets
def enum_community():
    out = []
    exact = lambda v, form=0: [0, v, form]
    pat_sets = [[exact(C[0])], [exact(C[0], 1)], [exact(C[0]), exact(C[1])], [exact(C[0]), exact(C[2]), exact(C[1])], [rx_entry(101)], [rx_entry(102), exact(C[1])],
                [rx_entry(104)], [rx_entry(105), rx_entry(103)], [exact(0)], [exact(U32)], [rx_entry(106)]]
    comm_lists = [None, [], [C[0]], [C[1]], [C[0], C[1]], [C[1], C[0]], [C[2]], [C[0], C[0]], [C[0], C[1], C[2]], [0], [U32], [(65000 << 16) | 666, (65001 << 16) | 150]]
    routes = [ev(R0, [] if cl is None else [comm_attr(cl)]) for cl in comm_lists] + [ev(R0, [[1, 8, [0xfd, 0xe8, 0, 100, 9]]]), ev(R0, [[0, 8, 5]], d=0)]
    for ps in pat_sets:
        for opt in range(3):
            out.append(one('enum_community', [[3, 1, ps]], [[3, 1, opt]], routes))
    # every well-known name, lower and upper case, against its own value, a neighbour value and its enum index
    for idx in range(9):
        for up in (0, 1):
            v = WELL_KNOWN[idx]
            out.append(one('enum_community_wellknown', [[3, 1, [[2, idx, up]]]], [[3, 1, 0]],
                           [ev(R0, [comm_attr([x])]) for x in (v, v + 1, v - 1, idx, 0xffffff01, 0xffff0000)]))
    # extended communities: every type with a string form, and those without
    ext = lambda b: int.from_bytes(bytes(b), 'big')
    exts = [ext([0, 2, 0xfd, 0xe8, 0, 0, 0, 100]), ext([0, 3, 0xfd, 0xe8, 0, 0, 0, 1]), ext([2, 2, 0, 0, 0xfd, 0xe8, 0, 100]), ext([2, 3, 0, 0, 0xfd, 0xe8, 0, 1]),
            ext([1, 2, 10, 0, 0, 1, 0, 7]), ext([1, 3, 10, 0, 0, 1, 0, 7]), ext([3, 12, 0, 0, 0, 0, 0, 8]), ext([0x40, 4, 0xfd, 0xe8, 0, 0, 0, 0]),
            ext([0x43, 0, 0, 0, 0, 0, 0, 0]), ext([0x43, 0, 0, 0, 0, 0, 0, 1]), ext([0x43, 0, 0, 0, 0, 0, 0, 2]), ext([0x43, 0, 0, 0, 0, 0, 0, 3]),
            ext([9, 9, 0, 0, 0, 0, 0, 1]), ext([0, 4, 0xfd, 0xe8, 0, 0, 0, 100]), ext([3, 11, 0, 0, 0, 0, 0, 8]), ext([0x41, 0, 0, 0, 0, 0, 0, 2])]
    eroutes = [ev(R0, [ext_attr([e])]) for e in exts] + [ev(R0, [ext_attr(exts[:3])]), ev(R0, [ext_attr([exts[12], exts[0]])]), ev(R0, []), ev(R0, [[1, 16, [0, 2, 0xfd, 0xe8, 0, 0, 0]]])]
    for i in range(201, 212):
        for opt in range(3):
            out.append(one('enum_extcommunity', [[4, 1, [rx_entry(i)]]], [[4, 1, opt]], eroutes))
    out.append(one('enum_extcommunity', [[4, 1, [rx_entry(201), rx_entry(202)]]], [[4, 1, 1]], eroutes))
    lroutes = [ev(R0, [large_attr(l)]) for l in ([LARGES[0]], [LARGES[1]], [LARGES[2]], LARGES[:2], LARGES[2:], [(U32 << 64) | (U32 << 32) | U32], [0])] + \
              [ev(R0, []), ev(R0, [[1, 32, list(LARGES[0].to_bytes(12, 'big'))[:11]]])]
    for ps in ([rx_entry(301)], [rx_entry(302)], [rx_entry(303)], [rx_entry(301), rx_entry(303)], [rx_entry(304)]):
        for opt in range(3):
            out.append(one('enum_largecommunity', [[5, 1, ps]], [[5, 1, opt]], lroutes))
    return out

# ---------------------------------------------------------------- value conditions
def enum_valconds():
    out = []
    # community count: count x comparison x value on both sides
    routes = [ev(R0, [] if n is None else [comm_attr(C[:n])]) for n in (None, 0, 1, 2, 3)] + [ev(R0, [[1, 8, [0, 0, 0, 1, 2]]])]
    conds = [(c, v) for c in (0, 1, 2, 7) for v in (0, 1, 2, 3, 4)]
    stmts = [(i + 1, [[13, c, v]], [], act(large=[0, [[1, 1, i + 1]]])) for i, (c, v) in enumerate(conds)]
    out.append(mk('enum_commcount', setup([], stmts, [(1, [s[0] for s in stmts])], [(1, 1, [1])]) + routes))
    # local-pref / med / origin equality: absent, equal, different, boundary values, the attribute in its bytes form
    for k, code in ((9, 5), (10, 4), (11, 1)):
        vals = (0, 1, 2, 3, 255) if k == 11 else (0, 100, U32)
        stmts = [(i + 1, [[k, v]], [], act(large=[0, [[2, k, i + 1]]])) for i, v in enumerate(vals)]
        routes = [ev(R0, [])] + [ev(R0, [[0, code, v]]) for v in ((0, 1, 2) if k == 11 else (0, 100, 101, U32, U32 - 1))] + \
                 [ev(R0, [[1, code, [0, 0, 0, 100]]]), ev(R0, [[0, code, 100], [0, code, 0]]), ev(R0, [[0, 4, 100], [0, 5, 0], [0, 1, 2]])]
        out.append(mk('enum_attr_eq', setup([], stmts, [(1, [s[0] for s in stmts])], [(1, 1, [1]), (0, 1, [1])]) + routes + [r[:1] + [0] + r[2:] for r in routes[:3]]))
    # route type x source
    stmts = [(t + 1, [[12, t]], [], act(large=[0, [[3, t, 0]]])) for t in range(3)]
    srcs = [SRC_E, SRC_I, SRC_L, SRC_6, [0, PEER, LOCAL, 0, 0], [0, PEER, LOCAL, 65000, 0]]
    out.append(mk('enum_routetype', setup([], stmts, [(1, [1, 2, 3])], [(1, 1, [1]), (0, 1, [1])]) + [ev(R0, [], d=d, src=s) for s in srcs for d in (0, 1)]))
    # afi-safi lists x route family
    lists = [[65537], [131073], [65537, 131073], [131073, 65537], [65537 + 127], [], [65538], [(1 << 16) | 128, 131073]]
    stmts = [(i + 1, [[14, l]], [], act(large=[0, [[4, i, 0]]])) for i, l in enumerate(lists)]
    out.append(mk('enum_afisafi', setup([], stmts, [(1, [s[0] for s in stmts])], [(1, 1, [1])]) + [ev(R0, []), ev(n6(0, 32), []), ev([4, 0, 0], []), ev([6, 0, 0, 0], [])]))
    # nexthop condition x every nexthop form
    lists = [[PEER], [ip4(10, 0, 0, 9)], [ip6(V6BASE | 9)], [ip4(10, 0, 0, 9), PEER], [ip6(V6BASE | 9), PEER], [ip6(0xfe80 << 112 | 1)]]
    stmts = [(i + 1, [[7, l]], [], act(large=[0, [[5, i, 0]]])) for i, l in enumerate(lists)]
    nhs = [PEER, ip4(10, 0, 0, 9), ip6(V6BASE | 9), [7, (V6BASE | 9) >> 64, 9, 0xfe80 << 48, 1], False]
    out.append(mk('enum_nexthop_cond', setup([], stmts, [(1, [s[0] for s in stmts])], [(1, 1, [1]), (0, 1, [1])]) + [ev(R0, [], nh=nh, d=d) for nh in nhs for d in (0, 1)]))
    # a later statement sees the next hop an earlier one set
    stmts = [(1, [], [], act(nexthop=[0, ip4(10, 0, 0, 9)])), (2, [[7, [ip4(10, 0, 0, 9)]]], [2], NOACT())]
    out.append(mk('enum_nexthop_cond', setup([], stmts, [(1, [1, 2])], [(1, 1, [1])]) + [ev(R0, [], nh=nh) for nh in nhs]))
    return out

# ---------------------------------------------------------------- RPKI condition
def enum_rpki():
    out = []
    vrps = [[ip4(10, 0, 0, 0), 8, 8, 65002], [ip4(10, 1, 2, 0), 24, 24, 65001], [ip4(10, 1, 2, 0), 24, 32, 65003], [ip4(10, 2, 0, 0), 16, 16, 0], [ip6(V6BASE), 32, 48, 65001]]
    nets = [n4(10, 0, 0, 0, 8), n4(10, 1, 2, 0, 24), n4(10, 1, 2, 0, 25), n4(10, 2, 0, 0, 16), n4(11, 0, 0, 0, 8), n6(0, 32), n6(0, 48), n6(0, 49)]
    paths = [None, [], [(2, [65001])], [(2, [65002])], [(2, [65003])], [(2, [65001, 65002])], [(2, [65002, 65001])], [(1, [65001])], [(2, [65001]), (1, [65002])],
             [(2, [65009]), (2, [65001])], [(3, [65001])], [(2, [0])]]
    stmts = [(s + 1, [[8, s]], [], act(large=[0, [[6, s, 0]]])) for s in range(3)]
    base = setup([], stmts, [(1, [1, 2, 3])], [(1, 1, [1]), (0, 1, [1])])
    for vs in ([], vrps, vrps[:1], vrps[4:]):
        for src in (SRC_E, SRC_I, SRC_L):
            routes = [ev(n, [] if p is None else [aspath_attr(p)], src=src, d=d) for n in nets for p in paths for d in ((0, 1) if p is None else (1,))]
            c = mk('enum_rpki', base + [routes[0]] + with_rpki(None, routes, vs))
            out.append(c)
    return out

# ---------------------------------------------------------------- actions
def enum_actions():
    out = []
    # community add / remove / replace x existing x values (incl. duplicates, empty, everything removed)
    existing = [None, [], [C[0]], [C[0], C[1]], [C[1], C[0], C[1]], [C[2]]]
    for t in (0, 1, 2):
        for vals in ([], [C[0]], [C[1], C[0]], [C[0], C[0]], [C[2], C[1]]):
            routes = [ev(R0, ([] if e is None else [comm_attr(e)]) + [[0, 5, 100]]) for e in existing] + [ev(R0, [[1, 8, [0xfd, 0xe8, 0, 100, 1]], [0, 1, 0]])]
            out.append(one('enum_act_community', [], [], routes, disp=[1], action=act(comm=[t, vals]), default=2))
    ex8 = [list(e.to_bytes(8, 'big')) for e in EXTS[:3]]
    lg = [[c >> 64, (c >> 32) & U32, c & U32] for c in LARGES[:3]]
    for t in (0, 1, 2):
        for n in (0, 1, 2):
            routes = [ev(R0, ([] if k is None else [ext_attr(EXTS[:k]), large_attr(LARGES[:k])]) + [[0, 4, 5]]) for k in (None, 1, 2, 3)]
            out.append(one('enum_act_extlarge', [], [], routes, disp=[], action=act(ext=[t, ex8[:n]], large=[t, lg[:n]])))
    # MED: mod / replace x current x value, wrap-around at 0 and u32::MAX, i64 extremes; both profiles
    vals = [0, 1, -1, 5, -5, -6, U32, U32 + 1, -U32, -U32 - 1, U32 - 5, (1 << 63) - 1, -(1 << 63), (1 << 31), -(1 << 31), (1 << 32)]
    cur = [[], [[0, 4, 0]], [[0, 4, 5]], [[0, 4, U32]], [[0, 4, U32 - 1]], [[1, 4, [0, 0, 0, 5]]], [[0, 4, 5], [0, 4, 9]], [[0, 4, 1 << 31]]]
    for prof in ('debug', 'release'):
        for t in (0, 1):
            for v in vals:
                out.append(one('enum_act_med', [], [], [ev(R0, a) for a in cur], disp=[1], action=act(med=[t, v]), profile=prof, both=False))
    # local-pref and origin actions: boundary values, an existing attribute (value and bytes form), two of them
    for v in (0, 100, U32):
        out.append(one('enum_act_lp_origin', [], [], [ev(R0, a) for a in ([], [[0, 5, 7]], [[1, 5, [0, 0, 0, 7]]], [[0, 5, 7], [0, 5, 8]], [[0, 1, 1], [0, 5, 7]])],
                       disp=[1], action=act(lp=v, origin=v & 255)))
    # next hop: address v4 / v6, self, peer address, unchanged with and without an original; v4 and v6 local / peer; import refuses them
    nhacts = [[0, ip4(10, 9, 9, 1)], [0, ip6(V6BASE | 7)], [1], [2], [3]]
    for a in nhacts:
        routes = [ev(R0, [], nh=nh, orig=orig, local=loc, peer=peer) for nh in (PEER, ip6(V6BASE | 9), False) for orig in (None, ip4(10, 9, 9, 9), ip6(V6BASE | 3))
                  for loc, peer in ((LOCAL, PEER), (ip6(V6BASE | 2), ip6(V6BASE | 1)))]
        ops = setup([], [(1, [], [1], act(nexthop=a))], [(1, [1])], [(1, 2, [1]), (0, 2, [1])])      # the import assignment is refused
        out.append(mk('enum_act_nexthop', ops + routes + [ev(R0, [], d=0)]))
    # AS prepend: count 0 / 1 / 2 / 255 / 256, leading segment SEQ with 0 / 1 / 253 / 254 / 255 ASes, SET, CONFED, no attribute, confed peer, left-most AS
    lead = [None, [], [(2, [])], [(2, [65001])], [(2, [65001] * 253)], [(2, [65001] * 254)], [(2, [65001] * 255)], [(1, [65001, 65002])], [(3, [65001])],
            [(3, [65001] * 254)], [(3, [65001] * 255)], [(2, []), (2, [65002])], [(4, [65002]), (2, [65001])]]
    for rep in (0, 1, 2, 255, 256):
        for lm in (0, 1):
            routes = [ev(R0, [] if p is None else [aspath_attr(p)], confed=cf) for p in lead for cf in (0, 1)]
            if rep >= 255: routes = routes[:10]
            out.append(one('enum_act_prepend', [], [], routes + [ev(R0, [aspath_attr([(2, [65001])])], d=0)], disp=[1], action=act(prepend=[65009, rep, lm]),
                           profile='release' if rep == 256 else 'debug'))
    # every action at once, then each absent in turn: the order of application (later conditions see earlier actions)
    full = dict(nexthop=[1], comm=[0, [C[0]]], lp=200, med=[0, 10], prepend=[65009, 1, 0], ext=[0, ex8[:1]], large=[0, lg[:1]], origin=2)
    for drop in [None] + list(full):
        a = act(**{k: v for k, v in full.items() if k != drop})
        stmts = [(1, [], [], a), (2, [[3, 1, 0], [9, 200], [10, 10], [11, 2], [6, 0, 1], [4, 1, 0], [5, 1, 0], [7, [LOCAL]]], [2], NOACT())]
        sets = [[3, 1, [[0, C[0], 0]]], [4, 1, [rx_entry(201)]], [5, 1, [rx_entry(301)]]]
        out.append(mk('enum_act_order', setup(sets, stmts, [(1, [1, 2])], [(1, 1, [1])]) + [ev(R0, []), ev(R0, [[0, 4, 1], [0, 5, 1], [0, 1, 0], aspath_attr([])])]))
    return out

# ---------------------------------------------------------------- chains and dispositions
def enum_chain():
    """three statements over two policies; statement i applies iff the route carries community i; it adds large community i.
    Every combination of dispositions x every subset of applying statements x the three defaults x both directions."""
    out = []
    marks = [1, 2, 3]
    disps = [[], [0], [1], [2]]
    sets = [[3, i, [[0, i, 0]]] for i in marks]
    routes = [ev(R0, [comm_attr([m for m in marks if sub & (1 << (m - 1))])] if sub else [], d=d) for sub in range(8) for d in (0, 1)]
    k = 0
    for d1, d2, d3 in itertools.product(disps, repeat=3):
        stmts = [(i, [[3, i, 0]], d, act(large=[0, [[9, i, 0]]])) for i, d in zip(marks, (d1, d2, d3))]
        shape = [[(1, [1, 2]), (2, [3])], [(1, [1]), (2, [2, 3])], [(1, [1, 2, 3])], [(1, [1]), (2, [2]), (3, [3])]][k % 4]
        dflt = (1, 2, 0)[k % 3]
        names = [p[0] for p in shape]
        out.append(mk('enum_chain', setup(sets, stmts, shape, [(1, dflt, names), (0, (2, 0, 1)[k % 3], names)]) + routes))
        k += 1
    # empty assignment, empty policy, a statement shared by two policies, a policy listed by both directions
    out.append(mk('enum_chain', setup([], [(1, [], [], act(lp=1))], [(1, []), (2, [1])], [(1, 2, [1]), (0, 0, [1, 2])]) + routes[:4] +
                  [[7, 0, 1, 1, []], routes[0], [7, 1, 1, 2, []], routes[1], [7, 1, 0, 1, [2, 1]], routes[0], [10]]))
    out.append(mk('enum_chain', setup([], [(1, [], [], act(med=[0, 1]))], [(1, [1, 1]), (2, [1])], [(1, 1, [1, 2])]) + [ev(R0, [[0, 4, 5]])]))
    return out

# ---------------------------------------------------------------- AS_PATH bytes only the API can produce
def enum_api_bytes():
    out = []
    bad = [[], [2], [2, 0], [2, 1], [2, 1, 0, 0, 0], [2, 1, 0, 0, 253, 233], [2, 1, 0, 0, 253, 233, 2], [2, 1, 0, 0, 253, 233, 2, 1], [2, 2, 0, 0, 253, 233],
           [0, 1, 0, 0, 253, 233], [5, 1, 0, 0, 253, 233], [255, 1, 0, 0, 253, 233], [2, 255, 0, 0, 253, 233], [2, 0, 2, 1, 0, 0, 253, 233],
           [1, 1, 0, 0, 253, 233, 9], [3, 1, 0, 0, 253, 233, 4, 9]]
    sets = [[2, 1, [[0, k, 65001, 65001] for k in range(8)] + [rx_entry(401)]]]
    for prof in ('debug', 'release'):
        stmts = [(1, [[6, 1, 0]], [], act(prepend=[65009, 1, 1])), (2, [[2, 1, 1]], [], act(lp=1)), (3, [[2, 1, 2]], [], act(lp=2)), (4, [[8, 0]], [], act(lp=3)),
                 (5, [[6, 2, 1], [2, 1, 0]], [2], NOACT())]
        ops = setup(sets, stmts, [(1, [1, 2, 3, 4, 5])], [(1, 1, [1]), (0, 1, [1])])
        routes = [ev(R0, [[k, 2] + ([0xc0, b] if k == 2 else [b])], d=d, confed=cf) for b in bad for k in (1, 2) for d, cf in ((1, 0), (1, 1), (0, 0))]
        out.append(mk('enum_api_bytes', with_rpki(None, ops + routes, [[ip4(10, 1, 2, 0), 24, 24, 65001]]), profile=prof))
    return out

# ---------------------------------------------------------------- CRUD: every kind x every call
def enum_crud():
    out = []
    E = {0: [[[ip4(10, 0, 0, 0), 8], 8, 32], [[ip4(10, 1, 0, 0), 16], 16, 24], [[ip6(V6BASE), 32], 32, 64], [[ip4(0, 0, 0, 0), 0], 0, 8], [[ip6(0), 0], 0, 16]],
         1: [[ip4(10, 0, 0, 1), 32], [ip4(10, 0, 0, 0), 24], [ip6(V6BASE), 32]],
         2: [[0, 0, 65001, 0], [0, 6, 65001, 65003], [0, 2, 65002, 0], rx_entry(401), rx_entry(403), rx_entry(408)],
         3: [[0, C[0], 0], [0, C[1], 1], rx_entry(101), rx_entry(104), [2, 5, 0], [2, 8, 1]],
         4: [rx_entry(201), rx_entry(202), rx_entry(204)],
         5: [rx_entry(301), rx_entry(302), rx_entry(303)]}
    BAD = {0: [[0], 1, 2], 1: [0], 2: [2], 3: [3], 4: [3], 5: [3]}
    probes = [ev(n4(10, 1, 0, 0, 16), [aspath_attr([(2, [65004, 65002]), (2, [65001])]), comm_attr([C[0], 0xffffff01]), ext_attr(EXTS[:2]), large_attr(LARGES[:2])], d=d) for d in (0, 1)] + \
             [ev(n6(0, 40), [aspath_attr([(2, [65002])]), comm_attr([C[1]])], peer=ip6(V6BASE | 1))]
    for kind in range(6):
        ents = E[kind]
        S = lambda es: [kind, 1, list(es)]
        opts = (0, 2) if kind < 2 else (0, 1, 2)
        for opt in opts:
            ops = []
            # unreferenced: add, merge, partial delete of present / absent / all elements, delete-all, replace, errors
            ops += [[1, 0, S(ents[:2])], [10], [1, 0, S(ents[2:3])], [10], [1, 0, S([])], [1, 0, S(ents[:1])], [10],
                    [2, 0, S(ents[1:2])], [10], [2, 0, S(ents[-1:])], [2, 0, S([])], [2, 0, S([BAD[kind]])], [1, 0, S([BAD[kind]])], [1, 0, S(ents[:1] + [BAD[kind]])], [10],
                    [2, 0, S(ents[:1] + ents[:1])], [10], [2, 0, S(ents)], [10], [2, 1, S([])], [2, 1, S([])], [2, 0, S(ents[:1])], [10],
                    [1, 0, S([])], [1, 1, S([])], [1, 1, S(ents[:2])], [1, 1, S(ents[1:])], [10], [1, 1, S([BAD[kind]])], [10], [1, 0, S(ents)], [10]]
            # referenced: every call is refused and evaluation stays what it was
            ops += [[3, 1, [[kind, 1, opt]], [2], NOACT()], [3, 2, [[kind, 2, opt]], [2], NOACT()], [5, 1, [1]], [7, 0, 1, 1, [1]], [7, 0, 0, 1, [1]]] + probes
            for attack in ([2, 1, S([])], [2, 0, S(ents[:1])], [2, 0, S([])], [1, 1, S(ents[:1])], [1, 0, S(ents[:1])], [1, 0, S([])], [1, 1, S([])], [1, 1, S([BAD[kind]])], [2, 0, S([BAD[kind]])]):
                ops += [attack] + probes[:2]
            # same name, another kind: not the same set
            ok = (kind + 1) % 6
            ops += [[1, 0, [ok, 1, E[ok][:1]]], [2, 1, [ok, 1, []]], [10]]
            # released link by link
            ops += [[8, 1, [], 1], [8, 0, [1], 0], probes[0], [6, 1, 1, 1, []], [4, 1, 0, [[kind, 1, 0]], [], NOACT()], [2, 0, S(ents[:1])], [10], [2, 1, S([])], [10]]
            out.append(mk('enum_crud_sets', ops))
    # partial delete of a pattern, then evaluate (round-2 seed: the add and delete paths must agree on the stored form) -- every element of every kind
    for kind in range(6):
        for i, e in enumerate(E[kind]):
            others = [x for j, x in enumerate(E[kind]) if j != i]
            for opt in ((0, 2) if kind < 2 else (0, 1, 2)):
                ops = [[1, 0, [kind, 1, E[kind]]], [2, 0, [kind, 1, [e]]], [10], [3, 1, [[kind, 1, opt]], [2], NOACT()], [5, 1, [1]], [7, 0, 1, 1, [1]]] + probes + \
                      [ev(R0, [aspath_attr([(2, [65001])]), comm_attr([C[1], 5])]), ev(n4(10, 0, 0, 0, 8), [aspath_attr([(2, [65002])])], peer=ip4(10, 0, 0, 7)),
                       ev([4, 0, 4], [comm_attr([0xffffff04])]), ev([6, 0, 0, 8], [])]
                out.append(mk('enum_crud_partial_delete', ops))
    # partial delete with candidates that are NOT elements: same prefix with another range, another length, the other family's 0/0, a neighbour
    # with another length, a range pattern with other bounds, a pattern of another kind; nothing may be removed
    near = {0: [[[ip4(10, 0, 0, 0), 8], 8, 31], [[ip4(10, 0, 0, 0), 8], 9, 32], [[ip4(10, 0, 0, 0), 9], 8, 32], [[ip4(0, 0, 0, 0), 0], 0, 9], [[ip6(0), 0], 0, 8], [[ip6(V6BASE), 32], 32, 63]],
            1: [[ip4(10, 0, 0, 1), 31], [ip4(10, 0, 0, 0), 25], [ip6(V6BASE), 33], [ip4(10, 0, 0, 2), 32]],
            2: [[0, 0, 65002, 0], [0, 6, 65001, 65002], [0, 2, 65001, 0], [0, 4, 65001, 65003], rx_entry(402), rx_entry(407)],
            3: [[0, C[2], 0], [0, C[0] + 1, 1], rx_entry(102), rx_entry(103), [2, 6, 0], [2, 7, 1]],
            4: [rx_entry(203), rx_entry(205)], 5: [rx_entry(304)]}
    for kind in range(6):
        for cand in near[kind]:
            opt = 0
            ops = [[1, 0, [kind, 1, E[kind]]], [10], [2, 0, [kind, 1, [cand]]], [10], [3, 1, [[kind, 1, opt]], [2], NOACT()], [5, 1, [1]], [7, 0, 1, 1, [1]]] + probes + \
                  [ev(n4(10, 0, 0, 0, 8), [aspath_attr([(2, [65002])])], peer=ip4(10, 0, 0, 7)), ev([4, 0, 4], [comm_attr([0xffffff02])]), ev([6, 0, 0, 8], [])]
            out.append(mk('enum_crud_partial_delete_near', ops))
    return out

def enum_crud_statements():
    out = []
    sets = [[0, 1, [[[ip4(10, 0, 0, 0), 8], 8, 32]]], [1, 1, [[ip4(10, 0, 0, 1), 32]]], [2, 1, [[0, 0, 65001, 0]]], [3, 1, [[0, C[0], 0]]], [4, 1, [rx_entry(201)]], [5, 1, [rx_entry(301)]]]
    CONDS = [[0, 1, 0], [1, 1, 2], [2, 1, 1], [3, 1, 0], [4, 1, 2], [5, 1, 1], [6, 1, 1], [7, [PEER]], [8, 1], [9, 100], [10, 5], [11, 0], [12, 1], [13, 1, 1], [14, [65537]]]
    ACTS = ['nexthop', 'comm', 'lp', 'med', 'prepend', 'ext', 'large', 'origin']
    AV = dict(nexthop=[1], comm=[0, [C[0]]], lp=200, med=[0, 10], prepend=[65009, 1, 0], ext=[0, [list(EXTS[0].to_bytes(8, 'big'))]], large=[0, [[1, 2, 3]]], origin=2)
    probe = ev(n4(10, 1, 0, 0, 16), [aspath_attr([(2, [65001])]), comm_attr([C[0]]), [0, 5, 100], [0, 4, 5], [0, 1, 0], ext_attr(EXTS[:1]), large_attr(LARGES[:1])])
    base = [[1, 0, s] for s in sets]
    # every condition kind: create, merge a new kind, merge the same kind (error), delete by kind (present / absent), evaluate after each
    for i, c in enumerate(CONDS):
        other = CONDS[(i + 1) % len(CONDS)]
        ops = base + [[3, 1, [c], [], NOACT()], [10], [3, 1, [c], [], NOACT()], [3, 1, [other], [2], NOACT()], [10], [3, 1, [], [1], NOACT()], [3, 1, [other], [], NOACT()],
                      [5, 1, [1]], [7, 0, 1, 1, [1]], probe, [4, 1, 0, [c], [], NOACT()], [3, 1, [CONDS[(i + 2) % len(CONDS)]], [], NOACT()],      # refused: in use
                      [8, 1, [], 1], [6, 1, 1, 1, []],
                      [4, 1, 0, [c], [], NOACT()], [10], [4, 1, 0, [c], [], NOACT()], [4, 1, 0, [], [1], NOACT()], [4, 1, 0, [], [1], NOACT()], [4, 1, 0, [other, other], [], NOACT()], [10],
                      [4, 9, 0, [], [], NOACT()], [4, 9, 1, [], [], NOACT()], [4, 1, 1, [], [], NOACT()], [4, 1, 1, [], [], NOACT()], [10]]
        out.append(mk('enum_crud_statement_conds', ops))
    # conditions that cannot be built
    ops = base + [[3, 1, [[0, 1, 1]], [], NOACT()], [3, 1, [[1, 1, 1]], [], NOACT()], [3, 1, [[0, 2, 0]], [], NOACT()]] + \
          [[3, 1, [[k, 9, 0]], [], NOACT()] for k in range(6)] + [[3, 1, [[3, 1, 0], [3, 1, 2]], [2], NOACT()], [10], [3, 2, [[9, 1], [0, 7, 0]], [], NOACT()], [10]]
    out.append(mk('enum_crud_statement_conds', ops))
    # every action: create with it, merge it (error when set), remove it (error when absent), evaluate
    for a in ACTS:
        b = ACTS[(ACTS.index(a) + 1) % 8]
        ops = [[3, 1, [], [], act(**{a: AV[a]})], [10], [3, 1, [], [], act(**{a: AV[a]})], [3, 1, [], [], act(**{b: AV[b]})], [10], [5, 1, [1]], [7, 0, 1, 1, [1]], probe,
               [8, 1, [], 1], [6, 1, 1, 1, []], [4, 1, 0, [], [], act(**{a: AV[a]})], [10], [4, 1, 0, [], [], act(**{a: AV[a]})], [4, 1, 0, [], [], act(**{b: AV[b], a: AV[a]})], [10],
               [4, 1, 0, [], [], act(**{b: AV[b]})], [10], [5, 1, [1]], [7, 0, 1, 2, [1]], probe]
        out.append(mk('enum_crud_statement_actions', ops))
    return out

def enum_crud_policies():
    out = []
    st = [[3, i, [], [d], act(large=[0, [[8, i, 0]]])] for i, d in ((1, 0), (2, 0), (3, 1))]
    probe = ev(R0, [])
    for preserve in (0, 1):
        ops = st + [[5, 1, [1, 2]], [5, 1, [3]], [5, 1, [9]], [5, 2, []], [5, 2, [2]], [5, 3, [1, 9]], [10],
                    [7, 0, 1, 2, [1]], probe, [5, 1, [2]], [6, 1, preserve, 0, [1]], [6, 1, preserve, 1, []], [7, 0, 0, 2, [2]], [6, 2, preserve, 1, []], [5, 2, [3]], [10],
                    [8, 1, [1], 0], probe, [6, 1, preserve, 0, [2, 9]], [10], [6, 1, preserve, 0, [1, 3]], [10], [6, 1, preserve, 1, []], [10], [6, 1, preserve, 1, []], [6, 9, preserve, 0, []],
                    [8, 0, [], 1], [6, 2, preserve, 1, []], [10], [4, 1, 1, [], [], NOACT()], [4, 2, 1, [], [], NOACT()], [4, 3, 1, [], [], NOACT()], [10]]
        out.append(mk('enum_crud_policies', ops))
    # two policies share a statement: deleting one of them (all / partial, statements not preserved) must keep the shared statement
    for all_ in (1, 0):
        ops = st + [[5, 1, [1, 2]], [5, 2, [2, 3]], [7, 0, 1, 2, [2]], probe, [6, 1, 0, all_, [1, 2]], [10], probe, [3, 2, [[6, 0, 1]], [], NOACT()], [4, 2, 1, [], [], NOACT()],
                    [3, 1, [], [2], NOACT()], [10], [8, 1, [], 1], [6, 2, 0, 1, []], [10]]
        out.append(mk('enum_crud_policies', ops))
    # assignments: add accumulates (new first), duplicates refused, set replaces, delete by name / all / absent, import refuses next-hop actions
    ops = st + [[3, 4, [], [], act(nexthop=[1])], [5, 1, [1]], [5, 2, [2]], [5, 3, [3]], [5, 4, [4]]]
    for d in (0, 1):
        ops += [[8, d, [1], 0], [7, 0, d, 1, [9]], [7, 0, d, 1, [1]], [10], probe[:1] + [d] + probe[2:], [7, 0, d, 2, [1]], [7, 0, d, 2, [2, 3]], [10], probe[:1] + [d] + probe[2:],
                [7, 0, d, 1, [3, 2]], [7, 0, d, 1, [4]], [10], [8, d, [2, 9], 0], [10], [8, d, [1, 2, 3, 4], 0], [10], probe[:1] + [d] + probe[2:], [7, 1, d, 0, [3]], [7, 1, d, 1, [4, 9]],
                [7, 1, d, 2, [1, 1]], [10], probe[:1] + [d] + probe[2:], [8, d, [], 1], [8, d, [], 1], [8, d, [1], 0], [10]]
    out.append(mk('enum_crud_assignments', ops))
    return out

# ---------------------------------------------------------------- Global level
def enum_global():
    out = []
    route = [SRC_E, R0, [], [PEER], [], 0, LOCAL, PEER]
    st = [[3, i, [], [d], act(large=[0, [[8, i, 0]]])] for i, d in ((1, 2), (2, 1), (3, 0))]
    base = st + [[5, 1, [1]], [5, 2, [2]], [5, 3, [3]]]
    # add_peer with / without / with a broken export policy; duplicate peer; per-peer add: accumulates, duplicates, import, unknown peer / policy
    ops = base + [[20, 4, []], [20, 5, [[1, [2]]]], [20, 6, [[2, [9]]]], [20, 6, [[2, []]]], [20, 4, [[1, [1]]]], [24],
                  [23, 4] + route, [23, 5] + route, [23, 6] + route, [23, 7] + route,
                  [21, 4, 1, 1, [1]], [21, 4, 0, 1, [3]], [21, 4, 0, 2, [2]], [24], [21, 4, 1, 2, [1]], [21, 4, 1, 2, [2, 3]], [21, 4, 0, 1, [3]], [21, 7, 1, 1, [1]], [21, 4, 1, 1, [9]], [21, 4, 1, 1, []], [24], [23, 4] + route,
                  [7, 0, 1, 2, [3]], [23, 4] + route, [23, 6] + route, [23, 7] + route,
                  # every referenced policy is protected, for add and for delete (all / partial / preserve)
                  [6, 1, 0, 1, []], [6, 2, 1, 0, [2]], [6, 3, 0, 1, []], [5, 1, [2]], [5, 2, [1]], [5, 3, [1]], [4, 1, 1, [], [], NOACT()], [3, 2, [[6, 0, 0]], [], NOACT()], [24],
                  # per-peer delete: by name, absent name, all, import, unknown peer, nothing assigned
                  [22, 4, 1, [2, 9], 0], [24], [23, 4] + route, [6, 2, 0, 1, []], [22, 5, 1, [], 1], [6, 2, 0, 1, []], [24], [22, 5, 1, [1], 0], [22, 4, 0, [], 1], [22, 7, 1, [], 1],
                  [22, 4, 1, [1, 3], 0], [24], [23, 4] + route, [22, 4, 1, [], 1], [23, 4] + route, [6, 1, 0, 1, []], [8, 1, [], 1], [6, 3, 0, 1, []], [24]]
    out.append(gmk('enum_global', ops))
    return out

# ---------------------------------------------------------------- the cached needs_rpki flag
RPKI_VRPS = [[ip4(10, 1, 2, 0), 24, 24, 65001], [ip6(V6BASE), 32, 32, 65001]]
def rpki_routes():
    """(net, attrs): origin validation Valid / Invalid / NotFound under RPKI_VRPS"""
    return [(n4(10, 1, 2, 0, 24), [aspath_attr([(2, [65002, 65001])])]), (n4(10, 1, 2, 0, 24), [aspath_attr([(2, [65009])])]),
            (n4(11, 0, 0, 0, 8), [aspath_attr([(2, [65001])])]), (n4(10, 1, 2, 0, 24), [])]

def splits(perm):
    a, b, c = perm
    return [[[a, b, c]], [[a], [b, c]], [[a, b], [c]], [[a], [b], [c]]]

def enum_needs_rpki():
    """an assignment holding a policy with an rpki condition, built in one call or accumulated in two or three calls in every
    order, the rpki policy in every position; evaluated, the rpki policy deleted from it (flag falls back), re-added, replaced.
    Table level: the flag is observed in the dump, evaluation gets the table explicitly."""
    out = []
    k = 0
    for perm in itertools.permutations((1, 2, 3)):
        for calls in splits(perm):
            for h in (1, 2, 3):
                for d in (0, 1):
                    st = (1, 2, 0)[k % 3]; k += 1            # the validation state the condition names: Valid / Invalid / NotFound
                    # the rpki condition is the first or the second condition of its statement, which is the first or the second of its policy
                    rc = [[8, st]] if k % 2 else [[13, 1, 0], [8, st]]
                    stmts = [(i, rc if i == h else [], [2] if i == h else [], act(large=[0, [[7, i, 0]]])) for i in (1, 2, 3)] + [(4, [], [], NOACT())]
                    others = [i for i in perm if i != h]
                    evals = [ev(n, a, d=d) for n, a in rpki_routes()]
                    ops = setup([], stmts, [(i, ([4, i] if (i == h and (k // 2) % 2) else [i])) for i in (1, 2, 3)], [])
                    for names in calls: ops += [[7, 0, d, 1, names], [10]] + evals[:2]
                    ops += evals + [[8, d, [h], 0], [10]] + evals[:2] + [[7, 0, d, 1, [h]], [10]] + evals[:2] + \
                           [[7, 1, d, 1, others], [10]] + evals[:2] + [[7, 1, d, 2, others[:1] + [h]], [10]] + evals + [[8, d, others, 0], [10]] + evals[:2]
                    out.append(mk('enum_needs_rpki', with_rpki(None, ops, RPKI_VRPS)))
    return out

def enum_global_rpki():
    """the same through the daemon's needs_rpki-gated paths: TableManager::apply_import with the stored import slot, the export gate
    with the global slot, and a peer's export override built by build_assignment with `existing`"""
    out = []
    k = 0
    def route(n, a): return [SRC_E, n, a, [PEER], [], 0, LOCAL, PEER]
    for perm in itertools.permutations((1, 2, 3)):
        for calls in splits(perm):
            for h in (1, 2, 3):
                for mode in ('import', 'export', 'peer'):
                    st = (1, 2, 0)[k % 3]; k += 1
                    rc = [[8, st]] if k % 2 else [[13, 1, 0], [8, st]]
                    stmts = [[3, i, rc if i == h else [], [2] if i == h else [], act(large=[0, [[7, i, 0]]])] for i in (1, 2, 3)] + [[3, 4, [], [], NOACT()]]
                    others = [i for i in perm if i != h]
                    if mode == 'import':
                        evals = [[26, SRC_E, n, a, [PEER]] for n, a in rpki_routes()]
                        add = lambda names, dflt=1: [7, 0, 0, dflt, names]
                        rm = lambda names: [8, 0, names, 0]
                        setp = lambda names: [7, 1, 0, 1, names]
                    elif mode == 'export':
                        evals = [[23, 9] + route(n, a) for n, a in rpki_routes()]          # peer 9 does not exist: the global slot
                        add = lambda names, dflt=1: [7, 0, 1, dflt, names]
                        rm = lambda names: [8, 1, names, 0]
                        setp = lambda names: [7, 1, 1, 1, names]
                    else:
                        evals = [[23, 4] + route(n, a) for n, a in rpki_routes()]
                        add = lambda names, dflt=1: [21, 4, 1, dflt, names]
                        rm = lambda names: [22, 4, 1, names, 0]
                        setp = lambda names: [22, 4, 1, [], 1]                              # a peer override is replaced by clearing it and adding again
                    ops = stmts + [[5, i, ([4, i] if (i == h and (k // 2) % 2) else [i])] for i in (1, 2, 3)] + [[20, 4, []], [25, RPKI_VRPS]]
                    for names in calls: ops += [add(names), [24]] + evals[:2]
                    ops += evals + [rm([h]), [24]] + evals[:2] + [add([h]), [24]] + evals[:2] + [setp(others), [24]] + evals[:2]
                    if mode == 'peer': ops += [add(others), add([h]), [24]] + evals
                    else: ops += [setp(others[:1] + [h]), [24]] + evals
                    ops += [rm(others), [24]] + evals[:2]
                    probes = [[27, n, a] for n in (n4(10, 1, 2, 0, 24), n4(11, 0, 0, 0, 8)) for a in (0, 65000, 65001, 65002, 65009)]
                    out.append(gmk('enum_global_rpki', ops + probes))
    return out

def enum_cases():
    cases = []
    for f in (enum_prefix, enum_neighbor, enum_aspath, enum_hops, enum_community, enum_valconds, enum_rpki, enum_actions, enum_chain,
              enum_api_bytes, enum_crud, enum_crud_statements, enum_crud_policies, enum_global, enum_needs_rpki, enum_global_rpki):
        cases += f()
    return cases
