"""Case classes for the RIB core (C02, C06, C15) that are ENUMERATED ON EVERY RUN: nothing
here draws from the PRNG.  Each case carries `cls`, shown as `enum:<cls>` in the evidence.

  state x op      every operation of a fixed alphabet applied to every one of a fixed list of
                  pre-states (empty, one path eligible / filtered / next-hop-invalid, best from
                  this or another peer, add-path, stale, LLGR-stale, NO_LLGR, a restarted
                  session over stale paths, deferring, at the prefix limit, three-way tie ...)
  duel            two candidates that differ at exactly one step of the decision order, the
                  loser better at every later step, both arrival orders (plus the EVPN
                  MAC-mobility forms and every layout of the communities the comparator reads)
  hops            AS_PATH hop counts on both sides of 0/1/63/64/65/127/128/255/256/510 in
                  every segment shape
  ids             enough prefixes to cross the 64-bit word boundaries of the id bitmap,
                  freeing and re-using ids at 0/62/63/64/65/127/128
  limit           prefix limits 0 / 1 / 2 / u32::MAX, counter on both sides of the maximum
  wide            remote path ids and attribute values at the ends of their u32 / u8 ranges
"""
from gen import ribcommon as R

U32 = 4294967295

def A(tok, **kw):
    kw.setdefault('lp', 100); kw.setdefault('segs', [(2, 2)]); kw.setdefault('origin', 0)
    if tok % 3 == 1: kw.setdefault('orig', 1000 + tok)      # import policy rewrote this block
    return R.mk_attr(tok, **kw)

# sources (tok, addr, rid, role)
P1 = (1, 1, 9, 0)      # eBGP
P1B = (11, 1, 9, 0)    # restarted session of peer 1
P1C = (21, 1, 9, 0)    # second restart
P2 = (2, 2, 5, 2)      # iBGP
P2B = (12, 2, 5, 2)
P3 = (3, 3, 7, 1)      # route-server client
P4 = (4, 4, 9, 1)      # another route-server client (same router id as peer 1)

MID = A(100)
BETTER = A(101, lp=200)
WORSE = A(102, lp=50)
TWIN = A(103)                       # same rank as MID, another attribute block
LLGRA = A(104, llgr=True)
NOLLGRA = A(105, nollgr=True)
BOTHA = A(106, llgr=True, nollgr=True)

def case(cls, ops, evpn=False, shard=0, ctrs=None):
    toks = sorted(set([o[1][0] for o in ops if o[0] in ('ins', 'rem')] +
                      [o[8][1] for o in ops if o[0] == 'ins' and o[8] is not None] +
                      [o[4] for o in ops if o[0] == 'rem' and o[4] is not None] +
                      [o[3] for o in ops if o[0] == 'drop' and o[3] is not None]))
    # the peers that occur, plus one that never does
    addrs = sorted(set([o[1][1] for o in ops if o[0] in ('ins', 'rem')] + [o[2] for o in ops if o[0] in ('drop', 'restale')]))
    addrs = addrs + [max(addrs + [0]) + 1]
    return dict(shard=shard, addrs=addrs, ctrs=ctrs if ctrs is not None else toks, evpn=evpn, ops=list(ops), cls=cls)

def ins(s, net, a, rpid=0, nh=1, filt=False, nhinv=False, lim=None):
    return ('ins', s, net, rpid, nh, a, filt, nhinv, lim)

def with_limits(ops, mx):
    """every insert / withdrawal / purge carries the counter of its session"""
    out = []
    for o in ops:
        if o[0] == 'ins':
            out.append(o[:8] + ((mx, o[1][0]),))
        elif o[0] == 'rem':
            out.append(o[:4] + (o[1][0],))
        else:
            out.append(o)
    return out

# ------------------------------------------------------------------ pre-states
def states():
    S = []
    S.append(('empty', []))
    S.append(('one', [ins(P1, 1, MID)]))
    S.append(('one_filtered', [ins(P1, 1, MID, filt=True)]))
    S.append(('one_nhinv', [ins(P1, 1, MID, nhinv=True)]))
    S.append(('one_nonh', [ins(P1, 1, MID, nh=None)]))
    S.append(('best_mine', [ins(P1, 1, BETTER), ins(P2, 1, MID, nh=2)]))
    S.append(('best_other', [ins(P1, 1, WORSE), ins(P2, 1, MID, nh=2)]))
    S.append(('filtered_first', [ins(P1, 1, BETTER, filt=True), ins(P2, 1, MID, nh=2)]))
    S.append(('nhinv_first', [ins(P1, 1, BETTER, nhinv=True), ins(P2, 1, MID, nh=2)]))
    S.append(('addpath', [ins(P1, 1, MID, rpid=0), ins(P1, 1, WORSE, rpid=1), ins(P2, 1, TWIN, nh=2)]))
    S.append(('addpath_one_filtered', [ins(P1, 1, MID, rpid=0, filt=True), ins(P1, 1, WORSE, rpid=1)]))
    S.append(('two_prefixes', [ins(P1, 1, MID), ins(P1, 2, MID), ins(P2, 2, BETTER, nh=2)]))
    S.append(('stale', [ins(P1, 1, BETTER), ins(P2, 1, MID, nh=2), ('restale', False, 1)]))
    S.append(('llgr_stale', [ins(P1, 1, BETTER), ins(P2, 1, MID, nh=2), ('restale', False, 1), ('restale', True, 1)]))
    S.append(('llgr_community', [ins(P1, 1, LLGRA), ins(P2, 1, WORSE, nh=2)]))
    S.append(('no_llgr', [ins(P1, 1, NOLLGRA), ins(P1, 2, MID), ins(P2, 1, MID, nh=2), ('restale', False, 1)]))
    # purges that remove only paths which were not eligible (filtered / next-hop-invalid)
    S.append(('stale_filtered', [ins(P1, 1, BETTER, filt=True), ins(P1, 2, MID, nhinv=True), ins(P2, 1, MID, nh=2), ('restale', False, 1)]))
    S.append(('llgr_stale_filtered', [ins(P1, 1, BETTER, filt=True), ins(P1, 2, MID, nhinv=True), ins(P2, 1, MID, nh=2), ('restale', False, 1), ('restale', True, 1)]))
    S.append(('no_llgr_filtered', [ins(P1, 1, NOLLGRA, filt=True), ins(P1, 1, MID, rpid=1), ins(P1, 2, BOTHA, nhinv=True), ins(P2, 1, MID, nh=2)]))
    S.append(('restarted', [ins(P1, 1, MID), ins(P1, 2, MID, rpid=1), ('restale', False, 1), ins(P1B, 2, TWIN, rpid=0)]))
    S.append(('restarted_replaced', [ins(P1, 1, MID), ins(P1, 2, MID), ('restale', False, 1), ins(P1B, 1, TWIN)]))
    S.append(('deferring', [('startdef',), ins(P1, 1, MID), ins(P2, 1, BETTER, nh=2, filt=True)]))
    S.append(('tie3', [ins(P1, 1, MID), ins(P3, 1, TWIN, nh=2), ins(P4, 1, A(107), nh=3)]))
    S.append(('rs_clients', [ins(P3, 1, MID, nh=2), ins(P4, 1, BETTER, nh=3), ins(P2, 1, A(108, lp=300), nh=2)]))
    return S

# ------------------------------------------------------------------- alphabet
def alphabet():
    L = []
    for s, sn in ((P1, 'p1'), (P2, 'p2'), (P1B, 'p1b'), (P3, 'p3')):
        for rp in (0, 1):
            L.append(('ins_%s_r%d_better' % (sn, rp), ins(s, 1, A(110, lp=300), rpid=rp)))
            L.append(('ins_%s_r%d_worse' % (sn, rp), ins(s, 1, A(111, lp=10), rpid=rp)))
        L.append(('ins_%s_same_block' % sn, ins(s, 1, MID)))
        L.append(('ins_%s_nh_only' % sn, ins(s, 1, MID, nh=3)))
        L.append(('ins_%s_filtered' % sn, ins(s, 1, A(112, lp=300), filt=True)))
        L.append(('ins_%s_nhinv' % sn, ins(s, 1, A(113, lp=300), nhinv=True)))
        L.append(('ins_%s_both_flags' % sn, ins(s, 1, A(114, lp=300), filt=True, nhinv=True)))
        L.append(('ins_%s_other_prefix' % sn, ins(s, 2, MID)))
        L.append(('ins_%s_new_prefix' % sn, ins(s, 3, MID)))
        for rp in (0, 1):
            L.append(('rem_%s_r%d' % (sn, rp), ('rem', s, 1, rp, None)))
        L.append(('rem_%s_other_prefix' % sn, ('rem', s, 2, 0, None)))
        L.append(('rem_%s_absent_prefix' % sn, ('rem', s, 3, 0, None)))
    for addr in (1, 2, 4):
        for kind in (0, 1, 2, 3):
            L.append(('drop%d_a%d' % (kind, addr), ('drop', kind, addr, None)))
        for llgr in (False, True):
            L.append(('restale%d_a%d' % (llgr, addr), ('restale', llgr, addr)))
    for nh in (1, 2, 9):
        for reach in (False, True):
            L.append(('nhv%d_%d' % (nh, reach), ('nhv', nh, reach)))
    L.append(('startdef', ('startdef',)))
    L.append(('enddef', ('enddef',)))
    return L

SECOND = [('then_rem_p1', ('rem', P1, 1, 0, None)), ('then_drop_stale_1', ('drop', 1, 1, None)),
          ('then_nhv1_down', ('nhv', 1, False)), ('then_restale_llgr_1', ('restale', True, 1)),
          ('then_ins_p1_filtered', ins(P1, 1, A(115), filt=True)), ('then_enddef', ('enddef',))]

def counters_for(ops, mx):
    """limits on: purges carry the counter of the peer's newest session seen so far"""
    out = []
    last = {}
    for o in with_limits(ops, mx):
        if o[0] in ('ins', 'rem'):
            last[o[1][1]] = o[1][0]
        if o[0] == 'drop' and o[1] != 0:
            o = ('drop', o[1], o[2], last.get(o[2], o[2]))
        out.append(o)
    return out

def state_x_op(limits=None, pairs=False):
    out = []
    for sname, sops in states():
        if limits is not None and sname == 'deferring':
            continue
        for oname, op in alphabet():
            if op[0] == 'startdef' and sops:
                continue          # start_deferral is a start-up operation (empty family)
            seqs = [(oname, [op])]
            if pairs:
                seqs += [(oname + '+' + n2, [op, o2]) for n2, o2 in SECOND]
            for nm, tail in seqs:
                ops = list(sops) + tail
                if limits is not None:
                    ops = counters_for(ops, limits)
                out.append(case('sxo:%s:%s%s' % (sname, nm, '' if limits is None else ':max%d' % limits), ops))
    return out

# ----------------------------------------------------------------------- duels
def duels():
    """X wins at exactly one step, Y is better at every later step"""
    out = []
    # step values: (better, worse) per step, in decision order
    # 1 LLGR-stale community, 2 LOCAL_PREF, 3 hops, 4 ORIGIN, 5 eBGP over iBGP, 6 GR-stale (source flag),
    # 7 CLUSTER_LIST length, 8 ORIGINATOR_ID / router id
    def mk(tok, v):
        return R.mk_attr(tok, lp=v['lp'], segs=v['segs'], origin=v['origin'], clen=v['clen'], oid=v['oid'], llgr=v['llgr'])
    good = dict(llgr=False, lp=200, segs=[(2, 1)], origin=0, clen=None, oid=1)
    bad = dict(llgr=True, lp=50, segs=[(2, 3), (1, 4)], origin=2, clen=2, oid=30)
    order = ['llgr', 'lp', 'segs', 'origin', 'role', 'stale', 'clen', 'oid']
    for i, step in enumerate(order):
        x = dict(good); y = dict(good)
        # equal before i (good values), X good / Y bad at i, X bad / Y good after i
        for j, st in enumerate(order):
            if st in ('role', 'stale'):
                continue
            if j == i:
                y[st] = bad[st]
            elif j > i:
                x[st] = bad[st]
        # roles: eBGP-like (0 eBGP, 1 RS client) preferred over (2 iBGP, 3 RR client, 4 confed)
        for rx, ry in (((0, 2), (1, 4), (0, 3)) if step == 'role' else ((2, 0),) if i < 4 else ((0, 0), (2, 2))):
            sx = (1, 1, 9, rx); sy = (2, 2, 9, ry)
            ax = mk(120, x); ay = mk(121, y)
            pre = []; post = []
            if step == 'stale':
                post = [('restale', False, 2)]          # Y becomes stale
            elif i < order.index('stale'):
                post = [('restale', False, 1)]          # X stale: must not matter, decided earlier
            for arr in ('xy', 'yx'):
                two = [ins(sx, 1, ax), ins(sy, 1, ay, nh=2)]
                if arr == 'yx': two.reverse()
                for when in ('after', 'before'):
                    if not post and when == 'before':
                        continue
                    ops = (two + post) if when == 'after' else ([two[0]] + post + [two[1]] + post)
                    out.append(case('duel:%s:%s:roles%d%d:mark_%s' % (step, arr, rx, ry, when), ops))
    # ties: everything before the router id equal -> ECMP takes both; a third path that
    # differs at the last ECMP step (CLUSTER_LIST) stays outside
    for arr in ([0, 1, 2], [2, 1, 0], [1, 2, 0]):
        c3 = [ins((1, 1, 9, 0), 1, A(122)), ins((3, 3, 5, 1), 1, A(123), nh=2), ins((4, 4, 7, 0), 1, A(124, clen=1), nh=3)]
        out.append(case('duel:ecmp_tie:%s' % ''.join(map(str, arr)), [c3[k] for k in arr] + [('restale', False, 3), ('restale', True, 1)]))
    # ECMP: two paths equal at every step but ONE (the router id aside): the second must stay
    # out of the ECMP set, whichever step it is; equal at all of them: both are in
    base = dict(llgr=False, lp=100, segs=[(2, 2)], origin=0, clen=1, oid=None)
    for st, worse in (('llgr', True), ('lp', 90), ('segs', [(2, 3)]), ('origin', 1), ('role', None), ('stale', None), ('clen', 2), ('none', None)):
        x = dict(base); y = dict(base)
        if st not in ('role', 'stale', 'none'):
            y[st] = worse
        sx = (1, 1, 5, 0); sy = (2, 2, 9, 2 if st == 'role' else 0)
        two = [ins(sx, 1, mk(180, x)), ins(sy, 1, mk(181, y), nh=2)]
        post = [('restale', False, 2)] if st == 'stale' else []
        for arr in ('xy', 'yx'):
            ops = list(two) if arr == 'xy' else [two[1], two[0]]
            out.append(case('duel:ecmp_one_step:%s:%s' % (st, arr), ops + post + [ins((3, 3, 20, 0), 1, mk(182, dict(base, lp=10)), nh=3)]))
    # complete ties (ORIGINATOR_ID of one = router id of the other): arrival order stands, also through re-sorts
    for arr in ('xy', 'yx'):
        two = [ins((1, 1, 9, 0), 1, A(183)), ins((2, 2, 5, 0), 1, A(184, oid=9), nh=2), ins((3, 3, 9, 0), 1, A(185), nh=3)]
        if arr == 'yx': two.reverse()
        out.append(case('duel:full_tie:%s' % arr, two + [('restale', False, 4), ('restale', False, 2), ('restale', True, 2), ('nhv', 2, False), ('nhv', 2, True)]))
    # defaults tie with explicit values: LOCAL_PREF absent = 100, ORIGIN absent = incomplete,
    # CLUSTER_LIST absent = empty, ORIGINATOR_ID absent = router id
    out.append(case('duel:defaults_tie', [ins((1, 1, 9, 0), 1, R.mk_attr(125, lp=None, segs=None, origin=None, clen=None, oid=None)),
                                         ins((2, 2, 8, 0), 1, R.mk_attr(126, lp=100, segs=[], origin=2, clen=0, oid=9), nh=2),
                                         ins((3, 3, 9, 0), 1, R.mk_attr(127, lp=100, segs=[(3, 2), (4, 1)], origin=2, clen=None, oid=None), nh=3)]))
    # EVPN type 2: MAC mobility ahead of everything
    E = lambda tok, mm, **kw: A(tok, mm=mm, **kw)
    ev = [('mm_vs_none', E(130, 0, lp=10), E(131, None, lp=300)),
          ('mm_higher', E(132, 7, lp=10), E(133, 6, lp=300)),
          ('mm_equal_falls_through', E(134, 5, lp=300), E(135, 5, lp=10)),
          ('mm_none_both', E(136, None, lp=300), E(137, None, lp=10)),
          ('mm_max', E(138, U32, lp=10), E(139, U32 - 1, lp=300)),
          ('mm_llgr', E(140, 1, llgr=True), E(141, 0))]
    for nm, ax, ay in ev:
        for lay in (0, 1, 2, 3):                  # every extended-community layout of the harness (token mod 4)
            bx = dict(ax); by = dict(ay); bx['tok'] = 400 + lay; by['tok'] = 404 + ((lay + 1) % 4)
            for arr in ('xy', 'yx'):
                two = [ins((1, 1, 9, 0), 1000, bx), ins((2, 2, 5, 2), 1000, by, nh=2)]
                if arr == 'yx': two.reverse()
                out.append(case('duel:evpn:%s:%s:layout%d' % (nm, arr, lay), two + [('restale', False, 1), ('restale', True, 2)], evpn=True))
    # community layouts: LLGR_STALE / NO_LLGR first, last, only (token mod 3 picks the layout in the harness)
    for lay in (0, 1, 2):
        ax = A(300 + 4 * lay, llgr=True, lp=300)          # token mod 3 = layout
        ay = A(299, lp=10)
        nx = A(330 + 4 * lay, nollgr=True)
        bx = A(360 + 4 * lay, llgr=True, nollgr=True)
        ops = [ins(P1, 1, ax), ins(P2, 1, ay, nh=2), ins(P1, 2, nx), ins(P1, 3, bx), ('restale', True, 1), ('drop', 3, 1, None), ('drop', 2, 1, None)]
        out.append(case('duel:community_layout%d' % lay, ops))
    # LLGR staleness through the source flag instead of the community
    for arr in ('xy', 'yx'):
        two = [ins((1, 1, 9, 2), 1, A(380, lp=10)), ins((2, 2, 5, 0), 1, A(381, lp=300), nh=2)]
        if arr == 'yx': two.reverse()
        out.append(case('duel:llgr_source_flag:%s' % arr, two + [('restale', True, 2), ('restale', False, 1)]))
        out.append(case('duel:llgr_source_flag_first:%s' % arr, [two[0], ('restale', True, 2), ('restale', True, 1), two[1]]))
    # re-announcement after a restart: X beats Y only at a step BEHIND the stale step, is demoted by the stale
    # (or LLGR-stale) mark, comes back on a NEW session and re-announces the very same attribute block (and,
    # as variants, a block of equal rank / its stale copy is withdrawn first): the fresh path must be ranked by
    # the current state, i.e. ahead of Y again -- rank depends on the Source, not only on the attributes
    same = dict(llgr=False, lp=100, segs=[(2, 2)], origin=0, clen=None, oid=None)
    for kind, llgr_mark in (('gr', False), ('llgr', True)):
        wins = [('clen', dict(same), dict(same, clen=1), 0, 0), ('rid', dict(same), dict(same), 0, 0)]
        if llgr_mark:
            wins += [('lp', dict(same, lp=200), dict(same), 0, 0), ('hops', dict(same, segs=[(2, 1)]), dict(same), 0, 0),
                     ('origin', dict(same), dict(same, origin=1), 0, 0), ('role', dict(same), dict(same), 0, 2)]
        for wn, vx, vy, rx, ry in wins:
            sx = (1, 1, 5, rx); sxb = (11, 1, 5, rx); sy = (2, 2, 9, ry)
            ax = mk(190, vx); ax2 = mk(192, vx); ay = mk(191, vy)
            for arr in ('xy', 'yx'):
                two = [ins(sx, 1, ax), ins(sy, 1, ay, nh=2)]
                if arr == 'yx': two.reverse()
                mark = [('restale', llgr_mark, 1)]
                out.append(case('duel:rejoin_same_block:%s:%s:%s' % (kind, wn, arr), two + mark + [ins(sxb, 1, ax)]))
                out.append(case('duel:rejoin_equal_block:%s:%s:%s' % (kind, wn, arr), two + mark + [ins(sxb, 1, ax2)]))
                out.append(case('duel:rejoin_same_session:%s:%s:%s' % (kind, wn, arr), two + mark + [ins(sx, 1, ax)]))
                out.append(case('duel:rejoin_twice:%s:%s:%s' % (kind, wn, arr), two + mark + [ins(sxb, 1, ax), ins(sxb, 1, ax), ins(sy, 1, ay, nh=2)]))
    return out

# ------------------------------------------------------------------------ hops
def hops_cases():
    out = []
    def shapes(h):
        S = []
        if h <= 255:
            S.append(('one_seq', [(2, h)] if h else []))
        if h >= 2:
            a = min(255, h - 1)
            S.append(('seq_seq', [(2, a), (2, h - a)] if h - a <= 255 else [(2, 255), (2, 255), (2, h - 510)]))
            S.append(('set_first', [(1, 3)] + ([(2, min(255, h - 1))] + ([(2, h - 1 - 255)] if h - 1 > 255 else []))))
        if h <= 255:
            S.append(('confed_around', [(3, 64)] + ([(2, h)] if h else []) + [(4, 255)]))
            S.append(('empty_segments', [(2, 0)] + ([(2, h)] if h else []) + [(3, 0)]))
            # segment types the walk must skip: confederation ones and values outside 1-4
            S.append(('unknown_types', [(5, 2), (0, 1)] + ([(2, h)] if h else []) + [(255, 3)]))
        return S
    k = 0
    for h in (0, 1, 2, 62, 63, 64, 65, 126, 127, 128, 129, 254, 255, 256, 257, 509, 510):
        for nm, sg in shapes(h):
            for nm2, sg2 in shapes(h + 1):
                if nm2 != nm and not (nm == 'one_seq' and nm2 == 'seq_seq'):
                    continue
                for par in (0, 1):          # harmless / adversarial AS numbers
                    ax = R.mk_attr(200 + 4 * k + par, lp=100, segs=sg, origin=0)
                    ay = R.mk_attr(202 + 4 * k + par, lp=100, segs=sg2, origin=0)
                    k += 1
                    # the longer path arrives first and has the better router id: only the hop count puts X first
                    out.append(case('hops:%d_vs_%d:%s:%s:asn%d' % (h, h + 1, nm, nm2, par),
                                    [ins((2, 2, 1, 0), 1, ay, nh=2), ins((1, 1, 9, 0), 1, ax)]))
    # many short segments: the walk over the segment headers itself crosses 63/64 and 255/256
    for h in (63, 64, 65, 255, 256, 257):
        for kind in (2, 1):
            ax = R.mk_attr(280, lp=100, segs=[(kind, 1)] * h, origin=0)
            ay = R.mk_attr(281, lp=100, segs=[(kind, 1)] * (h + 1) + [(3, 1)], origin=0)
            out.append(case('hops:%d_segments_of_one:type%d' % (h, kind), [ins((2, 2, 1, 0), 1, ay, nh=2), ins((1, 1, 9, 0), 1, ax)]))
    # AS_SET counts one whatever its size; confederation segments count nothing
    out.append(case('hops:set_sizes', [ins((1, 1, 9, 0), 1, R.mk_attr(290, lp=100, segs=[(1, 255)], origin=0)),
                                       ins((2, 2, 5, 0), 1, R.mk_attr(291, lp=100, segs=[(1, 1)], origin=0), nh=2),
                                       ins((3, 3, 1, 0), 1, R.mk_attr(292, lp=100, segs=[(3, 255), (4, 255), (1, 64)], origin=0), nh=3)]))
    return out

# ------------------------------------------------------------------------- ids
def ids_cases(big=False):
    out = []
    n = 131 if big else 67
    ops = [ins(P1, 10 + i, MID) for i in range(n)]
    free = [0, 62, 63, 64, 65, 127, 128, 130] if big else [0, 62, 63, 64, 65, 66]
    ops += [('rem', P1, 10 + i, 0, None) for i in free]
    ops += [ins(P2, 300 + i, MID, nh=2) for i in range(len(free) + 2)]      # lowest free ids first, then new ones
    ops += [('restale', False, 1), ('drop', 1, 1, None)]
    ops += [ins(P2, 400, MID, nh=2), ins(P2, 401, MID, nh=2)]
    out.append(case('ids:%d_prefixes_free_reuse' % n, ops, shard=255))
    # a prefix-limit rejection of a brand-new prefix must give its id back
    ops = [ins(P1, 10 + i, MID, lim=(64, 1)) for i in range(66)] + [('rem', P1, 10, 0, 1), ins(P1, 90, MID, lim=(64, 1)), ins(P1, 91, MID, lim=(64, 1))]
    out.append(case('ids:limit_64_rejections', ops, shard=1))
    return out

# ----------------------------------------------------------------------- limit
def limit_cases():
    out = []
    for mx in (0, 1, 2, U32):
        ops = []
        for net in (1, 2, 3):
            ops.append(ins(P1, net, MID, lim=(mx, 1)))
        ops += [ins(P1, 1, TWIN, lim=(mx, 1)),                 # replacement: always accepted
                ins(P1, 1, WORSE, rpid=1, lim=(mx, 1)),        # extra add-path path: always accepted
                ('rem', P1, 1, 0, 1), ('rem', P1, 1, 1, 1),    # the prefix leaves only with its last path
                ins(P1, 3, MID, lim=(mx, 1)),
                ins(P1, 2, MID, filt=True, lim=(mx, 1)),
                ('restale', False, 1), ('drop', 1, 1, 1),
                ins(P1, 2, MID, lim=(mx, 1)), ins(P1, 3, MID, lim=(mx, 1))]
        out.append(case('limit:max%d' % mx, ops))
    # two sessions of different peers with their own counters and limits sharing prefixes
    ops = [ins(P1, 1, MID, lim=(1, 1)), ins(P2, 1, MID, nh=2, lim=(2, 2)), ins(P2, 2, MID, nh=2, lim=(2, 2)), ins(P2, 3, MID, nh=2, lim=(2, 2)),
           ins(P1, 2, MID, lim=(1, 1)), ('drop', 0, 2, None), ins(P2B, 1, MID, nh=2, lim=(2, 12)), ins(P2B, 2, MID, nh=2, lim=(2, 12)), ins(P2B, 3, MID, nh=2, lim=(2, 12)),
           ('rem', P1, 1, 0, 1), ins(P1, 2, MID, lim=(1, 1)), ins(P1, 3, MID, lim=(1, 1))]
    out.append(case('limit:two_peers_drop_and_return', ops))
    # purges of every kind decrement once per prefix the session loses, not once per path
    for kind in (1, 2, 3):
        ops = [ins(P1, 1, NOLLGRA, lim=(5, 1)), ins(P1, 1, BOTHA, rpid=1, lim=(5, 1)), ins(P1, 2, NOLLGRA, lim=(5, 1)), ins(P1, 2, MID, rpid=1, lim=(5, 1)),
               ins(P1, 3, MID, lim=(5, 1)), ('restale', False, 1), ('restale', True, 1), ('drop', kind, 1, 1), ins(P1, 1, MID, rpid=2, lim=(5, 1))]
        out.append(case('limit:purge_kind%d_addpath' % kind, ops))
    return out

# ------------------------------------------------------------------------ wide
def wide_cases():
    out = []
    ops = [ins(P1, 1, MID, rpid=U32), ins(P1, 1, WORSE, rpid=0), ins(P1, 1, BETTER, rpid=U32), ('rem', P1, 1, U32, None), ('rem', P1, 1, U32, None)]
    out.append(case('wide:rpid_u32_max', ops))
    ops = [ins(P1, 1, R.mk_attr(160, lp=U32, segs=[], origin=0)), ins(P2, 1, R.mk_attr(161, lp=U32 - 1, segs=[], origin=0), nh=2),
           ins(P3, 1, R.mk_attr(162, lp=0, segs=[], origin=0), nh=3), ins(P4, 1, R.mk_attr(163, lp=1, segs=[], origin=0), nh=3)]
    out.append(case('wide:local_pref_ends', ops))
    ops = [ins((1, 1, U32, 0), 1, A(164)), ins((2, 2, 0, 0), 1, A(165), nh=2), ins((3, 3, 5, 0), 1, A(166, oid=U32), nh=3), ins((4, 4, 5, 0), 1, A(167, oid=0), nh=3)]
    out.append(case('wide:router_id_ends', ops))
    ops = [ins(P1, 1, A(168, clen=255)), ins(P2, 1, A(169, clen=256), nh=2), ins(P3, 1, A(170, clen=0), nh=3), ins(P4, 1, A(171, clen=1), nh=3)]
    out.append(case('wide:cluster_list_lengths', ops))
    ops = [ins(P1, 1, A(172, origin=0)), ins(P2, 1, A(173, origin=1), nh=2), ins(P3, 1, A(174, origin=2), nh=3), ins(P4, 1, A(175, origin=None), nh=3)]
    out.append(case('wide:origin_values', ops))
    for role in (0, 1, 2, 3, 4):
        for role2 in (0, 1, 2, 3, 4):
            if role < role2:
                out.append(case('wide:roles_%d_%d' % (role, role2), [ins((1, 1, 9, role), 1, A(176)), ins((2, 2, 5, role2), 1, A(177), nh=2),
                                                                     ins((2, 2, 5, role2), 1, A(178), rpid=1, nh=2), ('restale', False, 2)]))
    return out

def all_enumerated(which, tier='quick'):
    """which: 'c02' | 'c06' | 'c15' -- the shared classes plus the ones closest to the property"""
    out = duels() + hops_cases() + wide_cases() + ids_cases() + (ids_cases(big=True)[:1] if tier != 'quick' else [])
    if which == 'c15':
        out += limit_cases() + state_x_op(limits=1)
    elif which == 'c06':
        out += state_x_op() + limit_cases()
    else:
        out += state_x_op()
    return out
