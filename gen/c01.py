"""C01: every neighbour's view converges to export(Loc-RIB); no withdrawal is lost.

A case is (configuration of the observed neighbour and of the source peers, schedule).
The schedule is a list of concrete operations:
  ('ins', src, net, tok, filtered, nhinv)  Table::insert          (remote path id 0)
  ('rem', src, net)                        Table::remove
  ('drop', src)                            Table::drop
  ('llgr', src)                            Table::restale_llgr
  ('deliver',) ('flush',) ('register',) ('refresh',)
The harness (harness/daemon/export_c01_hx.rs) runs them against the real table and export
code.  The model (coq/Model/ExportTx.v) abstracts the RIB to its change stream, so the
schedule is translated to model labels by the small reference RIB below (`SimRib`:
which changes a table operation emits, with which flags and ranked candidate list);
the harness prints the changes the real table emitted and they are compared with the
labels on every case, so the translation is itself checked on every run.
"""
import json, os
from vp import val, coqrun, rustrun
from vp.val import cN, cbool, clist, cpair, copt

EBGP, RSC, IBGP, RRC, CONFED = 0, 1, 2, 3, 4
LOCAL_ASN = 65001

# ------------------------------------------------------------------ reference RIB
class SimRib:
    def __init__(self):
        self.dests = {}          # net -> {'entries': [...], 'next': int}
        self.llgr = set()
        self.badtoks = set()     # tokens whose next hop is unreachable (next-hop tracking)
        self.stale = set()       # sources whose Source carries the GR stale flag

    def key(self, e):
        return (1 if e['src'] in self.llgr else 0, -(200 - 10 * e['tok'] - e['src']))

    @staticmethod
    def elig(d):
        return [e for e in d['entries'] if not e['filt'] and not e['nhinv']]

    def paths(self, d, marked=None):
        """ranked candidates (pid, src, tok, mark); mark = the LLGR-stale flag of the source as
        the consumers have been told so far (ghost of the model): the live flag, except inside
        a restale_llgr batch, where the paths of the peer are marked one change at a time"""
        out = []
        for e in self.elig(d):
            m = e['src'] in self.llgr
            if marked is not None and e['src'] == marked[0]:
                m = e['pid'] in marked[1]
            out.append((e['pid'], e['src'], e['tok'], int(m)))
        return out

    def best(self, d):
        l = self.elig(d)
        return l[0] if l else None

    def ins(self, src, net, tok, filt, nhinv):
        labels = []
        created = net not in self.dests
        d = self.dests.setdefault(net, {'entries': [], 'next': 1})
        old_best = self.best(d)
        rep = next((e for e in d['entries'] if e['src'] == src), None)
        if rep is not None:
            d['entries'].remove(rep)
            pid = rep['pid']
        else:
            if not d['entries']:
                d['next'] = 1
            while True:
                pid = d['next']
                d['next'] += 1
                if not any(e['pid'] == pid for e in d['entries']):
                    break
        e = dict(src=src, tok=tok, pid=pid, filt=filt, badnh=bool(nhinv),
                 nhinv=bool(nhinv) or tok in self.badtoks)
        d['entries'].append(e)
        d['entries'].sort(key=self.key)
        new_best = self.best(d)
        bc = old_best is not new_best
        ac = (not filt) or (rep is not None and not rep['filt'])
        if not bc and not ac:
            if created:
                labels.append(('touch', net))
            return labels
        labels.append(('set', net, bc, ac, None if rep is None else rep['pid'], self.paths(d)))
        return labels

    def rem(self, src, net):
        d = self.dests.get(net)
        if d is None:
            return []
        e = next((e for e in d['entries'] if e['src'] == src), None)
        if e is None:
            return []
        old_best = self.best(d)
        was_unf = not e['filt']
        d['entries'].remove(e)
        if not d['entries']:
            del self.dests[net]
            return [('free', net, was_unf)]
        new_best = self.best(d)
        bc = old_best is not new_best
        if not bc and not was_unf:
            return []
        return [('set', net, bc, was_unf, None, self.paths(d))]

    def drop(self, src):
        labels = []
        for net in sorted(self.dests):
            d = self.dests[net]
            mine = [e for e in d['entries'] if e['src'] == src]
            if not mine:
                continue
            ob = self.best(d)
            ob = None if ob is None else ob['pid']
            any_unf = any(not e['filt'] and not e['nhinv'] for e in mine)
            d['entries'] = [e for e in d['entries'] if e['src'] != src]
            if not any_unf:
                if not d['entries']:
                    del self.dests[net]
                    labels.append(('free', net, False))
                continue
            if not d['entries']:
                del self.dests[net]
                labels.append(('free', net, True))
                continue
            nb = self.best(d)
            nb = None if nb is None else nb['pid']
            labels.append(('set', net, ob != nb, True, None, self.paths(d)))
        return labels

    def nhv(self, tok, reachable):
        """Table::update_nexthop_validity for the next hop of token tok"""
        labels = []
        self.badtoks.discard(tok)
        if not reachable:
            self.badtoks.add(tok)
        for net in sorted(self.dests):
            d = self.dests[net]
            ob = self.best(d)
            changed = False
            for e in d['entries']:
                if e['tok'] == tok and not e['badnh'] and e['nhinv'] != (not reachable):
                    e['nhinv'] = not reachable
                    changed = True
            if changed:
                labels.append(('set', net, ob is not self.best(d), True, None, self.paths(d)))
        return labels

    def restale(self, src):
        """Table::restale (GR helper): the ranking has no ties here, so nothing moves"""
        labels = []
        for net in sorted(self.dests):
            d = self.dests[net]
            if not any(e['src'] == src for e in d['entries']):
                continue
            self.stale.add(src)
            if any(e['src'] == src and not e['filt'] for e in d['entries']):
                labels.append(('set', net, False, True, None, self.paths(d)))
        return labels

    def drop_stale(self, src):
        return self.drop(src) if src in self.stale else []

    def restale_llgr(self, src):
        has = any(e['src'] == src for d in self.dests.values() for e in d['entries'])
        if not has:
            # nothing of the peer in the table: the flag is not touched, no change
            return [('llgr', src, False)] if src not in self.llgr else [('llgrmark', src, [])]
        already = src in self.llgr
        sets = []
        for net in sorted(self.dests):
            d = self.dests[net]
            if not any(e['src'] == src for e in d['entries']):
                continue
            ob = self.best(d)
            ob = None if ob is None else ob['pid']
            any_unf = any(e['src'] == src and not e['filt'] for e in d['entries'])
            self.llgr.add(src)
            d['entries'].sort(key=self.key)
            nb = self.best(d)
            nb = None if nb is None else nb['pid']
            marked = [e['pid'] for e in self.elig(d) if e['src'] == src]
            best_marked = nb is not None and bool(marked) and marked[0] == nb
            bc = ob != nb or best_marked
            if bc or any_unf:
                if not marked:
                    sets.append((net, bc, any_unf, None, self.paths(d)))
                else:
                    for k, pid in enumerate(marked):
                        done = set(marked[:k + 1]) if not already else set(marked)
                        sets.append((net, bc and k == 0, True, pid, self.paths(d, (src, done))))
        return [('llgrmark', src, sets)]

def hidden_sources(cfg):
    """sources whose paths the neighbour never sees: its own address (echo), iBGP split
    horizon, route-server isolation (mirror of the three filters applied before
    .take(effective_max) in process_nlri_change)"""
    role, naddr, cluster = cfg['role'], cfg['addr'], cfg['cluster']
    out = []
    for k, (addr, srole, asn) in enumerate(cfg['srcs']):
        h = addr == naddr
        ibgp_learned = asn == LOCAL_ASN
        if role in (IBGP, RRC) and ibgp_learned:
            h = h or (True if not cluster else (srole != RRC and role == IBGP))
        if (srole == RSC) != (role == RSC):
            h = True
        if h:
            out.append(k)
    return out


def translate(c):
    """schedule -> model labels (list per concrete operation)"""
    rib = SimRib()
    out = []
    for o in c['ops']:
        t = o[0]
        if t == 'ins': out.append(rib.ins(o[1], o[2], o[3], bool(o[4]), bool(o[5])))
        elif t == 'rem': out.append(rib.rem(o[1], o[2]))
        elif t == 'drop': out.append(rib.drop(o[1]))
        elif t == 'llgr': out.append(rib.restale_llgr(o[1]))
        elif t == 'policy': out.append([('policy', o[1])])
        elif t == 'nhv': out.append(rib.nhv(o[1], bool(o[2])))
        elif t == 'stale': out.append(rib.restale(o[1]))
        elif t == 'dropstale': out.append(rib.drop_stale(o[1]))
        else: out.append([(t,)])
    return out


def eor_due(c):
    """per Flush of the schedule: (End-of-RIB markers due, is a scheduled one among them).
    One End-of-RIB closes the initial dump of a session (it is buffered behind the dump); one
    follows a completed route-refresh walk, after everything else of that batch."""
    out = []
    chan, reg = [], False
    due_dump = due_walk = False
    for o, ls in zip(c['ops'], translate(c)):
        t = o[0]
        if t == 'register':
            chan, reg, due_dump, due_walk = [], True, True, False
        elif t == 'unregister':
            chan, reg, due_dump, due_walk = [], False, False, False
        elif t == 'refresh':
            if reg: chan.append('w')
        elif t == 'deliver':
            if chan and chan.pop(0) == 'w':
                due_walk = True
        elif t == 'flush':
            out.append((int(due_dump) + int(due_walk), due_walk))
            due_dump = due_walk = False
        else:
            for l in ls:
                n = len(l[2]) if l[0] == 'llgrmark' else int(l[0] == 'set' or (l[0] == 'free' and l[2]))
                if reg: chan += ['c'] * n
    return out


def refresh_race(c):
    """decidable class of C01-refresh-race: some Refresh runs while a queued change and the
    current RIB disagree on a (dest_id, prefix) binding"""
    ids = {}            # net -> dest_id (lowest free)
    chan = []           # queued (net, id)
    reg = False
    for ls in translate(c):
        flat = []
        for l in ls:
            if l[0] == 'llgrmark':
                flat += [('set',) + tuple(x) for x in l[2]]
            else:
                flat.append(l)
        for l in flat:
            t = l[0]
            if t in ('set', 'touch'):
                if l[1] not in ids:
                    i = 0
                    while i in ids.values(): i += 1
                    ids[l[1]] = i
                if t == 'set' and reg: chan.append((l[1], ids[l[1]]))
            elif t == 'free':
                if l[1] in ids:
                    i = ids.pop(l[1])
                    if l[2] and reg: chan.append((l[1], i))
            elif t == 'deliver':
                if chan: chan.pop(0)
            elif t == 'register':
                chan, reg = [], True
            elif t == 'unregister':
                chan, reg = [], False
            elif t == 'refresh' and reg:
                for net, i in chan:
                    for n2, i2 in ids.items():
                        if (net == n2) != (i == i2):
                            return True
    return False


def paths_coq(ps):
    return clist(['{| p_pid := %s; p_src := %s; p_tok := %s; p_mark := %s |}' % (cN(a), cN(b), cN(d), cbool(m))
                  for a, b, d, m in ps])

def untruthful(labels):
    """python mirror of Spec/ExportTxSpec.v truthful_run on the RIB labels of a case (the labels are
    compared with the changes the real table emits on every case, so this judges the real change
    stream against the contract the theorems assume).  Returns None or a description."""
    rib = {}           # net -> ranked list of (pid, src, tok, mark)
    fl = set()
    def tset(x, live_eq):
        net, bc, ac, repl, paths = x
        old = rib.get(net, [])
        if not ac and paths != old: return 'any_changed=false but the candidate list changed (prefix %d)' % net
        if not bc and paths[:1] != old[:1]: return 'best_changed=false but the best candidate changed (prefix %d)' % net
        if len({p[0] for p in paths}) != len(paths): return 'duplicate path id (prefix %d)' % net
        for p in paths:
            for q in old:
                if p[0] == q[0] and p != q and repl != p[0]:
                    return 'path id %d of prefix %d changed without being the replaced path' % (p[0], net)
            if p[3] and p[1] not in fl: return 'marker ahead of the flag'
            if live_eq and bool(p[3]) != (p[1] in fl): return 'marker differs from the flag'
        rib[net] = paths
        return None
    for l in labels:
        t = l[0]
        why = None
        if t == 'set':
            why = tset(l[1:], True)
        elif t == 'touch':
            rib.setdefault(l[1], [])
        elif t == 'free':
            if not l[2] and rib.get(l[1]): why = 'destination %d freed silently while it had candidates' % l[1]
            rib.pop(l[1], None)
        elif t == 'llgr':
            if l[2] and l[1] not in fl: why = 'bare flag flip'
        elif t == 'llgrmark':
            fl.add(l[1])
            for x in l[2]:
                why = why or tset(x, False)
            for net, ps in rib.items():
                for p in ps:
                    if bool(p[3]) != (p[1] in fl):
                        why = why or ('LLGR-stale marking of source %d not reported for path id %d of prefix %d'
                                      % (l[1], p[0], net))
        if why:
            return why
    return None


def label_coq(l):
    t = l[0]
    if t == 'set':
        return '(RibSet %s %s %s %s %s)' % (cN(l[1]), cbool(l[2]), cbool(l[3]), copt(None if l[4] is None else cN(l[4])), paths_coq(l[5]))
    if t == 'llgrmark':
        return '(LlgrMark %s %s)' % (cN(l[1]), clist(['(%s, %s, %s, %s, %s)' % (
            cN(x[0]), cbool(x[1]), cbool(x[2]), copt(None if x[3] is None else cN(x[3])), paths_coq(x[4])) for x in l[2]]))
    if t == 'touch': return '(RibTouch %s)' % cN(l[1])
    if t == 'free': return '(RibFree %s %s)' % (cN(l[1]), cbool(l[2]))
    if t == 'llgr': return '(LlgrFlip %s %s)' % (cN(l[1]), cbool(l[2]))
    return {'deliver': 'Deliver', 'flush': 'Flush', 'register': 'Register', 'refresh': 'Refresh',
            'unregister': 'Unregister'}[t] if t != 'policy' else '(PolicyChange %s)' % cN(l[1])


OPC = {'ins': 0, 'rem': 1, 'drop': 2, 'llgr': 3, 'deliver': 4, 'flush': 5, 'register': 6, 'refresh': 7,
       'unregister': 8, 'policy': 9, 'nhv': 10, 'stale': 11, 'dropstale': 12}

# what the code under verification currently does (see Model/ExportTx.v): how PendingTx
# names an entry, and whether dump/refresh truncate before the visibility filters
KEYING = 'ByNet'
LIMITED = False


class Prop:
    pid = 'C01'
    ops_field = 'ops'
    props_file = 'Props/C01.v'
    required_theorems = ['export_inv_preserved', 'quiescent_view_eq_fresh',
                         'no_lost_withdrawal', 'fresh_is_export_rules',
                         'no_lost_withdrawal_refuted_by_id_keying',
                         'quiescent_view_eq_fresh_refuted_truncated_dump',
                         'quiescent_view_eq_fresh_refuted_unreported_llgr',
                         'no_lost_withdrawal_refuted_inline_refresh', 'eor_emission',
                         'pending_last_event_wins', 'flush_order']
    correspondence_name = ('Model/ExportTx.v step vs table::Table + event::export::process_nlri_change + '
                           'peer_tx::PendingTx (harness/daemon/export_c01_hx.rs)')
    rule = ('cases = (neighbour role/address/send-max/add-path, source peers with roles, export policy, shard index, '
            'schedule of table operations (insert, remove, peer drop, LLGR marking, next-hop flap, GR stale/purge), '
            'Deliver, Flush, Register, Unregister, Refresh, PolicyChange); every run enumerates the directed classes '
            '(class_* tags: window on both sides of send-max for every token assignment; every <=3-event coalescing '
            'sequence from three initial states; 63/64/65/127/128/129 live destinations with ids freed at word '
            'boundaries on three shard indices; 5x5 role matrix; replacement kinds at each rank; LLGR marking at each '
            'rank; refresh/policy/race histories; next-hop flaps; session restarts; peer-down) and adds 1000 seeded '
            'random schedules; a case is non-trivial when at least one route reaches the mirror and at least one '
            'withdrawal is drained; distinct = distinct (configuration, sequence of drained message sets)')
    exhaustive = {'quick': False, 'thorough': False}   # thorough adds a complete depth-4 sweep of a 9-letter alphabet
    trusted_base = [
        'the RIB (table/src/lib.rs) is abstracted to its change stream: a RIB label is the NlriChange the table emits; the '
        'theorems assume the stream is truthful (flags/replaced id say what changed: the contract property C06 states of the '
        'table); the python reference RIB that turns table operations into labels is compared with the changes the real '
        'table emits on every case',
        'export filtering/rewriting is abstracted to vis : path -> bool (echo, split horizon, RS isolation) and '
        'pol : llgr -> prefix -> path -> option payload (RTC, policy, rewrite), arbitrary in the theorems; the wire codec '
        'is abstracted to the set of (prefix, path id, payload) a message carries (property C04), and exercised for real by '
        'the session-level harness (PeerCodec::encode_to over a socket, independent try_parse/validate_message)',
        'one shard, one family, one observed neighbour; a lock section / channel send / handle_prefix_update / flush_tx is '
        'one atomic step (std::sync::Mutex, mpsc and ArcSwap assumed sequentially consistent); socket errors and tokio '
        'scheduling are not modelled; a policy change during a session, RTC-triggered VPN re-advertisement and the '
        'MP / legacy encoding choice are outside the theorems (policy change is exercised by the correspondence)',
        'addpath_tx = (effective_max > 1) is assumed (the FSM/codec agreement is property C16); the model and the '
        'correspondence cover the mismatch configuration, the theorems do not']
    assumptions = ['truthful change stream (Spec/ExportTxSpec.v truthful_run)',
                   'LLGR_STALE marking does not decide acceptance by the export policy (pol_marks_after_accept)',
                   ]

    # ---- rendering
    def case_to_val(self, c):
        g = c['cfg']
        cfg = [g['max'], int(g['aptx']), g['role'], g['addr'], int(g['cluster']), int(g['policy']),
               int(LIMITED), [list(s) for s in g['srcs']], g.get('shard', 0)]
        ops = []
        for o in c['ops']:
            ops.append([OPC[o[0]]] + [int(x) for x in o[1:]])
        return [cfg, ops]

    def case_to_coq(self, c):
        g = c['cfg']
        cfg = ('{| g_keying := %s; g_limited := %s; g_inline := false; g_max := %s; g_aptx := %s; g_hidden := %s; g_rej := %s |}' % (
            KEYING, cbool(LIMITED), cN(g['max']), cbool(g['aptx']),
            clist([cN(x) for x in hidden_sources(g)]), clist([cN(3)] if g['policy'] else [])))
        labels = [label_coq(l) for ls in translate(c) for l in ls]
        return 'run_case %s %s' % (cfg, clist(labels))

    def case_to_json(self, c):
        return json.loads(json.dumps(c))

    def case_from_json(self, j):
        c = dict(j)
        c['cfg'] = dict(j['cfg'])
        c['cfg']['srcs'] = [tuple(s) for s in j['cfg']['srcs']]
        c['ops'] = [tuple(o) for o in j['ops']]
        return c

    def corpus_cases(self):
        d = os.path.join(os.path.dirname(os.path.dirname(os.path.abspath(__file__))), 'corpus', 'C01')
        out = []
        if os.path.isdir(d):
            for fn in sorted(os.listdir(d)):
                if fn.endswith('.json'):
                    out.append(self.case_from_json(json.load(open(os.path.join(d, fn)))['case']))
        return out

    # ---- generation
    def gen_cfg(self, rng, crowded=False):
        nsrc = rng.choice([3, 4]) if crowded else rng.choice([2, 3])
        role = rng.choice([EBGP, EBGP, EBGP, IBGP, IBGP, RSC, RSC, RRC, CONFED])
        srcs = []
        for k in range(nsrc):
            srole = rng.choice([EBGP, EBGP, EBGP, IBGP, IBGP, RSC, RRC, CONFED] if role != RSC else [RSC, RSC, EBGP])
            asn = LOCAL_ASN if srole in (IBGP, RRC) else 65010 + k
            srcs.append((k + 1, srole, asn))
        addr = rng.choice([1, 9, 9])           # 1 = the neighbour is also source 0 (echo)
        if crowded:
            # the neighbour's own routes (source 0) rank first for equal tokens: the add-path
            # window must be taken after they are filtered out
            addr = rng.choice([1, 1, 9])
        mx = rng.choice([2, 2, 3, 1]) if crowded else rng.choice([1, 1, 2, 3])
        return dict(max=mx, aptx=mx > 1, role=role, addr=addr, cluster=rng.random() < 0.3,
                    policy=rng.random() < 0.5, srcs=srcs)

    def gen_ops(self, rng, cfg, n, crowded=False):
        nsrc = len(cfg['srcs'])
        nets = rng.choice([1, 2]) if crowded else rng.choice([2, 3, 4])
        ops = []
        if rng.random() < 0.8:
            # some routes before the session comes up
            for _ in range(rng.randint(0, 3)):
                ops.append(('ins', rng.randrange(nsrc), rng.randrange(nets), rng.randrange(4), 0, 0))
        ops.append(('register',))
        for _ in range(n):
            x = rng.random()
            if crowded and x < 0.25:
                x = 0.0           # more announcements: destinations with several candidates
            elif crowded and x > 0.90:
                x = 0.95          # and more route refreshes (with the channel often empty)
            if x < 0.30:
                ops.append(('ins', rng.randrange(nsrc), rng.randrange(nets), rng.randrange(4),
                            int(rng.random() < 0.12), int(rng.random() < 0.08)))
            elif x < 0.50:
                ops.append(('rem', rng.randrange(nsrc), rng.randrange(nets)))
            elif x < 0.55:
                ops.append(('drop', rng.randrange(nsrc)))
            elif x < 0.57:
                ops.append(('llgr', rng.randrange(nsrc)))
            elif x < 0.59:
                ops.append(('nhv', rng.randrange(3), int(rng.random() < 0.5)))
            elif x < 0.60:
                k_ = rng.randrange(nsrc)
                if cfg['srcs'][k_][0] != cfg['addr']:      # not the observed neighbour itself
                    ops.append((rng.choice(['stale', 'dropstale']), k_))
            elif x < 0.80:
                ops.append(('deliver',))
            elif x < 0.93:
                ops.append(('flush',))
            elif x < 0.97:
                ops.append(('refresh',))
            elif x < 0.975:
                ops.append(('policy', rng.choice([0, 1, 1])))
                if rng.random() < 0.8:
                    ops.append(('refresh',))      # soft reset out
            elif x < 0.988:
                ops.append(('register',))
            else:
                ops.append(('unregister',))
                if rng.random() < 0.8:
                    ops.append(('register',))
        # settle: deliver everything, flush
        pend = sum(1 for o in ops if o[0] in ('ins', 'rem', 'refresh')) + 4 * sum(1 for o in ops if o[0] in ('drop', 'llgr', 'nhv', 'stale', 'dropstale'))
        if rng.random() < 0.9:
            ops += [('deliver',)] * pend
            if any(o[0] == 'policy' for o in ops):
                ops += [('refresh',), ('deliver',)]   # soft reset out
            ops.append(('flush',))
        return ops

    # ---- directed classes, enumerated on every run (no randomness)
    @staticmethod
    def mkcfg(mx, role=EBGP, addr=9, cluster=False, policy=False, nsrc=3, srcs=None, shard=0):
        if srcs is None:
            srcs = [(k + 1, EBGP, 65010 + k) for k in range(nsrc)]
        return dict(max=mx, aptx=mx > 1, role=role, addr=addr, cluster=cluster, policy=policy,
                    srcs=srcs, shard=shard)

    def directed(self):
        import itertools
        D, F, R = ('deliver',), ('flush',), ('register',)
        out = []
        def add(cls, cfg, ops):
            out.append(dict(cfg=cfg, ops=list(ops), cls=cls))
        # -- win: the add-path window / the best path, on both sides of send-max: send-max + 1
        #    candidates of one prefix, every assignment of tokens {0, 2, 3 (policy-rejected)},
        #    best candidate hidden (the neighbour's own route) or not, by dump and incrementally,
        #    then removed first-to-last / last-to-first
        for mx in (1, 2, 3):
            k = mx + 1
            for toks in itertools.product((0, 2, 3), repeat=k):
                for addr in (9, 1):
                    for pol in (False, True):
                        cfg = self.mkcfg(mx, addr=addr, policy=pol, nsrc=k)
                        ins = [('ins', j, 0, toks[j], 0, 0) for j in range(k)]
                        rem = [('rem', j, 0) for j in range(k)]
                        ops = ins + [R, F]
                        for r in rem:
                            ops += [r, D, F]
                        add('win_dump', cfg, ops)
                        ops = [R]
                        for i_ in ins:
                            ops += [i_, D]
                        ops += [F]
                        for r in reversed(rem):
                            ops += [r, D]
                        ops += [F]
                        add('win_incr', cfg, ops)
        # -- coal: what PendingTx holds for one key when several events of one prefix are
        #    delivered between two flushes: every sequence of <= 3 events, from three initial states
        al = [('ins', 0, 0, 0, 0, 0), ('ins', 0, 0, 1, 0, 0), ('rem', 0, 0), ('ins', 1, 0, 0, 0, 0), ('rem', 1, 0)]
        for mx in (1, 2):
            for init in ('absent', 'flushed', 'buffered'):
                for n in (1, 2, 3):
                    for seq in itertools.product(al, repeat=n):
                        cfg = self.mkcfg(mx, nsrc=2)
                        pre = {'absent': [R, F], 'flushed': [('ins', 0, 0, 2, 0, 0), R, F],
                               'buffered': [('ins', 0, 0, 2, 0, 0), R]}[init]
                        add('coal_' + init, cfg, pre + list(seq) + [D] * n + [F])
        # -- ids: IdAllocator word boundaries (63/64/65, 127/128/129 live destinations), ids freed at
        #    the first / last / boundary positions and taken again; three shard indices
        for n in (63, 64, 65, 127, 128, 129):
            for shard in (0, 1, 255):
                cfg = self.mkcfg(1 if n % 2 else 2, nsrc=1, shard=shard)
                ops = [('ins', 0, j, 0, 0, 0) for j in range(n)] + [R, F]
                freed = sorted({0, 62, 63, 64, n - 2, n - 1} & set(range(n)))
                for j in freed:
                    ops += [('rem', 0, j)]
                for j in range(len(freed) + 1):
                    ops += [('ins', 0, 200 + j, 1, 0, 0)]
                ops += [D] * (2 * len(freed) + 1) + [F]
                add('ids_%d' % n, cfg, ops)
        # -- roles: every neighbour role x every source role x route reflector or not x echo
        for nrole in (EBGP, RSC, IBGP, RRC, CONFED):
            for srole in (EBGP, RSC, IBGP, RRC, CONFED):
                for cluster in (False, True):
                    for addr in (9, 1):
                        for mx in (1, 2):
                            asn = LOCAL_ASN if srole in (IBGP, RRC) else 65010
                            cfg = self.mkcfg(mx, role=nrole, addr=addr, cluster=cluster,
                                             srcs=[(1, srole, asn), (2, EBGP, 65011)])
                            add('roles', cfg, [('ins', 0, 0, 1, 0, 0), R, F, ('ins', 0, 1, 1, 0, 0), D, F,
                                               ('ins', 1, 0, 0, 0, 0), D, F, ('rem', 1, 0), D, F])
        # -- repl: implicit replacement of the path at each rank, by each kind of successor
        kinds = {'same': (None, 0, 0), 'better': (0, 0, 0), 'rejected': (3, 0, 0), 'filtered': (None, 1, 0),
                 'nhinv': (None, 0, 1)}
        for mx in (1, 2, 3):
            for pos in (0, 1, 2):
                for kind, (tk, fl_, nh) in kinds.items():
                    for pol in (False, True):
                        cfg = self.mkcfg(mx, policy=pol, nsrc=3)
                        base = [('ins', j, 0, j if j else 1, 0, 0) for j in range(3)]   # toks 1,1,2: ranks 0,1,2
                        t0 = base[pos][3] if tk is None else tk
                        ops = base + [R, F, ('ins', pos, 0, t0, fl_, nh), D, F,
                                      ('ins', pos, 0, base[pos][3], 0, 0), D, F]
                        add('repl_' + kind, cfg, ops)
        # -- llgr: a source is marked LLGR-stale with its path at each rank, at several moments
        for mx in (1, 2, 3):
            for pos in (0, 1, 2):
                cfg = self.mkcfg(mx, nsrc=3)
                base = [('ins', j, 0, j, 0, 0) for j in range(3)]
                add('llgr', cfg, base + [R, F, ('llgr', pos), D, D, D, F])
                add('llgr', cfg, base + [R, ('llgr', pos), D, D, D, F])                     # dump still buffered
                add('llgr', cfg, base + [R, F, ('rem', (pos + 1) % 3, 0), ('llgr', pos), D, D, D, D, F])
                add('llgr', cfg, base + [R, F, ('llgr', pos), ('llgr', pos), D, D, D, D, D, D, F,
                                         ('rem', pos, 0), D, F, ('ins', pos, 0, 0, 0, 0), D, F])
        # -- refresh / policy: before the session, on an empty RIB, twice, around policy changes
        for mx in (1, 2):
            cfg = self.mkcfg(mx, nsrc=2, policy=True)
            i0, i1 = ('ins', 0, 0, 1, 0, 0), ('ins', 1, 0, 3, 0, 0)
            RF = ('refresh',)
            add('refresh', cfg, [RF, R, RF, D, F, RF, RF, D, D, F])
            add('refresh', cfg, [i0, i1, RF, R, F, RF, D, F, RF, RF, F, D, D, F])
            add('refresh', cfg, [i0, R, F, ('rem', 0, 0), i1, RF, D, D, D, F])       # walk behind queued changes
            add('refresh', cfg, [i0, R, F, RF, ('rem', 0, 0), i1, D, D, D, F])       # changes behind the walk
            add('policy', cfg, [i0, i1, R, F, ('policy', 1), RF, D, F, ('policy', 0), RF, D, F])
            add('policy', cfg, [i0, i1, R, ('policy', 1), RF, D, F, ('policy', 0), RF, D, F])
            add('policy', cfg, [R, F, ('policy', 1), i0, i1, D, D, RF, D, F, ('rem', 0, 0), D, ('policy', 0),
                                RF, D, F])
        # -- race: the history of the former finding C01-refresh-race and its relatives: a refresh while
        #    the removal of a prefix is queued and its dest_id already names another (hidden or visible) prefix
        for mx in (1, 2):
            for hidden in (False, True):
                srcs = [(1, EBGP, 65010), (2, RSC if hidden else EBGP, 65011)]
                cfg = self.mkcfg(mx, srcs=srcs)
                for tail in ([D, D, D, F], [F, D, F, D, F, D, F], [D, F, D, D, F]):
                    add('race', cfg, [R, ('ins', 0, 2, 0, 0, 0), D, ('rem', 0, 2), ('ins', 1, 1, 2, 0, 0), F,
                                      ('refresh',)] + tail)
                    add('race', cfg, [R, ('ins', 0, 2, 0, 0, 0), D, F, ('rem', 0, 2), ('ins', 1, 1, 2, 0, 0),
                                      ('ins', 0, 2, 1, 0, 0), ('refresh',), D] + tail)
        # -- nhflap: the next hop of the best / of another candidate goes away and comes back
        for mx in (1, 2):
            for t in (0, 1):
                cfg = self.mkcfg(mx, nsrc=3)
                base = [('ins', 0, 0, 0, 0, 0), ('ins', 1, 0, 1, 0, 0), ('ins', 2, 1, 1, 0, 0)]
                add('nhflap', cfg, base + [R, F, ('nhv', t, 0), D, D, F, ('nhv', t, 1), D, D, F])
                add('nhflap', cfg, base + [R, F, ('nhv', t, 0), ('nhv', t, 1), D, D, D, D, F])
                add('nhflap', cfg, [R, ('nhv', t, 0)] + base + [D, D, D, F, ('nhv', t, 1), D, D, F])
                add('nhflap', cfg, base + [R, F, ('nhv', t, 0), D, D, ('rem', 0, 0), D, ('nhv', t, 1), D, D, F])
        # -- peerdown: Table::drop with the dropped peer holding the best / a lesser / the only path
        for mx in (1, 2):
            for who in (0, 1):
                cfg = self.mkcfg(mx, nsrc=3)
                base = [('ins', 0, 0, 0, 0, 0), ('ins', 1, 0, 1, 0, 0), ('ins', 2, 0, 2, 0, 0),
                        ('ins', who, 1, 0, 0, 0), ('ins', 1 - who, 2, 1, 1, 0)]
                add('peerdown', cfg, base + [R, F, ('drop', who), D, D, D, F])
                add('peerdown', cfg, base + [R, ('drop', who), D, D, D, F, ('drop', 2), D, D, F])
        # -- session: start on an empty RIB, restart with things pending, stop, GR stale and purge
        for mx in (1, 2):
            cfg = self.mkcfg(mx, nsrc=2)
            i0, i1 = ('ins', 0, 0, 0, 0, 0), ('ins', 1, 1, 1, 0, 0)
            add('session', cfg, [R, F, i0, D, F])
            add('session', cfg, [i0, R, i1, D, R, F])                       # restart with a dump and a reach pending
            add('session', cfg, [i0, R, F, ('rem', 0, 0), D, R, F])         # restart with a withdrawal pending
            add('session', cfg, [i0, R, F, ('unregister',), i1, ('rem', 0, 0), D, F, R, F])
            add('session', cfg, [i0, i1, R, F, ('stale', 0), D, F, ('dropstale', 0), D, F])
            add('session', cfg, [i0, i1, R, F, ('stale', 0), ('ins', 0, 0, 1, 0, 0), D, D, ('dropstale', 0), D, F])
            add('session', cfg, [i0, i1, R, F, ('dropstale', 0), ('drop', 1), D, F, ('drop', 1), D, F])
        return out

    def gen_cases(self, rng, tier):
        cases = self.directed()
        n = 1000 if tier == 'quick' else 6000
        for k in range(n):
            crowded = k % 3 == 2
            cfg = self.gen_cfg(rng, crowded)
            cases.append(dict(cfg=cfg, ops=self.gen_ops(rng, cfg, rng.randint(3, 25), crowded)))
        if tier == 'thorough':
            cases += self.sweep(4)
        return cases

    def sweep(self, depth):
        """every schedule of the given length over a 9-letter alphabet (two prefixes competing for
        dest_id 0, two sources, deliver / flush / refresh), after one announced prefix and Register;
        non-add-path and add-path neighbour"""
        import itertools
        al = [('ins', 0, 0, 1, 0, 0), ('ins', 1, 0, 0, 0, 0), ('rem', 0, 0), ('rem', 1, 0),
              ('ins', 0, 1, 2, 0, 0), ('rem', 0, 1), ('deliver',), ('flush',), ('refresh',)]
        out = []
        for mx in (1, 2):
            cfg = dict(max=mx, aptx=mx > 1, role=EBGP, addr=9, cluster=False, policy=False,
                       srcs=[(1, EBGP, 65010), (2, EBGP, 65011)])
            for seq in itertools.product(al, repeat=depth):
                if mx == 2 and seq[0][0] in ('deliver', 'flush'):
                    continue      # halve the add-path sweep
                out.append(dict(cfg=cfg, ops=[('ins', 0, 1, 1, 0, 0), ('register',)] + list(seq) +
                                [('deliver',)] * 4 + [('flush',)]))
        return out

    # ---- running
    # An observation is a pair: [export-level run, session-level run].
    #  export-level  (export_c01_hx.rs): real Table + process_nlri_change + ExportMap + PendingTx,
    #                glue transcribed in the harness; every Flush also reports a from-scratch dump
    #  session-level (event_c01_hx.rs): real TableManager + PeerSession::{on_established,
    #                handle_prefix_update, do_route_refresh, flush_tx} + PeerCodec on a socket; the
    #                from-scratch dump (a second on_established) is taken at the end only
    # The model prints the export-level shape; the session-level shape is a projection of it.
    @staticmethod
    def project(o):
        if o == [-1]:
            return o
        return [[3, x[1], x[2], x[3], [x[4][0], x[4][2]]] if x[0] == 3 else x for x in o]

    def run_impl(self, cases, tier):
        vals = [self.case_to_val(c) for c in cases]
        x, err = rustrun.daemon_test('C01', 'event::export::verif_hx::c01::verif_export_c01_cases', vals)
        if x is None:
            return None, err
        e, err = rustrun.daemon_test('C01e', 'event::verif_hx::c01::verif_event_c01_cases', vals)
        if e is None:
            return None, err
        return [[a, b] for a, b in zip(x, e)], ''

    def run_model(self, cases, tier):
        pre = 'From RB Require Import Base.Val Model.ExportTx.\nOpen Scope N_scope.'
        m, err = coqrun.eval_terms('C01', pre, [self.case_to_coq(c) for c in cases])
        if m is None:
            return None, err
        return [[o, self.project(o)] for o in m], ''

    def canon(self, case, obs):
        """silent RIB operations print nothing on the implementation side; the value of a
        destination id is not compared (a change names its prefix; the mirror does not depend on
        the numbering since PendingTx is keyed by prefix): that the ids of live destinations are
        stable and pairwise distinct is judged by the oracle (id_clash)"""
        out = []
        for o in obs:
            if o == [-1]:
                out.append(o)
                continue
            r = []
            for x in o:
                if x == [0, []]:
                    continue
                if x[0] == 0:
                    x = [0, [0]] + x[2:]
                r.append(x)
            out.append(r)
        return out

    @staticmethod
    def id_clash(c, o):
        """dest ids of the implementation's changes: a live destination keeps its id, two live
        destinations never share one (liveness from the reference RIB: silent creations and
        removals emit no change)"""
        recs = [x for x in o if x[0] == 0 and x != [0, []]]
        k = 0
        ids = {}            # live net -> id (known once a change of it was seen)
        for ls in translate(c):
            for l in ls:
                sets = [('set',) + tuple(x) for x in l[2]] if l[0] == 'llgrmark' else [l]
                for m in sets:
                    if m[0] == 'set' or (m[0] == 'free' and m[2]):
                        if k >= len(recs):
                            return None
                        i, net = recs[k][1][0], recs[k][2]
                        k += 1
                        if net in ids and ids[net] != i:
                            return 'destination %d changed its dest_id while it was live' % net
                        for n2, i2 in ids.items():
                            if n2 != net and i2 == i:
                                return 'two live destinations (%d, %d) share dest_id %d' % (n2, net, i)
                        ids[net] = i
                    if m[0] == 'free':
                        ids.pop(m[1], None)
        return None

    # ---- Spec oracle on the implementation's observations
    def oracle(self, c, obs):
        why = untruthful([l for ls in translate(c) for l in ls])
        if why:
            return 'change stream (as predicted by the reference RIB and matched by the table): ' + why
        for lvl, o in zip(('export-level', 'session-level'), obs):
            if o != [-1]:
                why = self.id_clash(c, o)
                if why:
                    return lvl + ' run, ' + why
            why = self.oracle1(c, o, lvl == 'session-level')
            if why:
                return lvl + ' run, ' + why
        return None

    def oracle1(self, c, obs, session_level):
        if obs == [-1]:
            return 'panic in the export path'
        established = False
        dirty, refreshed = False, False
        due = eor_due(c)
        nflush = 0
        for k, o in enumerate(obs):
            if o[0] == 3:
                want, sched = due[nflush] if nflush < len(due) else (0, False)
                nflush += 1
                if len(o[3]) != want:
                    return 'obs %d: %d End-of-RIB marker(s) drained, %d due (one closes the initial dump, one follows a route-refresh walk)' % (k, len(o[3]), want)
                if sched and o[3][-1] != len(o[2]):
                    return 'obs %d: the End-of-RIB of a route refresh is not the last thing of its batch' % k
            if o[0] == 4:
                established = True
            if o[0] == 7:
                established = False
            if o[0] == 8:
                dirty, refreshed = True, False   # policy replaced: judged again once a soft reset
            if o[0] == 5:                        # out issued afterwards has been processed
                refreshed = True
            if o[0] == 4:
                dirty = False
            if dirty and refreshed and o[0] in (3, 6):
                chk0 = o[4] if o[0] == 3 else o[2]
                if 999 not in chk0[-2]:
                    dirty = False
            if dirty:
                continue
            if not established:
                continue            # the property speaks about established neighbours
            if o[0] == 3:
                if session_level:
                    continue        # no from-scratch dump at intermediate points of this run
                chk, pending_empty = o[4], True
            elif o[0] == 6:
                pending_empty, chk = bool(o[1]), o[2]
            else:
                continue
            mirror, fresh, chan, same = chk
            fk = {(r[0], r[1]) for r in fresh}
            if pending_empty:
                for r in mirror:
                    if (r[0], r[1]) not in fk and r[0] not in chan:
                        return ('obs %d: route (prefix %d, path id %d) is in the neighbour\'s Adj-RIB-In, a fresh session '
                                'would not be sent it, and no withdrawal is pending or undelivered' % (k, r[0], r[1]))
                if not chan and (mirror != fresh or not same):   # (a queued walk shows as 999)
                    return 'obs %d: quiescent, but the neighbour\'s view differs from a from-scratch dump' % k
        return None

    def in_known_class(self, kf, c, obs, why):
        import re
        if kf['id'] == 'C01-refresh-race':
            return refresh_race(c)
        if kf['id'] == 'C01-llgr-stale-not-resent':
            # the failing check differs from the from-scratch dump only in LLGR_STALE markers
            # the neighbour has not been sent
            m = re.search(r'obs (\d+)', why)
            o = (obs[1] if why.startswith('session') else obs[0])[int(m.group(1))]
            chk = o[4] if o[0] == 3 else o[2]
            mirror, fresh = chk[0], chk[1]
            if len(mirror) != len(fresh):
                return False
            diff = [(a, b) for a, b in zip(mirror, fresh) if a != b]
            return bool(diff) and all(a[:4] == b[:4] and a[4] == 0 and b[4] == 1 for a, b in diff)
        return False

    def nontrivial_key(self, c, obs):
        obs = obs[0]
        if obs == [-1]:
            return ('panic',)
        fl = [o for o in obs if o[0] == 3]
        if any(o[1] for o in fl) and any(o[2] for o in fl):
            g = c['cfg']
            return (g['max'], g['role'], g['addr'], g['policy'], tuple(g['srcs']),
                    json.dumps([[o[1], o[2]] for o in fl]))
        return None

    def classify(self, c, obs):
        g = c['cfg']
        tags = ['max_%d' % g['max'], 'role_%d' % g['role'], 'class_' + c.get('cls', 'random')]
        if g.get('shard', 0): tags.append('shard_%d' % g['shard'])
        n = len(c['ops'])
        tags.append('len_%s' % ('0-10' if n <= 10 else '11-30' if n <= 30 else '31+'))
        kinds = {o[0] for o in c['ops']}
        for k in ('drop', 'llgr', 'refresh', 'policy', 'nhv', 'stale', 'dropstale', 'unregister'):
            if k in kinds: tags.append('has_' + k)
        if c['ops'].count(('register',)) > 1: tags.append('re_register')
        return tags

    # ---- shrinking: drop operations while the implementation still fails the oracle
    def shrink(self, case, why, rounds=40):
        cur = case
        for _ in range(rounds):
            cands = []
            ops = cur['ops']
            for i in range(len(ops)):
                cands.append(dict(cfg=cur['cfg'], ops=ops[:i] + ops[i + 1:]))
            # simplify the configuration as well
            g = cur['cfg']
            if g['policy']: cands.append(dict(cfg=dict(g, policy=False), ops=ops))
            if g['cluster']: cands.append(dict(cfg=dict(g, cluster=False), ops=ops))
            if not cands:
                break
            obs, err = self.run_impl(cands, 'quick')
            if obs is None:
                break
            nxt = None
            for c, o in zip(cands, obs):
                if self.oracle(c, o):
                    nxt = c
                    break
            if nxt is None:
                break
            cur = nxt
        return cur
