"""C10: generators, renderers and Spec oracle for the graceful-restart helper
(daemon/src/gr.rs GrState, the disconnect / timer glue of daemon/src/event/mod.rs and
the stale-marking operations of the RIB)."""
import itertools, json, os
from vp import val, coqrun, rustrun
from vp.val import cN, cbool, clist, cpair, copt
from gen.common import IPV4, IPV6, IPV4_VPN

IPV4_MC = (1 << 16) | 2
FAMS = [IPV4, IPV6, IPV4_MC]          # families whose NLRI the neighbour side of the harness can put on the wire
RT, LT = 120, 3600

# reasons: 0 tcp/io, 1 remote cease, 2 remote hard reset, 3 local cease, 4 local hard reset,
#          5 local non-cease notification, 6 hold timer, 7 fsm error / admin shutdown, 8 remote non-cease notification
REASON_COQ = ['RsTcp', 'RsRemoteCease', 'RsRemoteHard', 'RsLocalCease', 'RsLocalHard', 'RsLocalOther', 'RsHold', 'RsOther', 'RsRemoteOther']

def gr_applies(r, nbit):
    return r == 0 or (r in (1, 3, 6) and nbit)

# ---------------------------------------------------------------- rendering
def cfams(l): return clist([cN(f) for f in l])
def cpairs(l): return clist([cpair(cN(a), cN(b)) for a, b in l])

def grin_to_val(i):
    t = i[0]
    if t == 'drop':
        return [0, [] if i[1] is None else [[list(i[1][0]), i[1][1]]], [] if i[2] is None else [[list(p) for p in i[2]]]]
    if t == 'est': return [1, list(i[1])]
    if t == 'eor': return [2, i[1]]
    if t == 'timer': return [3]
    return [4, i[1]]

def grin_to_coq(i):
    t = i[0]
    if t == 'drop':
        gr = 'None' if i[1] is None else '(Some (%s, %s))' % (cfams(i[1][0]), cN(i[1][1]))
        ll = 'None' if i[2] is None else '(Some %s)' % cpairs(i[2])
        return '(GSessionDropped %s %s)' % (gr, ll)
    if t == 'est': return '(GSessionEstablished %s)' % cfams(i[1])
    if t == 'eor': return '(GEorReceived %s)' % cN(i[1])
    if t == 'timer': return 'GTimerExpired'
    return '(GLlgrTimerExpired %s)' % cN(i[1])

def hev_to_val(e):
    t = e[0]
    if t == 'up':
        # the implementation gets the two capability sets; the model the negotiated result
        lgr, rgr, lll, rll = e[4] if len(e) > 4 else default_caps(e[2], e[3])
        g = lambda x: [] if x is None else [[list(x[0]), x[1], cap_flags(x[2])]]
        l = lambda x: [] if x is None else [[list(p) for p in x]]
        hold = e[5] if len(e) > 5 else 90
        return [0, list(e[1]), g(lgr), g(rgr), l(lll), l(rll), hold]
    if t == 'ann': return [1, e[1], e[2], 1 if e[3] else 0, 1 if e[4] else 0]
    if t == 'eor': return [2, e[1]]
    if t == 'down': return [3, e[1]]
    if t == 'fail': return [4]
    if t == 'rtimer': return [5]
    if t == 'ltimer': return [6, e[1]]
    if t == 'force': return [7]
    if t == 'sib_open': return [9]
    if t == 'sib_fail': return [10, e[1]]
    if t == 'sib_up':
        # ('sib_up', fams, gr, ll, (remote gr, remote llgr), hold): the neighbour's OPEN on its second connection; the
        # local capabilities are those of the last 'up'; (gr, ll) is what they negotiate with the remote ones
        g = lambda x: [] if x is None else [[list(x[0]), x[1], cap_flags(x[2])]]
        l = lambda x: [] if x is None else [[list(p) for p in x]]
        return [11, g(e[4][0]), l(e[4][1]), e[5]]
    return [8, 1 if e[1] else 0]

SIB_EVENTS = ('sib_open', 'sib_fail', 'sib_up')

def cev_to_coq(e):
    t = e[0]
    if t == 'sib_open': return 'CSibOpen'
    if t == 'sib_fail': return 'CSibFail'
    if t == 'sib_up':
        gr = 'None' if e[2] is None else '(Some (%s, %s, %s))' % (cfams(e[2][0]), cN(e[2][1]), cbool(e[2][2]))
        ll = 'None' if e[3] is None else '(Some %s)' % cpairs(e[3])
        return '(CSibUp %s %s %s)' % (cfams(e[1]), gr, ll)
    return '(CBase %s)' % hev_to_coq(e)

def sib_up(upev, rgr, rll, hold=90):
    """the second connection reaches Established: local capabilities of the session `upev`, remote ones as given"""
    lgr, _, lll, _ = upev[4] if len(upev) > 4 else default_caps(upev[2], upev[3])
    gr, ll = negotiate(lgr, rgr, lll, rll)
    return ('sib_up', upev[1], gr, ll, (rgr, rll), hold)

def hev_to_coq(e):
    t = e[0]
    if t == 'up':
        gr = 'None' if e[2] is None else '(Some (%s, %s, %s))' % (cfams(e[2][0]), cN(e[2][1]), cbool(e[2][2]))
        ll = 'None' if e[3] is None else '(Some %s)' % cpairs(e[3])
        return '(HUp %s %s %s)' % (cfams(e[1]), gr, ll)
    if t == 'ann': return '(HAnnounce %s %s %s %s)' % (cN(e[1]), cN(e[2]), cbool(e[3]), cbool(e[4]))
    if t == 'eor': return '(HEor %s)' % cN(e[1])
    if t == 'down': return '(HDown %s)' % REASON_COQ[e[1]]
    if t == 'fail': return 'HFailedConnect'
    if t == 'rtimer': return 'HRestartTimer'
    if t == 'ltimer': return '(HLlgrTimer %s)' % cN(e[1])
    if t == 'force': return 'HForceDown'
    return '(HSetAdminDown %s)' % cbool(e[1])

# ------------------------------------------------------------- capabilities behind a negotiated result
def cap_flags(x):
    """flags octet of a GR capability: True/False = N bit only; an int is taken as it is (0x4 N bit, 0x8 R bit)"""
    if isinstance(x, bool):
        return 4 if x else 0
    return x

def negotiate(lgr, rgr, lll, rll):
    """RFC 4724 / 8538 / 9494: GR families = local list restricted to the peer's, restart time from the peer, N bit
    only if both set it; LLGR families likewise, stale time from the peer, ours when the peer sends 0, none when 0"""
    gr = None
    if lgr is not None and rgr is not None:
        fams = tuple(f for f in lgr[0] if f in rgr[0])
        if fams:
            gr = (fams, rgr[1], bool(cap_flags(lgr[2]) & 4 and cap_flags(rgr[2]) & 4))
    ll = None
    if lll is not None and rll is not None:
        out = []
        seen = set()
        for f, t in lll:
            if f in seen:          # a family named more than once counts by its first entry, on both sides
                continue
            seen.add(f)
            m = [x for x in rll if x[0] == f]
            if not m:
                continue
            secs = m[0][1] if m[0][1] > 0 else t
            if secs:
                out.append((f, secs))
        if out:
            ll = tuple(out)
    return gr, ll

def default_caps(gr, ll):
    return (gr, gr, ll, ll)

def derive_caps(rng, gr, ll):
    """local/remote GR and LLGR capabilities whose negotiation (RFC 4724 / 9494: family intersection in
    local order, restart time and stale times from the peer, N bit only if both set it) is (gr, ll)."""
    if gr is None:
        k = rng.randint(0, 3)
        a, b = rng.sample(FAMS, 2)
        lgr, rgr = [(None, None), (((a,), RT, True), None), (None, ((a,), RT, True)),
                    (((a,), RT, True), ((b,), RT, True))][k]
    else:
        G, rt, nbit = gr
        extra = [f for f in FAMS if f not in G]
        rng.shuffle(extra)
        el = extra[:rng.randint(0, len(extra))]
        er = [f for f in extra if f not in el][:rng.randint(0, 2)]
        lf = list(G)
        for f in el:
            lf.insert(rng.randint(0, len(lf)), f)
        # keep G's relative order in the local list: insert extras anywhere
        rf = list(G) + er
        rng.shuffle(rf)
        lb, rb = (True, True) if nbit else rng.choice([(False, False), (True, False), (False, True)])
        lgr, rgr = (tuple(lf), rng.choice([rt, 30, 300]), lb), (tuple(rf), rt, rb)
    if ll is None:
        k = rng.randint(0, 3)
        a, b = rng.sample(FAMS, 2)
        lll, rll = [(None, None), (((a, LT),), None), (None, ((a, LT),)), (((a, LT),), ((b, LT),))][k]
    else:
        fl = [f for f, _ in ll]
        extra = [f for f in FAMS if f not in fl]
        rng.shuffle(extra)
        el = extra[:rng.randint(0, len(extra))]
        er = [f for f in extra if f not in el][:rng.randint(0, 2)]
        ltimes, rtimes = {}, {}
        for f, t in ll:
            if rng.random() < 0.3:
                ltimes[f], rtimes[f] = t, 0          # the peer sends 0: our local time is used
            else:
                ltimes[f], rtimes[f] = rng.choice([t, 60]), t
        lo = [(f, ltimes[f]) for f in fl]
        for f in el:
            lo.insert(rng.randint(0, len(lo)), (f, LT))
        ro = [(f, rtimes[f]) for f in fl] + [(f, LT) for f in er]
        rng.shuffle(ro)
        lll, rll = tuple(lo), tuple(ro)
    assert negotiate(lgr, rgr, lll, rll) == (gr, ll), (gr, ll, lgr, rgr, lll, rll)
    return (lgr, rgr, lll, rll)

# ------------------------------------------------------------- known classes
# Findings C10-1..C10-7 are repaired: no input class is excluded and the theorems carry no
# Known_* hypothesis.  (When a class is open again, mirror its Coq predicate here and have
# run_model evaluate the Coq predicate next to every history and compare, as was done for
# C10-7 before its repair.)
def known_classes(evs):
    """set of open finding ids whose input class this history belongs to"""
    return set()

class Prop:
    pid = 'C10'
    props_file = 'Props/C10.v'
    required_theorems = ['helper_mode_entry_arms_timer', 'drop_never_leaves_helper_mode', 'stale_implies_timer_or_eor', 'phase_timer_consistency', 'failed_reconnect_keeps_timer', 'no_llgr_dropped_at_llgr_start', 'no_llgr_dropped_at_llgr_only_drop', 'fresh_routes_survive_purge', 'live_session_routes_survive_purge', 'purged_by_expiry_or_eor', 'non_negotiated_families_dropped_at_once', 'non_gr_reasons_retain_nothing', 'eligibility_is_as_stated',
                         'stale_implies_timer_or_eor_two_connections', 'second_connection_does_not_suppress_helper_mode',
                         'stale_implies_timer_or_eor_dead_timer_entries']
    correspondence_name = ('Model/Gr.v gr_step vs daemon/src/gr.rs GrState::process (harness/daemon/gr_hx.rs); '
                           'Model/Gr.v h_step / c_step vs apply_disconnect / process_effects / timer handlers / unregister_peer on a real '
                           'PeerContext + TableManager (harness/daemon/event_gr_hx.rs)')
    rule = ('pure machine: every input sequence of length <= d over a 13-letter alphabet (2 families, GR/LLGR parameter classes) '
            'plus seeded random sequences; glue: seeded random event histories of one peer (up with derived local/remote GR and LLGR '
            'capabilities, announce with two path ids per prefix, eor, down with each reason class, failed connect, timer expiries, '
            'force-down, admin-down), including reconnects that do / do not re-negotiate GR/LLGR, GR/LLGR families outside each other '
            'and outside the session families; enumerated histories with a second connection of the same neighbour in the other slot '
            'of the ConnArbiter (first session in either slot) around the drop of the Established GR/LLGR session: open and still in '
            'OpenSent when the session drops, ending afterwards in OpenSent / OpenConfirm, ending before the drop, losing the collision '
            'against the Established session, reaching Established after the drop with the same GR / without GR / with a GR subset / '
            'during the LLGR period, forced down together, admitted before admin-down; plus a random mode with such events; '
            'enumerated multi-cycle histories: two and three drop cycles of one peer x {GR only, GR then LLGR, LLGR only} x how each '
            'earlier cycle ended (reconnect and End-of-RIB before the restart timer, drop with one End-of-RIB outstanding, restart timer '
            'expiry, every LLGR timer expiring, one LLGR timer expiring then reconnect during LLGR, forced down) x same / other family '
            'set later, the same route re-announced per cycle; the same on real 1 s / 2 s timers; '
            'a case is non-trivial when a route is retained stale at some step; '
            'distinct = distinct observation trajectories')
    exhaustive = {'quick': True, 'thorough': True}
    trusted_base = ['every session of a glue history is a real PeerSession::run() (session_loop with its select loop and its '
                    'end-of-session block, apply_outputs, process_effects, rx_msg / rx_update, the End-of-RIB gate, apply_disconnect, '
                    'gr_on_disconnect, families_to_drop_on_disconnect, unregister_peer, the timer handlers, spawn_llgr_timers) over a '
                    'loopback TCP pair on a real Global / PeerContext / TableManager; the harness is the neighbour on the other end of '
                    'the socket: OPEN / KEEPALIVE, UPDATEs (ADD-PATH, communities), End-of-RIB, NOTIFICATIONs (Cease, Hard Reset), '
                    'closing the socket, a non-BGP header, silence until a 3 s hold timer expires, CloseReason::AdminShutdown on the '
                    'session\'s close channel, a prefix limit of 0 on a never-announced family for the local Cease',
                    'every session is built by the real accept_connection() from the Peer record (Global::add_peer) of the address '
                    'the connection comes from, which also registers its close channel with the ConnArbiter and refuses an admin-down peer '
                    'or a second connection of the same role; force_down() therefore closes a live session for real',
                    'a second connection of the neighbour is a second real accept_connection() / PeerSession::run() with the other Role '
                    'on its own loopback socket while the first one is registered: both slots of the real ConnArbiter / PeerFsm are in use, '
                    'the collision is resolved by the real PeerFsm::check_collision, each connection ends through its own session_loop / '
                    'apply_disconnect',
                    'hand-built by the harness: before each connection the local capabilities of the case are written into '
                    'Peer.config.local_cap and a PeerFsm sending them is put into the PeerContext (they differ from session to session; the '
                    'daemon derives them once from the configuration); the admin_down field is set directly on the Peer record (not '
                    'through the gRPC handler); CloseReason::AdminShutdown is sent on the registered close channel (what disable_peer does); '
                    'the negotiated GR/LLGR values that are observed come from a second, throw-away PeerSession::new_for_test() driven '
                    'through apply_outputs with the same capabilities; a local Hard Reset cannot be produced on a socket and is covered only '
                    'by the function-level gr_on_disconnect cases',
                    'timers are fired through their oneshot sender (the RunNow path) and the slot is then left as a wall-clock expiry '
                    'leaves it (entry still present, its task gone: the harness puts a sender whose receiver is dropped in its place, since '
                    'sending consumes the original); a timer counts as armed only while its sender is present and not closed (its task is '
                    'alive), entries of llgr_family_timers whose task is gone are observed separately and compared with the model\'s t_dead; '
                    'in the real_time class the negotiated restart time (1 s) and LLGR stale times (1 s / 2 s) really run out on the real '
                    'timer tasks and nothing is put into any slot by the harness (the hold timer is really waited for as well)']
    assumptions = ['one peer, one shard; the restarting-speaker role (selection_deferral) is inactive',
                   'at most one Established session at a time (property C07); at most one further connection of the same neighbour, '
                   'which is before Established; no new connection of the first role is opened while the second one is pending '
                   '(two pending connections and their OpenConfirm / OpenConfirm collision are C07\'s)',
                   'a route is identified by (family, prefix, path id); attributes other than the NO_LLGR / LLGR_STALE communities, '
                   'best-path order and distribution to other peers are outside the model']

    def case_to_val(self, c):
        if c['kind'] == 'gd':
            return [2, c['rk'], c['code'], c['sub'], 1 if c['nbit'] else 0]
        if c['kind'] == 'gr':
            return [1, [grin_to_val(i) for i in c['ins']]]
        if c.get('real'):
            return [1, [hev_to_val(e) for e in c['evs']], c.get('role', 0), 1]
        if c.get('role'):
            return [1, [hev_to_val(e) for e in c['evs']], c['role']]
        return [1, [hev_to_val(e) for e in c['evs']]]

    def case_to_coq(self, c):
        if c['kind'] == 'gd':
            r = {0: 'RsTcp', 1: 'RsTcp', 4: 'RsHold', 5: 'RsOther', 6: 'RsOther'}.get(c['rk'])
            if r is None:
                r = '(reason_of_notification %s %s %s)' % (cbool(c['rk'] == 3), cN(c['code']), cN(c['sub']))
            return 'VB (gr_applies %s %s)' % (r, cbool(c['nbit']))
        if c['kind'] == 'gr':
            return 'run_gr_case %s' % clist([grin_to_coq(i) for i in c['ins']])
        if any(e[0] in SIB_EVENTS for e in c['evs']):
            return 'run_c_case %s' % clist([cev_to_coq(e) for e in c['evs']])
        return 'run_h_case %s' % clist([hev_to_coq(e) for e in c['evs']])

    def case_to_json(self, c):
        return json.loads(json.dumps(c))

    def case_from_json(self, j):
        def tup(x):
            return tuple(tup(y) for y in x) if isinstance(x, list) else x
        c = dict(j)
        if 'ins' in j: c['ins'] = [tup(i) for i in j['ins']]
        if 'evs' in j: c['evs'] = [tup(e) for e in j['evs']]
        return c

    def corpus_cases(self):
        d = os.path.join(os.path.dirname(os.path.dirname(os.path.abspath(__file__))), 'corpus', 'C10')
        res = []
        if os.path.isdir(d):
            for fn in sorted(os.listdir(d)):
                if fn.endswith('.json'):
                    res.append(self.case_from_json(json.load(open(os.path.join(d, fn)))['case']))
        return res

    # ---- generation
    def rand_history(self, rng, mode):
        """mode: 'clean' (GR-eligible, LLGR families = GR families or none), or a known-class stream"""
        F = FAMS
        evs = []
        up = None
        n = rng.randint(4, 18)
        sib = False        # mode 'sib': a second connection of the neighbour is open
        lastup = None
        for _ in range(n):
            x = rng.random()
            if mode == 'sib' and lastup is not None:
                y = rng.random()
                if not sib and y < 0.18:
                    evs.append(('sib_open',)); sib = True
                    continue
                if sib and y < (0.25 if up is not None else 0.45):
                    z = rng.random()
                    if z < 0.45:
                        evs.append(('sib_fail', rng.randint(0, 1)))
                    else:
                        lgr = lastup[4][0]
                        rgr = rng.choice([lgr, None, None if lgr is None else ((lgr[0][0],), RT, rng.random() < 0.5)])
                        lll = lastup[4][2]
                        rll = rng.choice([lll, None])
                        ev = sib_up(lastup, rgr, rll)
                        evs.append(ev)
                        if up is None:
                            up = ('up', ev[1], ev[2], ev[3]); lastup = (up[0], up[1], up[2], up[3], (lgr, rgr, lll, rll))
                    sib = False
                    continue
                if sib and up is None and x < 0.55:
                    x = 0.6 + 0.4 * rng.random()       # no new connection of the first role while the second one is open
            if up is None:
                if x < 0.55:
                    fams = rng.sample(F, rng.choice([1, 2, 2, 3]))
                    if (mode == 'nogr' and rng.random() < 0.5) or rng.random() < 0.2:
                        gr, ll = None, None
                    else:
                        grf = [f for f in fams if rng.random() < 0.8] or [fams[0]]
                        if mode == 'offfam':
                            grf += [f for f in F if f not in fams and rng.random() < 0.6]
                        nbit = rng.random() < 0.5
                        gr = (tuple(grf), RT, nbit)
                        llm = rng.random()
                        if mode == 'clean':
                            ll = tuple((f, LT) for f in grf) if llm < 0.4 else None
                        else:
                            lf = [f for f in (F if mode == 'offfam' else fams) if rng.random() < 0.6]
                            ll = tuple((f, LT) for f in lf) if lf and llm < 0.7 else None
                            if mode != 'clean' and rng.random() < 0.15:
                                gr = None
                    evs.append(('up', tuple(fams), gr, ll, derive_caps(rng, gr, ll))); up = evs[-1]; lastup = up
                elif x < 0.70:
                    evs.append(('rtimer',))
                elif x < 0.85:
                    evs.append(('ltimer', rng.choice(F)))
                elif x < 0.93 and mode in ('fail', 'any'):
                    evs.append(('fail',))
                elif x < 0.97 and mode in ('force', 'any', 'sib'):
                    evs.append(('force',)); sib = False
                else:
                    evs.append(('rtimer',))
            else:
                if x < 0.45:
                    evs.append(('ann', rng.choice(list(up[1]) if rng.random() < 0.95 else F), rng.randint(0, 3),
                                rng.random() < 0.2, (mode in ('comm', 'any')) and rng.random() < 0.2))
                elif x < 0.65:
                    evs.append(('eor', rng.choice(list(up[1]))))
                elif x < 0.93:
                    if mode == 'clean':
                        nbit = bool(up[2] and up[2][2])
                        r = rng.choice([0, 0, 0, 1, 3, 6]) if nbit else 0
                    else:
                        r = rng.choice([0, 1, 2, 3, 5, 6, 7, 8])   # 4 (local hard reset) cannot be produced on a socket
                    if mode in ('admin', 'any') and rng.random() < 0.2:
                        evs.append(('admin', True))
                    elif mode in ('admin', 'any') and rng.random() < 0.1:
                        evs.append(('admin', False))
                    evs.append(('down', r)); up = None
                elif mode in ('force', 'any', 'sib') and rng.random() < 0.4:
                    evs.append(('force',)); up = None; sib = False        # closes the live session (and a second connection)
                else:
                    evs.append(('rtimer',) if rng.random() < 0.5 else ('ltimer', rng.choice(F)))
        return evs

    @staticmethod
    def with_hold(evs, allow_hold):
        """a session that is going to end by hold-timer expiry negotiates a 3 s hold time (the harness
        really waits for it); when the budget of such waits is used up the reason becomes a remote Cease"""
        evs = list(evs)
        for k, e in enumerate(evs):
            if e[0] == 'down' and e[1] == 6 and not allow_hold:
                evs[k] = ('down', 1)
        for k, e in enumerate(evs):
            if e[0] == 'up':
                nxt = next((x for x in evs[k + 1:] if x[0] in ('down', 'up')), None)
                hold = 3 if nxt is not None and nxt[0] == 'down' and nxt[1] == 6 else 90
                caps = e[4] if len(e) > 4 else default_caps(e[2], e[3])
                evs[k] = (e[0], e[1], e[2], e[3], caps, hold)
            elif e[0] == 'sib_up':
                nxt = next((x for x in evs[k + 1:] if x[0] in ('down', 'up')), None)
                hold = 3 if nxt is not None and nxt[0] == 'down' and nxt[1] == 6 else 90
                evs[k] = e[:5] + (hold,)
        return evs

    # ---- enumerated classes (every run)
    def gr_alphabet(self):
        a, b = FAMS[0], FAMS[1]
        return [
            # session drops: GR / LLGR family sets in every inclusion relation, duplicates, empty lists
            ('drop', ((a, b), RT), None),                              # GR only
            ('drop', ((a, b), RT), ((a, LT), (b, 7200))),              # GR = LLGR
            ('drop', ((a, b), 0), ((a, LT),)),                         # GR > LLGR, restart time 0
            ('drop', ((a,), RT), ((a, LT), (b, LT))),                  # LLGR > GR
            ('drop', ((a,), 4095), ((b, LT),)),                        # disjoint, largest restart time
            ('drop', ((a, a), RT), ((b, LT), (b, 1))),                 # duplicates in both lists
            ('drop', ((), RT), ()),                                    # both present and empty
            ('drop', None, ((a, LT), (b, LT))),                        # LLGR only
            ('drop', None, ()),                                        # LLGR only, empty
            ('drop', None, None),
            ('est', (a, b)), ('est', (a,)), ('est', (b,)), ('est', (b, b, a)), ('est', ()),
            ('eor', a), ('eor', b), ('eor', FAMS[2]),
            ('timer',), ('ltimer', a), ('ltimer', b), ('ltimer', FAMS[2])]

    def gr_phase_prefixes(self):
        """one input sequence per phase (and per interesting content of the phase)"""
        a, b = FAMS[0], FAMS[1]
        gr_ll = ('drop', ((a, b), RT), ((a, LT), (b, LT)))
        return [
            [],                                                        # Idle
            [('drop', ((a, b), RT), None)],                            # PeerRestarting, no LLGR
            [gr_ll],                                                   # PeerRestarting, LLGR
            [('drop', ((a, b), RT), ((a, LT),))],                      # PeerRestarting, GR > LLGR
            [('drop', ((a,), RT), ((a, LT), (b, LT)))],                # PeerRestarting, LLGR > GR
            [gr_ll, ('timer',)],                                       # LlgrStaling {a, b}
            [gr_ll, ('timer',), ('ltimer', a)],                        # LlgrStaling {b}
            [('drop', ((a, b), RT), None), ('est', (a, b))],           # PeerReconnected, from GR
            [('drop', ((a, b), RT), None), ('est', (a, b)), ('eor', a)],
            [gr_ll, ('timer',), ('est', (a, b))],                      # PeerReconnected, from LLGR
            [gr_ll, ('timer',), ('est', (a,))],                        # ... with a family not re-negotiated
        ]

    RELATIONS = None

    def relations(self):
        a, b = FAMS[0], FAMS[1]
        return [('equal', (a, b), ((a, LT), (b, LT))),
                ('gr_sup', (a, b), ((a, LT),)),
                ('llgr_sup', (a,), ((a, LT), (b, LT))),
                ('disjoint', (a,), ((b, LT),)),
                ('gr_only', (a, b), None),
                ('llgr_only', None, ((a, LT), (b, LT))),
                ('neither', None, None)]

    def tails(self, grf, ll):
        """what happens after the drop: reconnect outcome x End-of-RIB per family x order of the timer expiries"""
        a, b = FAMS[0], FAMS[1]
        F = (a, b)
        def up(g, l, nb=False):
            gr = None if g is None else (tuple(g), RT, nb)
            return ('up', F, gr, l, default_caps(gr, l))
        same = up(grf, ll)
        return [
            ('expire_ab', [('rtimer',), ('ltimer', a), ('ltimer', b), ('rtimer',)]),
            ('expire_ba', [('ltimer', a), ('rtimer',), ('ltimer', b), ('ltimer', a)]),
            ('failed_connect', [('fail',), ('fail',), ('rtimer',), ('fail',), ('ltimer', a), ('ltimer', b)]),
            ('reconnect_no_gr', [up(None, None), ('ann', a, 4, False, False), ('rtimer',), ('eor', a), ('ltimer', a), ('down', 0)]),
            ('reconnect_gr_subset', [up((a,), None), ('ann', a, 4, False, False), ('eor', b), ('eor', a), ('rtimer',), ('down', 0), ('rtimer',)]),
            ('reconnect_gr_other', [up((b,), ll), ('ann', b, 4, False, True), ('eor', b), ('eor', a), ('down', 0), ('rtimer',), ('ltimer', b)]),
            ('reconnect_same_eor_ab', [same, ('ann', a, 4, False, False), ('ann', b, 0, False, False), ('eor', a), ('eor', b), ('eor', a)]),
            ('reconnect_same_eor_ba', [same, ('ann', a, 0, True, False), ('eor', b), ('rtimer',), ('eor', a), ('down', 0), ('rtimer',), ('ltimer', a)]),
            ('llgr_then_reconnect_subset', [('rtimer',), up((a,), None), ('ann', a, 4, False, True), ('ltimer', b), ('eor', a), ('eor', b)]),
            ('llgr_then_reconnect_no_gr', [('rtimer',), up(None, ll), ('ltimer', a), ('ann', a, 4, False, False), ('down', 0), ('ltimer', a), ('ltimer', b)]),
            ('llgr_partial_then_reconnect', [('rtimer',), ('ltimer', a), same, ('eor', a), ('eor', b), ('down', 0), ('rtimer',)]),
            ('second_drop_before_eor', [same, ('ann', b, 4, False, False), ('down', 0), ('rtimer',), ('ltimer', a), ('ltimer', b)]),
            ('force_down', [('force',), ('rtimer',), ('ltimer', a)]),
            ('reconnect_then_force', [same, ('ann', a, 4, False, False), ('force',), ('rtimer',)]),
        ]

    def matrix_cases(self, tier):
        """GR family set x LLGR family set (every inclusion relation) x disconnect reason x N bit / R bit x
        what happens next: every output of GrState::process is followed by what the driver does to the real table"""
        a, b = FAMS[0], FAMS[1]
        F = (a, b)
        cases = []
        k = 0
        for rel, grf, ll in self.relations():
            for nb in ((False, True) if grf is not None else (False,)):
                gr = None if grf is None else (grf, RT, nb)
                # the R bit (0x8) of either side must make no difference
                rbit = 8 if k % 2 else 0
                k += 1
                caps = default_caps(gr, ll)
                if gr is not None:
                    fl = cap_flags(nb)
                    caps = ((grf, RT, fl | rbit), (grf, RT, fl | (8 - rbit)), ll, ll)
                head = [('up', F, gr, ll, caps),
                        ('ann', a, 0, False, False), ('ann', a, 1, True, False),     # two paths of one prefix, one NO_LLGR
                        ('ann', b, 0, False, False), ('ann', b, 2, True, True), ('eor', a)]
                reasons = [0, 1, 2, 3, 5, 7, 8]
                for r in reasons:
                    for tname, tail in self.tails(grf, ll):
                        cases.append(dict(kind='h', cls=['matrix', 'rel_' + rel, 'reason_%d' % r, 'nbit_%d' % nb,
                                                          'rbit_%d' % rbit, 'tail_' + tname],
                                          evs=self.with_hold(head + [('down', r)] + tail, False)))
                # hold-timer expiry is really waited for (3 s): a few on every run, the whole row in the thorough tier
                hold_tails = [t for t in self.tails(grf, ll) if t[0] in ('expire_ab', 'reconnect_same_eor_ab')]
                if tier == 'quick' and not (rel == 'equal' or (rel == 'gr_sup' and nb)):
                    hold_tails = []
                for tname, tail in hold_tails[:(1 if tier == 'quick' else 2)]:
                    cases.append(dict(kind='h', cls=['matrix', 'rel_' + rel, 'reason_6', 'nbit_%d' % nb, 'tail_' + tname],
                                      evs=self.with_hold(head + [('down', 6)] + tail, True)))
        # admin-down peer: nothing is retained whatever was negotiated, connections are refused
        for rel, grf, ll in self.relations():
            gr = None if grf is None else (grf, RT, True)
            cases.append(dict(kind='h', cls=['matrix', 'admin_down', 'rel_' + rel],
                              evs=self.with_hold([('up', F, gr, ll, default_caps(gr, ll)), ('ann', a, 0, False, False),
                                                  ('ann', b, 0, False, False), ('admin', True), ('down', 0), ('rtimer',),
                                                  ('up', F, gr, ll, default_caps(gr, ll)), ('fail',), ('admin', False),
                                                  ('up', F, gr, ll, default_caps(gr, ll)), ('ann', a, 0, False, False), ('down', 0)], False)))
        return cases

    def sibling_cases(self, tier):
        """a second connection of the same neighbour (the other slot of the ConnArbiter) around the drop of the Established
        session: still in OpenSent when the session drops and failing afterwards (in OpenSent / OpenConfirm), failing before,
        losing the collision against the Established session, reaching Established afterwards with the same GR, without GR,
        with a subset, during the LLGR period; forced down together; both roles for the first session"""
        a, b = FAMS[0], FAMS[1]
        F = (a, b)
        cases = []
        for role in (0, 1):
            for rel, grf, ll in self.relations():
                for nb in ((False, True) if grf is not None else (False,)):
                    gr = None if grf is None else (grf, RT, nb)
                    up = ('up', F, gr, ll, default_caps(gr, ll))
                    head = [up, ('ann', a, 0, False, False), ('ann', a, 1, True, False),
                            ('ann', b, 0, False, False), ('ann', b, 2, True, True), ('eor', a)]
                    same = sib_up(up, gr, ll)
                    nogr = sib_up(up, None, None)
                    sub = sib_up(up, None if grf is None else ((a,), RT, nb), None)
                    expire = [('rtimer',), ('ltimer', a), ('ltimer', b)]
                    reasons = [0, 1, 2, 3, 7] if role == 0 else [0, 2]
                    if tier != 'quick' and role == 1:
                        reasons = [0, 1, 2, 3, 7]
                    for r in reasons:
                        d = ('down', r)
                        tails = [
                            ('open_down_fail_opensent', [('sib_open',), d, ('sib_fail', 0)] + expire),
                            ('open_down_fail_openconfirm', [('sib_open',), d, ('sib_fail', 1), ('fail',)] + expire),
                            ('open_fail_down', [('sib_open',), ('sib_fail', 0), d] + expire),
                            ('collision_then_down', [('sib_open',), ('sib_fail', 1), ('ann', a, 4, False, False), d] + expire),
                            ('collision_up_then_down', [('sib_open',), same, ('ann', b, 4, False, False), d, ('fail',), ('rtimer',)]),
                            ('open_down_up_same', [('sib_open',), d, same, ('ann', a, 4, False, False), ('eor', a), ('eor', b), ('down', 0), ('rtimer',)]),
                            ('open_down_up_no_gr', [('sib_open',), d, nogr, ('ann', a, 4, False, False), ('rtimer',), ('ltimer', a), ('down', 0)]),
                            ('open_down_up_gr_subset', [('sib_open',), d, sub, ('ann', a, 4, False, False), ('eor', b), ('eor', a), ('rtimer',), ('down', 0), ('rtimer',)]),
                            ('open_down_llgr_up', [('sib_open',), d, ('rtimer',), same, ('eor', a), ('ltimer', b), ('eor', b)]),
                            ('open_down_force', [('sib_open',), d, ('force',), ('rtimer',), ('ltimer', a)]),
                            ('open_force', [('sib_open',), ('force',), ('rtimer',)]),
                            ('open_admin_down_up', [('sib_open',), ('admin', True), d, same, ('ann', a, 4, False, False), ('down', 0), ('admin', False)]),
                            ('down_open_fail', [d, ('sib_open',), ('sib_fail', 1)] + expire),
                            ('down_open_up', [d, ('sib_open',), same, ('ann', b, 4, False, False), ('eor', a), ('eor', b)]),
                            ('reopen', [('sib_open',), ('sib_fail', 0), ('sib_open',), d, ('sib_fail', 0), ('sib_open',), same, ('eor', a), ('eor', b)]),
                        ]
                        for tname, tail in tails:
                            cases.append(dict(kind='h', role=role,
                                              cls=['second_connection', 'role_%d' % role, 'rel_' + rel, 'reason_%d' % r,
                                                   'nbit_%d' % nb, 'sib_' + tname],
                                              evs=self.with_hold(head + tail, False)))
        return cases

    def multi_cycle_cases(self, tier):
        """two and three drop cycles of one peer: {GR only, GR then LLGR, LLGR only} x how each earlier cycle ended (reconnect and
        End-of-RIB before the restart timer, restart timer expiry, every LLGR timer expiring, one LLGR timer expiring and a
        reconnect during the LLGR period, forced down) x the same / another family set in the later cycles; the last cycle runs to
        the expiry of every timer.  Timer expiries leave the slot as the code leaves it (entry present, task gone)."""
        a, b = FAMS[0], FAMS[1]
        F = (a, b)
        cases = []
        kinds = [('gr_only', (a, b), None), ('gr_llgr', (a, b), ((a, LT), (b, LT))), ('llgr_only', None, ((a, LT), (b, LT)))]
        endings = [('eor_before_rtimer', []), ('eor_a_only_then_drop', []), ('rtimer', [('rtimer',)]), ('llgr_expiry', [('rtimer',), ('ltimer', a), ('ltimer', b)]),
                   ('llgr_partial', [('rtimer',), ('ltimer', a)]), ('force', [('force',)])]
        def restrict(grf, ll, keep):
            g = None if grf is None else tuple(f for f in grf if f in keep)
            l = None if ll is None else tuple(p for p in ll if p[0] in keep)
            return (g or None), (l or None)
        sets = [('same', F), ('only_a', (a,)), ('only_b', (b,))]
        n = 0
        for kname, grf, ll in kinds:
            for ncyc in (2, 3):
                for ends in itertools.product(endings, repeat=ncyc - 1):
                    for sname, keep in sets:
                        evs = []
                        for k in range(ncyc):
                            g, l = (grf, ll) if k == 0 else restrict(grf, ll, keep)
                            gr = None if g is None else (g, RT, bool(n % 2))
                            # the same route of a is announced again in every cycle, b gets a new one; after an ending
                            # 'eor_a_only_then_drop' the session drops while the End-of-RIB of b is still awaited
                            evs += [('up', F, gr, l, default_caps(gr, l)), ('ann', a, 0, False, False), ('ann', b, 2 * k + 1, k == 1, False), ('eor', a)]
                            if not (k > 0 and ends[k - 1][0] == 'eor_a_only_then_drop'):
                                evs.append(('eor', b))
                            evs.append(('down', 0))
                            evs += list(ends[k][1]) if k < ncyc - 1 else [('rtimer',), ('ltimer', a), ('ltimer', b), ('rtimer',), ('ltimer', a)]
                        n += 1
                        cases.append(dict(kind='h', cls=['multi_cycle', 'cycles_%d' % ncyc, 'kind_' + kname, 'later_' + sname] +
                                          ['end%d_%s' % (k + 1, e[0]) for k, e in enumerate(ends)],
                                          evs=self.with_hold(evs, False)))
        return cases

    def real_time_cases(self, tier):
        """the same on real timer tasks whose negotiated time (restart time 2 s, LLGR stale time 2 s / 3 s) really runs out:
        'rtimer' / 'ltimer' wait for the expiry instead of firing the timer through its sender"""
        a, b = FAMS[0], FAMS[1]
        F = (a, b)
        cases = []
        # (2 s / 3 s rather than the shortest possible times: a reconnect that has to beat a timer keeps a
        # margin of about two seconds on a loaded machine)
        kinds = [('gr_only', (a, b), None), ('gr_llgr', (a, b), ((a, 2), (b, 3))), ('gr_llgr_one', (a, b), ((a, 2),)), ('llgr_only', None, ((a, 2), (b, 3)))]
        # restart time 0 is a legal value of the 12-bit field: the restart timer then runs out at once
        kinds += [('gr_only_restart_time_0', (a, b), None), ('gr_llgr_restart_time_0', (a, b), ((a, 2), (b, 3)))]
        for kname, grf, ll in kinds:
            gr = None if grf is None else (grf, 0 if kname.endswith('restart_time_0') else 2, False)
            up = ('up', F, gr, ll, default_caps(gr, ll))
            body = [up, ('ann', a, 0, False, False), ('ann', b, 1, False, False), ('eor', a), ('eor', b), ('down', 0)]
            expire = [('rtimer',), ('ltimer', a), ('ltimer', b)]
            variants = [('expiry_expiry', body + expire + body + expire)]
            if tier != 'quick' or kname in ('gr_llgr', 'llgr_only'):
                variants.append(('expiry_expiry_expiry', body + expire + body + expire + body + expire))
            # (with restart time 0 there is no window in which the peer could come back before the
            # restart timer: only the expiry variants make sense)
            if (tier != 'quick' or kname == 'gr_llgr') and not kname.endswith('restart_time_0'):
                variants.append(('eor_then_expiry', body + body + expire + body + expire))
                variants.append(('partial_reconnect_expiry', body + [('rtimer',), ('ltimer', a)] + body + expire))
            for vname, evs in variants:
                cases.append(dict(kind='h', real=1, cls=['multi_cycle', 'real_time', 'kind_' + kname, 'real_' + vname],
                                  evs=self.with_hold(evs, False)))
        return cases

    def negotiation_cases(self):
        """boundary values of what is negotiated: restart time 0 / 1 / 4095, LLGR stale time 0 on either or both sides,
        1, 2^24-1, every N bit / R bit combination, empty and duplicate family lists, different orders, families
        outside the session"""
        a, b, c3 = FAMS
        F = (a, b)
        cases = []
        def one(tag, lgr, rgr, lll, rll, fams=F, only_up=False):
            gr, ll = negotiate(lgr, rgr, lll, rll)
            evs = [('up', fams, gr, ll, (lgr, rgr, lll, rll)), ('ann', a, 0, False, False), ('ann', b, 0, True, False),
                   ('down', 1), ('down', 0), ('rtimer',), ('ltimer', a), ('ltimer', b)]
            if only_up or (gr and gr[1] < 60) or (ll and any(t < 60 for _, t in ll)):
                # a restart time of 0 / 1 s would really expire while the case runs: only the negotiation is observed
                evs = evs[:3] + [('eor', a)]
            cases.append(dict(kind='h', cls=['negotiation', 'neg_' + tag], evs=self.with_hold(evs, False)))
        for rt in (0, 1, 4095):
            one('restart_%d' % rt, ((a, b), 77, 4), ((a, b), rt, 4), None, None, only_up=(rt < 60))
        for lf in (0, 4, 8, 12):
            for rf in (0, 4, 8, 12):
                one('flags_%d_%d' % (lf, rf), ((a, b), RT, lf), ((a, b), RT, rf), None, None)
        for lt, rtm in ((0, 0), (5, 0), (0, 7), (1, 1), (16777215, 16777215), (9, 16777215), (16777215, 0)):
            one('llgr_time_%d_%d' % (lt, rtm), ((a,), RT, 4), ((a,), RT, 4), ((a, lt), (b, LT)), ((a, rtm), (b, LT)))
        one('gr_empty_local', ((), RT, 4), ((a,), RT, 4), None, None)
        one('gr_empty_remote', ((a,), RT, 4), ((), RT, 4), None, None)
        one('gr_dup', ((a, a, b), RT, 4), ((b, a, a), RT, 4), None, None)
        one('gr_order', ((b, a), RT, 4), ((a, b), RT, 4), ((b, LT), (a, LT)), ((a, LT), (b, LT)))
        one('gr_local_only', ((a,), RT, 4), None, ((a, LT),), None)
        one('gr_remote_only', None, ((a,), RT, 4), None, ((a, LT),))
        one('llgr_empty', ((a,), RT, 4), ((a,), RT, 4), (), ((a, LT),))
        one('llgr_dup', ((a,), RT, 4), ((a,), RT, 4), ((a, LT), (a, 5)), ((a, 6), (a, 0)))
        one('llgr_disjoint', ((a,), RT, 4), ((a,), RT, 4), ((a, LT),), ((b, LT),))
        one('family_outside_session', ((a, b, c3), RT, 4), ((c3, a), RT, 4), ((c3, LT), (a, LT)), ((a, LT), (c3, LT)), fams=(a,))
        one('single_family_session', ((b,), RT, 4), ((b,), RT, 4), ((b, LT),), ((b, LT),), fams=(b,))
        return cases

    def gen_cases(self, rng, tier):
        cases = []
        al = self.gr_alphabet()
        # the pure machine: every state x every input, and every input sequence up to depth d from Idle
        for pre in self.gr_phase_prefixes():
            for seq in itertools.product(al, repeat=2):
                cases.append(dict(kind='gr', ins=list(pre) + list(seq)))
        d = 3 if tier == 'quick' else 4
        for seq in itertools.product(al, repeat=d):
            cases.append(dict(kind='gr', ins=list(seq)))
        for _ in range(300 if tier == 'quick' else 5000):
            cases.append(dict(kind='gr', ins=[rng.choice(al) for _ in range(rng.randint(4, 14))]))
        # the glue: enumerated classes first
        cases += self.matrix_cases(tier)
        cases += self.negotiation_cases()
        cases += self.sibling_cases(tier)
        cases += self.multi_cycle_cases(tier)
        cases += self.real_time_cases(tier)
        nh = 800 if tier == 'quick' else 12000
        modes = ['clean'] * 6 + ['nogr', 'any', 'any', 'fail', 'force', 'comm', 'admin', 'mixed', 'offfam', 'sib', 'sib']
        hold_budget = 6 if tier == 'quick' else 60
        for _ in range(nh):
            evs = self.rand_history(rng, rng.choice(modes))
            n6 = len([1 for e in evs if e[0] == 'down' and e[1] == 6])
            allow = n6 > 0 and n6 <= hold_budget
            if allow:
                hold_budget -= n6
            c = dict(kind='h', evs=self.with_hold(evs, allow))
            if any(e[0] in SIB_EVENTS for e in evs) and rng.random() < 0.5:
                c['role'] = 1
            cases.append(c)
        # gr_on_disconnect alone: every kind of reason, every NOTIFICATION code 0..8 x subcode 0..11, 255 in both
        # directions (the local Hard Reset, which no socket event produces, included), with and without the N bit
        for nb in (False, True):
            for rk in (0, 1, 4, 5, 6):
                cases.append(dict(kind='gd', rk=rk, code=0, sub=0, nbit=nb))
            for rk in (2, 3):
                for code in range(0, 9):
                    for sub in list(range(0, 12)) + [255]:
                        cases.append(dict(kind='gd', rk=rk, code=code, sub=sub, nbit=nb))
        return cases

    # ---- running
    def run_impl(self, cases, tier):
        idx_h = [k for k, c in enumerate(cases) if c['kind'] in ('h', 'gd')]
        idx_g = [k for k, c in enumerate(cases) if c['kind'] == 'gr']
        out = [None] * len(cases)
        for idx, name, test in ((idx_g, 'C10', 'gr::verif_hx::verif_gr_cases'),
                                (idx_h, 'C10h', 'event::verif_hx::gr_glue::verif_event_gr_cases')):
            if idx:
                res, err = rustrun.daemon_test(name, test, [self.case_to_val(cases[k]) for k in idx])
                if res is None:
                    return None, err
                for k, r in zip(idx, res):
                    out[k] = r
        return out, ''

    def run_model(self, cases, tier):
        pre = 'From RB Require Import Base.Val Model.Deferral Model.Gr.\nOpen Scope N_scope.'
        return coqrun.eval_terms('C10m', pre, [self.case_to_coq(c) for c in cases], shards=8)

    def canon(self, case, obs):
        if obs == [-1]:
            return obs
        if case['kind'] == 'gd':
            return obs
        if case['kind'] == 'gr':
            return [[[[o[0], sorted(o[1])] if o[0] in (2, 5) else o for o in outs], b] for outs, b in obs]
        out = [[a, b, sorted(lt), sorted(rs), ng, sorted(dead)] for a, b, lt, rs, ng, dead in obs]
        if is_rt0(case):
            # restart time 0: the timer runs out the moment the session drops, so whether the observation
            # taken right after the drop still shows the retained routes is a race; that one observation is
            # not compared (the next event waits for the expiry, after which both sides must agree)
            out = [('not-compared',) if e[0] == 'down' else o for e, o in zip(case['evs'], out)]
        return out

    # ---- Spec oracle (python mirror of Spec/GrSpec.v): judges the implementation's observations
    def oracle(self, c, obs):
        if obs == [-1]:
            return 'panic in the graceful-restart helper'
        if c['kind'] == 'gd':
            # RFC 4724 / 8538: TCP failure always; NOTIFICATION (not Hard Reset, Cease only when sent by us)
            # and hold-timer expiry only with the N bit; never for FSM errors and admin shutdown
            want = c['rk'] in (0, 1) or (c['rk'] == 4 and c['nbit']) or \
                (c['rk'] in (2, 3) and c['nbit'] and c['code'] == 6 and c['sub'] != 9)
            return None if bool(obs) == want else \
                'gr_on_disconnect(%s, code %d, subcode %d, N bit %s) = %s: helper mode for a reason the property excludes, or refused for one it allows' % (
                    ['no reason', 'IoError', 'NOTIFICATION received', 'NOTIFICATION sent', 'hold timer', 'FSM error', 'admin shutdown'][c['rk']],
                    c['code'], c['sub'], c['nbit'], obs)
        if c['kind'] == 'gr':
            return oracle_gr(c, obs)
        return oracle_rt0(c, obs) if is_rt0(c) else oracle_h(c, obs)

    def in_known_class(self, kf, c, obs, why):
        if c['kind'] != 'h':
            return False
        return kf['id'] in known_classes(c['evs'])

    def nontrivial_key(self, c, obs):
        if obs == [-1]:
            return ('panic',)
        if c['kind'] == 'gd':
            return None
        if c['kind'] == 'gr':
            if any(b for _, b in obs):
                return ('gr', json.dumps(obs))
            return None
        if any(any(r[3] or r[4] for r in o[3]) for o in obs):
            return ('h', json.dumps(obs))
        return None

    def classify(self, c, obs):
        if c['kind'] == 'gd':
            return ['gr_on_disconnect', 'gd_kind_%d' % c['rk']] + (['gd_code_%d' % c['code'], 'gd_sub_%d' % c['sub']] if c['rk'] in (2, 3) else [])
        if c['kind'] == 'gr':
            return ['gr_machine'] + ['gr_' + i[0] for i in c['ins']]
        ks = known_classes(c['evs'])
        tags = ['glue', 'glue_clean' if not ks else 'glue_in_known_class'] + ['class_' + k for k in sorted(ks)]
        tags += list(c.get('cls', ['random_history']))
        tags += ['down_reason_%d' % e[1] for e in c['evs'] if e[0] == 'down']
        return tags + ['ev_' + e[0] for e in c['evs']]


# ------------------------------------------------------------------ oracles
def oracle_gr(c, obs):
    """the pure machine against the parts of the property text that are visible at its boundary:
    helper mode is entered only by a drop that carries GR or LLGR parameters; every entry into helper
    mode arms a timer (StartTimer / StartLlgrTimers) in the same step; deletions are requested only for
    families that were retained; leaving helper mode happens only by expiry, EOR or re-establishment."""
    restarting = False
    for k, (i, (outs, b)) in enumerate(zip(c['ins'], obs)):
        tags = [o[0] for o in outs]
        if b and not restarting:
            if i[0] != 'drop' or (i[1] is None and i[2] is None):
                return 'step %d: helper mode entered without a GR/LLGR session drop' % k
            if 0 not in tags and 3 not in tags:
                return 'step %d: helper mode entered without arming a timer' % k
        if not b and restarting and i[0] == 'drop':
            return 'step %d: helper mode left on a session drop' % k
        if i[0] == 'drop' and i[1] is not None and b and 0 not in tags and not (restarting and 3 not in tags and not outs):
            return 'step %d: GR drop did not (re)start the restart timer' % k
        restarting = bool(b)
    return None


def is_rt0(c):
    return c.get('kind') == 'h' and c.get('real') and any(str(x).endswith('restart_time_0') for x in c.get('cls', []))

def oracle_rt0(c, obs):
    """Real-timer histories with a negotiated restart time of 0: the observation right after the drop
    races the timer and is not judged; "removed no later than that timer's expiry" is judged at the
    events that wait for the expiry."""
    for k, (e, o) in enumerate(zip(c['evs'], obs)):
        restarting, rt, lts, routes = o[:4]
        if e[0] == 'rtimer':
            for r in routes:
                if r[0] not in lts:
                    return 'step %d: stale route of family %d outlives the restart timer (restart time 0)' % (k, r[0])
            if restarting and not lts:
                return 'step %d: helper mode still on after the restart timer (restart time 0) ran out' % k
        elif e[0] == 'ltimer':
            for r in routes:
                if r[0] == e[1]:
                    return 'step %d: LLGR-stale route of family %d outlives its LLGR timer' % (k, e[1])
    return None

def oracle_h(c, obs):
    """Property text, per step, on the observed (helper flag, restart timer armed, LLGR timers armed, routes)."""
    evs = c['evs']
    sess = None            # the live session event
    gen = 0
    awaiting = set()       # families whose End-of-RIB is awaited on the re-established session
    helper_fams = set()    # families whose routes the property allows to be retained at this point
    fresh = {}             # (f, id) -> gen announced on the live session
    admin = False
    sib = False            # a second connection of the neighbour is registered (before Established)
    prev = [0, 0, [], []]
    for k, (e, o) in enumerate(zip(evs, obs)):
        restarting, rt, lts, routes = o[:4]
        t = e[0]
        if t == 'sib_up' and sib and sess is None:
            # the second connection becomes the session (it was admitted before: admin-down is not looked at again)
            sib = False; e = ('up', e[1], e[2], e[3]); t = 'up!'
        if t == 'admin':
            admin = e[1]
        elif t == 'sib_open':
            sib = sib or not admin
        elif t in ('sib_fail', 'sib_up'):
            # it ends before Established (sib_up while the session is Established: the collision it loses):
            # nothing of the peer's GR state, timers or routes may change
            if sib:
                sib = False
                if [restarting, rt, sorted(lts)] != [prev[0], prev[1], sorted(prev[2])]:
                    return 'step %d: the end of a second connection that did not reach Established changed the helper state / timers (%s -> %s)' % (
                        k, prev[:3], [restarting, rt, lts])
                if sorted(routes) != sorted(prev[3]):
                    return 'step %d: the end of a second connection that did not reach Established changed the routes' % k
        elif (t == 'up' and sess is None and not admin) or t == 'up!':      # an admin-down peer's connection is refused
            sess = e; gen += 1
            grf = set(e[2][0]) if e[2] else set()
            awaiting = set(f for f in grf if f in helper_fams)
            helper_fams = set(awaiting)
            fresh = {}
        elif t == 'ann' and sess is not None and e[1] in sess[1]:
            fresh[(e[1], e[2])] = (gen, e[3])
        elif t == 'eor' and sess is not None and sess[2]:
            awaiting.discard(e[1]); helper_fams.discard(e[1])
        elif t == 'down' and sess is not None:
            nbit = bool(sess[2] and sess[2][2])
            grf = set(sess[2][0]) if sess[2] else set()
            llf = set(f for f, _ in sess[3]) if sess[3] else set()
            applies = (gr_applies(e[1], nbit) if sess[2] else e[1] == 0) and not admin
            if applies and (grf or llf):
                helper_fams = (grf | (llf if (sess[2] is None or True) else set()))
            else:
                helper_fams = set()
            # the routes of the negotiated families are kept (and marked stale) when helper mode applies ...
            have_now = set((r[0], r[1]) for r in routes)
            for (ff, rid), (g0, no_llgr) in fresh.items():
                if ff in helper_fams and (ff, rid) not in have_now and not (sess[2] is None and no_llgr):
                    return 'step %d: route (%d, %d) of a negotiated family was not kept when the session dropped (reason %d)' % (k, ff, rid, e[1])
            for r in routes:
                if r[0] in helper_fams and not r[3]:
                    return 'step %d: kept route (%d, %d) is not marked stale' % (k, r[0], r[1])
            # ... every family outside the negotiated ones is removed at once; a drop that is not eligible retains nothing
            for r in routes:
                if r[0] not in helper_fams:
                    return 'step %d: route of family %d retained after a drop (reason %d) that does not allow it' % (k, r[0], e[1])
            if not helper_fams and (restarting or rt or lts) and not prev[0]:
                return 'step %d: helper mode entered on a drop with reason %d' % (k, e[1])
            sess = None; awaiting = set(); fresh = {}
        elif t == 'fail':
            if [rt, sorted(lts)] != [prev[1], sorted(prev[2])]:
                return 'step %d: a connection attempt that did not reach Established changed the timers (%s -> %s)' % (
                    k, [prev[1], prev[2]], [rt, lts])
        elif t == 'rtimer' and prev[1]:
            # restart timer expired: GR-stale routes go unless an LLGR period takes over for their family
            for r in routes:
                if r[2] != (gen if sess else -9) and r[0] not in lts:
                    return 'step %d: stale route of family %d outlives the restart timer' % (k, r[0])
            helper_fams = set(lts)
        elif t == 'ltimer' and e[1] in prev[2]:
            for r in routes:
                if r[0] == e[1] and r[2] != (gen if sess else -9):
                    return 'step %d: LLGR-stale route of family %d outlives its LLGR timer' % (k, e[1])
            helper_fams.discard(e[1])
        elif t == 'force':
            helper_fams = set(lts)
            sib = False
            if sess is not None:
                # the live session is closed administratively: nothing of it may be retained
                if routes:
                    return 'step %d: routes retained after a forced peer-down of the live session' % k
                helper_fams = set(); sess = None; awaiting = set(); fresh = {}
        # -- invariants after every step
        cur = gen if sess else -9
        for r in routes:
            old = r[2] != cur
            if old or r[3] or r[4]:
                f = r[0]
                if not (rt or f in lts or (sess is not None and f in awaiting)):
                    return 'step %d: stale route (family %d, prefix %d) with no restart timer, no LLGR timer and no End-of-RIB awaited' % (k, f, r[1])
        if sess is not None:
            have = set((r[0], r[1]) for r in routes if r[2] == cur)
            for key in fresh:
                if key not in have:
                    return 'step %d: route %s announced on the live session was removed' % (k, key)
        for f in lts:
            if f not in prev[2]:
                for r in routes:
                    if r[0] == f and r[5]:
                        return 'step %d: NO_LLGR route of family %d survives the start of the LLGR period' % (k, f)
        if t == 'eor' and sess is not None and sess[2]:
            for r in routes:
                if r[0] == e[1] and r[2] != cur:
                    return 'step %d: stale route of family %d survives its End-of-RIB' % (k, e[1])
        prev = o
    return None
