#!/bin/sh
# the mutation self-test of C10 (and the seeded-equivalent one for C11); run from anywhere
M="$(dirname "$0")/mutate.py"
python3 $M C10 r0_seeded_gate_effect daemon/src/event/mod.rs '                    effects.push(GlobalEffect::GrSessionEstablished {
                        negotiated_gr: self.negotiated_gr.clone(),
                    });' '                    if self.negotiated_gr.is_some() {
                        effects.push(GlobalEffect::GrSessionEstablished {
                            negotiated_gr: self.negotiated_gr.clone(),
                        });
                    }'
python3 $M C10 r1_revert_c10_6 table/src/lib.rs '                dst.entry
                    .retain(|e| !(e.path.source.remote_addr == addr && e.path.source.is_llgr_stale()));' '                dst.entry
                    .retain(|e| !(e.path.source.remote_addr == addr && e.is_llgr_stale()));'
python3 $M C10 r2_revert_c10_4 daemon/src/gr.rs '                if !expired.is_empty() {
                    outputs.push(GrOutput::DeleteStaleRoutes(expired));
                }' '                if !expired.is_empty() && false {
                    outputs.push(GrOutput::DeleteStaleRoutes(expired));
                }'
python3 $M C10 r3_revert_c10_3 daemon/src/gr.rs '                        Inner::PeerReconnected { pending, .. } => !pending.contains(f),
                        _ => true,' '                        Inner::PeerReconnected { .. } => false,
                        _ => true,'
python3 $M C10 r4_revert_c10_5_marking daemon/src/event/mod.rs '            if let Some(llgr) = disconnect.negotiated_llgr.as_ref() {
                for (f, _) in &llgr.families {
                    if !stale_families.contains(f) {' '            if let Some(llgr) = disconnect.negotiated_llgr.as_ref() {
                for (f, _) in &llgr.families {
                    if !stale_families.contains(f) && false {'
python3 $M C10 r5_revert_c10_2_admin daemon/src/event/mod.rs '        if !admin_down {
            disconnect.negotiated_gr = self' '        if true {
            disconnect.negotiated_gr = self'
python3 $M C10 r6_revert_c10_7 daemon/src/event/mod.rs '                        gr.families.retain(|f| self.codec.has_family(*f));' '                        gr.families.retain(|_f| true);'
python3 $M C10 r7_negotiate_gr_nbit_or daemon/src/event/mod.rs 'let notification_enabled = (local_flags & 0x4 != 0) && (peer_flags & 0x4 != 0);' 'let notification_enabled = (local_flags & 0x4 != 0) || (peer_flags & 0x4 != 0);'
python3 $M C10 r8_establish_keeps_timer daemon/src/event/mod.rs '                    // Cancel any previous restart timer (no ctx lock held across await).
                    {
                        let mut ctx = self.context.lock().unwrap();
                        ctx.cancel_gr_timer();
                    }' '                    // Cancel any previous restart timer (no ctx lock held across await).
                    {
                        let _ctx = self.context.lock().unwrap();
                    }'
python3 $M C10 r9_llgr_time_from_local daemon/src/event/mod.rs 'let stale_secs = if *peer_time > 0 {
                    *peer_time' 'let stale_secs = if *peer_time > 0 {
                    *local_time'
python3 $M C10 r10_teardown_keeps_all daemon/src/event/mod.rs '                disconnect.negotiated_gr.as_ref(),
                disconnect.negotiated_llgr.as_ref(),
            );' '                self.negotiated_gr.as_ref(),
                self.negotiated_llgr.as_ref(),
            );'
python3 $M C10 r11_restart_time_local daemon/src/event/mod.rs 'restart_time: std::time::Duration::from_secs(peer_restart_time as u64),' 'restart_time: std::time::Duration::from_secs(90),'
python3 $M C10 r12_revert_c10_1 daemon/src/event/mod.rs '        if !ctx.gr_state.is_peer_restarting() {
            ctx.cancel_gr_timer();
        }' '        ctx.cancel_gr_timer();'
python3 $M C10 r13_drop_stale_drops_all table/src/lib.rs '                dst.entry
                    .retain(|e| !(e.path.source.remote_addr == addr && e.path.source.is_stale()));' '                dst.entry
                    .retain(|e| !(e.path.source.remote_addr == addr));'
python3 $M C10 r14_eor_gate_dropped daemon/src/event/mod.rs '            if self.negotiated_gr.is_some() {
                self.process_effects(vec![GlobalEffect::GrEorReceived { family }], global)' '            if self.negotiated_gr.is_none() {
                self.process_effects(vec![GlobalEffect::GrEorReceived { family }], global)'
python3 $M C10 r15_llgr_rule_any_reason daemon/src/event/mod.rs '            if disconnect.negotiated_gr.is_some()
                || matches!(
                    shutdown_reason,
                    None | Some(crate::fsm::SessionDownReason::IoError)
                )
            {
                disconnect.negotiated_llgr = self.negotiated_llgr.take();' '            if true
            {
                disconnect.negotiated_llgr = self.negotiated_llgr.take();'
python3 $M C11 r0_seeded_gate_effect daemon/src/event/mod.rs '                    effects.push(GlobalEffect::GrSessionEstablished {
                        negotiated_gr: self.negotiated_gr.clone(),
                    });' '                    if self.negotiated_gr.is_some() {
                        effects.push(GlobalEffect::GrSessionEstablished {
                            negotiated_gr: self.negotiated_gr.clone(),
                        });
                    }'
