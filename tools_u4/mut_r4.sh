#!/bin/sh
# round 4: single mutations in apply_disconnect / session_loop teardown / ConnArbiter bookkeeping (second connection of a peer)
M=/work/u4/verif/tools_u4/mutate.py
python3 $M C10 s1_disconnect_clears_other_close_slot daemon/src/event/mod.rs '            crate::fsm::Role::Active => {
                arb.active_close_tx = None;
                arb.active_join_handle = None;
            }
            crate::fsm::Role::Passive => {
                arb.passive_close_tx = None;
                arb.passive_join_handle = None;
            }' '            crate::fsm::Role::Passive => {
                arb.active_close_tx = None;
                arb.active_join_handle = None;
            }
            crate::fsm::Role::Active => {
                arb.passive_close_tx = None;
                arb.passive_join_handle = None;
            }'
python3 $M C10 s2_disconnect_feeds_other_fsm_slot daemon/src/event/mod.rs '        let _ = arb.process(info.role, crate::fsm::Input::Disconnected);' '        let _ = arb.process(
            match info.role {
                crate::fsm::Role::Active => crate::fsm::Role::Passive,
                crate::fsm::Role::Passive => crate::fsm::Role::Active,
            },
            crate::fsm::Input::Disconnected,
        );'
python3 $M C10 s3_gr_branch_needs_last_connection daemon/src/event/mod.rs '    if info.negotiated_gr.is_some() || info.negotiated_llgr.is_some() {
        // GR and/or LLGR active (we are the helper' '    if (info.negotiated_gr.is_some() || info.negotiated_llgr.is_some())
        && {
            let arb = ctx.conn_arbiter.lock().unwrap();
            arb.active_close_tx.is_none() && arb.passive_close_tx.is_none()
        }
    {
        // GR and/or LLGR active (we are the helper'
python3 $M C10 s4_teardown_unestablished_unregisters_peer daemon/src/event/mod.rs '        disconnect.export_map = std::mem::take(&mut self.export_map);
        disconnect' '        if self.source.is_empty() {
            self.tables
                .unregister_peer(self.remote_addr, &[Family::IPV4, Family::IPV6], &[]);
        }
        disconnect.export_map = std::mem::take(&mut self.export_map);
        disconnect'
python3 $M C10 s5_already_connected_checks_other_slot daemon/src/event/mod.rs '                    crate::fsm::Role::Active => arb.active_close_tx.is_some(),
                    crate::fsm::Role::Passive => arb.passive_close_tx.is_some(),' '                    crate::fsm::Role::Passive => arb.active_close_tx.is_some(),
                    crate::fsm::Role::Active => arb.passive_close_tx.is_some(),'
python3 $M C10 s6_collision_established_loses daemon/src/fsm.rs '        let loser = if other_state == State::Established {
            role
        } else {' '        let loser = if other_state == State::Established {
            other_role
        } else {'
python3 $M C10 s7_accept_registers_other_slot daemon/src/event/mod.rs '            crate::fsm::Role::Active => arb.active_close_tx = Some(close_tx),
            crate::fsm::Role::Passive => arb.passive_close_tx = Some(close_tx),' '            crate::fsm::Role::Passive => arb.active_close_tx = Some(close_tx),
            crate::fsm::Role::Active => arb.passive_close_tx = Some(close_tx),'
