#!/bin/sh
# round 5: single mutations on timer slot bookkeeping across GR / LLGR cycles
M=${VERIF_TREE:-/work/u4/verif}/tools_u4/mutate.py
python3 $M C10 t1_llgr_map_keeps_old_entry_at_restart_expiry daemon/src/event/mod.rs '        let mut ctx = context.lock().unwrap();
        ctx.llgr_family_timers.extend(timers);' '        let mut ctx = context.lock().unwrap();
        for (f, tx) in timers {
            ctx.llgr_family_timers.entry(f).or_insert(tx);
        }'
python3 $M C10 t2_stop_llgr_timers_does_not_clear daemon/src/event/mod.rs '                            if stop {
                                ctx.cancel_llgr_timers();' '                            if stop && false {
                                ctx.cancel_llgr_timers();'
python3 $M C10 t3_eor_of_previous_cycle_counted daemon/src/gr.rs '            // Session drop with GR (from any non-LlgrStaling state): start/restart timer.
            (_, GrInput::SessionDropped { gr: Some(gp), llgr }) => {' '            (Inner::PeerReconnected { pending, .. }, GrInput::SessionDropped { gr: Some(gp), llgr }) => (
                Inner::PeerRestarting {
                    stale_families: pending.into_iter().collect(),
                    llgr,
                },
                vec![GrOutput::StartTimer(gp.restart_time)],
            ),
            // Session drop with GR (from any non-LlgrStaling state): start/restart timer.
            (_, GrInput::SessionDropped { gr: Some(gp), llgr }) => {'
python3 $M C10 t4_replacement_keeps_stale_source table/src/lib.rs '                source: source.clone(),
                nexthop,
                attr,' '                source: replaced
                    .as_ref()
                    .map_or_else(|| source.clone(), |old| old.path.source.clone()),
                nexthop,
                attr,'
