#!/usr/bin/env python3
"""props_update.py PID proofs.v props.v name...: (re)writes the Theorem/Check/Print block of each named theorem in the
Props file from the statement of `Theorem PID_name` in the proofs file (appends the block when it is not there yet)."""
import sys, re
pid, src, props = sys.argv[1:4]
s = open(src).read()
t = open(props).read()
for n in sys.argv[4:]:
    m = re.search(r'((?:\(\*(?:(?!\*\)).|\n)*\*\)\s*\n)?)Theorem %s_%s :\n((?:.|\n)*?)\.\nProof\.' % (pid, n), s)
    assert m, n
    comment = (m.group(1) or '').strip()
    stmt = m.group(2).rstrip()
    blk = 'Theorem %s :\n%s.\nProof. exact %s_%s. Qed.\nCheck %s :\n%s.\nPrint Assumptions %s.\n' % (n, stmt, pid, n, n, stmt, n)
    old = re.search(r'Theorem %s :\n(?:.|\n)*?Print Assumptions %s\.\n' % (n, n), t)
    if old:
        t = t[:old.start()] + blk + t[old.end():]
    else:
        t = t.rstrip() + '\n\n' + (comment + '\n' if comment else '') + blk
open(props, 'w').write(t)
