#!/bin/sh
# round-3 mutation self-test: NEW single mutations in functions / clauses not mutated before
M="$(dirname "$0")/mutate.py"
python3 $M C10 n1_llgr_only_drop_emits_nothing daemon/src/gr.rs '                let remaining = lp.families.iter().map(|(f, _)| *f).collect();
                (
                    Inner::LlgrStaling { remaining },
                    vec![GrOutput::StartLlgrTimers(lp.families)],
                )' '                let remaining = lp.families.iter().map(|(f, _)| *f).collect();
                (
                    Inner::LlgrStaling { remaining },
                    vec![],
                )'
python3 $M C10 n2_llgr_expiry_keeps_family daemon/src/gr.rs '                remaining.remove(&family);' '                let _ = &family;'
python3 $M C10 n3_reconnect_drops_renegotiated daemon/src/gr.rs '                    .filter(|f| !gr_set.contains(f))' '                    .filter(|f| gr_set.contains(f))'
python3 $M C10 n4_last_eor_stays_reconnected daemon/src/gr.rs '                pending.remove(&family);
                let new_state = if pending.is_empty() {' '                pending.remove(&family);
                let new_state = if !pending.is_empty() {'
python3 $M C10 n5_collision_cease_not_eligible daemon/src/event/mod.rs '                        | rustybgp_packet::Notification::CeaseConnectionCollision
' ''
python3 $M C10 n6_families_to_drop_or daemon/src/event/mod.rs '.filter(|f| !gr_families.contains(f) && !llgr_families.contains(f))' '.filter(|f| !gr_families.contains(f) || !llgr_families.contains(f))'
python3 $M C10 n7_expiry_drop_only_without_llgr daemon/src/event/mod.rs '    if !delete_families.is_empty() {
        tables.drop_families(addr, &delete_families);' '    if !delete_families.is_empty() && llgr_start.is_none() {
        tables.drop_families(addr, &delete_families);'
python3 $M C10 n8_llgr_expiry_uses_gr_purge daemon/src/event/mod.rs '        tables.drop_llgr_stale_families(addr, &delete_families);
    }
}' '        tables.drop_stale_families(addr, &delete_families);
    }
}'
python3 $M C10 n9_restale_llgr_marks_gr_flag table/src/lib.rs '                        p.path.source.mark_llgr_stale();' '                        p.path.source.mark_stale();'
python3 $M C10 n10_no_llgr_constant table/src/lib.rs '    const NO_LLGR: u32 = 0xffff_0007;' '    const NO_LLGR: u32 = 0xffff_0006;'
python3 $M C10 n11_stop_llgr_inverted daemon/src/event/mod.rs '                            if stop {' '                            if !stop {'
python3 $M C10 n12_llgr_zero_time_boundary daemon/src/event/mod.rs '                if stale_secs == 0 {' '                if stale_secs <= 1 {'
python3 $M C10 n13_force_down_skips_llgr_timers daemon/src/event/mod.rs '        self.fire_llgr_timers();' ''
python3 $M C10 n14_remote_code_check_off_by_one daemon/src/event/mod.rs 'err.notification_code() == 6 && !err.is_hard_reset()' 'err.notification_code() >= 6 && !err.is_hard_reset()'
python3 $M C11 c1_nexthop_change_leaks_while_deferring table/src/lib.rs '                if !any_changed || deferring {' '                if !any_changed {'
python3 $M C11 c2_restale_leaks_while_deferring table/src/lib.rs '            if rt.deferring {
                changes.clear();
            }
        }
        changes
    }

    /// Mark the source for `addr` as LLGR stale' '        }
        changes
    }

    /// Mark the source for `addr` as LLGR stale'
python3 $M C11 c3_empty_gr_peer_becomes_pending daemon/src/gr.rs '                if fams.is_empty() {' '                if false && fams.is_empty() {'
python3 $M C11 c4_last_eor_does_not_complete daemon/src/gr.rs '                if pending.is_empty() {
                    out.push(RestartingOutput::EndDeferral(vec![]));
                    (RestartingInner::Completed, out)' '                if false {
                    out.push(RestartingOutput::EndDeferral(vec![]));
                    (RestartingInner::Completed, out)'
python3 $M C11 c5_single_complete_family_skipped daemon/src/event/mod.rs '    if !complete_families.is_empty() {' '    if complete_families.len() > 1 {'
python3 $M C11 c6_replacement_leaks_while_deferring table/src/lib.rs '        if deferring {
            return InsertResult::NoChange;
        }' '        if deferring && replaced.is_none() {
            return InsertResult::NoChange;
        }'
python3 $M C11 c7_end_deferral_skips_empty_destinations table/src/lib.rs '        ft.destinations
            .iter()
            .map(|(net, dst)| NlriChange {' '        ft.destinations
            .iter()
            .filter(|(_, dst)| dst.unfiltered_iter().next().is_some())
            .map(|(net, dst)| NlriChange {'
