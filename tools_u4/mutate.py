#!/usr/bin/env python3
"""mutate.py PID name file 'old' 'new'  -- apply one textual mutation in $VERIF_REPO, run the quick check, revert."""
import sys, subprocess, os
pid, name, path, old, new = sys.argv[1:6]
repo = os.environ.get('VERIF_REPO', '/work/u4/repo')
verif = os.path.dirname(os.path.dirname(os.path.abspath(__file__)))
p = os.path.join(repo, path)
s = open(p).read()
assert s.count(old) >= 1, 'pattern not found: ' + name
open(p, 'w').write(s.replace(old, new, 1))
try:
    r = subprocess.run('VERIF_REPO=%s timeout 1500 %s/bin/check %s --tier quick' % (repo, verif, pid), shell=True,
                       stdout=subprocess.PIPE, stderr=subprocess.STDOUT)
    out = r.stdout.decode()
    lines = [l for l in out.split('\n') if l.startswith(('VIOLATION', pid, 'spec failure', 'model and impl'))]
    print('MUTATION %s: exit=%d' % (name, r.returncode))
    for l in lines[:4]: print('   ', l[:240])
    if r.returncode == 0: print('    *** MISSED ***')
    elif 'could not compile' in out: print('    (did not compile)'); print(out[-1500:])
finally:
    open(p, 'w').write(s)        # restore the file as it was
