(* What property C05 demands, written from RFC 7606 (with RFC 4271 section 5,
   4456, 6793, 1997, 4360, 8092 for the attribute formats): an independent
   classifier of the raw path-attribute TLVs of an UPDATE, the list of announced
   and withdrawn prefixes, and the verdict that the session layer's output is
   judged against.  Only the NLRI field syntax is shared with the model
   (Model/WireNlri.v, the subject of C03); the attribute walk, the flag and
   length rules and the mandatory-attribute rule are written here from the RFC
   text, not from packet/src/bgp.rs.  No proofs in this file. *)
From Coq Require Import List ZArith NArith Bool.
From RB Require Import Base.Val Base.Bytes Model.Wire Model.WireNlri.
Import ListNotations.
Open Scope N_scope.

Record tlv := { t_flags : N; t_code : N; t_val : list N }.

Definition f_optional (fl : N) : bool := N.testbit fl 7.
Definition f_transitive (fl : N) : bool := N.testbit fl 6.
Definition f_extended (fl : N) : bool := N.testbit fl 4.

(* RFC 4271 4.3: <type (flags, code), length (1 or 2 octets), value>.  [None]: the
   block cannot be cut into attributes (RFC 7606 section 4: length conflict). *)
Fixpoint tlv_walk (fuel : nat) (b : list N) : option (list tlv) :=
  match b with
  | [] => Some []
  | _ =>
    match fuel with
    | O => None
    | S f =>
      match b with
      | fl :: code :: r =>
        let cut (n : N) (r' : list N) :=
          if Nat.ltb (length r') (N.to_nat n) then None else
          match tlv_walk f (skipn (N.to_nat n) r') with
          | Some l => Some ({| t_flags := fl; t_code := code; t_val := firstn (N.to_nat n) r' |} :: l)
          | None => None
          end in
        if f_extended fl then
          match r with l1 :: l2 :: r' => cut (be16 l1 l2) r' | _ => None end
        else
          match r with l1 :: r' => cut l1 r' | _ => None end
      | _ => None
      end
    end
  end.

(* the attributes walked before the block stops making sense (used to find the
   prefixes an UPDATE announces even when its tail is broken) *)
Fixpoint tlv_prefix (fuel : nat) (b : list N) : list tlv :=
  match fuel with
  | O => []
  | S f =>
    match b with
    | fl :: code :: r =>
      let cut (n : N) (r' : list N) :=
        if Nat.ltb (length r') (N.to_nat n) then [] else
        {| t_flags := fl; t_code := code; t_val := firstn (N.to_nat n) r' |} :: tlv_prefix f (skipn (N.to_nat n) r') in
      if f_extended fl then
        match r with l1 :: l2 :: r' => cut (be16 l1 l2) r' | _ => [] end
      else
        match r with l1 :: r' => cut l1 r' | _ => [] end
    | _ => []
    end
  end.

(* ---- the attributes this speaker recognises: (optional, transitive) per their RFCs *)
Definition recognised (code : N) : option (bool * bool) :=
  match code with
  | 1 | 2 | 3 | 5 | 6 => Some (false, true)            (* well-known *)
  | 4 | 9 | 10 | 14 | 15 | 26 | 29 => Some (true, false)   (* optional non-transitive *)
  | 7 | 8 | 16 | 17 | 18 | 32 | 40 | 23 => Some (true, true)   (* optional transitive *)
  | _ => None
  end.

(* AS_PATH syntax, RFC 7606 7.2: known segment type, no overrun/underrun, no
   zero-length segment; [w] octets per AS *)
Fixpoint segments_ok (fuel : nat) (w : N) (b : list N) : bool :=
  match b with
  | [] => true
  | _ =>
    match fuel with
    | O => false
    | S f =>
      match b with
      | t :: cnt :: r =>
        (1 <=? t) && (t <=? 4) && negb (cnt =? 0) &&
        negb (Nat.ltb (length r) (N.to_nat (cnt * w))) && segments_ok f w (skipn (N.to_nat (cnt * w)) r)
      | _ => false
      end
    end
  end.

(* value syntax per attribute, RFC 7606 section 7 (attributes whose syntax this
   speaker does not interpret - AIGP, PREFIX_SID, BGP-LS, TUNNEL_ENCAP, MP_* - are
   judged elsewhere or not at all) *)
Definition value_ok (two_byte : bool) (code : N) (v : list N) : bool :=
  let n := len v in
  match code with
  | 1 => match v with [x] => x <=? 2 | _ => false end
  | 2 => segments_ok (S (length v)) (if two_byte then 2 else 4) v
  | 3 | 4 | 5 | 9 => n =? 4
  | 6 => n =? 0
  | 7 => (n =? 6) || (n =? 8)
  | 8 | 10 => negb (n =? 0) && (n mod 4 =? 0)
  | 16 => negb (n =? 0) && (n mod 8 =? 0)
  | 32 => negb (n =? 0) && (n mod 12 =? 0)
  | 17 => segments_ok (S (length v)) 4 v && negb (n =? 0)
  | 18 => n =? 8
  | _ => true
  end.

Inductive aclass := Good | FlagError | Malformed | UnknownWellKnown | UnknownOptional | Duplicate.

Definition classify (two_byte : bool) (earlier : list N) (t : tlv) : aclass :=
  if existsb (N.eqb (t_code t)) earlier then Duplicate else
  match recognised (t_code t) with
  | None => if f_optional (t_flags t) then UnknownOptional else UnknownWellKnown
  | Some (o, tr) =>
    if negb (Bool.eqb (f_optional (t_flags t)) o) || negb (Bool.eqb (f_transitive (t_flags t)) tr) then FlagError
    else if value_ok two_byte (t_code t) (t_val t) then Good else Malformed
  end.

(* the property text: "for an optional non-transitive attribute, AS4_PATH or
   AS4_AGGREGATOR the route may instead be kept with just that attribute removed" *)
Definition may_discard (code : N) : bool :=
  match recognised code with
  | Some (true, false) => true
  | _ => (code =? 17) || (code =? 18)
  end.

Definition is_bad (c : aclass) : bool :=
  match c with FlagError | Malformed | UnknownWellKnown => true | _ => false end.

Fixpoint classify_all (two_byte : bool) (earlier : list N) (l : list tlv) : list (tlv * aclass) :=
  match l with
  | [] => []
  | t :: r => (t, classify two_byte earlier t) :: classify_all two_byte (t_code t :: earlier) r
  end.

(* ---- locating the three variable parts of an UPDATE (RFC 4271 4.3) *)
Definition locate (frame : list N) : option (list N * list N * list N) :=
  if len frame <? 23 then None else
  match skipn 19 frame with
  | w1 :: w2 :: r =>
    let wl := be16 w1 w2 in
    if len r <? wl + 2 then None else
    match skipn (N.to_nat wl) r with
    | a1 :: a2 :: r2 =>
      let al := be16 a1 a2 in
      if len r2 <? al then None else
      Some (firstn (N.to_nat wl) r, firstn (N.to_nat al) r2, skipn (N.to_nat al) r2)
    | _ => None
    end
  | _ => None
  end.

Definition key := (N * N * nlri)%type.          (* family, path id, prefix *)
Definition keys (fam : N) (l : list (N * nlri)) : list key := map (fun e => (fam, fst e, snd e)) l.

(* NLRI field of a family: needs the family negotiated, and the field to parse *)
Definition nlri_field (cd : codec) (fam : N) (is_reach : bool) (b : list N) : option (list key) :=
  match fam_lookup (c_fams cd) fam with
  | None => None
  | Some ap =>
    match nlri_list (fun _ _ _ => None) fam ap is_reach b with
    | Ok l => Some (keys fam l)
    | _ => None
    end
  end.

(* MP_REACH_NLRI (RFC 4760 section 3): AFI, SAFI, next-hop length, next hop, reserved, NLRI.
   Next-hop lengths this speaker can use: 4, 16, 32, and 12/24 (RD + address); none for flowspec. *)
Definition mp_reach_keys (cd : codec) (v : list N) : option (list key) :=
  match v with
  | a1 :: a2 :: safi :: nhl :: r =>
    let fam := be16 a1 a2 * 65536 + safi in
    if len r <? nhl + 1 then None else
    if negb (existsb (N.eqb nhl) [4; 16; 32; 12; 24]) && negb ((nhl =? 0) && is_flowspec fam) then None else
    nlri_field cd fam true (skipn (N.to_nat nhl + 1) r)
  | _ => None
  end.

Definition mp_unreach_keys (cd : codec) (v : list N) : option (list key) :=
  match v with
  | a1 :: a2 :: safi :: r => nlri_field cd (be16 a1 a2 * 65536 + safi) false r
  | _ => None
  end.

Record verdict := {
  v_locatable : bool;          (* false: a session reset is acceptable *)
  v_must_withdraw : bool;      (* some attribute is bad beyond discarding, or a mandatory one is missing *)
  v_discard : list N;          (* codes that must not be believed if the route is kept *)
  v_announced : list key;
  v_withdrawn : list key }.

Definition count_code (code : N) (l : list tlv) : nat := length (filter (fun t => t_code t =? code) l).
Definition first_code (code : N) (l : list tlv) : option tlv := find (fun t => t_code t =? code) l.

Definition is_nil_b {A : Type} (l : list A) : bool := match l with [] => true | _ => false end.

Definition unlocatable := {| v_locatable := false; v_must_withdraw := false; v_discard := []; v_announced := []; v_withdrawn := [] |}.

Definition judge (cd : codec) (frame : list N) : verdict :=
  match locate frame with
  | None => unlocatable
  | Some (wd, block, nl) =>
    let whole := tlv_walk (S (length block)) block in
    let tl := match whole with Some l => l | None => tlv_prefix (S (length block)) block end in
    (* MP_REACH / MP_UNREACH at most once (RFC 7606 3.g) *)
    if Nat.ltb 1 (count_code 14 tl) || Nat.ltb 1 (count_code 15 tl) then unlocatable else
    let legacy := if is_nil_b nl then Some [] else nlri_field cd F_IPV4 true nl in
    let legacy_w := if is_nil_b wd then Some [] else nlri_field cd F_IPV4 false wd in
    let mpr := match first_code 14 tl with None => Some [] | Some t => mp_reach_keys cd (t_val t) end in
    let mpu := match first_code 15 tl with None => Some [] | Some t => mp_unreach_keys cd (t_val t) end in
    match legacy, legacy_w, mpr, mpu with
    | Some a1, Some w1, Some a2, Some w2 =>
      let cl := classify_all (c_two_byte cd) [] tl in
      let bad := filter (fun x => is_bad (snd x)) cl in
      let announced := a1 ++ a2 in
      let has (code : N) := existsb (fun t => t_code t =? code) tl in
      let missing :=
        negb (is_nil_b announced) &&
        (negb (has 1) || negb (has 2) || (negb (is_nil_b a1) && negb (has 3))) in
      {| v_locatable := true;
         v_must_withdraw :=
           (match whole with None => true | Some _ => false end)
           || existsb (fun x => negb (may_discard (t_code (fst x)))) bad
           || missing;
         v_discard := map (fun x => t_code (fst x)) bad;
         v_announced := announced;
         v_withdrawn := w1 ++ w2 |}
    | _, _, _, _ => unlocatable
    end
  end.
