(* Structural readers of the NLRI of Flowspec (RFC 8955 4 / RFC 8956 3), Route Target
   Constraint (RFC 4684 4), EVPN route types 1-5 (RFC 7432 7, RFC 9136 3) and SR Policy
   (RFC 9830 2.1), written from the RFCs.  They return the NLRI VALUE (the data types of
   Model/WireEnc.v are used as plain containers).  gen/c04spec.py (enc_nlri) is the python
   counterpart.  No proofs in this file. *)
From Coq Require Import List NArith Bool.
From RB Require Import Model.WireEnc Spec.WireRead.
Import ListNotations.
Open Scope N_scope.

(* big-endian number *)
Fixpoint rdn (b : list N) (acc : N) : N :=
  match b with [] => acc | x :: t => rdn t (acc * 256 + x) end.

(* consecutive fields of the given widths *)
Fixpoint takes (sizes : list N) (b : list N) : option (list (list N) * list N) :=
  match sizes with
  | [] => Some ([], b)
  | n :: t =>
      match take n b with
      | Some (f, r) => match takes t r with Some (fs, r') => Some (f :: fs, r') | None => None end
      | None => None
      end
  end.

(* ---- Flowspec.  RFC 8955 4.1: the NLRI length is one octet below 240, else two octets
   0xfnnn holding a 12-bit length.  4.2: a component is a type octet followed, for types 1 and 2,
   by a prefix <length, [offset (IPv6, RFC 8956 3.1)], prefix octets> and, for the other types,
   by <operator, value> pairs; the operator's bits 5-4 give the value width 1 << len and bit 7
   marks the last pair.  (IPv6 prefixes: ceil(length / 8) octets from bit 0, which is what the
   implementation and its decoder use; RFC 8956 counts the pattern from the offset, the same
   thing when the offset is 0.) *)
Definition read_fs_len (b : list N) : option (N * list N) :=
  match b with
  | f :: r =>
      if f <? 240 then Some (f, r)
      else match r with s :: r' => Some ((f mod 16) * 256 + s, r') | [] => None end
  | [] => None
  end.

Fixpoint read_fs_ops (fuel : nat) (b : list N) : option (list (N * N) * list N) :=
  match fuel with
  | O => None
  | S k =>
      match b with
      | o :: r =>
          match take (2 ^ ((o / 16) mod 4)) r with
          | Some (vb, r') =>
              let op := (N.land o 207, rdn vb 0) in
              if 128 <=? o then Some ([op], r')
              else match read_fs_ops k r' with Some (l, r'') => Some (op :: l, r'') | None => None end
          | None => None
          end
      | [] => None
      end
  end.

Fixpoint read_fs_comps (fuel : nat) (v6 : bool) (b : list N) : option (list fcomp) :=
  match b with
  | [] => Some []
  | ty :: r =>
    match fuel with
    | O => None
    | S k =>
      if (ty =? 1) || (ty =? 2) then
        match r with
        | m :: r1 =>
            match (if v6 then match r1 with off :: r2 => Some (off, r2) | [] => None end else Some (0, r1)) with
            | Some (off, r2) =>
                match take ((m + 7) / 8) r2 with
                | Some (o, r3) =>
                    match read_fs_comps k v6 r3 with Some l => Some (FPrefix ty m off o :: l) | None => None end
                | None => None
                end
            | None => None
            end
        | [] => None
        end
      else
        match read_fs_ops (length r) r with
        | Some (ops, r1) =>
            match read_fs_comps k v6 r1 with Some l => Some (FOps ty ops :: l) | None => None end
        | None => None
        end
    end
  end.

Definition read_flow (v6 vpn : bool) (b : list N) : option (nlri * list N) :=
  match read_fs_len b with
  | Some (n, r) =>
      match take n r with
      | Some (body, rest) =>
          match (if vpn then match take 8 body with Some (rd, c) => Some (Some rd, c) | None => None end
                 else Some (None, body)) with
          | Some (rd, cb) =>
              match read_fs_comps (length cb) v6 cb with
              | Some comps => Some (NFlow v6 rd comps, rest)
              | None => None
              end
          | None => None
          end
      | None => None
      end
  | None => None
  end.

(* ---- RTC.  RFC 4684 4: <prefix length in bits, origin AS (4 octets), route target (8 octets)>;
   the forms a speaker originates are the default (0), an AS wildcard (32) and a full target (96). *)
Definition read_rtc (b : list N) : option (nlri * list N) :=
  match b with
  | l :: r =>
      if l =? 0 then Some (NRtc RtcAll, r)
      else if l =? 32 then
        match take 4 r with Some (a, r') => Some (NRtc (RtcAs (rdn a 0)), r') | None => None end
      else if l =? 96 then
        match takes [4; 8] r with Some ([a; rt], r') => Some (NRtc (RtcExact (rdn a 0) rt), r') | _ => None end
      else None
  | [] => None
  end.

(* ---- EVPN.  RFC 7432 7: <route type, length, route>; 7.1-7.4 and RFC 9136 3.1 give the
   routes: RD (8), ESI (10), Ethernet tag (4), MAC length (48) + MAC (6), IP length (0/32/128)
   + IP, labels (3 octets each), IP prefix length + prefix + gateway (4 or 16 each). *)
Definition ip_len_ok (il : N) (allow0 : bool) : bool :=
  (il =? 32) || (il =? 128) || (allow0 && (il =? 0)).

Definition read_evpn (b : list N) : option (nlri * list N) :=
  match b with
  | ty :: n :: r =>
      match take n r with
      | Some (d, rest) =>
          match
            (if ty =? 1 then
               match takes [8; 10; 4; 3] d with
               | Some ([rd; esi; et; lb], []) => Some (Ev1 rd esi (rdn et 0) (rdn lb 0))
               | _ => None
               end
             else if ty =? 2 then
               match takes [8; 10; 4; 1; 6; 1] d with
               | Some ([rd; esi; et; [ml]; mac; [il]], r1) =>
                   if (ml =? 48) && ip_len_ok il true then
                     match takes [il / 8; 3] r1 with
                     | Some ([ip; l1], []) => Some (Ev2 rd esi (rdn et 0) mac ip (rdn l1 0) None)
                     | Some ([ip; l1], r2) =>
                         match take 3 r2 with
                         | Some (l2, []) => Some (Ev2 rd esi (rdn et 0) mac ip (rdn l1 0) (Some (rdn l2 0)))
                         | _ => None
                         end
                     | _ => None
                     end
                   else None
               | _ => None
               end
             else if ty =? 3 then
               match takes [8; 4; 1] d with
               | Some ([rd; et; [il]], r1) =>
                   if ip_len_ok il false && (blen r1 =? il / 8) then Some (Ev3 rd (rdn et 0) r1) else None
               | _ => None
               end
             else if ty =? 4 then
               match takes [8; 10; 1] d with
               | Some ([rd; esi; [il]], r1) =>
                   if ip_len_ok il false && (blen r1 =? il / 8) then Some (Ev4 rd esi r1) else None
               | _ => None
               end
             else if ty =? 5 then
               match takes [8; 10; 4; 1] d with
               | Some ([rd; esi; et; [pl]], r1) =>
                   let w := (blen r1 - 3) / 2 in
                   if ((w =? 4) || (w =? 16)) && (blen r1 =? 2 * w + 3) && (pl <=? 8 * w) then
                     match takes [w; w; 3] r1 with
                     | Some ([ip; gw; lb], []) => Some (Ev5 rd esi (rdn et 0) pl ip gw (rdn lb 0))
                     | _ => None
                     end
                   else None
               | _ => None
               end
             else None) with
          | Some e => Some (NEvpn e, rest)
          | None => None
          end
      | None => None
      end
  | _ => None
  end.

(* ---- SR Policy.  RFC 9830 2.1: <length in bits (96 / 192), distinguisher (4), color (4),
   endpoint (4 / 16)>. *)
Definition read_srp (b : list N) : option (nlri * list N) :=
  match b with
  | l :: r =>
      if (l =? 96) || (l =? 192) then
        match takes [4; 4; (l - 64) / 8] r with
        | Some ([d; c; ep], r') => Some (NSrp (rdn d 0) (rdn c 0) ep, r')
        | _ => None
        end
      else None
  | [] => None
  end.

(* ---- MUP.  draft-ietf-bess-mup-safi 3.1: <architecture type (1 = 3GPP-5G), route type (2 octets),
   length (1 octet), route>; 3.1.1-3.1.4: RD (8), prefix length + prefix, address of the
   family's width [w], TEID (4), QFI (1), endpoint / source address lengths in bits, and for the
   Type 2 ST route an endpoint length of 8w .. 8w + 32 bits covering the address and the leading
   octets of the TEID. *)
Definition read_mup (v6 : bool) (b : list N) : option (nlri * list N) :=
  let w := if v6 then 16 else 4 in
  match b with
  | 1 :: t1 :: t0 :: n :: r =>
      match take n r with
      | Some (d, rest) =>
          match
            (let ty := t1 * 256 + t0 in
             if ty =? 1 then
               match takes [8; 1] d with
               | Some ([rd; [pl]], pr) =>
                   if (pl <=? 8 * w) && (blen pr =? (pl + 7) / 8) then Some (Mup1 rd pl pr) else None
               | _ => None
               end
             else if ty =? 2 then
               match takes [8; w] d with Some ([rd; a], []) => Some (Mup2 rd a) | _ => None end
             else if ty =? 3 then
               match takes [8; 1] d with
               | Some ([rd; [pl]], r1) =>
                   if pl <=? 8 * w then
                     match takes [(pl + 7) / 8; 4; 1; 1] r1 with
                     | Some ([pr; te; [q]; [el]], r2) =>
                         if el =? 8 * w then
                           match takes [w; 1] r2 with
                           | Some ([ep; [sl]], r3) =>
                               if sl =? 0 then
                                 match r3 with [] => Some (Mup3 rd pl pr (rdn te 0) q ep None) | _ => None end
                               else if (sl =? 8 * w) && (blen r3 =? w) then Some (Mup3 rd pl pr (rdn te 0) q ep (Some r3))
                               else None
                           | _ => None
                           end
                         else None
                     | _ => None
                     end
                   else None
               | _ => None
               end
             else if ty =? 4 then
               match takes [8; 1] d with
               | Some ([rd; [el]], r1) =>
                   if (8 * w <=? el) && (el <=? 8 * w + 32) then
                     match takes [w] r1 with
                     | Some ([ep], tb) =>
                         if blen tb =? (el - 8 * w + 7) / 8
                         then Some (Mup4 rd el ep (rdn (tb ++ zeros (4 - length tb)) 0)) else None
                     | _ => None
                     end
                   else None
               | _ => None
               end
             else None) with
          | Some m => Some (NMup m, rest)
          | None => None
          end
      | None => None
      end
  | _ => None
  end.

(* ---- BGP-LS.  RFC 9552 5.2: <NLRI type (2), length (2), protocol-ID (1), identifier (8), descriptors>,
   every descriptor a TLV <type (2), length (2), value>; 5.2.1: the node descriptors are the sub-TLVs
   of a container TLV (256 local node, 257 remote node); a Node NLRI holds the local node
   descriptors, a Link NLRI local + remote + link descriptors, a Prefix NLRI (types 3 / 4) local +
   prefix descriptors; RFC 9514 6: the SRv6 SID NLRI (type 6) local + SRv6 SID Information TLVs
   (518: multi-topology id (2), reserved (2), SID (16)).  Other NLRI types are opaque. *)
Fixpoint read_tlv16s (fuel : nat) (b : list N) : option (list (N * list N)) :=
  match b with
  | [] => Some []
  | _ =>
    match fuel with
    | O => None
    | S k =>
      match b with
      | t1 :: t0 :: l1 :: l0 :: r =>
          match take (l1 * 256 + l0) r with
          | Some (v, r') =>
              match read_tlv16s k r' with Some l => Some ((t1 * 256 + t0, v) :: l) | None => None end
          | None => None
          end
      | _ => None
      end
    end
  end.

Fixpoint read_sids (l : list (N * list N)) : option (list (N * list N)) :=
  match l with
  | [] => Some []
  | (t, v) :: r =>
      if t =? 518 then
        match takes [2; 2; 16] v with
        | Some ([mt; [0; 0]; sid], []) =>
            match read_sids r with Some s => Some ((rdn mt 0, sid) :: s) | None => None end
        | _ => None
        end
      else None
  end.

Definition ls_known (ty : N) : bool := (ty =? 1) || (ty =? 2) || (ty =? 3) || (ty =? 4) || (ty =? 6).

Definition read_ls (b : list N) : option (nlri * list N) :=
  match b with
  | t1 :: t0 :: l1 :: l0 :: r =>
      let ty := t1 * 256 + t0 in
      match take (l1 * 256 + l0) r with
      | Some (body, rest) =>
          if ls_known ty && (9 <=? blen body) then
            match body with
            | p :: b1 =>
                match take 8 b1 with
                | Some (idb, d) =>
                    let i := rdn idb 0 in
                    match read_tlv16s (length d) d with
                    | Some ((256, lv) :: tl) =>
                        match read_tlv16s (length lv) lv with
                        | Some local =>
                            if ty =? 1 then
                              match tl with [] => Some (NLs (LsNode p i local), rest) | _ => None end
                            else if ty =? 2 then
                              match tl with
                              | (257, rv) :: k =>
                                  match read_tlv16s (length rv) rv with
                                  | Some remote => Some (NLs (LsLink p i local remote k), rest)
                                  | None => None
                                  end
                              | _ => None
                              end
                            else if ty =? 6 then
                              match read_sids tl with Some s => Some (NLs (LsSrv6 p i local s), rest) | None => None end
                            else Some (NLs (LsPfx (ty =? 4) p i local tl), rest)
                        | None => None
                        end
                    | _ => None
                    end
                | None => None
                end
            | [] => None
            end
          else Some (NLs (LsOther ty body), rest)
      | None => None
      end
  | _ => None
  end.

(* ---- a list of such NLRI, each preceded by its path identifier when ADD-PATH is in use *)
Inductive skind := SFlow (v6 vpn : bool) | SRtc | SEvpn | SSrp | SMup (v6 : bool) | SLs.

Definition read_struct (k : skind) : list N -> option (nlri * list N) :=
  match k with
  | SFlow v6 vpn => read_flow v6 vpn
  | SRtc => read_rtc
  | SEvpn => read_evpn
  | SSrp => read_srp
  | SMup v6 => read_mup v6
  | SLs => read_ls
  end.

Fixpoint read_items (k : skind) (fuel : nat) (addpath : bool) (b : list N) : option (list (N * nlri)) :=
  match b with
  | [] => Some []
  | _ =>
    match fuel with
    | O => None
    | S f =>
      match (if addpath then
               match b with
               | b0 :: b1 :: b2 :: b3 :: r => Some (((b0 * 256 + b1) * 256 + b2) * 256 + b3, r)
               | _ => None
               end
             else Some (0, b)) with
      | Some (pid, r) =>
          match read_struct k r with
          | Some (v, r') =>
              match read_items k f addpath r' with Some t => Some ((pid, v) :: t) | None => None end
          | None => None
          end
      | None => None
      end
    end
  end.
