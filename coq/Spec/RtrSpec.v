(* What property C13 demands, written from the property text / RFC 8210, not from
   the Rust.  No proofs in this file.

   A cache's responses are seen as the sequence of payload records it carries:
   announce r, withdraw r, End of Data, anything else.  A record is (prefix as
   sent, max-length, AS).  The VRPs a cache has announced so far are the fold:
   the set plus announcements minus withdrawals. *)
From Coq Require Import List NArith Bool.
From RB Require Import Model.Rpki.
Import ListNotations.
Open Scope N_scope.

Definition rec : Type := net * N * N.

Inductive pdu_view := PAnnounce (r : rec) | PWithdraw (r : rec) | PEndOfData | POther.

Fixpoint fold_cache (ps : list pdu_view) (cur : rec -> Prop) : rec -> Prop :=
  match ps with
  | [] => cur
  | PAnnounce r :: rest => fold_cache rest (fun x => x = r \/ cur x)
  | PWithdraw r :: rest => fold_cache rest (fun x => x <> r /\ cur x)
  | _ :: rest => fold_cache rest cur
  end.

Definition announced (ps : list pdu_view) : rec -> Prop := fold_cache ps (fun _ => False).

(* a conforming cache sends no withdrawal before its first End of Data: the response
   to a Reset Query is a full snapshot (RFC 8210 section 8.1) *)
Fixpoint conforming (ps : list pdu_view) : Prop :=
  match ps with
  | [] => True
  | PEndOfData :: _ => True
  | PWithdraw _ :: _ => False
  | _ :: rest => conforming rest
  end.

Definition seen_eod (ps : list pdu_view) : Prop := In PEndOfData ps.
