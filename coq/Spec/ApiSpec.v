(* C17  What the property text demands of values crossing the gRPC API boundary.

   "any value it accepts satisfies the same structural invariants as values
   accepted from the wire (valid ORIGIN, well-formed AS_PATH segments,
   length-multiple communities)".  [wf_attr] is written from the RFCs that define
   each attribute (RFC 4271 s4.3/s5.1, RFC 1997, RFC 4360, RFC 4456, RFC 8092,
   RFC 6793), not from the Rust.  No proofs here. *)
From Coq Require Import List ZArith NArith Bool.
From RB Require Import Base.Val Model.Api.
Import ListNotations.
Open Scope N_scope.

Definition bytes_ok (l : list N) : Prop := Forall (fun b => b < 256) l.
(* an attribute value is at most what the extended length field can express *)
Definition len_ok (l : list N) : Prop := N.of_nat (length l) < 65536.

(* RFC 4271 s4.3 path segments (four-octet AS numbers, RFC 6793): a sequence of
   <type 1..4, count, count AS numbers>, exactly filling the value; RFC 7606 s7.2:
   a segment carries at least one AS.  AS4_PATH (RFC 6793 s6) has the same shape. *)
Inductive wf_as_path : list N -> Prop :=
| wfp_nil : wf_as_path []
| wfp_seg : forall t n body rest,
    1 <= t <= 4 -> 0 < n < 256 -> length body = (4 * N.to_nat n)%nat ->
    wf_as_path rest -> wf_as_path (t :: n :: body ++ rest).

(* the Optional / Transitive bits are fixed by the attribute's definition *)
Definition class_bits_ok (code flags : N) : Prop :=
  match canonical_flags code with
  | Some f => N.land flags 192 = N.land f 192
  | None => N.land flags 192 = 192     (* unknown attributes are kept only when optional transitive *)
  end.

Definition wf_data (code : N) (d : adata) : Prop :=
  match canonical_flags code with
  | None => match d with DOpaque b => bytes_ok b /\ len_ok b | _ => False end
  | Some _ =>
      if (code =? ORIGIN) then match d with DVal v => v <= 2 | _ => False end
      else if (code =? MULTI_EXIT_DESC) || (code =? LOCAL_PREF) || (code =? ORIGINATOR_ID)
      then match d with DVal v => v < 4294967296 | _ => False end
      else match d with
           | DBin b =>
               bytes_ok b /\ len_ok b /\
               (if code =? AS_PATH then wf_as_path b
                (* 4 octets on the wire; 16 is how the API's NextHop message hands an IPv6 next hop to
                   local_path, which turns it into the path's next hop and never stores the attribute *)
                else if code =? NEXTHOP then length b = 4%nat \/ length b = 16%nat
                else if code =? ATOMIC_AGGREGATE then b = []
                else if code =? AGGREGATOR then length b = 8%nat
                (* RFC 7606 s7.8/7.10/7.14, RFC 8092 s5: a non-zero multiple of the element size *)
                else if (code =? COMMUNITY) || (code =? CLUSTER_LIST) then b <> [] /\ Nat.modulo (length b) 4 = 0%nat
                else if code =? EXTENDED_COMMUNITY then b <> [] /\ Nat.modulo (length b) 8 = 0%nat
                else if code =? LARGE_COMMUNITY then b <> [] /\ Nat.modulo (length b) 12 = 0%nat
                else if code =? AS4_PATH then wf_as_path b /\ b <> []
                else if code =? AS4_AGGREGATOR then length b = 8%nat
                else True)
           | _ => False
           end
  end.

Definition wf_attr (a : attr) : Prop :=
  a_code a < 256 /\ a_flags a < 256 /\ class_bits_ok (a_code a) (a_flags a) /\ wf_data (a_code a) (a_data a).

(* what protobuf guarantees of a decoded message: uint32 fields below 2^32,
   bytes fields are bytes, enum fields are i32 *)
Definition u32_ok (v : N) : Prop := v < 4294967296.
Definition extcom_in_range (x : api_extcom) : Prop :=
  match x with
  | XTwoOctet _ s a l | XFourOctet _ s a l => u32_ok s /\ u32_ok a /\ u32_ok l
  | XIpv4 _ s _ l => u32_ok s /\ u32_ok l
  | XMup s a b => u32_ok s /\ u32_ok a /\ u32_ok b
  | XUnknown t v => u32_ok t /\ bytes_ok v
  | XTrafficRate a r => u32_ok a /\ u32_ok r
  | XRedirect2 a l | XRedirect4 a l => u32_ok a /\ u32_ok l
  | XTrafficRemark d => u32_ok d
  | XRedirectIp4 _ l => u32_ok l
  | _ => True
  end.
Definition api_in_range (x : api_attr) : Prop :=
  match x with
  | AUnknown f t v => u32_ok f /\ u32_ok t /\ bytes_ok v
  | AOrigin v | AMed v | ALocalPref v => u32_ok v
  | AAsPath segs => Forall (fun s => Forall u32_ok (snd s)) segs
  | AAggregator a _ => u32_ok a
  | ACommunities l => Forall u32_ok l
  | AExtCommunities l => Forall extcom_in_range l
  | ALargeCommunities l => Forall (fun t => u32_ok (fst (fst t)) /\ u32_ok (snd (fst t)) /\ u32_ok (snd t)) l
  | _ => True
  end.

(* NLRI: what the prefix decoders guarantee (RFC 4271 s4.3, RFC 4760, RFC 8277 s2.2:
   prefix length within the address width; a labeled prefix carries at least one
   20-bit label and its total bit length fits the one-octet length field). *)
Definition wf_labels (ls : list N) (m : N) : Prop :=
  ls <> [] /\ Forall (fun l => l < 1048576) ls /\ 24 * N.of_nat (length ls) + m <= 255.

(* RFC 4364 s4.2: the three route distinguisher layouts *)
Definition wf_rd (d : rd) : Prop :=
  match d with
  | RD2 a b => a < 65536 /\ b < 4294967296
  | RDIp a b => a < 4294967296 /\ b < 65536
  | RD4 a b => a < 4294967296 /\ b < 65536
  end.

(* a prefix of m bits travels in ceil(m / 8) octets: the remaining octets of the address
   (of `width` octets) are zero in every decoded value *)
Definition wf_prefix (width a m : N) : Prop :=
  a < 256 ^ width /\ m <= 8 * width /\ a mod (256 ^ (width - (m + 7) / 8)) = 0.

Definition wf_nlri (n : nlri) : Prop :=
  match n with
  | NV4 a m => wf_prefix 4 a m
  | NV6 a m => wf_prefix 16 a m
  | NLab4 ls a m => wf_prefix 4 a m /\ wf_labels ls m
  | NLab6 ls a m => wf_prefix 16 a m /\ wf_labels ls m
  | NVpn4 ls d a m => wf_prefix 4 a m /\ wf_rd d /\ wf_labels ls (64 + m)
  | NVpn6 ls d a m => wf_prefix 16 a m /\ wf_rd d /\ wf_labels ls (64 + m)
  end.

(* protobuf ranges of the API NLRI messages *)
Definition api_rd_in_range (d : api_rd) : Prop :=
  match d with
  | ARd2 a b | ARd4 a b => u32_ok a /\ u32_ok b
  | ARdIp _ b => u32_ok b
  | ARdMissing => True
  end.
Definition api_nlri_in_range (x : api_nlri) : Prop :=
  match x with
  | PVpn _ d _ _ => api_rd_in_range d
  | _ => True
  end.

(* EVPN routes (RFC 7432 s7, RFC 9136 s3.1): what packet/src/evpn.rs decodes.  Labels
   are 24-bit fields, the ESI is ten octets, a MAC address six, an IP-prefix route's
   length is within the width of its prefix and its gateway is of the same family. *)
Definition wf_ip (i : ipaddr) : Prop :=
  match i with IP4 a => a < 2 ^ 32 | IP6 a => a < 2 ^ 128 end.
Definition wf_esi (e : list N) : Prop := length e = 10%nat /\ bytes_ok e.
Definition wf_label24 (l : N) : Prop := l < 16777216.

Definition wf_evpn (e : evpn) : Prop :=
  match e with
  | EvAd d esi etag label => wf_rd d /\ wf_esi esi /\ u32_ok etag /\ wf_label24 label
  | EvMac d esi etag mac ip l1 l2 =>
      wf_rd d /\ wf_esi esi /\ u32_ok etag /\ (length mac = 6%nat /\ bytes_ok mac)
      /\ match ip with Some i => wf_ip i | None => True end
      /\ wf_label24 l1 /\ match l2 with Some l => wf_label24 l | None => True end
  | EvImet d etag ip => wf_rd d /\ u32_ok etag /\ wf_ip ip
  | EvEs d esi ip => wf_rd d /\ wf_esi esi /\ wf_ip ip
  | EvPfx d esi etag pfx plen gw label =>
      wf_rd d /\ wf_esi esi /\ u32_ok etag /\ wf_ip pfx /\ wf_ip gw
      /\ same_family pfx gw = true /\ plen <= ip_width pfx /\ wf_label24 label
  end.

Definition api_esi_in_range (e : api_esi) : Prop :=
  match e with Some (t, v) => u32_ok t /\ bytes_ok v | None => True end.
Definition api_evpn_in_range (x : api_evpn) : Prop :=
  match x with
  | AEvAd d esi etag _ | AEvMac d esi etag _ _ _ | AEvPfx d esi etag _ _ _ _ =>
      api_rd_in_range d /\ api_esi_in_range esi /\ u32_ok etag
  | AEvImet d etag _ => api_rd_in_range d /\ u32_ok etag
  | AEvEs d esi _ => api_rd_in_range d /\ api_esi_in_range esi
  end.

(* Flowspec NLRI (RFC 8955 s4, RFC 8956): what packet/src/flowspec.rs decodes.  A prefix
   component is a prefix of the family; an operator list is non-empty, its operators carry
   no length bits (they are recomputed from the value), the end-of-list bit is on the last
   operator and only there, values fit eight octets; the components fill at most the 4095
   octets the 12-bit length field can express. *)
Definition wf_op_bits (last : bool) (b : N) : Prop :=
  b < 256 /\ (b / 16) mod 4 = 0 /\ b / 128 = (if last then 1 else 0).

Fixpoint wf_ops (ops : list (N * N)) : Prop :=
  match ops with
  | [] => False
  | [(b, v)] => wf_op_bits true b /\ v < 2 ^ 64
  | (b, v) :: r => wf_op_bits false b /\ v < 2 ^ 64 /\ wf_ops r
  end.

Definition wf_fs_comp (v6 : bool) (c : fs_comp) : Prop :=
  match c with
  | FsPfx t a m off =>
      (t = 1 \/ t = 2) /\ wf_prefix (if v6 then 16 else 4) a m /\ (if v6 then off < 256 else off = 0)
  | FsOps t ops => 3 <= t <= (if v6 then 13 else 12) /\ wf_ops ops
  end.

Definition wf_fs (n : fs_nlri) : Prop :=
  match n with
  | FsN v6 d comps =>
      Forall (wf_fs_comp v6) comps
      /\ match d with Some d' => wf_rd d' | None => True end
      /\ fs_body_len n <= 4095
  end.

Definition api_fs_rule_in_range (r : api_fs_rule) : Prop :=
  match r with FRComp _ items => Forall (fun o => snd o < 2 ^ 64) items | _ => True end.
Definition api_fs_in_range (x : api_fs) : Prop :=
  match x with
  | AFs rules => Forall api_fs_rule_in_range rules
  | AFsVpn d rules => api_rd_in_range d /\ Forall api_fs_rule_in_range rules
  end.

(* SR Policy NLRI (draft-ietf-idr-sr-policy-safi s2.1) and Route Target Constraint NLRI (RFC 4684 s4) *)
Definition wf_srp (n : srp) : Prop :=
  match n with SrP v6 d c e => u32_ok d /\ u32_ok c /\ e < 256 ^ (if v6 then 16 else 4) end.

Definition wf_rtc (n : rtc) : Prop :=
  match n with
  | RtcWild => True
  | RtcAs a => u32_ok a
  | RtcExact a rt => u32_ok a /\ length rt = 8%nat /\ bytes_ok rt
  end.

(* the class of the open finding C17-rtc: what api.RouteTargetMembershipNLRI cannot express *)
Definition Known_C17_rtc (n : rtc) : Prop :=
  match n with
  | RtcWild => False
  | RtcAs a => a = 0
  | RtcExact _ rt => match rt with t :: s :: _ => 2 < t \/ s <> 2 | _ => True end
  end.

(* ------------------------------------------------------------------ *)
(* Typed PREFIX_SID / TUNNEL_ENCAP messages: what the stored TLV tree must satisfy.
   wf_*: every field within its wire width (what the decoders of packet/src/prefix_sid.rs and
   packet/src/tunnel_encap.rs can produce); *_fits: no length field of the encoding has wrapped. *)
Definition wf_psst (s : psst) : Prop :=
  match s with PsSt a b c d e f => a < 256 /\ b < 256 /\ c < 256 /\ d < 256 /\ e < 256 /\ f < 256 end.
Definition wf_ps_info (i : ps_info) : Prop :=
  match i with PsInfo sid beh ss => length sid = 16%nat /\ bytes_ok sid /\ beh < 65536 /\ Forall wf_psst ss end.
Definition wf_ps_tlv (t : ps_tlv) : Prop := match t with PsSvc _ infos => Forall wf_ps_info infos end.
Definition wf_psid (p : psid) : Prop := Forall wf_ps_tlv p.

Definition ps_fits (p : psid) : Prop :=
  Forall (fun t => N.of_nat (length (ps_tlv_value t)) < 65536 /\
                   match t with PsSvc _ infos => Forall (fun i => N.of_nat (length (ps_info_value i)) < 65536) infos end) p.

Definition api_ps_infos (t : api_ps_tlv) : list api_ps_info :=
  match t with APsMissing => [] | APsSvc _ subs => flat_map snd subs end.
Definition api_psid_in_range (x : list api_ps_tlv) : Prop :=
  Forall (fun t => Forall (fun i => match i with APsInfo sid _ _ => bytes_ok sid | APsInfoMissing => True end) (api_ps_infos t)) x.

Definition wf_ebs (e : ebs) : Prop :=
  match e with Ebs beh bl nl fl al => beh < 65536 /\ bl < 256 /\ nl < 256 /\ fl < 256 /\ al < 256 end.
Definition wf_seg (g : te_seg) : Prop :=
  match g with
  | SegA f l => f < 256 /\ l < 1048576
  | SegB f sid e => f < 256 /\ length sid = 16%nat /\ bytes_ok sid /\ match e with Some e' => wf_ebs e' | None => True end
  end.
Definition wf_opt {A} (P : A -> Prop) (o : option A) : Prop := match o with Some x => P x | None => True end.
Definition wf_cp (cp : te_cp) : Prop :=
  wf_opt (fun x => fst x < 256 /\ snd x < 4294967296) (cp_pref cp) /\
  wf_opt (fun x => match x with
                   | BsMpls f l => f < 256 /\ l < 1048576
                   | BsSrv6 f sid => f < 256 /\ length sid = 16%nat /\ bytes_ok sid
                   end) (cp_bsid cp) /\
  wf_opt (fun x => match x with (f, sid, e) => f < 256 /\ length sid = 16%nat /\ bytes_ok sid /\ wf_ebs e end) (cp_bsid6 cp) /\
  wf_opt (fun x => fst x < 256 /\ snd x < 256) (cp_enlp cp) /\
  wf_opt (fun p => p < 256) (cp_prio cp) /\
  Forall (fun sl => wf_opt (fun w => fst w < 256 /\ snd w < 4294967296) (fst sl) /\ Forall wf_seg (snd sl)) (cp_segs cp) /\
  wf_opt bytes_ok (cp_name cp) /\
  wf_opt (fun n => bytes_ok n /\ utf8_valid n = true) (cp_pname cp).
Definition wf_te_tlv (t : te_tlv) : Prop :=
  match t with TeSr cp => wf_cp cp | TeRaw ty v => ty < 65536 /\ ty <> SR_POLICY /\ bytes_ok v end.
Definition wf_te (l : list te_tlv) : Prop := Forall wf_te_tlv l.

(* the two-octet lengths (tunnel TLV, segment list, names) and the one-octet lengths of the segments *)
Definition te_fits (l : list te_tlv) : Prop :=
  Forall (fun t => N.of_nat (length (te_tlv_value t)) < 65536 /\
                   match t with
                   | TeSr cp =>
                       wf_opt (fun n => N.of_nat (S (length n)) < 65536) (cp_name cp) /\
                       wf_opt (fun n => N.of_nat (S (length n)) < 65536) (cp_pname cp) /\
                       Forall (fun sl => N.of_nat (length (seglist_value sl)) < 65536 /\
                                         Forall (fun g => N.of_nat (length (seg_value g)) < 256) (snd sl)) (cp_segs cp)
                   | TeRaw _ _ => True
                   end) l.

Definition api_seg_in_range (g : api_seg) : Prop :=
  match g with ASegB _ sid _ => bytes_ok sid | _ => True end.
Definition api_te_sub_in_range (s : api_te_sub) : Prop :=
  match s with
  | ATsPref _ p => p < 4294967296
  | ATsBsidMpls _ _ sid => bytes_ok sid
  | ATsBsid6 _ _ _ sid _ => bytes_ok sid
  | ATsName n => bytes_ok n
  | ATsSegList w gs => wf_opt (fun w' => snd w' < 4294967296) w /\ Forall api_seg_in_range gs
  | ATsUnknown _ v => bytes_ok v
  | _ => True
  end.
Definition api_te_in_range (x : list (N * list api_te_sub)) : Prop :=
  Forall (fun t => Forall api_te_sub_in_range (snd t)) x.

(* what the typed listing can carry (outside it attr_to_api lists the raw value): only the flag bits the
   message has fields for, a type B behaviour structure only under the flag the decoder keys it on, and no
   raw value of another tunnel type *)
Definition seg_listable (g : te_seg) : Prop :=
  match g with
  | SegA f _ => f mod 16 = 0
  | SegB f _ e => f mod 16 = 0 /\ (e <> None -> bit_set f 64 = true)
  end.
Definition cp_listable (cp : te_cp) : Prop :=
  wf_opt (fun x => match x with BsMpls f _ => f mod 64 = 0 | BsSrv6 f _ => f mod 64 = 0 end) (cp_bsid cp) /\
  wf_opt (fun x => match x with (f, _, _) => f mod 32 = 0 end) (cp_bsid6 cp) /\
  Forall (fun sl => Forall seg_listable (snd sl)) (cp_segs cp).
Definition te_listable (l : list te_tlv) : Prop :=
  Forall (fun t => match t with TeSr cp => cp_listable cp | TeRaw _ v => v = [] end) l.

(* ------------------------------------------------------------------ *)
(* BGP-MUP NLRI: what the decoder of packet/src/mup.rs can produce *)
Definition ip_w (i : ipaddr) : N := if ip_is_v4 i then 4 else 16.
Definition wf_mup (n : mup) : Prop :=
  match n with
  | MupIsd d a len => wf_rd d /\ wf_prefix (ip_w a) (ip_value a) len
  | MupDsd d a => wf_rd d /\ wf_ip a
  | MupT1 d a len teid qfi ep src =>
      wf_rd d /\ wf_prefix (ip_w a) (ip_value a) len /\ teid < 4294967296 /\ qfi < 256 /\ wf_ip ep /\ wf_opt wf_ip src
  | MupT2 d ealen ep teid =>
      wf_rd d /\ wf_ip ep /\ ip_width ep <= ealen /\ ealen <= ip_width ep + 32 /\ teid < 4294967296 /\
      ((ealen - ip_width ep + 7) / 8 < 4 -> (teid * 256 ^ ((ealen - ip_width ep + 7) / 8)) mod 4294967296 = 0)
  end.
Definition api_mup_in_range (x : api_mup) : Prop :=
  match x with
  | AMupIsd d _ | AMupDsd d _ => api_rd_in_range d
  | AMupT1 d _ teid _ _ _ _ _ => api_rd_in_range d /\ teid < 4294967296
  | AMupT2 d _ _ teid => api_rd_in_range d /\ teid < 4294967296
  end.
