(* What property C12 demands, written from RFC 6811 section 2 and the property
   text, not from the Rust code.  No proofs in this file.

   A prefix is the list of its significant bits (most significant first), so
   its length is the length of the list.  A VRP is (prefix, max-length, AS); a
   route is (prefix, origin) where the origin is an AS number or NONE.

     Covered:  the VRP prefix length is <= the route prefix length and the two
               addresses agree on all bits specified by the VRP prefix length
               = the VRP's bit list is a prefix of the route's bit list.
     Matched:  covered, route prefix length <= VRP max-length, and the route
               origin AS equals the VRP AS; AS 0 never matches (RFC 6483 s.4,
               RFC 6811 s.2), nor does origin NONE.
     Valid     iff some VRP matches;
     Invalid   iff some VRP covers and none matches;
     NotFound  iff no VRP covers. *)
From Coq Require Import List NArith Bool.
Import ListNotations.
Open Scope N_scope.

Definition bits := list bool.

Record vrp := { vp_bits : bits; vp_max : N; vp_as : N }.
Record route := { rt_bits : bits; rt_origin : option N }.    (* None = NONE *)

Inductive state := SNotFound | SValid | SInvalid.

(* --- the relations, as propositions *)
Definition Covers (v : vrp) (r : route) : Prop :=
  exists rest, rt_bits r = vp_bits v ++ rest.

Definition Matches (v : vrp) (r : route) : Prop :=
  Covers v r /\ N.of_nat (length (rt_bits r)) <= vp_max v
  /\ rt_origin r = Some (vp_as v) /\ vp_as v <> 0.

Definition StateIs (vs : list vrp) (r : route) (s : state) : Prop :=
  match s with
  | SValid => exists v, In v vs /\ Matches v r
  | SInvalid => (exists v, In v vs /\ Covers v r) /\ ~ (exists v, In v vs /\ Matches v r)
  | SNotFound => ~ (exists v, In v vs /\ Covers v r)
  end.

(* --- the same, computably *)
Fixpoint bits_prefix (p l : bits) : bool :=
  match p, l with
  | [], _ => true
  | x :: p', y :: l' => Bool.eqb x y && bits_prefix p' l'
  | _ :: _, [] => false
  end.

Definition covers (v : vrp) (r : route) : bool := bits_prefix (vp_bits v) (rt_bits r).

Definition matches (v : vrp) (r : route) : bool :=
  covers v r && (N.of_nat (length (rt_bits r)) <=? vp_max v)
  && match rt_origin r with
     | Some a => (a =? vp_as v) && negb (vp_as v =? 0)
     | None => false
     end.

Definition rfc6811 (vs : list vrp) (r : route) : state :=
  if existsb (fun v => matches v r) vs then SValid
  else if existsb (fun v => covers v r) vs then SInvalid
  else SNotFound.

(* --- route origin, RFC 6811 section 2 ("Route Origin ASN"), over parsed segments
   (segment type, AS numbers): the rightmost AS of a final AS_SEQUENCE; the
   speaker's own AS when the path is empty or ends in a confederation segment;
   NONE when it ends in an AS_SET. *)
Definition SEG_SET : N := 1.
Definition SEG_SEQ : N := 2.

Definition origin_of (local_asn : N) (segs : list (N * list N)) : option N :=
  match rev segs with
  | [] => Some local_asn
  | (t, l) :: _ =>
      if t =? SEG_SEQ then Some (last l local_asn)
      else if t =? SEG_SET then None
      else Some local_asn
  end.

(* --- network-order bits of an address given as octets *)
Definition byte_bits (b : N) : bits :=
  map (fun i => N.testbit b (N.of_nat i)) [7; 6; 5; 4; 3; 2; 1; 0]%nat.

Definition addr_bits (octets : list N) : bits := flat_map byte_bits octets.

Definition prefix_bits (octets : list N) (len : N) : bits :=
  firstn (N.to_nat len) (addr_bits octets).

(* --- the VRP table as a set keyed by (cache, prefix, max-length, AS) *)
Section SetSpec.
  Context {K : Type}.
  Variable cache_of : K -> N.

  Inductive sop := SAdd (k : K) | SDel (k : K) | SDropCache (c : N) | SReset (c : N) (ks : list K).

  (* membership after the operation, in terms of membership before *)
  Definition after (o : sop) (before : K -> Prop) (x : K) : Prop :=
    match o with
    | SAdd k => x = k \/ before x
    | SDel k => x <> k /\ before x
    | SDropCache c => cache_of x <> c /\ before x
    | SReset c ks => In x ks \/ (cache_of x <> c /\ before x)
    end.
End SetSpec.
