(* What property C09 demands, written from the property text and the RFCs it
   paraphrases (RFC 4271 5.1 / 9.1.2 / 9.2, RFC 4456 8, RFC 5065 5, RFC 7947,
   RFC 9494 4.3, RFC 4271 5 on unrecognised optional attributes).
   No proofs in this file.

   The model (Model/Export.v) keeps AS_PATH as the byte string the code edits;
   the property speaks about AS numbers and segments, so the Spec has its own
   segment view ([seg], [encode_path]) and its statements are about the
   FLATTENED AS sequence, typed by the kind of segment each AS sits in. *)
From Coq Require Import List NArith Bool.
From RB Require Import Base.Val Model.Export.
Import ListNotations.
Open Scope N_scope.

(* ------------------------------------------------------------ AS_PATH, RFC 4271 4.3 / RFC 5065 3 *)
Definition seg := (N * list N)%type.            (* (segment type, AS numbers) *)

Definition wf_seg (s : seg) : Prop :=
  1 <= fst s <= 4 /\ (length (snd s) <= 255)%nat /\ Forall (fun a => a < 4294967296) (snd s).
Definition wf_path (p : list seg) : Prop := Forall wf_seg p.

Definition encode_seg (s : seg) : list N :=
  fst s :: N.of_nat (length (snd s)) :: flat_map be32 (snd s).
Definition encode_path (p : list seg) : list N := flat_map encode_seg p.

(* the AS sequence, and the same with the segment kind attached to each AS *)
Definition flat (p : list seg) : list N := flat_map snd p.
Definition tflat (p : list seg) : list (N * N) := flat_map (fun s => map (fun a => (fst s, a)) (snd s)) p.

(* AS_SET = 1, AS_SEQUENCE = 2, AS_CONFED_SEQUENCE = 3, AS_CONFED_SET = 4 *)
Definition confed_seg (s : seg) : bool := (fst s =? 3) || (fst s =? 4).
Definition strip_confed_spec (p : list seg) : list seg := filter (fun s => negb (confed_seg s)) p.

(* "attribute [a] is the AS_PATH [p]" *)
Definition is_path (a : attr) (p : list seg) : Prop :=
  a_code a = AS_PATH /\ a_data a = DBin (encode_path p) /\ wf_path p.

(* the AS_PATH of an attribute set: [Some p] for the first AS_PATH attribute,
   [None] when there is none (a locally originated route) *)
Definition path_of (attrs : list attr) (p : option (list seg)) : Prop :=
  match p with
  | Some segs => exists a, find_code AS_PATH attrs = Some a /\ is_path a segs
  | None => find_code AS_PATH attrs = None
  end.
Definition segs_of (p : option (list seg)) : list seg := match p with Some s => s | None => [] end.

(* ------------------------------------------------------------ who is who *)
(* the peer a route was learned from is identified by its address *)
Definition learned_from (s : source) (peer : ipaddr) : Prop := src_raddr s = peer.

(* a non-client iBGP peer: an internal session (same AS on both ends) that is
   not configured as route-reflector client *)
Definition nonclient_ibgp_source (s : source) : Prop :=
  exists p, s = SrcPeer p /\ ps_role p = Ibgp /\ ps_rasn p = ps_lasn p.
(* any internal peer, client or not *)
Definition ibgp_peer_source (s : source) : Prop :=
  exists p, s = SrcPeer p /\ role_is_ibgp (ps_role p) = true /\ ps_rasn p = ps_lasn p.

(* "across the route-server / non-route-server boundary": exactly one of the
   learned-from peer and the receiver is a route-server client *)
Definition crosses_rs_boundary (s : source) (dest : role) : Prop :=
  ~ (src_role s = RsClient <-> dest = RsClient).

(* ------------------------------------------------------------ inbound loops *)
Definition cluster_list_bytes (ids : list N) : list N := flat_map be32 ids.

Inductive looped (x : ectx) (local_rid : N) (cid : option N) (attrs : list attr) : Prop :=
| LoopAs : forall segs, path_of attrs (Some segs) -> In (x_lasn x) (flat segs) -> looped x local_rid cid attrs
| LoopConfed : forall segs, path_of attrs (Some segs) -> x_confed x <> 0 -> In (x_confed x) (flat segs) ->
               looped x local_rid cid attrs
| LoopOriginator : forall a, find_code ORIGINATOR_ID attrs = Some a -> a_data a = DVal local_rid ->
                   looped x local_rid cid attrs
| LoopCluster : forall a c ids, cid = Some c ->
                find_code CLUSTER_LIST attrs = Some a -> binary a = Some (cluster_list_bytes ids) -> In c ids ->
                looped x local_rid cid attrs.

(* the attributes an UPDATE that is not a loop leaves in the RIB *)
Definition rx_attrs (x : ectx) (attrs : list attr) : list attr :=
  if role_is_ibgp (x_role x) then inject_local_pref_if_absent attrs else attrs.

(* ------------------------------------------------------------ what is sent, per receiver *)
Definition absent (c : N) (attrs : list attr) : Prop := has_code c attrs = false.

(* the AS that an external peer must see first *)
Definition external_asn (x : ectx) : N := if x_confed x =? 0 then x_lasn x else x_confed x.

(* to eBGP peers: [inp] are the attributes of the route, [out] what is sent *)
Definition ebgp_path_ok (x : ectx) (pin : option (list seg)) (out : list attr) : Prop :=
  exists segs', path_of out (Some segs')
    /\ tflat segs' = (2, external_asn x) :: tflat (strip_confed_spec (segs_of pin)).
Definition ebgp_strips_ok (out : list attr) : Prop :=
  absent LOCAL_PREF out /\ absent ORIGINATOR_ID out /\ absent CLUSTER_LIST out /\ absent AIGP out.

(* to confed-eBGP peers: the member AS leads, inside an AS_CONFED_SEQUENCE *)
Definition confed_path_ok (x : ectx) (pin : option (list seg)) (out : list attr) : Prop :=
  exists rest asns, path_of out (Some ((3, x_lasn x :: asns) :: rest))
    /\ tflat ((3, x_lasn x :: asns) :: rest) = (3, x_lasn x) :: tflat (segs_of pin).

(* the next hop "self" of a session *)
Definition self_nexthop (x : ectx) : nexthop := local_nh x.
(* a stored next hop that means something: not the 0.0.0.0 / :: placeholder of
   locally injected routes *)
Definition explicit_nexthop (is_local : bool) (nh : option nexthop) : Prop :=
  exists n, nh = Some n /\ (is_local = true -> ip_unspecified (nh_addr n) = false).

(* reflection (RFC 4456 8): ORIGINATOR_ID present — the one received, else the
   router id of the peer the route came from — and the cluster id first in
   CLUSTER_LIST, the received list following *)
Definition reflected_ok (inp out : list attr) (from_rid cluster : N) : Prop :=
  (exists o, find_code ORIGINATOR_ID out = Some o /\
             match find_code ORIGINATOR_ID inp with
             | Some o' => o = o'
             | None => a_data o = DVal from_rid
             end)
  /\ (exists cl, find_code CLUSTER_LIST out = Some cl /\
                 binary cl = Some (be32 cluster ++
                                   match find_code CLUSTER_LIST inp with
                                   | Some c' => match binary c' with Some b => b | None => [] end
                                   | None => []
                                   end)).

(* LLGR_STALE = 0xFFFF0006 among the communities *)
Definition community_list_bytes (cs : list (list N)) : list N := concat cs.
Definition carries_llgr_stale (out : list attr) : Prop :=
  exists c pre post, find_code COMMUNITY out = Some c
    /\ binary c = Some (pre ++ [255; 255; 0; 6] ++ post) /\ Nat.modulo (length pre) 4 = O.

(* unknown (unrecognised optional) attributes *)
Definition unknown_attr (a : attr) : Prop := is_opaque a = true.
Definition transitive (a : attr) : Prop := N.testbit (a_flags a) 6 = true.
Definition partial_set (a : attr) : Prop := N.testbit (a_flags a) 5 = true.
Definition same_but_partial (a b : attr) : Prop :=
  a_code b = a_code a /\ a_data b = a_data a /\ a_flags b = N.lor (a_flags a) 32.

(* an export policy that only accepts or rejects (no set-actions) *)
Definition filter_only (pol : policy_fn) : Prop :=
  forall s a nh onh ic r, pol s a nh onh ic = Some r -> r = (a, nh).

(* ------------------------------------------------------------ the neighbour's view *)
(* what a neighbour holds for (dest, pid) after receiving the sink operations
   in order: the attributes of the last Reach, nothing after an Unreach *)
Fixpoint view_after (ops : list sinkop) (d pid : N) (v : option (list attr)) : option (list attr) :=
  match ops with
  | [] => v
  | Unreach d' p' :: t => view_after t d pid (if (d' =? d) && (p' =? pid) then None else v)
  | Reach d' p' _ a _ :: t => view_after t d pid (if (d' =? d) && (p' =? pid) then Some a else v)
  end.

(* a best-only session keeps a Plain family map (ExportMap::new gets the Add-Path families) *)
Definition not_addpath (e : emap) : Prop := match e with EAddPath _ => False | _ => True end.

(* the neighbour holds a route *)
Definition has_entry (v : option (list attr)) : bool := match v with Some _ => true | None => false end.

(* the path ids an Add-Path family map records for a destination (ExportMap::sent_path_ids) *)
Definition ap_ids (m : list (N * list N)) (d : N) : list N :=
  match alookup d m with Some v => v | None => [] end.

(* nothing, or a copy that carries LLGR_STALE *)
Definition stale_or_none (v : option (list attr)) : Prop :=
  match v with Some a => carries_llgr_stale a | None => True end.

(* an operation that concerns (dest, pid) *)
Definition touches (d pid : N) (op : sinkop) : bool :=
  match op with
  | Unreach d' p' => (d' =? d) && (p' =? pid)
  | Reach d' p' _ _ _ => (d' =? d) && (p' =? pid)
  end.

(* what was sent for a destination, in the terms of ExportMap::sent_path_ids *)
Definition was_sent_path (e : emap) (d pid : N) : Prop := In pid (em_sent_path_ids e d).

(* the shape of a change of restale_llgr's stream, as seen by one neighbour: the path the
   entry (d, pid) is about is LLGR-stale and the change makes the exporter look at it *)
Definition llgr_change_for (emax : N) (c : change) (e : emap) (pid : N) (v0 : option (list attr)) : Prop :=
  if emax =? 1
  then pid = 0 /\ c_best_changed c = true
       /\ has_entry v0 = em_was_sent e (c_dest c)
       /\ (forall best rest, c_paths c = best :: rest -> src_llgr (p_src best) = true)
  else c_any_changed c = true /\ c_replaced c = Some pid
       /\ (has_entry v0 = true -> was_sent_path e (c_dest c) pid)
       /\ (forall p, In p (c_paths c) -> p_lpid p = pid -> src_llgr (p_src p) = true).

(* ------------------------------------------------------------ attribute sets the wire decoder produces *)
(* the codes bgp.rs recognises (Attribute::canonical_flags is defined on them) *)
Definition recognised (c : N) : bool :=
  existsb (N.eqb c) [1; 2; 3; 4; 5; 6; 7; 8; 9; 10; 14; 15; 16; 17; 18; 23; 26; 29; 32; 40].

(* what the UPDATE decoder guarantees about an attribute vector (packet/src/bgp.rs,
   property C03/C05): unrecognised optional attributes are the only opaque ones,
   an AS_PATH is a well-formed segment list, a COMMUNITY value is a list of
   4-octet communities.  (Since 5e6671b / 36a2dde the decoder also refuses zero-length
   AS_PATH segments and empty COMMUNITIES / CLUSTER_LIST; the statements do not need
   that, so it is not assumed.) *)
Definition decodable (attrs : list attr) : Prop :=
  (forall a, In a attrs -> is_opaque a = true -> recognised (a_code a) = false)
  /\ (forall a, In a attrs -> a_code a = AS_PATH -> exists segs, is_path a segs)
  /\ (forall a, In a attrs -> a_code a = COMMUNITY ->
        exists b, a_data a = DBin b /\ Nat.modulo (length b) 4 = O).

(* an export policy whose set-actions keep attribute vectors decodable *)
Definition policy_keeps_decodable (pol : policy_fn) : Prop :=
  forall s a nh onh ic a' nh', decodable a -> pol s a nh onh ic = Some (a', nh') -> decodable a'.

(* AS numbers are u32 in PeerExportContext *)
Definition wf_ctx (x : ectx) : Prop := x_lasn x < 4294967296 /\ x_confed x < 4294967296.

(* RFC 4271 5: an unrecognised optional transitive attribute is passed on with
   the Partial bit set, an unrecognised optional non-transitive one is dropped:
   every unknown transitive attribute of the route is sent (same code and value,
   Partial added), and every unknown attribute that is sent is one of those *)
Definition unknown_rule_ok (inp out : list attr) : Prop :=
  (forall a, In a inp -> unknown_attr a -> transitive a -> exists b, In b out /\ same_but_partial a b)
  /\ (forall b, In b out -> unknown_attr b ->
        partial_set b /\ exists a, In a inp /\ unknown_attr a /\ transitive a /\ same_but_partial a b).

(* ------------------------------------------------------------ reading a path back (RFC 4271 4.3) *)
(* [encode_path] is the wire format; this reader shows the segment view is not
   ambiguous: Proofs/Export.v proves [parse_path (encode_path p) = Some p]. *)
Fixpoint read_asns (cnt : nat) (b : list N) : option (list N * list N) :=
  match cnt with
  | O => Some ([], b)
  | S k =>
    match b with
    | x0 :: x1 :: x2 :: x3 :: r =>
      match read_asns k r with
      | Some (l, r') => Some (rd32 x0 x1 x2 x3 :: l, r')
      | None => None
      end
    | _ => None
    end
  end.

Fixpoint parse_path_fuel (fuel : nat) (b : list N) : option (list seg) :=
  match fuel with
  | O => match b with [] => Some [] | _ => None end
  | S f =>
    match b with
    | [] => Some []
    | [_] => None
    | t :: n :: rest =>
      match read_asns (N.to_nat n) rest with
      | Some (asns, r) =>
        match parse_path_fuel f r with Some p => Some ((t, asns) :: p) | None => None end
      | None => None
      end
    end
  end.
Definition parse_path (b : list N) : option (list seg) := parse_path_fuel (length b) b.

(* ------------------------------------------------------------ where BGP allows a route to go *)
(* RFC 4271 9.2 (no echo, iBGP-learned routes are not passed to iBGP peers),
   RFC 4456 6 (a reflector passes client routes to everybody and non-client routes
   to clients), RFC 7947 (route-server clients form a closed group).  [cid] is the
   cluster id of the session to the receiver ([None]: the speaker does not reflect
   on that session). *)
Definition may_send (s : source) (dest : role) (raddr : ipaddr) (cid : option N) : Prop :=
  ~ learned_from s raddr
  /\ (src_role s = RsClient <-> dest = RsClient)
  /\ (ibgp_peer_source s -> role_is_ibgp dest = true ->
        cid <> None /\ (src_role s = IbgpRrClient \/ dest = IbgpRrClient)).

(* Source.role agrees with the AS numbers of the session (session set-up, C07/C16) *)
Definition wf_source (s : source) : Prop :=
  forall ps, s = SrcPeer ps -> (ps_rasn ps = ps_lasn ps <-> role_is_ibgp (ps_role ps) = true).
