(* What property C09 demands, written from the property text and the RFCs it
   paraphrases (RFC 4271 5.1/9.1.2, RFC 4456 8, RFC 5065 5, RFC 7947, RFC 9494,
   RFC 4271 5 on unrecognised optional attributes).  No proofs in this file. *)
From Coq Require Import List NArith Bool.
From RB Require Import Base.Val Model.Export.
Import ListNotations.
Open Scope N_scope.

(* "across the route-server / non-route-server boundary": exactly one of the
   learned-from peer and the receiver is a route-server client *)
Definition crosses_rs_boundary (s : source) (dest : role) : Prop :=
  (src_role s = RsClient) <-> (dest <> RsClient).
