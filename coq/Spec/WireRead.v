(* A small structural reader of BGP messages, written from RFC 4271 (header,
   UPDATE layout, path attribute TLVs, prefix lists), RFC 7911 (path
   identifiers), RFC 4760 (MP_REACH_NLRI / MP_UNREACH_NLRI) and RFC 5492 / 4271
   4.2 (OPEN optional parameters and capability TLVs).  It is NOT a model of
   the Rust parser: it accepts exactly the byte strings whose length fields are
   mutually consistent and returns what they delimit.  gen/c04wire.py is its
   python mirror.  No proofs in this file. *)
From Coq Require Import List NArith Bool.
Import ListNotations.
Open Scope N_scope.

Definition blen (l : list N) : N := N.of_nat (length l).

Definition take (n : N) (l : list N) : option (list N * list N) :=
  if n <=? blen l then Some (firstn (N.to_nat n) l, skipn (N.to_nat n) l) else None.

Fixpoint all_ones (n : nat) (l : list N) : option (list N) :=
  match n with
  | O => Some l
  | S k => match l with 255 :: t => all_ones k t | _ => None end
  end.

(* RFC 4271 4.1: 16-octet marker of ones, 2-octet length of the whole message
   (19 .. max), 1-octet type.  Returns (type, body). *)
Definition read_frame (max : N) (fr : list N) : option (N * list N) :=
  match all_ones 16 fr with
  | Some (hi :: lo :: ty :: body) =>
      let n := hi * 256 + lo in
      if (n =? blen fr) && (19 <=? n) && (n <=? max) then Some (ty, body) else None
  | _ => None
  end.

(* RFC 4271 4.3: path attributes <flags, type, length (1 or 2 octets by the
   Extended Length bit), value>; the attributes must tile the block exactly. *)
Definition tlv : Type := N * N * list N.     (* flags, type code, value *)

Fixpoint read_attrs (fuel : nat) (b : list N) : option (list tlv) :=
  match b with
  | [] => Some []
  | _ =>
    match fuel with
    | O => None
    | S k =>
      match b with
      | fl :: code :: rest =>
          if N.testbit fl 4 then
            match rest with
            | hi :: lo :: rest' =>
                match take (hi * 256 + lo) rest' with
                | Some (v, rest'') =>
                    match read_attrs k rest'' with Some r => Some ((fl, code, v) :: r) | None => None end
                | None => None
                end
            | _ => None
            end
          else
            match rest with
            | n :: rest' =>
                match take n rest' with
                | Some (v, rest'') =>
                    match read_attrs k rest'' with Some r => Some ((fl, code, v) :: r) | None => None end
                | None => None
                end
            | _ => None
            end
      | _ => None
      end
    end
  end.

(* RFC 4271 4.3 / RFC 7911 3: a list of <[path identifier (4 octets)], length in
   bits, prefix (ceil(length / 8) octets)>.  Result: (path id, length, octets). *)
Definition prefix : Type := N * N * list N.

Fixpoint read_prefixes (fuel : nat) (addpath : bool) (maxbits : N) (b : list N) : option (list prefix) :=
  match b with
  | [] => Some []
  | _ =>
    match fuel with
    | O => None
    | S k =>
      match (if addpath then
               match b with
               | b0 :: b1 :: b2 :: b3 :: r => Some (((b0 * 256 + b1) * 256 + b2) * 256 + b3, r)
               | _ => None
               end
             else Some (0, b)) with
      | Some (pid, m :: r) =>
          if m <=? maxbits then
            match take ((m + 7) / 8) r with
            | Some (o, r') =>
                match read_prefixes k addpath maxbits r' with Some t => Some ((pid, m, o) :: t) | None => None end
            | None => None
            end
          else None
      | _ => None
      end
    end
  end.

(* RFC 4271 4.3: UPDATE = withdrawn routes length (2), withdrawn routes, total path
   attribute length (2), path attributes, NLRI (the rest of the message). *)
Record update_view := {
  u_withdrawn : list N;
  u_attrs : list tlv;
  u_nlri : list N
}.

Definition read_update (body : list N) : option update_view :=
  match body with
  | w1 :: w0 :: r =>
      match take (w1 * 256 + w0) r with
      | Some (wd, a1 :: a0 :: r') =>
          match take (a1 * 256 + a0) r' with
          | Some (ab, nl) =>
              match read_attrs (length ab) ab with
              | Some al => Some {| u_withdrawn := wd; u_attrs := al; u_nlri := nl |}
              | None => None
              end
          | None => None
          end
      | _ => None
      end
  | _ => None
  end.

(* RFC 4760 3: MP_REACH_NLRI = AFI (2), SAFI (1), next hop length (1), next hop,
   reserved (1), NLRI.  Result: (family, next hop octets, NLRI octets). *)
Definition read_mp_reach (v : list N) : option (N * list N * list N) :=
  match v with
  | a1 :: a0 :: s :: nl :: r =>
      match take nl r with
      | Some (nh, _ :: body) => Some ((a1 * 256 + a0) * 65536 + s, nh, body)
      | _ => None
      end
  | _ => None
  end.

(* RFC 4760 4: MP_UNREACH_NLRI = AFI (2), SAFI (1), withdrawn routes. *)
Definition read_mp_unreach (v : list N) : option (N * list N) :=
  match v with
  | a1 :: a0 :: s :: body => Some ((a1 * 256 + a0) * 65536 + s, body)
  | _ => None
  end.

Fixpoint find_attr (code : N) (l : list tlv) : option tlv :=
  match l with
  | [] => None
  | t :: r => if snd (fst t) =? code then Some t else find_attr code r
  end.

(* RFC 4271 4.2 / RFC 5492 4: OPEN = version, AS (2), hold time (2), identifier (4),
   optional parameters length (1), then <type, length, value> parameters that tile the
   rest exactly; a parameter of type 2 holds <code, length, value> capabilities that
   tile it exactly. *)
Fixpoint read_tlv8 (fuel : nat) (b : list N) : option (list (N * list N)) :=
  match b with
  | [] => Some []
  | _ =>
    match fuel with
    | O => None
    | S k =>
      match b with
      | t :: n :: r =>
          match take n r with
          | Some (v, r') => match read_tlv8 k r' with Some l => Some ((t, v) :: l) | None => None end
          | None => None
          end
      | _ => None
      end
    end
  end.

Record open_view := {
  o_version : N; o_as : N; o_hold : N; o_id : N;
  o_caps : list (N * list N)          (* capabilities of all type-2 parameters, in order *)
}.

Fixpoint caps_of_params (ps : list (N * list N)) : option (list (N * list N)) :=
  match ps with
  | [] => Some []
  | (t, v) :: r =>
      if t =? 2 then
        match read_tlv8 (length v) v, caps_of_params r with
        | Some c, Some cr => Some (c ++ cr)
        | _, _ => None
        end
      else caps_of_params r
  end.

Definition read_open (body : list N) : option open_view :=
  match body with
  | ver :: a1 :: a0 :: h1 :: h0 :: i3 :: i2 :: i1 :: i0 :: ol :: r =>
      if ol =? blen r then
        match read_tlv8 (length r) r with
        | Some ps =>
            match caps_of_params ps with
            | Some cs => Some {| o_version := ver; o_as := a1 * 256 + a0; o_hold := h1 * 256 + h0;
                                 o_id := ((i3 * 256 + i2) * 256 + i1) * 256 + i0; o_caps := cs |}
            | None => None
            end
        | None => None
        end
      else None
  | _ => None
  end.

(* RFC 8277 2.2 / 2.3 (labeled unicast) and RFC 4364 4.3.4 (VPN): an NLRI is
   <[path identifier], length in bits, label stack (3 octets per label: 20-bit value,
   3 bits, bottom-of-stack bit; the last label has the bit set), [route distinguisher
   (8 octets, VPN only)], prefix (ceil(bits / 8) octets)>, where length = 24 * labels
   (+ 64) + prefix bits. *)
Fixpoint read_labels (fuel : nat) (b : list N) : option (list N * list N) :=
  match fuel with
  | O => None
  | S k =>
      match b with
      | b0 :: b1 :: b2 :: r =>
          let v := ((b0 * 256 + b1) * 256 + b2) / 16 in
          if b2 mod 2 =? 1 then Some ([v], r)
          else match read_labels k r with Some (ls, r') => Some (v :: ls, r') | None => None end
      | _ => None
      end
  end.

Record lprefix := {
  lp_pid : N; lp_labels : list N; lp_rd : list N; lp_mask : N; lp_octets : list N
}.

Fixpoint read_lprefixes (fuel : nat) (addpath vpn : bool) (maxbits : N) (b : list N) : option (list lprefix) :=
  match b with
  | [] => Some []
  | _ =>
    match fuel with
    | O => None
    | S k =>
      match (if addpath then
               match b with
               | b0 :: b1 :: b2 :: b3 :: r => Some (((b0 * 256 + b1) * 256 + b2) * 256 + b3, r)
               | _ => None
               end
             else Some (0, b)) with
      | Some (pid, bits :: r) =>
          match read_labels (length r) r with
          | Some (ls, r1) =>
              match (if vpn then take 8 r1 else Some ([], r1)) with
              | Some (rd, r2) =>
                  let fixed := 24 * blen ls + (if vpn then 64 else 0) in
                  if (fixed <=? bits) && (bits - fixed <=? maxbits) then
                    match take ((bits - fixed + 7) / 8) r2 with
                    | Some (o, r3) =>
                        match read_lprefixes k addpath vpn maxbits r3 with
                        | Some t => Some ({| lp_pid := pid; lp_labels := ls; lp_rd := rd;
                                             lp_mask := bits - fixed; lp_octets := o |} :: t)
                        | None => None
                        end
                    | None => None
                    end
                  else None
              | None => None
              end
          | None => None
          end
      | _ => None
      end
    end
  end.
