(* What property C19 demands of a BMP message, written from RFC 7854 (and
   RFC 4271 §4.1 for the framing of an embedded BGP PDU), not from the Rust:
   a structural reader of the wire format and the well-formedness conditions
   the property text names.

   RFC 7854 §4.1  common header: Version(1)=3, Message Length(4) = length of the
                  whole message including the header, Message Type(1).
   §4.2  per-peer header (42 octets): Peer Type(1), Peer Flags(1), Peer
         Distinguisher(8), Peer Address(16), Peer AS(4), Peer BGP ID(4),
         Timestamp sec(4), usec(4).  V flag (0x80): the Peer Address is IPv6;
         when clear it is IPv4, stored in the last 4 octets, the first 12 zero.
   §4.3  Initiation: Information TLVs  Type(2) Length(2) Value(Length).
   §4.6  Route Monitoring: per-peer header followed by ONE BGP Update PDU.
   §4.9  Peer Down: per-peer header, Reason(1); reasons 1 and 3 are followed by
         a BGP NOTIFICATION PDU, reason 2 by a 2-octet FSM event code, reasons
         4 and 5 by nothing.
   §4.10 Peer Up: per-peer header, Local Address(16), Local Port(2), Remote
         Port(2), Sent OPEN PDU, Received OPEN PDU, optional Information TLVs. *)
From Coq Require Import List NArith Bool Arith.
From RB Require Import Base.BytesBuf.
Import ListNotations.
Open Scope N_scope.

(* ---------------------------------------------------- embedded BGP PDUs *)

Definition marker : bytes := repeat 255 16.

Definition BGP_OPEN : N := 1.
Definition BGP_UPDATE : N := 2.
Definition BGP_NOTIFICATION : N := 3.

(* One BGP message of type [ty] at the head of [bs] (RFC 4271 §4.1): 16 octets
   of ones, Length(2) covering the whole message, 19 <= Length, Type(1). *)
Definition read_pdu (ty : N) (bs : bytes) : option (bytes * bytes) :=
  let? (mk, r1) := take 16 bs in
  let? _ := guard (if list_eq_dec N.eq_dec mk marker then true else false) in
  let? (len, r2) := rd 2 r1 in
  let? _ := guard (19 <=? len) in
  let? (pdu, rest) := take (N.to_nat len) bs in
  let? (t, _) := rd 1 r2 in
  let? _ := guard (t =? ty) in
  Some (pdu, rest).

(* The contract assumed of an embedded BGP message produced by the BGP encoder
   (property C04, `frame_lengths_consistent`): it is one frame of type [ty]. *)
Definition frame_ok (ty : N) (f : bytes) : Prop :=
  exists rest, f = marker ++ be 2 (N.of_nat (length f)) ++ [ty] ++ rest
               /\ N.of_nat (length f) < 65536.

(* a concatenation of frames *)
Inductive frames_ok (ty : N) : list bytes -> bytes -> Prop :=
| frames_nil : frames_ok ty [] []
| frames_cons : forall f fs rest, frame_ok ty f -> frames_ok ty fs rest ->
                                  frames_ok ty (f :: fs) (f ++ rest).

(* ------------------------------------------------------- per-peer header *)

Record peer_view : Type := {
  pv_type : N; pv_flags : N; pv_dist : N; pv_addr : bytes (* 16 *);
  pv_as : N; pv_id : bytes (* 4 *); pv_sec : N; pv_usec : N
}.

Definition read_peer (bs : bytes) : option (peer_view * bytes) :=
  let? (ty, r) := rd 1 bs in
  let? (fl, r) := rd 1 r in
  let? (d, r) := rd 8 r in
  let? (a, r) := take 16 r in
  let? (asn, r) := rd 4 r in
  let? (id, r) := take 4 r in
  let? (s, r) := rd 4 r in
  let? (us, r) := rd 4 r in
  Some ({| pv_type := ty; pv_flags := fl; pv_dist := d; pv_addr := a; pv_as := asn;
           pv_id := id; pv_sec := s; pv_usec := us |}, r).

Definition v_flag (pv : peer_view) : bool := N.testbit (pv_flags pv) 7.

(* "address-family flags match the addresses encoded": with V clear the field
   must hold an IPv4 address in its last four octets behind twelve zero octets *)
Definition peer_addr_consistent (pv : peer_view) : Prop :=
  v_flag pv = false -> firstn 12 (pv_addr pv) = repeat 0 12.

(* the address the header denotes: (is IPv6, octets) *)
Definition peer_addr_denoted (pv : peer_view) : bool * bytes :=
  if v_flag pv then (true, pv_addr pv) else (false, skipn 12 (pv_addr pv)).

(* ------------------------------------------------------------------ TLVs *)

Fixpoint read_tlvs (fuel : nat) (bs : bytes) : option (list (N * bytes)) :=
  match bs with
  | [] => Some []
  | _ =>
    match fuel with
    | O => None
    | S fuel' =>
      let? (t, r) := rd 2 bs in
      let? (l, r) := rd 2 r in
      let? (v, r) := take (N.to_nat l) r in
      let? more := read_tlvs fuel' r in
      Some ((t, v) :: more)
    end
  end.

(* --------------------------------------------------------------- messages *)

Inductive bmp_view : Type :=
| VRouteMonitoring (p : peer_view) (update_pdu : bytes)
| VPeerDown (p : peer_view) (reason : N) (notification_pdu : option bytes) (fsm_code : option N)
| VPeerUp (p : peer_view) (local_addr : bytes) (local_port remote_port : N)
          (sent_open received_open : bytes) (info : list (N * bytes))
| VInitiation (info : list (N * bytes))
(* kinds daemon/src/bmp.rs never sends (RFC 7854 4.8, 4.5, 4.7) *)
| VStats (p : peer_view) (count : N) (stats : list (N * bytes))
| VTermination (info : list (N * bytes))
| VMirroring (p : peer_view) (tlvs : list (N * bytes)).

Definition read_body (ty : N) (body : bytes) : option bmp_view :=
  match ty with
  | 0 =>
    let? (p, r) := read_peer body in
    let? (pdu, rest) := read_pdu BGP_UPDATE r in
    let? _ := guard (match rest with [] => true | _ => false end) in   (* exactly one PDU *)
    Some (VRouteMonitoring p pdu)
  | 2 =>
    let? (p, r) := read_peer body in
    let? (reason, r) := rd 1 r in
    if (reason =? 1) || (reason =? 3) then
      let? (pdu, rest) := read_pdu BGP_NOTIFICATION r in
      let? _ := guard (match rest with [] => true | _ => false end) in
      Some (VPeerDown p reason (Some pdu) None)
    else if reason =? 2 then
      let? (code, rest) := rd 2 r in
      let? _ := guard (match rest with [] => true | _ => false end) in
      Some (VPeerDown p reason None (Some code))
    else if (reason =? 4) || (reason =? 5) then
      let? _ := guard (match r with [] => true | _ => false end) in
      Some (VPeerDown p reason None None)
    else None
  | 3 =>
    let? (p, r) := read_peer body in
    let? (la, r) := take 16 r in
    let? (lp, r) := rd 2 r in
    let? (rp, r) := rd 2 r in
    let? (sent, r) := read_pdu BGP_OPEN r in
    let? (recv, r) := read_pdu BGP_OPEN r in
    let? info := read_tlvs (length r) r in
    Some (VPeerUp p la lp rp sent recv info)
  | 4 =>
    let? info := read_tlvs (length body) body in
    Some (VInitiation info)
  | 1 =>      (* Statistics Report: per-peer header, Stats Count(4), that many (Type(2) Length(2) Data) *)
    let? (p, r) := read_peer body in
    let? (cnt, r) := rd 4 r in
    let? st := read_tlvs (length r) r in
    let? _ := guard (N.of_nat (length st) =? cnt) in
    Some (VStats p cnt st)
  | 5 =>      (* Termination: one or more TLVs *)
    let? info := read_tlvs (length body) body in
    let? _ := guard (match info with [] => false | _ => true end) in
    Some (VTermination info)
  | 6 =>      (* Route Mirroring: per-peer header, TLVs *)
    let? (p, r) := read_peer body in
    let? tl := read_tlvs (length r) r in
    Some (VMirroring p tl)
  | _ => None
  end.

(* One BMP message at the head of [bs]: (Message Length field, view, rest). *)
Definition read_bmp (bs : bytes) : option (N * bmp_view * bytes) :=
  let? (ver, r) := rd 1 bs in
  let? _ := guard (ver =? 3) in
  let? (len, r) := rd 4 r in
  let? (ty, r) := rd 1 r in
  let? _ := guard (6 <=? len) in
  let? (body, rest) := take (N.to_nat len - 6) r in
  let? v := read_body ty body in
  Some (len, v, rest).

(* a stream of BMP messages *)
Fixpoint read_bmp_stream (fuel : nat) (bs : bytes) : option (list bmp_view) :=
  match bs with
  | [] => Some []
  | _ =>
    match fuel with
    | O => None
    | S fuel' =>
      let? (_, v, rest) := read_bmp bs in
      let? more := read_bmp_stream fuel' rest in
      Some (v :: more)
    end
  end.

(* ----------------------------------------------- the intended content *)
(* What each message handed to the encoder is meant to say, as a view; and the
   typing side conditions of the Rust values (u8/u16/u32/u64 fields, address
   lengths), which are not properties of the code but of its input types. *)
From RB Require Import Model.Bmp.

Definition wf_ip (a : ip) : Prop :=
  match a with IP4 b => length b = 4%nat | IP6 b => length b = 16%nat end.

Definition wf_pph (h : pph) : Prop :=
  p_type h < 256 /\ p_flags h < 256 /\ p_asn h < 2 ^ 32 /\ length (p_id h) = 4%nat
  /\ p_dist h < 2 ^ 64 /\ wf_ip (p_addr h) /\ p_ts h < 2 ^ 32.

(* the caller-supplied flags do not already claim the V bit *)
Definition flags_no_v (h : pph) : Prop := N.testbit (p_flags h) 7 = false.

Definition view_pph (h : pph) : peer_view :=
  {| pv_type := p_type h;
     pv_flags := N.lor (p_flags h) (if is_v6 (p_addr h) then 128 else 0);
     pv_dist := p_dist h; pv_addr := encode_ip (p_addr h); pv_as := p_asn h;
     pv_id := p_id h; pv_sec := p_ts h; pv_usec := 0 |}.

Definition wf_tlv (t : N * bytes) : Prop := fst t < 65536 /\ N.of_nat (length (snd t)) < 65536.

(* the messages the daemon emits (daemon/src/bmp.rs): Initiation, Peer Up,
   Peer Down, Route Monitoring; with well-typed fields and, for Peer Up / Peer
   Down, embedded blobs that are single frames of the right BGP type (an OPEN or
   a NOTIFICATION is never split by the BGP encoder) *)
Definition wf_msg (m : bmp_msg) : Prop :=
  match m with
  | RouteMonitoring h blob => wf_pph h
  | PeerDown h r =>
      wf_pph h /\ (match r with
       | LocalNotification b | RemoteNotification b => frame_ok BGP_NOTIFICATION b
       | LocalFsm c => c < 65536
       | _ => True
       end)
  | PeerUp h la lp rp lo ro =>
      wf_pph h /\ wf_ip la /\ lp < 65536 /\ rp < 65536 /\ frame_ok BGP_OPEN lo /\ frame_ok BGP_OPEN ro
  | Initiation tlvs => Forall wf_tlv tlvs
  | _ => False
  end.

(* `len as u32` does not truncate: the bytes of one item, were they written as
   one message, fit the 32-bit Message Length (a fortiori each message does) *)
Definition msg_len_ok (m : bmp_msg) : Prop := N.of_nat (6 + length (body_encode m)) < 2 ^ 32.

Definition view_of (m : bmp_msg) : option bmp_view :=
  match m with
  | PeerDown h r =>
      Some (VPeerDown (view_pph h) (reason_code r)
              (match r with LocalNotification b | RemoteNotification b => Some b | _ => None end)
              (match r with LocalFsm c => Some c | _ => None end))
  | PeerUp h la lp rp lo ro => Some (VPeerUp (view_pph h) (encode_ip la) lp rp lo ro [])
  | Initiation tlvs => Some (VInitiation tlvs)
  | _ => None
  end.

(* The intended content of one item handed to the encoder, as the list of BMP
   messages a reader must see.  A monitored UPDATE that the BGP encoder rendered
   as the frames [fs] (at least one) is one Route Monitoring message per frame,
   all under the same per-peer header (RFC 7854 section 4.6: one UPDATE PDU per
   message); every other item is one message. *)
Inductive views : bmp_msg -> list bmp_view -> Prop :=
| views_rm : forall h blob fs, fs <> [] -> frames_ok BGP_UPDATE fs blob ->
    views (RouteMonitoring h blob) (map (VRouteMonitoring (view_pph h)) fs)
| views_one : forall m v, view_of m = Some v -> views m [v].

(* "a common header whose length equals the bytes that follow": the Message
   Length field of [msg] equals the length of [msg] (RFC 7854 counts the header) *)
Definition common_length_exact (msg : bytes) : Prop :=
  exists ver len ty following,
    msg = [ver] ++ be 4 len ++ [ty] ++ following /\ len < 2 ^ 32 /\ len = N.of_nat (length msg).

(* Finding C19-3 (known_findings.json, fixed): the class of monitored announcements
   whose embedded UPDATE used to lose its next hop, an IPv4-unicast route with an
   IPv6 next hop (RFC 8950).  BmpCodec / MrtCodec now select the MP_REACH_NLRI form
   for exactly this class (Model/MonConv.v [needs_rfc8950]); the predicate mirrors
   the class [known3] of the oracle of gen/c19.py. *)
Definition Known_C19_3 (family : N) (nexthop : option bytes) : Prop :=
  family = 65537 /\ exists nh, nexthop = Some nh /\ (length nh = 16%nat \/ length nh = 32%nat).

Definition known_c19_3b (family : N) (nexthop : option bytes) : bool :=
  (family =? 65537) &&
  match nexthop with
  | Some nh => Nat.eqb (length nh) 16 || Nat.eqb (length nh) 32
  | None => false
  end.
