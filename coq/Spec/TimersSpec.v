(* What property C08 says, in the vocabulary of the driver model's traces.
   Definitions only; written from the property text (and RFC 4271 sections
   4.2, 4.4, 8 and 10), not from the Rust. *)
From Coq Require Import List NArith Bool.
From RB Require Import Base.Val Model.Caps Model.Fsm Model.Timers.
Import ListNotations.
Open Scope N_scope.

(* "The hold time in force is the smaller of the two advertised values and
   the keepalive interval one third of it" *)
Definition hold_in_force (local remote : N) : N := N.min local remote.
Definition keepalive_of (hold : N) : N := hold / 3.

(* hold times a configuration / an OPEN can carry (RFC 4271 4.2: 0 or >= 3, 16 bits) *)
Definition hold_ok (h : N) : Prop := h = 0 \/ (3 <= h /\ h <= 65535).

(* ------------------------------------------------------------ vocabulary *)

(* the connection this task drives *)
Definition my_conn (d : drv) : option conn := slot (d_p d) (d_role d).

(* the OPEN exchange is over: both OPENs have been exchanged *)
Definition after_open (c : conn) : bool :=
  match c_state c with OpenConfirm | Established => true | _ => false end.

(* a timer that is not running *)
Definition stopped (s : tslot) : Prop := s = TNever.

(* the step tore the session down for hold-timer expiry *)
Definition timer_down (l : lbl) : bool :=
  match l_res l with Term RHoldExpired _ => true | _ => false end.

(* the step received a KEEPALIVE or an UPDATE (or the OPEN that starts the
   hold time), whether or not the driver showed it to the FSM, and the session
   went on *)
Definition received_ku (l : lbl) : bool :=
  match l_act l, l_res l with
  | ARx MKeepalive, Cont | ARx MUpdate, Cont | ARx (MOpen _ _ _ _), Cont | ASkipLoop, Cont => true
  | _, _ => false
  end.

(* time of the last such step, given the one before the steps [ls] *)
Definition last_rx (g : option N) (ls : list lbl) : option N :=
  fold_left (fun g l => if received_ku l then Some (l_time l) else g) ls g.

(* a connection task created on a peer whose slot for that role is free *)
Definition task (c : cfg) (p : pfsm) (r : role) (t0 : N) (b : bool) (evs : list ev) : drv * list lbl :=
  session c p r t0 b evs.

(* "zero disables it": no hold or keepalive timer runs after the OPEN exchange *)
Definition zero_disables (d : drv) : Prop :=
  forall cn, d_live d = true -> my_conn d = Some cn -> after_open cn = true -> c_neg_hold cn = 0 ->
             stopped (d_hold d) /\ stopped (d_ka d).

(* "the hold timer is re-armed by every KEEPALIVE or UPDATE received and by
   nothing else": with a hold time h > 0 in force the hold deadline is the time
   of the last reception plus h *)
Definition hold_follows_rx (d : drv) (tr : list lbl) : Prop :=
  forall cn, d_live d = true -> my_conn d = Some cn -> after_open cn = true -> c_neg_hold cn <> 0 ->
             exists t, last_rx None tr = Some t /\ t <= d_now d /\ d_hold d = TAt (t + c_neg_hold cn).
