(* What property C08 says, in the vocabulary of the driver model's traces.
   Definitions only; written from the property text (and RFC 4271 sections
   4.2, 4.4, 8 and 10), not from the Rust. *)
From Coq Require Import List NArith Bool.
From RB Require Import Base.Val Model.Caps Model.Fsm Model.Timers.
Import ListNotations.
Open Scope N_scope.

(* "The hold time in force is the smaller of the two advertised values and
   the keepalive interval one third of it" *)
Definition hold_in_force (local remote : N) : N := N.min local remote.
Definition keepalive_of (hold : N) : N := hold / 3.

(* hold times a configuration / an OPEN can carry (RFC 4271 4.2: 0 or >= 3, 16 bits) *)
Definition hold_ok (h : N) : Prop := h = 0 \/ (3 <= h /\ h <= 65535).
