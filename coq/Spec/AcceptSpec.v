(* What property C16 says about admission, written from the property text:
   "A TCP connection becomes a BGP session only if its remote address is a
   configured neighbour that is administratively up and has no other
   connection in the same direction, or lies inside a configured
   dynamic-neighbour prefix; any other connection is dropped ... and a dynamic
   neighbour's state disappears when its last connection ends."
   Definitions only. *)
From Coq Require Import List NArith Bool.
From RB Require Import Base.Val Model.Caps Model.Fsm Model.Negotiate Model.Accept Spec.NegotiateSpec.
Import ListNotations.
Open Scope N_scope.

Definition configured (g : global) (a : ipaddr) (p : peer) : Prop := lookup a (gl_peers g) = Some p.

(* the address lies inside a configured dynamic-neighbour prefix (bit-level) *)
Definition in_dynamic_prefix (g : global) (a : ipaddr) : Prop :=
  exists gr n, In gr (gl_groups g) /\ In n (g_prefixes gr) /\ inside n a.

(* the condition of the text *)
Definition permitted_text (g : global) (a : ipaddr) (r : role) : Prop :=
  (exists p, configured g a p /\ pe_admin_down p = false /\ conn_of p r = false)
  \/ in_dynamic_prefix g a.

(* the decision: a configured neighbour is judged as such, dynamic prefixes
   are for addresses that are not configured *)
Definition permitted (g : global) (a : ipaddr) (r : role) : Prop :=
  (exists p, configured g a p /\ pe_admin_down p = false /\ conn_of p r = false)
  \/ (lookup a (gl_peers g) = None /\ in_dynamic_prefix g a).

(* configurations that can be written down: prefixes come from FromStr *)
Definition wf_global (g : global) : Prop :=
  forall gr n, In gr (gl_groups g) -> In n (g_prefixes gr) -> net_ok n /\ mask_of n <= width n.

Definition keys_ok (g : global) : Prop := NoDup (map fst (gl_peers g)).

(* roles, from the configured AS numbers (RFC 4271 / 4456 / 5065 / 7947) *)
Definition role_of_config (confed_members : list N) (rs_client rr_client_flag : bool) (remote_as local_as : N) : N :=
  if rs_client then 1
  else if negb (local_as =? 0) && (remote_as =? local_as) then (if rr_client_flag then 3 else 2)
  else if existsb (N.eqb remote_as) confed_members then 4 else 0.

(* a dynamic neighbour that is in the table has a connection *)
Definition dynamic_have_connection (g : global) : Prop :=
  forall a p, lookup a (gl_peers g) = Some p -> pe_delete p = true ->
              pe_conn_active p = true \/ pe_conn_passive p = true.
