(* What property C04 demands of the encoder, stated with the structural reader
   of Spec/WireRead.v.  Written from the property text and RFC 4271 / 4760 /
   7911 / 6793 / 5492; no proofs in this file. *)
From Coq Require Import List NArith Bool.
From RB Require Import Base.Val Model.Caps Model.WireEnc Spec.WireRead.
Import ListNotations.
Open Scope N_scope.

(* ---- attributes on the wire *)
(* the <flags, type, value> triple an attribute value denotes; the Extended Length bit
   is the documented canonicalisation: it is set exactly when the value needs it or the
   stored flags carry it *)
Definition attr_tlv (a : attr) : tlv :=
  match a_data a with
  | AVal v => (a_flags a, a_code a, if a_code a =? 1 then [v mod 256] else be32 v)
  | ABin b | AOpaque b =>
      (if 255 <? blen b then N.lor (a_flags a) 16 else a_flags a, a_code a, b)
  end.

Definition tlv_bytes (t : tlv) : list N :=
  let '(fl, code, v) := t in
  [fl; code] ++ (if N.testbit fl 4 then be16 (blen v) else [blen v]) ++ v.

Definition tlv_ok (t : tlv) : Prop :=
  let '(fl, code, v) := t in if N.testbit fl 4 then blen v < 65536 else blen v < 256.

(* a value attribute (ORIGIN, MED, LOCAL_PREF, ORIGINATOR_ID) has its canonical flags,
   which never include Extended Length *)
Definition attr_wf (a : attr) : Prop :=
  match a_data a with AVal _ => N.testbit (a_flags a) 4 = false | _ => True end.

(* the attributes the sender writes for the attribute list of a message: RFC 6793 4.2.2 on
   a two-octet-AS session (AS_PATH / AGGREGATOR down-converted, AS4_PATH / AS4_AGGREGATOR
   added when an AS number does not fit), the list itself otherwise *)
Fixpoint wire_attrs (two : bool) (l : list attr) : res (list attr) :=
  match l with
  | [] => Ok []
  | a :: t =>
      w <- (if two then attrs_2byte a else Ok [a]) ;;
      r <- wire_attrs two t ;;
      Ok (w ++ r)
  end.

(* ---- routes *)
Definition sig_octets (m : N) (a : list N) : list N := firstn (N.to_nat ((m + 7) / 8)) a.

(* a plain prefix (IPv4 / IPv6 unicast or multicast NLRI) as the peer must read it: the
   path identifier travels only when ADD-PATH is negotiated for sending (RFC 7911) *)
Definition plain (maxbits : N) (e : pnlri) : Prop :=
  fst e < 4294967296 /\
  match snd e with
  | NV4 m a | NV6 m a => m <= maxbits /\ m < 256 /\ (m + 7) / 8 <= blen a
  | _ => False
  end.

Definition canon_prefix (ap : bool) (e : pnlri) : prefix :=
  match snd e with
  | NV4 m a | NV6 m a => (if ap then fst e else 0, m, sig_octets m a)
  | _ => (0, 0, [])
  end.

(* ---- where the NLRI of an UPDATE frame are (legacy IPv4 form / multiprotocol form) *)
Definition legacy (c : codec) (f : N) : bool := (f =? F_IPV4) && negb (ext_nh c).

Record reach_view := {
  rv_family : N;
  rv_nexthop : list N;          (* octets of the NEXT_HOP attribute / MP next hop field *)
  rv_attrs : list tlv;          (* every other path attribute, in order *)
  rv_nlri : list N              (* the NLRI octets *)
}.

Definition is_code (c : N) (t : tlv) : bool := snd (fst t) =? c.

Definition read_reach (max : N) (leg : bool) (fr : list N) : option reach_view :=
  match read_frame max fr with
  | Some (2, body) =>
      match read_update body with
      | Some u =>
          if leg then
            match u_withdrawn u with
            | [] =>
                Some {| rv_family := F_IPV4;
                        rv_nexthop := match find_attr 3 (u_attrs u) with Some t => snd t | None => [] end;
                        rv_attrs := filter (fun t => negb (is_code 3 t)) (u_attrs u);
                        rv_nlri := u_nlri u |}
            | _ => None
            end
          else
            match u_withdrawn u, u_nlri u, find_attr 14 (u_attrs u) with
            | [], [], Some t =>
                match read_mp_reach (snd t) with
                | Some (f, nh, nl) =>
                    Some {| rv_family := f; rv_nexthop := nh;
                            rv_attrs := filter (fun t => negb (is_code 14 t)) (u_attrs u);
                            rv_nlri := nl |}
                | None => None
                end
            | _, _, _ => None
            end
      | None => None
      end
  | _ => None
  end.

(* (family, withdrawn NLRI octets) of a withdrawal frame *)
Definition read_unreach (max : N) (leg : bool) (fr : list N) : option (N * list N) :=
  match read_frame max fr with
  | Some (2, body) =>
      match read_update body with
      | Some u =>
          if leg then
            match u_attrs u, u_nlri u with
            | [], [] => Some (F_IPV4, u_withdrawn u)
            | _, _ => None
            end
          else
            match u_withdrawn u, u_nlri u, u_attrs u with
            | [], [], [t] => if is_code 15 t then read_mp_unreach (snd t) else None
            | _, _, _ => None
            end
      | None => None
      end
  | _ => None
  end.

(* the next hop octets the peer must find (RFC 4271 5.1.3, RFC 4760 3, RFC 4364 4.3.2,
   RFC 4659 3.2.1.1, RFC 8955 4) for the (family, next hop) pairs a speaker announces *)
Definition expected_nexthop (f : N) (nh : list N) : list N :=
  if is_flowspec f then []
  else if is_vpn f then
    if blen nh =? 32 then zeros 8 ++ firstn 16 nh ++ zeros 8 ++ skipn 16 nh else zeros 8 ++ nh
  else if (blen nh =? 4) && (afi f =? 2) && negb (nh_as_is f) then
    zeros 10 ++ [255; 255] ++ nh       (* RFC 4798 2: the IPv4-mapped IPv6 address, AFI 2 needs 16 octets *)
  else nh.

(* ---- capabilities (RFC 5492: <code, length, value>) *)
Definition cap_tlv (c : cap) : N * list N :=
  match c with
  | CMultiProtocol f => (1, be16 (afi f) ++ [0; safi f])                                   (* RFC 4760 8 *)
  | CRouteRefresh => (2, [])                                                               (* RFC 2918 *)
  | CExtNexthop l => (5, flat_map (fun x => be16 (afi (fst x)) ++ be16 (safi (fst x)) ++ be16 (snd x)) l)  (* RFC 8950 4 *)
  | CExtMessage => (6, [])                                                                 (* RFC 8654 *)
  | CGR fl t l => (64, be16 (N.lor ((fl * 4096) mod 65536) t) ++ flat_map (fun x => be16 (afi (fst x)) ++ [safi (fst x); snd x]) l)  (* RFC 4724 3 *)
  | CFourOctet a => (65, be32 a)                                                           (* RFC 6793 3 *)
  | CAddPath l => (69, flat_map (fun x => be16 (afi (fst x)) ++ [safi (fst x); snd x]) l)  (* RFC 7911 4 *)
  | CEnhancedRR => (70, [])                                                                (* RFC 7313 *)
  | CLLGR l => (71, flat_map (fun x => be16 (afi (fst (fst x))) ++ [safi (fst (fst x)); snd (fst x)] ++
                                       [(snd x / 65536) mod 256; (snd x / 256) mod 256; snd x mod 256]) l)  (* RFC 9494 3 *)
  | CFqdn h d => (73, [blen h mod 256] ++ map lower h ++ [blen d mod 256] ++ map lower d)  (* draft-walton-bgp-hostname *)
  | CUnknown code b => (code, b)
  end.

(* a family value as the daemon holds it: AFI in the upper, SAFI in the lowest octet *)
Definition fam_ok (f : N) : Prop := f = fam (afi f) (safi f) /\ afi f < 65536.

Definition maxbits_of (f : N) : N := if afi f =? 1 then 32 else 128.

(* (family, next hop) pairs a speaker announces: an IPv4 next hop in the legacy form; in
   MP_REACH_NLRI none for Flowspec, an address of 4 / 16 / 32 octets otherwise (for AFI 2 a
   4-octet address travels IPv4-mapped, see expected_nexthop) *)
Definition nh_representable (c : codec) (f : N) (b : list N) : Prop :=
  if legacy c f then blen b = 4
  else blen b < 248 /\
       (is_flowspec f = true \/ is_vpn f = true \/ 16 <= blen b \/ nh_as_is f = true \/ blen b = 4 \/ (blen b <> 0 /\ afi f <> 2)).

Definition expected_nh (c : codec) (f : N) (b : list N) : list N :=
  if legacy c f then b else expected_nexthop f b.

Definition code_not (cd : N) (l : list attr) : Prop := Forall (fun a => a_code a <> cd) l.

(* What the peer must be able to read from one frame of a Reach whose share of the entries
   is [chunk]: the family, the attributes as written ([ws], the same in every frame), the
   next hop, and exactly the prefixes of the chunk, in order. *)
Definition reach_frame_ok (c : codec) (f : N) (nh : option (list N)) (ws : list attr) (nonempty : Prop)
           (fr : list N) (chunk : list pnlri) : Prop :=
  exists v,
    read_reach (max_len c) (legacy c f) fr = Some v /\
    rv_family v = f /\ rv_attrs v = map attr_tlv ws /\
    (forall b, nonempty -> nh = Some b -> nh_representable c f b -> rv_nexthop v = expected_nh c f b) /\
    read_prefixes (length (rv_nlri v)) (addpath_for c f) (maxbits_of f) (rv_nlri v)
      = Some (map (canon_prefix (addpath_for c f)) chunk).


(* What the peer must be able to read from one frame of an Unreach whose share of the
   entries is [chunk]: the family and exactly the withdrawn prefixes of the chunk. *)
Definition unreach_frame_ok (c : codec) (f : N) (fr : list N) (chunk : list pnlri) : Prop :=
  exists wd,
    read_unreach (max_len c) (legacy c f) fr = Some (f, wd) /\
    read_prefixes (length wd) (addpath_for c f) (maxbits_of f) wd
      = Some (map (canon_prefix (addpath_for c f)) chunk).

(* The same for NLRI of ANY family (labeled, VPN, or the families whose NLRI enter the model as
   their wire bytes): the NLRI field of the frame is exactly the concatenation of the
   encodings of the entries of its chunk. *)
Definition reach_frame_bytes (p : profile) (c : codec) (f : N) (nh : option (list N)) (ws : list attr)
           (nonempty : Prop) (fr : list N) (chunk : list pnlri) : Prop :=
  exists v,
    read_reach (max_len c) (legacy c f) fr = Some v /\
    rv_family v = f /\ rv_attrs v = map attr_tlv ws /\
    (forall b, nonempty -> nh = Some b -> nh_representable c f b -> rv_nexthop v = expected_nh c f b) /\
    exists bs, Forall2 (fun e b => enc_pnlri p (addpath_for c f) false e = Ok b) chunk bs /\
               rv_nlri v = concat bs.

Definition unreach_frame_bytes (p : profile) (c : codec) (f : N) (fr : list N) (chunk : list pnlri) : Prop :=
  exists wd,
    read_unreach (max_len c) (legacy c f) fr = Some (f, wd) /\
    exists bs, Forall2 (fun e b => enc_pnlri p (addpath_for c f) true e = Ok b) chunk bs /\ wd = concat bs.

(* families inside a capability are well-formed family values *)
Definition cap_wf (c : cap) : Prop :=
  match c with
  | CExtNexthop l => Forall (fun x => fam_ok (fst x)) l
  | _ => True
  end.

(* the OPEN the peer must be able to read: version 4, the two-octet AS field (AS_TRANS when the
   AS number needs four octets, RFC 6793 4.1), hold time, identifier, and the capabilities in
   order as <code, value> *)
Definition open_ok (max : N) (asn hold rid : N) (caps : list cap) (fr : list N) : Prop :=
  exists body v,
    read_frame max fr = Some (1, body) /\ read_open body = Some v /\
    o_version v = 4 /\ o_as v = (if 65535 <? asn then 23456 else asn) /\ o_hold v = hold /\ o_id v = rid /\
    o_caps v = map cap_tlv caps.

(* ---- RFC 6793 4.2.3: reconstructing the AS path from AS_PATH and AS4_PATH, on segment
   lists <type, AS numbers> (1 = AS_SET, 2 = AS_SEQUENCE, 3/4 = confederation segments) *)
Definition seg : Type := N * list N.
Definition seg_hops (s : seg) : N :=
  if fst s =? 1 then 1 else if fst s =? 2 then len (snd s) else 0.
Fixpoint hops (l : list seg) : N :=
  match l with [] => 0 | s :: t => seg_hops s + hops t end.

(* the leading [n] hops of a path *)
Fixpoint take_hops (n : N) (l : list seg) : list seg :=
  match l with
  | [] => []
  | s :: t =>
      if n =? 0 then []
      else if fst s =? 2 then
        let k := N.min n (len (snd s)) in
        (2, firstn (N.to_nat k) (snd s)) :: take_hops (n - k) t
      else if fst s =? 1 then s :: take_hops (n - 1) t
      else s :: take_hops n t
  end.

Definition as4_reconcile (as_path as4_path : list seg) : list seg :=
  if hops as_path <? hops as4_path then as_path
  else take_hops (hops as_path - hops as4_path) as_path ++ as4_path.

Definition seg_down (s : seg) : seg := (fst s, map as2 (snd s)).
Definition not_confed (s : seg) : bool := negb (seg_confed s).

(* ---- the receiving side of a negotiated codec, and message types (RFC 4271 4.1) *)
Definition addpath_rx_for (c : codec) (f : N) : bool :=
  match fam_state (fams c) f with Some s => addpath_rx s | None => false end.
Definition negotiated (c : codec) (f : N) : bool :=
  match fam_state (fams c) f with Some _ => true | None => false end.
Definition msg_type (m : msg) : N :=
  match m with MOpen _ _ _ _ => 1 | MReach _ _ _ _ | MUnreach _ _ | MEor _ => 2 | MNotif _ _ _ => 3 | MKeepalive => 4 | MRefresh _ => 5 end.

(* ---- labeled-unicast and VPN entries (RFC 8277, RFC 4364) as the peer must read them *)
Definition labeled (vpn : bool) (maxbits : N) (e : pnlri) : Prop :=
  fst e < 4294967296 /\
  match snd e with
  | NLab4 ls m a | NLab6 ls m a =>
      vpn = false /\ ls <> [] /\ Forall (fun v => v < 1048576) ls /\
      m <= maxbits /\ 24 * blen ls + m < 256 /\ (m + 7) / 8 <= blen a
  | NVpn4 ls rd m a | NVpn6 ls rd m a =>
      vpn = true /\ ls <> [] /\ Forall (fun v => v < 1048576) ls /\ blen rd = 8 /\
      m <= maxbits /\ 24 * blen ls + 64 + m < 256 /\ (m + 7) / 8 <= blen a
  | _ => False
  end.

Definition canon_lprefix (ap : bool) (e : pnlri) : lprefix :=
  match snd e with
  | NLab4 ls m a | NLab6 ls m a =>
      {| lp_pid := if ap then fst e else 0; lp_labels := ls; lp_rd := []; lp_mask := m; lp_octets := sig_octets m a |}
  | NVpn4 ls rd m a | NVpn6 ls rd m a =>
      {| lp_pid := if ap then fst e else 0; lp_labels := ls; lp_rd := rd; lp_mask := m; lp_octets := sig_octets m a |}
  | _ => {| lp_pid := 0; lp_labels := []; lp_rd := []; lp_mask := 0; lp_octets := [] |}
  end.

Definition reach_frame_labeled_ok (c : codec) (f : N) (vpn : bool) (nh : option (list N)) (ws : list attr)
           (nonempty : Prop) (fr : list N) (chunk : list pnlri) : Prop :=
  exists v,
    read_reach (max_len c) (legacy c f) fr = Some v /\
    rv_family v = f /\ rv_attrs v = map attr_tlv ws /\
    (forall b, nonempty -> nh = Some b -> nh_representable c f b -> rv_nexthop v = expected_nh c f b) /\
    read_lprefixes (length (rv_nlri v)) (addpath_for c f) vpn (maxbits_of f) (rv_nlri v)
      = Some (map (canon_lprefix (addpath_for c f)) chunk).
