(* What property C07 says, in terms of the model's inputs, outputs and
   slots.  Definitions only; written from the property text, not from
   fsm.rs. *)
From Coq Require Import List NArith Bool.
From RB Require Import Base.Val Model.Caps Model.Fsm.
Import ListNotations.
Open Scope N_scope.

(* ------------------------------------------------------------ vocabulary *)

Definition confirmed (s : st) : bool :=
  match s with OpenConfirm | Established => true | _ => false end.

Definition live_state (s : st) : bool :=
  match s with OpenSent | OpenConfirm | Established => true | _ => false end.

(* messages the state allows (RFC 4271 section 8 as implemented) *)
Definition allowed (s : st) (m : msg) : bool :=
  match m, s with
  | MOpen _ _ _ _, OpenSent => true
  | MKeepalive, (OpenConfirm | Established) => true
  | MUpdate, Established => true
  | MRefresh _, Established => true
  | MNotif _ _, _ => true
  | _, _ => false
  end.

Definition asn_acceptable (expected asn : N) : Prop := expected = 0 \/ expected = asn.

Definition is_connected (i : input) : bool :=
  match i with Connected _ => true | _ => false end.

(* history, most recent input first *)
Fixpoint run_rev (p0 : pfsm) (rins : list (role * input)) : pfsm :=
  match rins with
  | [] => p0
  | x :: older => fst (peer_step (run_rev p0 older) (fst x) (snd x))
  end.

Definition alive (p : pfsm) (r : role) : bool :=
  match slot p r with Some _ => true | None => false end.

(* "slot r has been occupied continuously since (and including) the point
   where the history was [l] with Q l" *)
Fixpoint alive_since (p0 : pfsm) (r : role) (Q : list (role * input) -> Prop)
         (rins : list (role * input)) : Prop :=
  match rins with
  | [] => False
  | x :: older =>
      alive (run_rev p0 rins) r = true /\ (Q rins \/ alive_since p0 r Q older)
  end.

Lemma alive_since_mono p0 r (Q Q' : _ -> Prop) l :
  (forall l', Q l' -> Q' l') -> alive_since p0 r Q l -> alive_since p0 r Q' l.
Proof.
  intros HQ. induction l as [|x xs IH]; cbn [alive_since]; [tauto|].
  intros [Ha [H|H]]; split; auto.
Qed.

(* the three events of a valid OPEN exchange, seen from the newest input back *)
Definition ev_connected (p0 : pfsm) (r : role) (l : list (role * input)) : Prop :=
  exists b older, l = (r, Connected b) :: older /\ alive (run_rev p0 older) r = false.

Definition ev_open (p0 : pfsm) (r : role) (l : list (role * input)) : Prop :=
  exists asn id hold caps older,
    l = (r, Recv (MOpen asn id hold caps)) :: older
    /\ asn_acceptable (p_expected_asn p0) asn
    /\ alive_since p0 r (ev_connected p0 r) older.

Definition ev_keepalive (p0 : pfsm) (r : role) (l : list (role * input)) : Prop :=
  exists older, l = (r, Recv MKeepalive) :: older /\ alive_since p0 r (ev_open p0 r) older.


(* inputs after which the connection must be back in Idle *)
Definition down_input (i : input) : bool :=
  match i with
  | Recv (MNotif _ _) | HoldExpired | Disconnected | AdminShutdown => true
  | _ => false
  end.


Definition fresh (p : pfsm) : Prop := p_active p = None /\ p_passive p = None.

Definition both_confirmed (p : pfsm) : Prop :=
  confirmed (pstate p RActive) = true /\ confirmed (pstate p RPassive) = true.
