(* What property C11 demands of the restarting speaker, written from the
   property text over event histories (not from the Rust).  No proofs here.

   "After a restart with graceful restart configured, best-path selection and
    advertisement for each deferred family are held back until every configured
    helper peer that re-negotiated that family has sent End-of-RIB, dropped, or
    re-established without it, or until the selection-deferral timer expires;
    then every prefix received meanwhile is announced exactly once and the
    restarting flag is cleared.  A peer without graceful restart never blocks
    completion and the machine cannot stay deferring once no peer is pending." *)
From Coq Require Import List NArith Bool.
From RB Require Import Base.Val Model.Deferral.
Import ListNotations.
Open Scope N_scope.

(* configuration: the GR families configured per peer (HashMap: distinct keys);
   a peer that is absent or has the empty list is a peer without GR *)
Definition config := list (peer * list fam).

Fixpoint cfg_fams (c : config) (p : peer) : list fam :=
  match c with
  | [] => []
  | (k, v) :: r => if k =? p then v else cfg_fams r p
  end.

(* the families whose selection is deferred at start-up *)
Definition deferred (c : config) (f : fam) : bool :=
  existsb (fun e => mem f (snd e)) c.

(* Does helper peer [p] still hold back family [f] after history [h]
   (oldest event first)?  It does from the start iff f is configured for it,
   and stops for good when it sends End-of-RIB for f, drops, or establishes
   without f (in particular without GR: the empty list). *)
Definition unblocks (e : rdinput) (p : peer) (f : fam) : bool :=
  match e with
  | PeerEstablished a fams => (a =? p) && negb (mem f fams)
  | EorReceived a g => (a =? p) && (g =? f)
  | PeerWithdrawn a => a =? p
  | TimerExpired => false
  end.

Definition spec_blocks (c : config) (h : list rdinput) (p : peer) (f : fam) : bool :=
  mem f (cfg_fams c p) && forallb (fun e => negb (unblocks e p f)) h.

(* some configured peer still holds f back *)
Definition spec_blocked (c : config) (h : list rdinput) (f : fam) : bool :=
  existsb (fun e => spec_blocks c h (fst e) f) c.

(* release events for f among the outputs of one step *)
Definition released_by (f : fam) (o : rdoutput) : nat :=
  match o with
  | FamilyDeferralComplete g => if g =? f then 1 else 0
  | EndDeferral l => if mem f l then 1 else 0
  | _ => 0
  end%nat.

Definition releases_in (f : fam) (outs : list rdoutput) : nat :=
  fold_right (fun o n => (released_by f o + n)%nat) 0%nat outs.

Definition releases (f : fam) (tr : list (list rdoutput)) : nat :=
  fold_right (fun outs n => (releases_in f outs + n)%nat) 0%nat tr.

(* Session discipline of the driver (what PeerSession::run / apply_outputs
   guarantee about the order of events for one peer): a peer establishes only
   while it has no established session, with a family list inside its
   configured GR families (negotiate_gr intersects with the local capability,
   which is built from the same configuration); End-of-RIB arrives only on an
   established session; PeerWithdrawn (session end, also of a connection that
   never established) may arrive at any time and ends the session. *)
Definition subset (a b : list N) : bool := forallb (fun x => mem x b) a.

Fixpoint disciplined_from (c : config) (up : list peer) (h : list rdinput) : bool :=
  match h with
  | [] => true
  | PeerEstablished a fams :: r =>
      negb (mem a up) && subset fams (cfg_fams c a) && disciplined_from c (a :: up) r
  | EorReceived a _ :: r => mem a up && disciplined_from c up r
  | PeerWithdrawn a :: r => disciplined_from c (filter (fun x => negb (x =? a)) up) r
  | TimerExpired :: r => disciplined_from c up r
  end.

Definition disciplined (c : config) (h : list rdinput) : bool := disciplined_from c [] h.
