(* What property C10 demands of the graceful-restart helper, written from the
   property text over the observable helper state (GrState's phase, the two
   kinds of timer, the peer's routes with their marks).  No proofs here.

   "... from then on stale routes exist only while a restart timer or LLGR timer
    is armed for that peer or an End-of-RIB is awaited on a re-established
    session, and they are removed no later than that timer's expiry or that
    End-of-RIB.  Routes re-announced on the new session are never removed by the
    stale purge, a failed or short-lived reconnection attempt never disarms the
    pending timer, NO_LLGR routes are dropped when the LLGR period starts, and a
    hard reset, admin shutdown or non-Cease error never enters helper mode." *)
From Coq Require Import List NArith Bool.
From RB Require Import Base.Val Model.Deferral Model.Gr.
Import ListNotations.
Open Scope N_scope.

(* a route that does not belong to the live session, or carries a stale mark *)
Definition retained (h : hstate) (r : route) : bool :=
  match h_sess h with
  | Some s => negb (r_sess r =? s_gen s) || r_stale r || r_llgr r
  | None => true
  end.

(* End-of-RIB for f is awaited on a re-established session *)
Definition eor_awaited (h : hstate) (f : fam) : bool :=
  match h_sess h, h_gr h with
  | Some _, GPeerReconnected pending _ => mem f pending
  | _, _ => false
  end.

Definition covered (h : hstate) (f : fam) : bool :=
  h_rtimer h || mem f (h_ltimers h) || eor_awaited h f.

(* stale routes exist only while a timer is armed or an End-of-RIB is awaited *)
Definition stale_ok (h : hstate) : bool :=
  forallb (fun r => negb (retained h r) || covered h (r_fam r)) (h_rib h).

Fixpoint stale_ok_along (h : hstate) (evs : list hevent) : bool :=
  match evs with
  | [] => true
  | e :: r => stale_ok (h_step h e) && stale_ok_along (h_step h e) r
  end.

(* ------------------------------------------------------------ known input classes
   (decidable predicates of the event history; gen/c10.py known_classes mirrors them) *)

Definition fams_of_gr (gr : option (list fam * N * bool)) : list fam :=
  match gr with Some (l, _, _) => l | None => [] end.
Definition fams_of_llgr (ll : option (list (fam * N))) : list fam :=
  match ll with Some l => map fst l | None => [] end.

Record kstate := {
  k_admin : bool;
  k_sess : option (option (list fam * N * bool) * option (list (fam * N)));
  k_running : list fam;     (* families whose LLGR period may be running *)
  k_pending : list fam;     (* LLGR families of the last drop (period starts at restart-timer expiry) *)
  k_hit : list N            (* finding numbers hit so far *)
}.

Definition k0 : kstate := {| k_admin := false; k_sess := None; k_running := []; k_pending := []; k_hit := [] |}.

Definition subset_b (a b : list N) : bool := forallb (fun x => mem x b) a.

Definition k_step (k : kstate) (e : hevent) : kstate :=
  match e with
  | HSetAdminDown b =>
      {| k_admin := b; k_sess := k_sess k; k_running := k_running k; k_pending := k_pending k; k_hit := k_hit k |}
  | HUp _ gr ll =>
      match k_sess k with
      | Some _ => k
      | None =>
          let g := fams_of_gr gr in
          let l := fams_of_llgr ll in
          let both := match gr, ll with Some _, Some _ => true | _, _ => false end in
          let h4 := if both && negb (subset_b g l) then [4] else [] in
          let h5 := if both && negb (subset_b l g) then [5] else [] in
          let h3 := match k_running k, g with
                    | _ :: _, _ :: _ => if subset_b (k_running k) g then [] else [3]
                    | _, _ => []
                    end in
          {| k_admin := k_admin k; k_sess := Some (gr, ll); k_running := []; k_pending := [];
             k_hit := k_hit k ++ h4 ++ h5 ++ h3 |}
      end
  | HRestartTimer =>
      match k_sess k with
      | None => {| k_admin := k_admin k; k_sess := None; k_running := k_running k ++ k_pending k;
                   k_pending := k_pending k; k_hit := k_hit k |}
      | Some _ => k
      end
  | HAnnounce _ _ _ lc =>
      if lc then {| k_admin := k_admin k; k_sess := k_sess k; k_running := k_running k; k_pending := k_pending k;
                    k_hit := k_hit k ++ [6] |} else k
  | HDown r =>
      match k_sess k with
      | Some (gr, ll) =>
          let nbit := match gr with Some (_, _, b) => b | None => false end in
          let eligible := match gr with
                          | Some _ => gr_applies r nbit && negb (k_admin k)
                          | None => match r with RsTcp => negb (k_admin k) | _ => false end
                          end in
          let negotiated := match gr, ll with None, None => false | _, _ => true end in
          {| k_admin := k_admin k; k_sess := None;
             k_running := match gr, ll with None, Some _ => fams_of_llgr ll | _, _ => k_running k end;
             k_pending := match gr, ll with Some _, Some _ => fams_of_llgr ll | _, _ => k_pending k end;
             k_hit := k_hit k ++ (if negotiated && negb eligible then [2] else []) |}
      | None => k
      end
  | _ => k
  end.

Definition known_hits (evs : list hevent) : list N := k_hit (fold_left k_step evs k0).

Definition Known_C10_2 (evs : list hevent) : bool := mem 2 (known_hits evs).
Definition Known_C10_3 (evs : list hevent) : bool := mem 3 (known_hits evs).
Definition Known_C10_4 (evs : list hevent) : bool := mem 4 (known_hits evs).
Definition Known_C10_5 (evs : list hevent) : bool := mem 5 (known_hits evs).
Definition Known_C10_6 (evs : list hevent) : bool := mem 6 (known_hits evs).
Definition known_any (evs : list hevent) : bool := negb (match known_hits evs with [] => true | _ => false end).
