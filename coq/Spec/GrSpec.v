(* What property C10 demands of the graceful-restart helper, written from the
   property text over the observable helper state (GrState's phase, the two
   kinds of timer, the peer's routes with their marks).  No proofs here.

   "... from then on stale routes exist only while a restart timer or LLGR timer
    is armed for that peer or an End-of-RIB is awaited on a re-established
    session, and they are removed no later than that timer's expiry or that
    End-of-RIB.  Routes re-announced on the new session are never removed by the
    stale purge, a failed or short-lived reconnection attempt never disarms the
    pending timer, NO_LLGR routes are dropped when the LLGR period starts, and a
    hard reset, admin shutdown or non-Cease error never enters helper mode." *)
From Coq Require Import List NArith Bool.
From RB Require Import Base.Val Model.Deferral Model.Gr.
Import ListNotations.
Open Scope N_scope.

(* a route that does not belong to the live session, or carries a stale mark *)
Definition retained (h : hstate) (r : route) : bool :=
  match h_sess h with
  | Some s => negb (r_sess r =? s_gen s) || r_stale r || r_llgr r
  | None => true
  end.

(* End-of-RIB for f is awaited on a re-established session *)
Definition eor_awaited (h : hstate) (f : fam) : bool :=
  match h_sess h, h_gr h with
  | Some _, GPeerReconnected pending _ => mem f pending
  | _, _ => false
  end.

Definition covered (h : hstate) (f : fam) : bool :=
  h_rtimer h || mem f (h_ltimers h) || eor_awaited h f.

(* stale routes exist only while a timer is armed or an End-of-RIB is awaited *)
Definition stale_ok (h : hstate) : bool :=
  forallb (fun r => negb (retained h r) || covered h (r_fam r)) (h_rib h).

Fixpoint stale_ok_along (h : hstate) (evs : list hevent) : bool :=
  match evs with
  | [] => true
  | e :: r => stale_ok (h_step h e) && stale_ok_along (h_step h e) r
  end.

(* the same over histories with a second connection of the neighbour (Model/Gr.v cstate) *)
Fixpoint stale_ok_along_c (c : cstate) (evs : list cevent) : bool :=
  match evs with
  | [] => true
  | e :: r => stale_ok (c_h (c_step c e)) && stale_ok_along_c (c_step c e) r
  end.

(* ------------------------------------------------------------ helpers
   (findings C10-1 .. C10-7 are repaired; no input class is excluded) *)

Definition fams_of_gr (gr : option (list fam * N * bool)) : list fam :=
  match gr with Some (l, _, _) => l | None => [] end.
Definition fams_of_llgr (ll : option (list (fam * N))) : list fam :=
  match ll with Some l => map fst l | None => [] end.

Definition subset_b (a b : list N) : bool := forallb (fun x => mem x b) a.

(* From the property text: helper mode is for a TCP failure and, when both sides set the N bit
   (RFC 8538), for a Cease NOTIFICATION (sent or received) that is not a Hard Reset and for the
   expiry of the hold timer; "a hard reset, admin shutdown or non-Cease error never enters
   helper mode".  Written without reference to the model's gr_applies. *)
Definition spec_eligible (r : reason) (nbit : bool) : bool :=
  match r with
  | RsTcp => true
  | RsRemoteCease | RsLocalCease | RsHold => nbit
  | RsRemoteHard | RsLocalHard | RsLocalOther | RsRemoteOther | RsOther => false
  end.

(* the disconnect reason does not allow helper mode for this session: the peer is admin-down, or
   GR was negotiated and the reason is not eligible, or GR was not negotiated and the reason is
   anything but a TCP failure (LLGR alone follows the same rule as GR) *)
Definition not_eligible (h : hstate) (s : session) (r : reason) : bool :=
  h_admin_down h ||
  match s_gr s with
  | Some (_, _, nbit) => negb (spec_eligible r nbit)
  | None => match r with RsTcp => false | _ => true end
  end.
