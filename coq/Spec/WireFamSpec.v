(* What C04 demands for the structurally modelled families (Flowspec x4, RTC, EVPN route
   types 1-5, SR Policy): which NLRI values are representable, and what the peer must read.
   No proofs in this file. *)
From Coq Require Import List NArith Bool.
From RB Require Import Base.Val Model.Caps Model.WireEnc Spec.WireRead Spec.WireEncSpec Spec.WireReadFam.
Import ListNotations.
Open Scope N_scope.

(* <operator, value> pairs: operator octet without the length bits (RFC 8955 4.2.1.1 derives them
   from the value), end-of-list bit on the last pair only, 64-bit values *)
Fixpoint ops_wf (ops : list (N * N)) : Prop :=
  match ops with
  | [] => False
  | [(b, v)] => b < 256 /\ (b / 16) mod 4 = 0 /\ 128 <= b /\ v < 18446744073709551616
  | (b, v) :: t => b < 128 /\ (b / 16) mod 4 = 0 /\ v < 18446744073709551616 /\ ops_wf t
  end.

Definition fcomp_wf (v6 : bool) (c : fcomp) : Prop :=
  match c with
  | FPrefix ty m off a => (ty = 1 \/ ty = 2) /\ (m + 7) / 8 <= blen a /\ (v6 = false -> off = 0)
  | FOps ty ops => ty <> 1 /\ ty <> 2 /\ ops_wf ops
  end.

Definition evpn_wf (e : evpn) : Prop :=
  match e with
  | Ev1 rd esi et l => blen rd = 8 /\ blen esi = 10 /\ et < 4294967296 /\ l < 16777216
  | Ev2 rd esi et mac ip l1 l2 =>
      blen rd = 8 /\ blen esi = 10 /\ et < 4294967296 /\ blen mac = 6 /\
      (blen ip = 0 \/ blen ip = 4 \/ blen ip = 16) /\ l1 < 16777216 /\
      match l2 with Some l => l < 16777216 | None => True end
  | Ev3 rd et ip => blen rd = 8 /\ et < 4294967296 /\ (blen ip = 4 \/ blen ip = 16)
  | Ev4 rd esi ip => blen rd = 8 /\ blen esi = 10 /\ (blen ip = 4 \/ blen ip = 16)
  | Ev5 rd esi et pl ip gw l =>
      blen rd = 8 /\ blen esi = 10 /\ et < 4294967296 /\ (blen ip = 4 \/ blen ip = 16) /\
      blen gw = blen ip /\ pl <= 8 * blen ip /\ l < 16777216
  end.

Definition mup_wf (v6 : bool) (m : mup) : Prop :=
  let w := if v6 then 16 else 4 in
  match m with
  | Mup1 rd pl a => blen rd = 8 /\ pl <= 8 * w /\ (pl + 7) / 8 <= blen a /\ blen a <= w
  | Mup2 rd a => blen rd = 8 /\ blen a = w
  | Mup3 rd pl a teid qfi ep src =>
      blen rd = 8 /\ pl <= 8 * w /\ (pl + 7) / 8 <= blen a /\ blen a <= w /\ teid < 4294967296 /\ blen ep = w /\
      match src with Some s => blen s = w | None => True end
  | Mup4 rd el ep teid =>
      (* the endpoint length covers the address and the leading octets of the TEID; the rest of the
         TEID is not transmitted, so it is zero in a representable value *)
      blen rd = 8 /\ blen ep = w /\ 8 * w <= el /\ el <= 8 * w + 32 /\ teid < 4294967296 /\
      teid mod 256 ^ (4 - (el - 8 * w + 7) / 8) = 0
  end.

Definition tlv_types_ok (l : list (N * list N)) : Prop := Forall (fun t => fst t < 65536) l.
Definition ls_wf (n : lsn) : Prop :=
  (* every length field has 16 bits: it is enough that the whole NLRI body fits *)
  blen (enc_ls n) < 65540 /\
  match n with
  | LsNode p i l => p < 256 /\ i < 18446744073709551616 /\ tlv_types_ok l
  | LsLink p i l r k => p < 256 /\ i < 18446744073709551616 /\ tlv_types_ok l /\ tlv_types_ok r /\ tlv_types_ok k
  | LsPfx _ p i l k => p < 256 /\ i < 18446744073709551616 /\ tlv_types_ok l /\ tlv_types_ok k
  | LsSrv6 p i l s =>
      p < 256 /\ i < 18446744073709551616 /\ tlv_types_ok l /\ Forall (fun x => fst x < 65536 /\ blen (snd x) = 16) s
  | LsOther ty b => ty < 65536 /\ (ls_known ty && (9 <=? blen b) = false)
  end.

(* a representable entry of the kind [k] *)
Definition structured (k : skind) (e : pnlri) : Prop :=
  fst e < 4294967296 /\
  match k, snd e with
  | SFlow v6 vpn, NFlow v6' rd comps =>
      v6' = v6 /\
      match rd with Some r => vpn = true /\ blen r = 8 | None => vpn = false end /\
      Forall (fcomp_wf v6) comps /\
      (* the rule fits the 12-bit length of RFC 8955 4.1 *)
      match enc_fcomps v6 comps with
      | Ok body => blen (match rd with Some r => r | None => [] end) + blen body < 4096
      | _ => True
      end
  | SRtc, NRtc RtcAll => True
  | SRtc, NRtc (RtcAs a) => a < 4294967296
  | SRtc, NRtc (RtcExact a rt) => a < 4294967296 /\ blen rt = 8
  | SEvpn, NEvpn e => evpn_wf e
  | SSrp, NSrp d c ep => d < 4294967296 /\ c < 4294967296 /\ (blen ep = 4 \/ blen ep = 16)
  | SMup v6, NMup m => mup_wf v6 m
  | SLs, NLs n => ls_wf n
  | _, _ => False
  end.

(* the value the peer reads: the entry itself; a Flowspec prefix component keeps the
   significant octets of its address (and no offset in an IPv4 rule) *)
Definition canon_fcomp (c : fcomp) : fcomp :=
  match c with
  | FPrefix ty m off a => FPrefix ty m off (sig_octets m a)
  | FOps ty ops => FOps ty ops
  end.
Definition canon_struct (n : nlri) : nlri :=
  match n with
  | NFlow v6 rd comps => NFlow v6 rd (map canon_fcomp comps)
  | NMup (Mup1 rd pl a) => NMup (Mup1 rd pl (sig_octets pl a))
  | NMup (Mup3 rd pl a teid qfi ep src) => NMup (Mup3 rd pl (sig_octets pl a) teid qfi ep src)
  | _ => n
  end.
Definition canon_item (ap : bool) (e : pnlri) : N * nlri := (if ap then fst e else 0, canon_struct (snd e)).

Definition reach_frame_struct_ok (c : codec) (f : N) (k : skind) (nh : option (list N)) (ws : list attr)
           (nonempty : Prop) (fr : list N) (chunk : list pnlri) : Prop :=
  exists v,
    read_reach (max_len c) (legacy c f) fr = Some v /\
    rv_family v = f /\ rv_attrs v = map attr_tlv ws /\
    (forall b, nonempty -> nh = Some b -> nh_representable c f b -> rv_nexthop v = expected_nh c f b) /\
    read_items k (length (rv_nlri v)) (addpath_for c f) (rv_nlri v)
      = Some (map (canon_item (addpath_for c f)) chunk).

Definition unreach_frame_struct_ok (c : codec) (f : N) (k : skind) (fr : list N) (chunk : list pnlri) : Prop :=
  exists wd,
    read_unreach (max_len c) (legacy c f) fr = Some (f, wd) /\
    read_items k (length wd) (addpath_for c f) wd = Some (map (canon_item (addpath_for c f)) chunk).

(* octet strings *)
Definition bytes_ok (l : list N) : Prop := Forall (fun x => x < 256) l.
