(* What property C01 demands, written from the property text.

   "For every established neighbour, once its pending updates have been flushed,
    the routes (prefix, path-id, attributes, next hop) that the bytes sent to it
    leave in its Adj-RIB-In are exactly the routes a brand-new session to that
    neighbour would be sent from the current RIB under the current policy.  A
    route that stops being exportable is always withdrawn on the wire, however
    the RIB changes were interleaved with delivery and flushing."

   view  s  = the neighbour's Adj-RIB-In (the mirror fed by every drained batch)
   fresh s  = what a brand-new session would be sent now: the Adj-RIB-In left by
              the initial dump of `Register` taken in the current state
   also a closed form of it, [fresh_at], written from the text of the export
   rules (best path only / the first send-max visible candidates, each through
   the export policy), against which the model's dump is proved.

   No proofs in this file. *)
From Coq Require Import List NArith Bool.
From RB Require Import Base.Val Model.ExportTx.
Import ListNotations.
Open Scope N_scope.

Section Spec.
Variable E : Type.
Variable keying_ : keying.
Variable limited : bool.
Variable inline : bool.
Variable max : N.
Variable aptx : bool.
Variable vis : path -> bool.
Variable pol : bool -> N -> path -> option E.
Variable polv : N -> bool -> N -> path -> option E.

Notation state := (state E).
Notation nbr := (nbr E).

Definition view (s : state) : list (key * E) := n_mirror (s_nbr s).

Definition fresh (s : state) : list (key * E) :=
  mirror_reach E (snd (dump E keying_ limited max aptx vis (polv (s_pv s)) (s_llgr s) (s_rib s))) [].

(* maps are compared by lookup: iteration order of the hash maps is not specified *)
Definition same_routes (a b : list (key * E)) : Prop := forall k, kfind k a = kfind k b.

(* nothing queued for the neighbour, nothing waiting for the socket *)
Definition quiescent (s : state) : Prop :=
  n_chan (s_nbr s) = [] /\ n_buf (s_nbr s) = [] /\
  t_reach (n_ptx (s_nbr s)) = [] /\ t_unreach (n_ptx (s_nbr s)) = [].

Definition established (s : state) : Prop := n_reg (s_nbr s) = true.

(* a withdrawal of route k is waiting for the socket *)
Definition withdrawal_pending (s : state) (k : key) : Prop :=
  In k (drained_unreach E (n_ptx (s_nbr s))).

(* a change of k's prefix has been emitted by the RIB and not yet been processed *)
Definition change_undelivered (s : state) (k : key) : Prop :=
  exists c, In (EvChange c) (n_chan (s_nbr s)) /\ c_net c = fst k.

(* ---- the export rules in closed form.  [mk] says, per prefix and path, which LLGR-stale
   marker the exported form carries; for a from-scratch dump it is the live flag of the
   path's source. *)
Fixpoint assoc {A} (w : N) (l : list (N * A)) : option A :=
  match l with
  | [] => None
  | (x, a) :: t => if x =? w then Some a else assoc w t
  end.

(* what one destination contributes: (wire path id, payload) *)
Definition sel (mk : path -> bool) (net : N) (paths : list path) : list (N * E) :=
  if negb (max =? 1) then
    filter_map (fun q => match pol (mk q) net q with Some e => Some (p_pid q, e) | None => None end)
               (firstn (N.to_nat max) (filter vis paths))
  else match paths with
       | [] => []
       | b :: _ => if vis b then match pol (mk b) net b with Some e => [(0, e)] | None => [] end
                   else []
       end.

Definition fresh_at (mk : N -> path -> bool) (r : rib) (k : key) : option E :=
  match rfind (fst k) r with
  | Some d => assoc (snd k) (sel (mk (fst k)) (fst k) (d_paths d))
  | None => None
  end.

Definition live (fl : list N) : N -> path -> bool := fun _ q => memN (p_src q) fl.

(* ---- admissible histories.
   The RIB is abstracted to its change stream; a RIB label must be a change the
   table can emit, i.e. its flags must be truthful with respect to the state they
   are emitted in (this is the contract property C06 states of table/src/lib.rs):
     any_changed = false   ->  the candidate list is unchanged
     best_changed = false  ->  the best candidate is unchanged
     a candidate that keeps its path id keeps its content, unless it is the
     replaced path; path ids are unique within a destination;
     a destination disappears silently only if it had no candidate. *)
Definition old_paths (net : N) (r : rib) : list path :=
  match rfind net r with Some d => d_paths d | None => [] end.

(*   the ghost marker of a listed path never runs ahead of the live LLGR-stale flag of its
     source, and once an operation is complete every path in the RIB carries the live flag:
     marking a source is reported for each of its candidate paths (as a replaced path,
     and as a changed best path when it is the best) *)
Definition truthful_set (fl : list N) (r : rib) (x : N * bool * bool * option N * list path) : Prop :=
  let '(net, bc, ac, repl, paths) := x in
  let old := old_paths net r in
  (ac = false -> paths = old) /\
  (bc = false -> hd_error paths = hd_error old) /\
  NoDup (map p_pid paths) /\
  (forall p q, In p paths -> In q old -> p_pid p = p_pid q -> p = q \/ repl = Some (p_pid p)) /\
  (forall q, In q paths -> p_mark q = true -> memN (p_src q) fl = true).

Definition marks_live (fl : list N) (r : rib) : Prop :=
  forall d q, In d r -> In q (d_paths d) -> p_mark q = memN (p_src q) fl.

Fixpoint truthful_sets (fl : list N) (r : rib) (rs : list (N * bool * bool * option N * list path)) : Prop :=
  match rs with
  | [] => marks_live fl r
  | x :: t => truthful_set fl r x /\
              truthful_sets fl (fst (rset (fst (fst (fst (fst x)))) (snd x) r)) t
  end.

Definition truthful (fl : list N) (r : rib) (l : label) : Prop :=
  match l with
  | RibSet net bc ac repl paths =>
      truthful_set fl r (net, bc, ac, repl, paths) /\
      (forall q, In q paths -> p_mark q = memN (p_src q) fl)
  | RibFree net false => old_paths net r = []
  | LlgrMark src rs => truthful_sets (set_llgr src fl) r rs
  | PolicyChange _ => False  (* a policy change during the session is outside the theorems *)
  | LlgrFlip src b =>        (* a bare flip that flips nothing *)
      (if b then set_llgr src fl else filter (fun x => negb (x =? src)) fl) = fl
  | _ => True
  end.

Definition ok_label (s : state) (l : label) : Prop := truthful (s_llgr s) (s_rib s) l.

Fixpoint ok_run (s : state) (ls : list label) : Prop :=
  match ls with
  | [] => True
  | l :: t => ok_label s l /\ ok_run (step E keying_ limited inline max aptx vis polv s l) t
  end.

Fixpoint truthful_run (s : state) (ls : list label) : Prop :=
  match ls with
  | [] => True
  | l :: t => truthful (s_llgr s) (s_rib s) l /\
              truthful_run (step E keying_ limited inline max aptx vis polv s l) t
  end.

(* contract of [pol]: the LLGR_STALE marking is applied to an accepted route, it does not
   decide acceptance (process_nlri_change calls with_llgr_stale_community after the policy) *)
Definition pol_marks_after_accept : Prop :=
  forall b net q, pol b net q = None <-> pol false net q = None.

End Spec.
