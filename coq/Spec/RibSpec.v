(* What properties C06 and C15 demand of the RIB, written from the property
   texts.  Definitions only.

   C06: a consumer of the change stream keeps, per prefix, what the last
   notification it looked at told it; three consumers are distinguished by the
   notifications they skip.  Their state must equal the corresponding view of
   the RIB itself.

   C15: the counters kept incrementally must equal a recount of the RIB. *)
From Coq Require Import List NArith ZArith Bool.
From RB Require Import Base.Val Model.Rib.
Import ListNotations.
Open Scope N_scope.

(* ---------------------------------------------------------------- RIB views *)

(* the exportable state of a prefix: its eligible paths in rank order *)
Definition elig_of (t : table) (net : N) : list entry :=
  match alookup net (t_dests t) with Some d => elig_list d | None => [] end.

(* the destination id of a live prefix *)
Definition id_of (t : table) (net : N) : option N :=
  match alookup net (t_dests t) with Some d => Some (d_id d) | None => None end.

(* the same read off Table::collect_loc_rib_paths *)
Definition locrib_view (t : table) (net : N) : list entry :=
  match find (fun c => c_net c =? net) (loc_rib t None) with
  | Some c => c_paths c
  | None => []
  end.

(* what a best-path consumer can see of a path: source, attribute block, next hop *)
Definition content (e : entry) : N * N * option N := (s_tok (e_src e), a_tok (e_attr e), e_nh e).

Definition head_content (l : list entry) : option (N * N * option N) :=
  match l with e :: _ => Some (content e) | [] => None end.

Definition limit (n : option nat) (l : list entry) : list entry :=
  match n with Some k => firstn k l | None => l end.

(* ---------------------------------------------------------------- consumers *)

Definition upd {X} (v : N -> X) (k : N) (x : X) : N -> X := fun n => if n =? k then x else v n.

(* applies every notification *)
Definition full_apply (v : N -> list entry) (c : change) : N -> list entry :=
  upd v (c_net c) (c_paths c).

(* skips notifications flagged best_changed = false *)
Definition best_apply (v : N -> option (N * N * option N)) (c : change) : N -> option (N * N * option N) :=
  if c_best_changed c then upd v (c_net c) (head_content (c_paths c)) else v.

(* an add-path consumer with a window of n paths (None: all of them) skips
   notifications flagged any_changed = false *)
Definition addpath_apply (n : option nat) (v : N -> list entry) (c : change) : N -> list entry :=
  if c_any_changed c then upd v (c_net c) (limit n (c_paths c)) else v.

(* run a history, folding every emitted notification into the consumer *)
Fixpoint consume {S} (app : S -> change -> S) (t : table) (s : S) (ops : list op) : table * S :=
  match ops with
  | [] => (t, s)
  | o :: r => consume app (fst (fst (step t o))) (fold_left app (snd (fst (step t o))) s) r
  end.

(* the table and the notifications one operation produces *)
Definition step_t (t : table) (o : op) : table := fst (fst (step t o)).
Definition step_cs (t : table) (o : op) : list change := snd (fst (step t o)).

(* start_deferral is a start-up operation: it is issued only while the family
   holds no route (Restarting Speaker mode is entered before any session is up) *)
Fixpoint startup_deferral (t : table) (ops : list op) : Prop :=
  match ops with
  | [] => True
  | o :: r => (o = StartDeferral -> t_dests t = []) /\ startup_deferral (fst (fst (step t o))) r
  end.

(* the allocator's own assumption (debug_assert in IdAllocator::alloc): fewer
   than 2^24 destinations in the shard whenever an operation starts *)
Fixpoint bounded (t : table) (ops : list op) : Prop :=
  match ops with
  | [] => True
  | o :: r => N.of_nat (length (t_dests t)) < 16777216 /\ bounded (fst (fst (step t o))) r
  end.

(* ------------------------------------------------------------------ recounts *)

Definition all_entries (t : table) : list entry := flat_map (fun nd => d_entries (snd nd)) (t_dests t).

(* prefixes for which the peer has at least one path *)
Definition recv_recount (t : table) (a : N) : N :=
  N.of_nat (length (filter (fun nd => existsb (from_addr a) (d_entries (snd nd))) (t_dests t))).

(* the peer's paths that passed import policy *)
Definition acc_recount (t : table) (a : N) : N :=
  N.of_nat (length (filter (fun e => from_addr a e && negb (e_filtered e)) (all_entries t))).

(* prefixes for which the session (one Source object) has at least one path *)
Definition from_tok (c : N) (e : entry) : bool := s_tok (e_src e) =? c.

Definition sess_recount (t : table) (c : N) : N :=
  N.of_nat (length (filter (fun nd => existsb (from_tok c) (d_entries (snd nd))) (t_dests t))).

(* ------------------------------------------- the per-session limit counter *)

(* the session (Source token) on whose behalf an operation acts, and its peer *)
Definition acting (o : op) : option (N * N) :=
  match o with
  | Insert s _ _ _ _ _ _ _ => Some (s_tok s, s_addr s)
  | Remove s _ _ _ => Some (s_tok s, s_addr s)
  | Drop _ addr (Some c) => Some (c, addr)
  | _ => None
  end.

(* the table holds a path of the peer that belongs to another session *)
Definition foreign_entry (tok addr : N) (t : table) : bool :=
  existsb (fun e => from_addr addr e && negb (from_tok tok e)) (all_entries t).

(* Known finding C15-session-counter: at some point of the history a session of
   peer [a] acts while the RIB still holds paths of another session of the same
   peer (a graceful-restart reconnect). *)
Fixpoint known_two_sessions_from (a : N) (t : table) (ops : list op) : bool :=
  match ops with
  | [] => false
  | o :: r =>
      (match acting o with
       | Some (tok, addr) => (addr =? a) && foreign_entry tok addr t
       | None => false
       end) || known_two_sessions_from a (fst (fst (step t o))) r
  end.

Definition Known_C15_two_sessions (a : N) (shard : N) (ops : list op) : Prop :=
  known_two_sessions_from a (empty_table shard) ops = true.

(* how the daemon uses the counters: the counter of a session is named by the
   session's Source, every insert of the session carries it with the session's
   configured maximum (a u32), every withdrawal and purge carries it too *)
Definition ctr_disciplined (f : N -> N) (mx : N -> N) (o : op) : Prop :=
  match o with
  | Insert s _ _ _ _ _ _ lim => lim = Some (mx (s_tok s), s_tok s) /\ s_addr s = f (s_tok s)
  | Remove s _ _ ctr => ctr = Some (s_tok s) /\ s_addr s = f (s_tok s)
  | Drop DKAll _ _ => True
  | Drop _ addr ctr => exists c, ctr = Some c /\ f c = addr
  | _ => True
  end.

Definition mentions (c : N) (o : op) : bool :=
  match o with
  | Insert s _ _ _ _ _ _ _ => s_tok s =? c
  | Remove s _ _ _ => s_tok s =? c
  | Drop _ _ (Some c') => c' =? c
  | _ => false
  end.

(* the session has not ended: its peer was not dropped (Table::drop) after the
   session's first operation *)
Fixpoint session_alive (a c : N) (started : bool) (ops : list op) : bool :=
  match ops with
  | [] => true
  | o :: r =>
      match o with
      | Drop DKAll a' _ => if started && (a' =? a) then false else session_alive a c started r
      | _ => session_alive a c (started || mentions c o) r
      end
  end.

(* Table::collect_loc_rib_paths_limited(max_paths) read per prefix *)
Definition locrib_view_limited (t : table) (m : N) (net : N) : list entry :=
  match find (fun c => c_net c =? net) (loc_rib t (Some m)) with
  | Some c => c_paths c
  | None => []
  end.

(* all paths of a prefix, eligible or not *)
Definition entries_of (t : table) (net : N) : list entry :=
  match alookup net (t_dests t) with Some d => d_entries d | None => [] end.

(* ---- Known finding C15-session-counter, as narrow as the defect: an operation
   acting for one session of a peer (insert, withdrawal, purge carrying its
   counter) touches a destination that holds a path of the same peer belonging
   to another session, and session [c] is the acting session or the owner of
   such a path. *)

Definition foreign_in (tok addr c : N) (es : list entry) : bool :=
  existsb (fun e => from_addr addr e && negb (from_tok tok e) && ((tok =? c) || from_tok c e)) es.

Definition touch_event (c : N) (t : table) (o : op) : bool :=
  match o with
  | Insert s net _ _ _ _ _ _ => foreign_in (s_tok s) (s_addr s) c (entries_of t net)
  | Remove s net rpid _ =>
      match find (same_key s rpid) (entries_of t net) with
      | Some _ => foreign_in (s_tok s) (s_addr s) c (entries_of t net)
      | None => false
      end
  | Drop DKAll _ _ => false
  | Drop k addr (Some tok) =>
      existsb (fun nd => existsb (drop_sel (t_flags t) k addr) (d_entries (snd nd))
                         && foreign_in tok addr c (d_entries (snd nd))) (t_dests t)
  | _ => false
  end.

Fixpoint known_touch_from (c : N) (t : table) (ops : list op) : bool :=
  match ops with
  | [] => false
  | o :: r => touch_event c t o || known_touch_from c (fst (fst (step t o))) r
  end.

Definition Known_C15_session_touch (c : N) (shard : N) (ops : list op) : Prop :=
  known_touch_from c (empty_table shard) ops = true.

(* ---- the repaired caller discipline of the prefix-limit counter (C15) ----
   For the session whose counter is [c], of the peer with address [a] and
   configured maximum [mx]: the counter is created by a synchronisation with the
   RIB; while the session lives every insert and withdrawal of the peer carries
   the counter (with the maximum), a purge of the peer's stale routes either
   carries it or is followed by a synchronisation before the counter is used
   again, the peer is not dropped, and nobody else uses the counter.
   [pending] = a purge ran without the counter and no synchronisation yet. *)
From RB Require Import Model.RibSession.

Definition lim_is (lim : option (N * N)) (mx c : N) : bool :=
  match lim with Some (m, c') => (m =? mx) && (c' =? c) | None => false end.
Definition lim_uses (lim : option (N * N)) (c : N) : bool :=
  match lim with Some (_, c') => c' =? c | None => false end.
Definition ctr_is (ctr : option N) (c : N) : bool :=
  match ctr with Some c' => c' =? c | None => false end.

Definition disc_head (a c mx : N) (pending : bool) (o : sop) : option bool :=
  match o with
  | Sync c' a' => if c' =? c then (if a' =? a then Some false else None) else Some pending
  | Tbl (Insert s _ _ _ _ _ _ lim) =>
      if s_addr s =? a then (if negb pending && lim_is lim mx c then Some false else None)
      else (if lim_uses lim c then None else Some pending)
  | Tbl (Remove s _ _ ctr) =>
      if s_addr s =? a then (if negb pending && ctr_is ctr c then Some false else None)
      else (if ctr_is ctr c then None else Some pending)
  | Tbl (Drop DKAll a' _) => if a' =? a then None else Some pending
  | Tbl (Drop _ a' ctr) =>
      if a' =? a then
        match ctr with
        | Some c' => if (c' =? c) && negb pending then Some false else None
        | None => Some true
        end
      else (if ctr_is ctr c then None else Some pending)
  | Tbl _ => Some pending
  end.

Fixpoint session_disciplined (a c mx : N) (pending : bool) (ops : list sop) : bool :=
  match ops with
  | [] => negb pending
  | o :: r =>
      match disc_head a c mx pending o with
      | Some p' => session_disciplined a c mx p' r
      | None => false
      end
  end.
