(* What property C16 says about negotiation, written from the property text:
   "the two OPENs yield mirror-image parameters on both ends (a family,
   add-path direction, extended message/next hop, 4-octet AS, graceful restart
   or LLGR is in force iff both advertised it)".  Definitions only. *)
From Coq Require Import List NArith Bool.
From RB Require Import Base.Val Model.Caps Model.Fsm Model.Negotiate.
Import ListNotations.
Open Scope N_scope.

Definition swap (p : bool * bool) : bool * bool := (snd p, fst p).

(* what one end holds for a family is the mirror image of what the other holds *)
Definition mirror (a b : option (bool * bool)) : Prop := a = option_map swap b.

Definition advertises_family (caps : list cap) (f : N) : Prop := In (CMultiProtocol f) caps.

(* families a GR negotiation result is in force for *)
Definition gr_fams (o : option (list N * N * bool)) : list N :=
  match o with Some (fams, _, _) => fams | None => [] end.
Definition llgr_fams (o : option (list (N * N))) : list N :=
  match o with Some fams => map fst fams | None => [] end.

Definition same_set (a b : list N) : Prop := forall f, In f a <-> In f b.

(* Finding C16-2: add-path entries that do not say one thing about a family,
   or a family that is not negotiated at all *)
Definition addpath_modes (caps : list cap) (f : N) : list N :=
  flat_map (fun c => match c with
                     | CAddPath es => map snd (filter (fun e => fst e =? f) es)
                     | _ => []
                     end) caps.
Definition unambiguous (caps : list cap) (f : N) : Prop :=
  forall m1 m2, In m1 (addpath_modes caps f) -> In m2 (addpath_modes caps f) -> m1 = m2.
Definition Known_C16_2 (l r : list cap) (f : N) : Prop :=
  ~ unambiguous l f \/ ~ unambiguous r f \/ has_mp l f && has_mp r f = false.

(* Finding C16-3: an LLGR capability naming a family more than once *)
Definition llgr_dup (caps : list cap) : Prop :=
  exists v, first_llgr caps = Some v /\ ~ NoDup (map (fun e => fst (fst e)) v).
Definition Known_C16_3 (l r : list cap) : Prop := llgr_dup l \/ llgr_dup r.
