(* What property C16 says about negotiation, written from the property text:
   "the two OPENs yield mirror-image parameters on both ends (a family,
   add-path direction, extended message/next hop, 4-octet AS, graceful restart
   or LLGR is in force iff both advertised it)".  Definitions only. *)
From Coq Require Import List NArith Bool.
From RB Require Import Base.Val Model.Caps Model.Fsm Model.Negotiate.
Import ListNotations.
Open Scope N_scope.

Definition swap (p : bool * bool) : bool * bool := (snd p, fst p).

(* what one end holds for a family is the mirror image of what the other holds *)
Definition mirror (a b : option (bool * bool)) : Prop := a = option_map swap b.

Definition advertises_family (caps : list cap) (f : N) : Prop := In (CMultiProtocol f) caps.

(* families a GR negotiation result is in force for *)
Definition gr_fams (o : option (list N * N * bool)) : list N :=
  match o with Some (fams, _, _) => fams | None => [] end.
Definition llgr_fams (o : option (list (N * N))) : list N :=
  match o with Some fams => map fst fams | None => [] end.

Definition same_set (a b : list N) : Prop := forall f, In f a <-> In f b.

(* Finding C16-2: add-path entries that do not say one thing about a family,
   or a family that is not negotiated at all *)
Definition addpath_modes (caps : list cap) (f : N) : list N :=
  flat_map (fun c => match c with
                     | CAddPath es => map snd (filter (fun e => fst e =? f) es)
                     | _ => []
                     end) caps.
Definition unambiguous (caps : list cap) (f : N) : Prop :=
  forall m1 m2, In m1 (addpath_modes caps f) -> In m2 (addpath_modes caps f) -> m1 = m2.
Definition Known_C16_2 (l r : list cap) (f : N) : Prop :=
  ~ unambiguous l f \/ ~ unambiguous r f \/ has_mp l f && has_mp r f = false.

(* Finding C16-3: an LLGR capability naming a family more than once *)
Definition llgr_dup (caps : list cap) : Prop :=
  exists v, first_llgr caps = Some v /\ ~ NoDup (map (fun e => fst (fst e)) v).
Definition Known_C16_3 (l r : list cap) : Prop := llgr_dup l \/ llgr_dup r.

(* -------------------------------------------------- prefix containment *)

(* bit i (0 = most significant bit of the first octet) of an address given
   as its octets in network order *)
Definition obit (octets : list N) (i : nat) : bool :=
  N.testbit (nth (Nat.div i 8) octets 0) (N.of_nat (7 - Nat.modulo i 8)%nat).

(* "lies inside a configured dynamic-neighbour prefix": same address family
   and the address agrees with the prefix on its leading [mask] bits *)
Definition inside (net : ipnet) (addr : ipaddr) : Prop :=
  match net, addr with
  | Net4 a mask, A4 b | Net6 a mask, A6 b =>
      forall i, (i < N.to_nat mask)%nat -> obit a i = obit b i
  | _, _ => False
  end.

Definition octets_ok (w : nat) (l : list N) : Prop := length l = w /\ Forall (fun x => x < 256) l.

(* well-formed values of the Rust types: 4 / 16 octets *)
Definition net_ok (net : ipnet) : Prop :=
  match net with Net4 a _ => octets_ok 4 a | Net6 a _ => octets_ok 16 a end.
Definition addr_ok (addr : ipaddr) : Prop :=
  match addr with A4 b => octets_ok 4 b | A6 b => octets_ok 16 b end.
Definition width (net : ipnet) : N := match net with Net4 _ _ => 32 | Net6 _ _ => 128 end.
Definition mask_of (net : ipnet) : N := match net with Net4 _ m | Net6 _ m => m end.
