(* C11, RIB half: what is counted when the property says "every prefix received
   meanwhile is announced exactly once".  No proofs here. *)
From Coq Require Import List NArith Bool.
From RB Require Import Base.Val Model.Deferral Model.DeferralRib Spec.DeferralSpec.
Import ListNotations.
Open Scope N_scope.

(* the machine events among the system events *)
Definition proj (evs : list sysev) : list rdinput :=
  flat_map (fun e => match e with EvRd i => [i] | _ => [] end) evs.

(* how often prefix x of family f was distributed to the peers *)
Definition ann_count_one (f : fam) (x : N) (a : ann) : nat :=
  match a with
  | AnnInsert g n _ => if (g =? f) && (n =? x) then 1 else 0
  | AnnRelease g l => if g =? f then length (filter (fun e => fst e =? x) l) else 0
  end%nat.

Definition ann_count (f : fam) (x : N) (log : list ann) : nat :=
  fold_right (fun a n => (ann_count_one f x a + n)%nat) 0%nat log.

(* how many end_deferral(f) calls were made *)
Definition release_entries (f : fam) (log : list ann) : nat :=
  fold_right (fun a n => (match a with AnnRelease g _ => if g =? f then 1 else 0 | _ => 0 end + n)%nat) 0%nat log.

(* prefix x of family f has an unfiltered path in the table *)
Definition holds_prefix (t : table) (f : fam) (x : N) : bool :=
  match t_get t f with
  | Some r => match d_get (rf_dests r) x with
              | Some l => negb (match unfiltered l with [] => true | _ => false end)
              | None => false
              end
  | None => false
  end.
