(* The decision order of property C02, written from the property text:
   a path that is not LLGR-stale over one that is, then higher LOCAL_PREF,
   shorter AS_PATH (an AS_SET counts one, confederation segments zero), lower
   ORIGIN, eBGP over iBGP / confed-eBGP, not graceful-restart-stale over stale,
   shorter CLUSTER_LIST, lower ORIGINATOR_ID / router-id; for EVPN Type-2
   routes the MAC-mobility sequence number comes ahead of everything.

   A path's rank is a list of integers compared lexicographically; smaller is
   better.  Definitions only. *)
From Coq Require Import List NArith ZArith Bool Sorting.Sorted.
From RB Require Import Base.Val Model.Rib.
Import ListNotations.
Open Scope Z_scope.

Fixpoint lexc (a b : list Z) : comparison :=
  match a, b with
  | [], [] => Eq
  | [], _ :: _ => Lt
  | _ :: _, [] => Gt
  | x :: xs, y :: ys => match Z.compare x y with Eq => lexc xs ys | c => c end
  end.

Definition b2z (b : bool) : Z := if b then 1 else 0.

(* hop count over unbounded integers *)
Fixpoint hops_spec (segs : list (N * N)) : Z :=
  match segs with
  | [] => 0
  | (t, n) :: r =>
      (if (t =? 1)%N then 1 else if (t =? 2)%N then Z.of_N n else 0) + hops_spec r
  end.

Definition spec_key (fl : flagmap) (e : entry) : list Z :=
  [ b2z (is_llgr_stale fl e);
    - Z.of_N (match a_lp (e_attr e) with Some v => v | None => 100%N end);
    match a_segs (e_attr e) with Some s => hops_spec s | None => 0 end;
    Z.of_N (match a_origin (e_attr e) with Some v => v | None => 2%N end);
    b2z (negb (prefers_over_ibgp (s_role (e_src e))));
    b2z (is_stale fl e);
    Z.of_N (match a_clen (e_attr e) with Some v => v | None => 0%N end);
    Z.of_N (match a_oid (e_attr e) with Some v => v | None => s_rid (e_src e) end) ].

(* MAC mobility first: a path carrying the community beats one that does not,
   a higher sequence number beats a lower one *)
Definition evpn_key (fl : flagmap) (e : entry) : list Z :=
  match a_mm (e_attr e) with
  | Some s => 0 :: - Z.of_N s :: spec_key fl e
  | None => 1 :: 0 :: spec_key fl e
  end.

Definition key_for (fl : flagmap) (net : N) (e : entry) : list Z :=
  if is_type2 net then evpn_key fl e else spec_key fl e.

Definition cmp_spec (fl : flagmap) (net : N) (a b : entry) : comparison :=
  lexc (key_for fl net a) (key_for fl net b).

(* [a] is at least as good as [b] *)
Definition not_worse (fl : flagmap) (net : N) (a b : entry) : Prop :=
  cmp_spec fl net a b <> Gt.

Definition tied (fl : flagmap) (net : N) (a b : entry) : Prop :=
  cmp_spec fl net a b = Eq.

(* steps before router-id: the ECMP tie *)
Definition ecmp_tied (fl : flagmap) (a b : entry) : Prop :=
  removelast (spec_key fl a) = removelast (spec_key fl b).

Definition ranked (fl : flagmap) (net : N) (l : list entry) : Prop :=
  StronglySorted (not_worse fl net) l.
