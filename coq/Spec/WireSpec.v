(* What property C03 demands of the wire decoders, written from the property
   text ("the decoder terminates and returns exactly one of: a message, a
   request for more bytes, or a protocol error that maps to a NOTIFICATION/drop;
   it never panics in any build profile, never loops without consuming input,
   and a complete frame in the buffer is always either consumed or rejected").
   No proofs in this file. *)
From Coq Require Import List NArith Bool.
From RB Require Import Base.Bytes Model.Bfd.
Import ListNotations.
Open Scope N_scope.

(* ---- BFD: one datagram, one answer.  A decoder outcome is acceptable when it
   is a message or a drop; the Io error is only for encoding and must not be
   produced by decoding. *)
Definition bfd_outcome_ok (r : bfd_res) : Prop :=
  match r with BfdOk _ => True | BfdErr k _ => k <> 4 | BfdPanic => False end.

(* RFC 5880 section 6.8.6, the reception checks that belong to the decoder:
   version 1, length field >= 24 and equal to the payload length (this decoder
   supports no authentication section, so it insists on equality). *)
Definition bfd_wellformed (buf : list N) : Prop :=
  24 <= len buf /\ nth_error buf 3 = Some (len buf) /\
  (exists b0, nth_error buf 0 = Some b0 /\ b0 / 32 = 1) /\
  (exists b1, nth_error buf 1 = Some b1 /\ b1 / 64 <= 3).

(* ---- Stream decoders (RTR, BGP): the property text, clause by clause, for a
   decoder [dec] driven as in Model/Stream.v. *)
From RB Require Import Model.Stream.

Section StreamSpec.
  Context {M E : Type}.
  Variable dec : list N -> dres M E.

  (* "it never panics" *)
  Definition never_panics : Prop := forall buf, dec buf <> DPanic.

  (* "never loops without consuming input": a returned message took a
     non-empty prefix of the buffer away *)
  Definition consumes_input : Prop :=
    forall buf m rest, dec buf = DMsg m rest ->
      (length rest < length buf)%nat /\ exists used, buf = used ++ rest.

  (* "a complete frame in the buffer is always either consumed or rejected";
     [complete] is the protocol's framing rule *)
  Definition complete_frame_decided (complete : list N -> Prop) : Prop :=
    forall buf, complete buf -> dec buf <> DNeed.

  (* and more bytes are requested only while the frame is incomplete *)
  Definition need_only_if_incomplete (complete : list N -> Prop) : Prop :=
    forall buf, dec buf = DNeed -> ~ complete buf.

  (* the driver of Model/Stream.v never observes a spin and never runs out of
     its own iteration bound *)
  Definition clean (l : list (ev M E)) : Prop := ~ In EvSpin l /\ ~ In EvFuel l.

  (* "arbitrary fragmentation of the stream": two ways of cutting the same
     byte string into chunks deliver the same messages and the same final error *)
  Definition fragmentation_invariant : Prop :=
    forall cs1 cs2 : list (list N), cs1 <> [] -> cs2 <> [] -> concat cs1 = concat cs2 ->
      exists e1 e2, run_stream dec cs1 = Some e1 /\ run_stream dec cs2 = Some e2 /\
                    clean e1 /\ clean e2 /\
                    msgs_of e1 = msgs_of e2 /\ err_of e1 = err_of e2.
End StreamSpec.

(* RTR framing rule (RFC 8210 section 5): 8-byte header whose bytes 4..7 are the
   PDU length; the frame is complete once that many bytes are buffered.  A
   header announcing fewer than 8 bytes is complete (and invalid). *)
Definition rtr_length_field (buf : list N) : option N :=
  match buf with
  | _ :: _ :: _ :: _ :: a :: b :: c :: d :: _ => Some (be32 a b c d)
  | _ => None
  end.

Definition rtr_complete (buf : list N) : Prop :=
  exists l, rtr_length_field buf = Some l /\ l <= len buf.

(* BGP framing rule (RFC 4271 section 4.1, RFC 8654): 19-byte header whose bytes
   16..17 are the message length; the frame is complete once that many bytes
   are buffered.  A header whose length is outside 19..max is complete (and
   invalid: it must be rejected, not waited on). *)
Definition bgp_length_field (buf : list N) : option N :=
  match nth_error buf 16, nth_error buf 17 with
  | Some a, Some b => Some (be16 a b)
  | _, _ => None
  end.

Definition bgp_complete (maxlen : N) (buf : list N) : Prop :=
  19 <= len buf /\ exists l, bgp_length_field buf = Some l /\ (l < 19 \/ maxlen < l \/ l <= len buf).
