(* What property C03 demands of the wire decoders, written from the property
   text ("the decoder terminates and returns exactly one of: a message, a
   request for more bytes, or a protocol error that maps to a NOTIFICATION/drop;
   it never panics in any build profile, never loops without consuming input,
   and a complete frame in the buffer is always either consumed or rejected").
   No proofs in this file. *)
From Coq Require Import List NArith Bool.
From RB Require Import Base.Bytes Model.Bfd.
Import ListNotations.
Open Scope N_scope.

(* ---- BFD: one datagram, one answer.  A decoder outcome is acceptable when it
   is a message or a drop; the Io error is only for encoding and must not be
   produced by decoding. *)
Definition bfd_outcome_ok (r : bfd_res) : Prop :=
  match r with BfdOk _ => True | BfdErr k _ => k <> 4 | BfdPanic => False end.

(* RFC 5880 section 6.8.6, the reception checks that belong to the decoder:
   version 1, length field >= 24 and equal to the payload length (this decoder
   supports no authentication section, so it insists on equality). *)
Definition bfd_wellformed (buf : list N) : Prop :=
  24 <= len buf /\ nth_error buf 3 = Some (len buf) /\
  (exists b0, nth_error buf 0 = Some b0 /\ b0 / 32 = 1) /\
  (exists b1, nth_error buf 1 = Some b1 /\ b1 / 64 <= 3).
