(* What property C20 demands, written from the property text and from the
   documentation of the kernel crate's API (KernelRouteChange: "nexthops empty
   means withdraw; non-empty installs"; register/unregister_nexthop: "reference
   counted; when the count reaches zero the address is no longer watched").
   No proofs here. *)
From Coq Require Import List NArith Bool.
From RB Require Import Base.Val Model.Fib.
Import ListNotations.
Open Scope N_scope.

(* ---- replaying the request stream *)
Definition fkey_eqb (a b : option N * prefix) : bool :=
  optN_eqb (fst a) (fst b) && pfx_eqb (snd a) (snd b).

(* the next-hop set installed for (table, prefix): the last request for that key *)
Definition fib_step (k : option N * prefix) (cur : list N) (r : req) : list N :=
  match r with
  | Apply t p nh => if fkey_eqb (t, p) k then nh else cur
  | _ => cur
  end.
Definition fib_replay (reqs : list req) (k : option N * prefix) : list N :=
  fold_left (fib_step k) reqs [].

(* registrations outstanding for an address (run_service_loop: the entry is
   removed when the count would drop below one, an unknown address is ignored) *)
Definition ref_step (a : N) (n : N) (r : req) : N :=
  match r with
  | Reg b => if b =? a then n + 1 else n
  | Unreg b => if b =? a then (if n <=? 1 then 0 else n - 1) else n
  | _ => n
  end.
Definition ref_replay (reqs : list req) (a : N) : N := fold_left (ref_step a) reqs 0.

Section Spec.
Variable c : cfg.

(* the decision steps before the router-id step, in order: LLGR-stale last,
   rank class (LOCAL_PREF / AS_PATH length / ORIGIN), eBGP over iBGP, GR-stale,
   shorter CLUSTER_LIST *)
Definition tie_key (fl : flags) (e : entry) : list N :=
  [b2n (e_llgr fl e); a_pref (e_attr e); b2n (snd (peer_info c (e_peer e))); b2n (e_stale fl e);
   a_clen (e_attr e)].

Definition beats (fl : flags) (x e : entry) : bool :=
  match lcmp (tie_key fl x) (tie_key fl e) with Lt => true | _ => false end.

(* the best path and the paths tied with it before the router-id step: the
   selectable paths that no selectable path beats *)
Definition ecmp_spec (fl : flags) (sel : list entry) : list entry :=
  filter (fun e => forallb (fun x => negb (beats fl x e)) sel) sel.

(* selectable = passed import policy and next hop not reported unreachable *)
Definition selectable (l : list entry) : list entry :=
  filter (fun e => negb (e_filt e) && negb (e_inv e)) l.

Definition fib_spec (fl : flags) (l : list entry) : list N :=
  nhs_of (ecmp_spec fl (selectable l)).

(* a best path: selectable and not beaten under the full order (router id last) *)
(* the last step: lower ORIGINATOR_ID, or router id of the session when absent (RFC 4456 s9) *)
Definition full_key (fl : flags) (e : entry) : list N :=
  tie_key fl e ++ [match a_oid (e_attr e) with Some o => o | None => fst (peer_info c (e_peer e)) end].
Definition is_best (fl : flags) (l : list entry) (b : entry) : Prop :=
  In b (selectable l) /\
  forall x, In x (selectable l) -> lcmp (full_key fl b) (full_key fl x) <> Gt.

(* VRF table: the same next-hop set when the VRF's import targets match the best
   path [b], nothing otherwise *)
Definition vrf_spec (fl : flags) (imp : list N) (l : list entry) (b : option entry) : list N :=
  match b with
  | Some x => if can_import imp (e_attr x) then fib_spec fl l else []
  | None => []
  end.

(* peer-learned paths currently using next hop [a] *)
Definition uses (a : N) (e : entry) : bool := negb (e_peer e =? 0) && nh_is a e.
Definition paths_using (s : st) (a : N) : N :=
  fold_right (fun p n => N.of_nat (length (filter (uses a) (d_l (s_get s p)))) + n) 0 (s_keys s).

(* the last reachability report for [a] in a history says "unreachable" *)
Fixpoint unreachable_after (ops : list op) (a : N) (cur : bool) : bool :=
  match ops with
  | [] => cur
  | NhValidity b r :: t => unreachable_after t a (if b =? a then negb r else cur)
  | _ :: t => unreachable_after t a cur
  end.

(* peer-level operations never name the local pseudo-source (address 0.0.0.0) *)
Definition wf_op (o : op) : bool :=
  match o with
  | DropPeer p | DropStale p | DropLlgr p | MarkLlgr p | MarkStale p => negb (p =? 0)
  | _ => true
  end.

(* restarting-speaker deferral of a family is started while the family holds no
   route (daemon/src/event/mod.rs starts it at boot, before any session) *)
Definition fam_empty (s : st) (f : N) : Prop := forall p, fst p = f -> d_l (s_get s p) = [].
Definition op_ok (s : st) (o : op) : Prop :=
  match o with StartDef f => fam_empty s f | _ => True end.
Fixpoint run_ok (v : variant) (s : st) (ops : list op) : Prop :=
  match ops with
  | [] => True
  | o :: t => op_ok s o /\ run_ok v (fst (step c v s o)) t
  end.

End Spec.
