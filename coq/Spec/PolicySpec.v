(* What property C14 demands of policy evaluation, written from the property
   text (not from the Rust):

   - statements are tried in order; a statement applies when all its conditions
     hold; the first non-pass disposition wins; actions of passed statements
     accumulate; the assignment's default is the verdict when nothing decides;
   - a prefix set matches a route when a set entry covers the route's prefix
     and the route's length lies in the entry's range;
   - ANY / ALL / INVERT mean: some pattern matches / every pattern matches /
     no pattern matches;
   - AS-path patterns speak about the AS numbers of the path in order
     (first, last, only, some), whatever segment they sit in.

   The data types are those of Model/Policy.v (they are the API's types); the
   definitions here are relations and quantified statements, independent of the
   code's loops, lookups and byte parsing.  No proofs in this file. *)
From Coq Require Import List NArith ZArith Bool.
From RB Require Import Base.Val Model.Policy.
Import ListNotations.
Open Scope N_scope.

(* ------------------------------------------------------------------ *)
(* prefixes                                                             *)

(* the first [m] bits of two [w]-bit addresses agree *)
Definition same_bits (w m a b : N) : Prop := N.shiftr a (w - m) = N.shiftr b (w - m).

(* entry e/em covers the route prefix r/rm: it is no longer than the route and
   the route lies inside it *)
Definition covers (w ea em ra rm : N) : Prop := em <= rm /\ same_bits w em ea ra.

Definition entry_matches (w : N) (e : pent) (ra rm : N) : Prop :=
  covers w (pe_raw e) (pe_mask e) ra rm /\ pe_min e <= rm <= pe_max e.

(* the default-route entry 0/0 covers every route *)
Definition zero_matches (z : option (N * N)) (rm : N) : Prop :=
  exists lo hi, z = Some (lo, hi) /\ lo <= rm <= hi.

Definition pset_matches (p : pset) (n : nlri) : Prop :=
  match n with
  | NV4 a m => zero_matches (ps_zero p) m \/ exists e, In e (ps_v4 p) /\ entry_matches 32 e a m
  | NV6 a m => zero_matches (ps_zero6 p) m \/ exists e, In e (ps_v6 p) /\ entry_matches 128 e a m
  end.

(* a neighbour-set entry covers the peer address *)
Definition net_covers (n : ipnet) (a : ip) : Prop :=
  match a with
  | IP4 b => n_v6 n = false /\ same_bits 32 (n_mask n) (n_addr n) b
  | IP6 b => n_v6 n = true /\ same_bits 128 (n_mask n) (n_addr n) b
  end.

(* ------------------------------------------------------------------ *)
(* AS paths                                                             *)

(* the wire form of an AS_PATH: segments (type, AS numbers) *)
Definition enc_seg (s : N * list N) : list N :=
  fst s :: N.of_nat (length (snd s)) :: flat_map u32_bytes (snd s).
Definition enc_path (segs : list (N * list N)) : list N := flat_map enc_seg segs.

Definition wire_seg (s : N * list N) : Prop :=
  1 <= fst s <= 4 /\ (length (snd s) <= 255)%nat /\ Forall (fun a => a < 2 ^ 32) (snd s).
Definition wire_path (segs : list (N * list N)) : Prop := Forall wire_seg segs.

(* the AS numbers of the path, in order *)
Definition path_asns (segs : list (N * list N)) : list N := concat (map snd segs).

(* RFC 4271 9.1.2.2 hop count: an AS_SET counts 1, an AS_SEQUENCE its length,
   confederation segments nothing *)
Definition hops (segs : list (N * list N)) : N :=
  fold_right (fun s acc => (if fst s =? 1 then 1 else if fst s =? 2 then N.of_nat (length (snd s)) else 0) + acc) 0 segs.

Definition between (lo hi x : N) : Prop := lo <= x <= hi.

(* what the eight single patterns say about the AS numbers of a path *)
Definition single_says (s : single) (asns : list N) : Prop :=
  match sg_kind s with
  | 0 => In (sg_a s) asns                                        (* _a_ *)
  | 4 => exists x, In x asns /\ between (sg_a s) (sg_b s) x
  | 1 => exists t, asns = sg_a s :: t                              (* ^a_ *)
  | 5 => exists x t, asns = x :: t /\ between (sg_a s) (sg_b s) x
  | 2 => exists t, asns = t ++ [sg_a s]                            (* _a$ *)
  | 6 => exists x t, asns = t ++ [x] /\ between (sg_a s) (sg_b s) x
  | 3 => asns = [sg_a s]                                         (* ^a$ *)
  | 7 => exists x, asns = [x] /\ between (sg_a s) (sg_b s) x
  | _ => False
  end.

(* ------------------------------------------------------------------ *)
(* match options                                                        *)

(* [pm p] = "pattern p matches the route" *)
Definition opt_holds {P} (o : mopt) (pats : list P) (pm : P -> Prop) : Prop :=
  match o with
  | MAny => exists p, In p pats /\ pm p
  | MAll => forall p, In p pats -> pm p
  | MInvert => ~ exists p, In p pats /\ pm p
  end.

Section Spec.
  Variable rx_comm rx_ext rx_large : N -> N -> bool.
  (* what a general as-path pattern (by id) says of the path rendered as text *)
  Variable rx_aspath : N -> list N -> bool.
  (* origin validation of (prefix, origin AS): 0 NotFound, 1 Valid, 2 Invalid;
     the outer None = no RPKI table in scope *)
  Variable rpki : option (nlri -> N -> option N).

  Definition comm_pat_matches (vals : list N) (p : cpat) : Prop :=
    exists c, In c vals /\
      match p with CExact v => c = v | CRegex id => rx_comm id c = true end.

  (* the AS numbers a route's AS_PATH attribute carries (segment by segment),
     None when it has no AS_PATH attribute *)
  Definition route_segs (l : list attr) : option (list (list N)) :=
    match find_attr AS_PATH l with
    | Some a => match attr_binary a with
                | Some b => Some (aspath_segs (length b) b)
                | None => None
                end
    | None => None
    end.

  (* the bytes of the route's AS_PATH attribute *)
  Definition route_path (l : list attr) : option (list N) :=
    match find_attr AS_PATH l with
    | Some a => attr_binary a
    | None => None
    end.

  (* a single pattern speaks about the AS numbers in order, a general pattern
     about the path as GoBGP prints it ([render_path]; its wire-level meaning is
     Proofs/PolicyWire.v render_path_enc) *)
  Definition aspath_pat_holds (l : list attr) (p : single + N) : Prop :=
    match p with
    | inl s => exists sg, route_segs l = Some sg /\ single_says s (concat sg)
    | inr id => exists b, route_path l = Some b /\ rx_aspath id (render_path b) = true
    end.

  (* the AS origin validation looks at: the last AS of the AS_PATH when it ends
     in a non-empty AS_SEQUENCE, the speaker's own AS otherwise *)
  Definition route_origin (x : ctx) (r : rstate) : option N :=
    match find_attr AS_PATH (r_attrs r) with
    | Some a => match as_path_origin a with
                | Ok (Some o) => Some o
                | Ok None => Some (s_local_asn (x_src x))
                | Panic _ => None
                end
    | None => Some (s_local_asn (x_src x))
    end.

  Definition apset_pats (s : apset) : list (single + N) := map inl (ap_single s) ++ map inr (ap_regex s).

  Definition val_is (code v : N) (l : list attr) : Prop :=
    exists a, find_attr code l = Some a /\ a_data a = DVal v.

  Definition cmp_holds (c : cmp) (l v : N) : Prop :=
    match c with CEq => l = v | CGe => v <= l | CLe => l <= v end.

  (* a condition holds of a route *)
  Definition cond_holds (x : ctx) (r : rstate) (c : cond) : Prop :=
    match c with
    | CSet _ o (SPrefix p) =>
        match o with
        | MAny => pset_matches p (x_net x)
        | _ => ~ pset_matches p (x_net x)
        end
    | CSet _ o (SNeighbor l) =>
        (* membership of the peer address in an entry is IpNet::contains, whose
           meaning (bit-prefix on canonical entries, [net_covers]) is property
           C16's contains_eq_bit_prefix *)
        match o with
        | MInvert => ~ exists n, In n l /\ net_contains n (x_peer x) = true
        | _ => exists n, In n l /\ net_contains n (x_peer x) = true
        end
    | CSet _ o (SAsPath s) => opt_holds o (apset_pats s) (aspath_pat_holds (r_attrs r))
    | CSet _ o (SComm l) => opt_holds o l (comm_pat_matches (communities_from_attr (r_attrs r)))
    | CSet _ o (SExt l) =>
        opt_holds o l (fun id => exists c, In c (filter ext_has_string (ext_communities_from_attr (r_attrs r)))
                                          /\ rx_ext id c = true)
    | CSet _ o (SLarge l) =>
        opt_holds o l (fun id => exists c, In c (large_communities_from_attr (r_attrs r)) /\ rx_large id c = true)
    | CAsPathLen c v =>
        exists a b, find_attr AS_PATH (r_attrs r) = Some a /\ attr_binary a = Some b /\
                    cmp_holds c (aslen_loop (length b) b 0 mod 2 ^ 32) v
    | CNexthop l => exists nh, r_nh r = Some nh /\ exists i, In i l /\ ip_eqb (nh_addr nh) i = true
    | CRpki st =>
        exists validate asn, rpki = Some validate /\ route_origin x r = Some asn /\
                             validate (x_net x) asn = Some st
    | CLocalPrefEq v => val_is LOCAL_PREF v (r_attrs r)
    | CMedEq v => val_is MED v (r_attrs r)
    | COriginEq v => val_is ORIGIN v (r_attrs r)
    | CRouteType t =>
        let s := x_src x in
        match t with
        | RLocal => s_is_local s = true
        | RInternal => s_is_local s = false /\ s_remote_asn s = s_local_asn s
        | RExternal => s_is_local s = false /\ s_remote_asn s <> s_local_asn s
        end
    | CCommCount c v => cmp_holds c (N.of_nat (length (communities_from_attr (r_attrs r))) mod 2 ^ 32) v
    | CAfiSafiIn l => In (nlri_family (x_net x)) l
    end.

  (* a statement applies when all its conditions hold *)
  Definition stmt_applies (x : ctx) (r : rstate) (s : stmt) : Prop :=
    Forall (cond_holds x r) (st_conds s).

  (* the route after the statement's actions (Model/Policy.v's action functions
     are total after the fixes; the never-panics theorem covers the rest) *)
  Definition acted (x : ctx) (s : stmt) (r r' : rstate) : Prop :=
    exists l4,
      act_prepend x (ac_prepend (st_act s))
                  (act_med (ac_med (st_act s))
                           (act_local_pref (ac_local_pref (st_act s)) (act_comm (ac_comm (st_act s)) (r_attrs r)))) = Ok l4 /\
      r' = {| r_attrs := act_origin (ac_origin (st_act s))
                           (act_large (ac_large (st_act s)) (act_ext (ac_ext (st_act s)) l4));
              r_nh := act_nexthop x (ac_nexthop (st_act s)) (r_nh r) |}.

  Definition decides (s : stmt) (d : disp) : Prop := st_disp s = Some d /\ d <> DPass.
  Definition passes (s : stmt) : Prop := st_disp s = None \/ st_disp s = Some DPass.

  (* statements tried in order; first non-pass disposition wins; actions of
     passed statements accumulate; the default decides otherwise *)
  Inductive runs (x : ctx) (dflt : disp) : list stmt -> rstate -> disp -> rstate -> Prop :=
  | R_default r : runs x dflt [] r dflt r
  | R_skip s l r d r' :
      ~ stmt_applies x r s -> runs x dflt l r d r' -> runs x dflt (s :: l) r d r'
  | R_decide s l r r1 d :
      stmt_applies x r s -> acted x s r r1 -> decides s d -> runs x dflt (s :: l) r d r1
  | R_pass s l r r1 d r' :
      stmt_applies x r s -> acted x s r r1 -> passes s -> runs x dflt l r1 d r' ->
      runs x dflt (s :: l) r d r'.

  (* the statements of an assignment, policy after policy *)
  Definition flat_stmts (a : assignment) : list stmt := flat_map p_stmts (as_pols a).

  Definition eval_spec (a : assignment) (x : ctx) (r : rstate) (d : disp) (r' : rstate) : Prop :=
    runs x (as_disp a) (flat_stmts a) r d r'.
End Spec.

(* ------------------------------------------------------------------ *)
(* attribute lists the wire decoder / the API can hand to evaluation     *)

(* API: attr_from_api builds AS_PATH only through new_with_bin (never a value
   attribute); its bytes are arbitrary *)
Definition api_attrs (l : list attr) : Prop :=
  Forall (fun a => a_code a = AS_PATH -> forall v, a_data a <> DVal v) l.

(* wire: the decoder additionally guarantees a well-formed segment list *)
Definition wire_attrs (l : list attr) : Prop :=
  Forall (fun a => a_code a = AS_PATH -> exists segs, wire_path segs /\ a_data a = DBin (enc_path segs)) l.

(* ------------------------------------------------------------------ *)
(* reference integrity of a policy table                                *)
(* (defined over Model/PolicyTable.v's table in Proofs/PolicyTable.v)     *)
