(* What property C18 demands, written from the property text.  No proofs here.

   A subscriber asks for a snapshot and applies what it receives, in channel
   order: a reach event stores the route under (peer, prefix, path id), a
   withdraw event deletes it, a PeerDown forgets the peer (RFC 7854 s4.9).  When
   every writer has finished, what it holds must be exactly the pre-policy and
   the post-policy Adj-RIB-In of the RIB, and per key the last event delivered
   must be the current state. *)
From Coq Require Import List NArith Bool.
From RB Require Import Base.Val Model.Subscribe.
Import ListNotations.
Open Scope N_scope.

(* the RIB's two Adj-RIB-In views: Table::iter_reach and Table::iter_reach_post *)
Definition rib_pre (g : glob) : key -> option N := ribv false (g_rib g).
Definition rib_post (g : glob) : key -> option N := ribv true (g_rib g).

(* a path kept after its peer's session went down with graceful restart (its Source is
   marked stale).  A consumer that saw the PeerDown has forgotten it (RFC 7854 s4.9)
   and hears of it again when it is re-announced or purged. *)
Definition stale_retained (g : glob) (k : key) : Prop := g_rib g k <> None /\ is_stale g k = true.

(* what subscription [j] must hold for key [k], in the kind [b] *)
Definition holds_exactly (g : glob) (j : nat) (b : bool) (k : key) : Prop :=
  let f := (if b then fold_post else fold_pre) (g_evs g j) k in
  f = ribv b (g_rib g) k \/ (stale_retained g k /\ f = None).

(* the last event that concerns key [k] in the kind [b] (false: pre-policy, true:
   post-policy), read from the newest end: [Some x] = "state is x", [None] = the
   key was never mentioned *)
Definition concerns (b : bool) (k : key) (e : ev) : option (option N) :=
  match e with
  | EvPre q x => if negb b && key_eqb q k then Some x else None
  | EvPost q x => if b && key_eqb q k then Some x else None
  | EvDown p => if k_peer k =? p then Some None else None
  | _ => None
  end.
Fixpoint last_touch_rev (b : bool) (k : key) (rev_evs : list ev) : option (option N) :=
  match rev_evs with
  | [] => None
  | e :: t => match concerns b k e with Some x => Some x | None => last_touch_rev b k t end
  end.
Definition last_touch (b : bool) (k : key) (evs : list ev) : option (option N) :=
  last_touch_rev b k (rev evs).

(* every thread has run to completion *)
Definition all_done (s : sys) : Prop := forall i, next_step (s_thr s i) = None.

(* a peer's route operations and its session up/down come from one thread *)
Definition op_owner (p : N) (o : op) : Prop :=
  match o with
  | Ins k _ | Rem k => k_peer k = p
  | Up q | Down q | GrDown q => q = p
  | _ => False
  end.
Definition wf_progs (progs : list (list op)) : Prop :=
  forall i j p o1 o2, i <> j ->
    In o1 (nth i progs []) -> In o2 (nth j progs []) -> op_owner p o1 -> op_owner p o2 -> False.

(* PeerUp/PeerDown pairing of a forwarded stream: a PeerDown for p only while p is "up" *)
Fixpoint paired (up : list N) (evs : list ev) : Prop :=
  match evs with
  | [] => True
  | EvUp p :: t => paired (p :: up) t
  | EvDown p :: t => In p up /\ paired (filter (fun q => negb (q =? p)) up) t
  | _ :: t => paired up t
  end.
