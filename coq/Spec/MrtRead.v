(* What property C19 demands of an MRT record, written from RFC 6396 (and
   RFC 8050 for the ADD-PATH subtypes), not from the Rust.

   RFC 6396 section 2  common header: Timestamp(4) Type(2) Subtype(2) Length(4); Length
                 counts the octets AFTER the header.
   section 4.4.3 BGP4MP_MESSAGE_AS4 (type 16 subtype 4; RFC 8050: subtype 8 =
                 BGP4MP_MESSAGE_AS4_ADDPATH): Peer AS(4) Local AS(4) Interface Index(2)
                 Address Family(2: 1 = IPv4, 2 = IPv6) Peer IP(4|16) Local IP(4|16)
                 BGP Message (one whole BGP message, to the end of the record).
   section 4.3.1 PEER_INDEX_TABLE (type 13 subtype 1): Collector BGP ID(4) View Name
                 Length(2) View Name Peer Count(2), then per peer: Peer Type(1: bit 0 =
                 IPv6 address, bit 1 = 4-octet AS) Peer BGP ID(4) Peer IP(4|16) Peer AS(2|4).
   section 4.3.2 RIB_IPV4_UNICAST / RIB_IPV6_UNICAST (subtypes 2 / 4): Sequence(4) Prefix
                 Length(1) Prefix(ceil(len/8)) Entry Count(2), then per entry (4.3.4):
                 Peer Index(2) Originated Time(4) Attribute Length(2) Attributes. *)
From Coq Require Import List NArith Bool Arith.
From RB Require Import Base.BytesBuf Spec.BmpRead.
Import ListNotations.
Open Scope N_scope.

(* one whole BGP message of any type at the head of [bs] (RFC 4271 4.1) *)
Definition read_bgp_msg (bs : bytes) : option (bytes * bytes) :=
  let? (mk, r1) := take 16 bs in
  let? _ := guard (if list_eq_dec N.eq_dec mk marker then true else false) in
  let? (len, _) := rd 2 r1 in
  let? _ := guard (19 <=? len) in
  take (N.to_nat len) bs.

Inductive mrt_view : Type :=
| VBgp4mp (ts subtype peer_as local_as ifidx afi : N) (peer_ip local_ip msg : bytes)
| VPeerIndex (ts : N) (collector view_name : bytes) (count : N)
             (peers : list (N * bytes * bytes * N))         (* type, BGP ID, IP, AS *)
| VRib (ts subtype seq plen : N) (prefix : bytes) (count : N)
       (entries : list (N * N * bytes)).                     (* peer index, originated, attributes *)

Definition is_nil {A} (l : list A) : bool := match l with [] => true | _ => false end.

Fixpoint read_peers (n : nat) (bs : bytes) : option (list (N * bytes * bytes * N) * bytes) :=
  match n with
  | O => Some ([], bs)
  | S n' =>
    let? (pt, r) := rd 1 bs in
    let? (id, r) := take 4 r in
    let? (ip, r) := take (if N.testbit pt 0 then 16 else 4) r in
    let? (asn, r) := rd (if N.testbit pt 1 then 4 else 2) r in
    let? (more, r) := read_peers n' r in
    Some ((pt, id, ip, asn) :: more, r)
  end.

Fixpoint read_entries (n : nat) (bs : bytes) : option (list (N * N * bytes) * bytes) :=
  match n with
  | O => Some ([], bs)
  | S n' =>
    let? (idx, r) := rd 2 bs in
    let? (orig, r) := rd 4 r in
    let? (alen, r) := rd 2 r in
    let? (attrs, r) := take (N.to_nat alen) r in
    let? (more, r) := read_entries n' r in
    Some ((idx, orig, attrs) :: more, r)
  end.

Definition read_mrt_body (ts ty sub : N) (body : bytes) : option mrt_view :=
  if (ty =? 16) && ((sub =? 4) || (sub =? 8)) then
    let? (pas, r) := rd 4 body in
    let? (las, r) := rd 4 r in
    let? (ifx, r) := rd 2 r in
    let? (afi, r) := rd 2 r in
    let? _ := guard ((afi =? 1) || (afi =? 2)) in
    let n := if afi =? 1 then 4%nat else 16%nat in
    let? (pip, r) := take n r in
    let? (lip, r) := take n r in
    let? (msg, rest) := read_bgp_msg r in
    let? _ := guard (is_nil rest) in            (* one BGP message, to the end of the record *)
    Some (VBgp4mp ts sub pas las ifx afi pip lip msg)
  else if (ty =? 13) && (sub =? 1) then
    let? (coll, r) := take 4 body in
    let? (vl, r) := rd 2 r in
    let? (vn, r) := take (N.to_nat vl) r in
    let? (cnt, r) := rd 2 r in
    let? (peers, rest) := read_peers (N.to_nat cnt) r in
    let? _ := guard (is_nil rest) in            (* exactly Peer Count entries *)
    Some (VPeerIndex ts coll vn cnt peers)
  else if (ty =? 13) && ((sub =? 2) || (sub =? 4)) then
    let? (seq, r) := rd 4 body in
    let? (plen, r) := rd 1 r in
    let? _ := guard (plen <=? (if sub =? 2 then 32 else 128)) in
    let? (pfx, r) := take (N.to_nat ((plen + 7) / 8)) r in
    let? (cnt, r) := rd 2 r in
    let? (es, rest) := read_entries (N.to_nat cnt) r in
    let? _ := guard (is_nil rest) in            (* exactly Entry Count entries *)
    Some (VRib ts sub seq plen pfx cnt es)
  else None.

(* One MRT record at the head of [bs]: (Length field, view, rest). *)
Definition read_mrt (bs : bytes) : option (N * mrt_view * bytes) :=
  let? (ts, r) := rd 4 bs in
  let? (ty, r) := rd 2 r in
  let? (sub, r) := rd 2 r in
  let? (len, r) := rd 4 r in
  let? (body, rest) := take (N.to_nat len) r in
  let? v := read_mrt_body ts ty sub body in
  Some (len, v, rest).

Fixpoint read_mrt_stream (fuel : nat) (bs : bytes) : option (list mrt_view) :=
  match bs with
  | [] => Some []
  | _ =>
    match fuel with
    | O => None
    | S fuel' =>
      let? (_, v, rest) := read_mrt bs in
      let? more := read_mrt_stream fuel' rest in
      Some (v :: more)
    end
  end.

(* "a common header whose length equals the bytes that follow" *)
Definition record_length_exact (rec : bytes) : Prop :=
  exists ts ty sub len following,
    rec = be 4 ts ++ be 2 ty ++ be 2 sub ++ be 4 len ++ following
    /\ len < 2 ^ 32 /\ len = N.of_nat (length following).

(* ----------------------------------------------- the intended content *)
From RB Require Import Model.Bmp Model.Mrt.

Definition same_family (a b : ip) : Prop := is_v6 a = is_v6 b.

(* the headers daemon/src/mrt.rs builds: 4-octet AS form, both addresses of the
   session (hence of one family), well-typed fields *)
Definition wf_mph (h : mp_header) : Prop :=
  m_rasn h < 2 ^ 32 /\ m_lasn h < 2 ^ 32 /\ m_ifidx h < 65536
  /\ wf_ip (m_raddr h) /\ wf_ip (m_laddr h) /\ same_family (m_raddr h) (m_laddr h)
  /\ m_asn4 h = true.

Definition mp_len_ok (m : mp_msg) : Prop :=
  N.of_nat (length (mph_encode (mp_hdr m)) + length (mp_blob m)) < 2 ^ 32.

(* one BGP4MP record per BGP message [f] of the monitored item; the subtype
   states the ADD-PATH setting, the AFI follows the peer address *)
Definition mp_view (ts : N) (m : mp_msg) (f : bytes) : mrt_view :=
  let h := mp_hdr m in
  VBgp4mp ts (if mp_addpath m then 8 else 4) (m_rasn h) (m_lasn h) (m_ifidx h)
          (if is_v6 (m_raddr h) then 2 else 1) (ip_octets (m_raddr h)) (ip_octets (m_laddr h)) f.

Definition wf_peer (p : peer_entry) : Prop :=
  length (pe_id p) = 4%nat /\ wf_ip (pe_addr p) /\ pe_asn p < 2 ^ 32.

Definition peer_view (p : peer_entry) : N * bytes * bytes * N :=
  (if is_v6 (pe_addr p) then 3 else 2, pe_id p, ip_octets (pe_addr p), pe_asn p).

(* the attribute block of an entry as the dump is meant to carry it: the wire
   form of each attribute, then the next hop (NEXT_HOP for an IPv4 table, the
   abbreviated MP_REACH_NLRI of RFC 6396 4.3.4 for an IPv6 table) *)
Definition entry_attrs (ipv6 : bool) (e : rib_entry) : bytes :=
  concat (re_attrs e) ++ match re_nh e with Some nh => nh_attr ipv6 nh | None => [] end.

Definition wf_entry (ipv6 : bool) (e : rib_entry) : Prop :=
  re_idx e < 65536 /\ re_orig e < 2 ^ 32 /\ N.of_nat (length (entry_attrs ipv6 e)) < 65536.

Definition entry_view (ipv6 : bool) (e : rib_entry) : N * N * bytes :=
  (re_idx e, re_orig e, entry_attrs ipv6 e).

(* contract of the opaque prefix parameter (Nlri::encode of an IPv4/IPv6 prefix) *)
Definition prefix_ok (ipv6 : bool) (p : bytes) : Prop :=
  exists mask rest, p = mask :: rest /\ mask <= (if ipv6 then 128 else 32)
                    /\ length rest = N.to_nat ((mask + 7) / 8).

Definition wf_td (r : td_record) : Prop :=
  match r with
  | PeerIndexTable rid peers =>
      length rid = 4%nat /\ N.of_nat (length peers) < 65536 /\ Forall wf_peer peers
  | RibIpv4Unicast seq p es =>
      seq < 2 ^ 32 /\ prefix_ok false p /\ N.of_nat (length es) < 65536 /\ Forall (wf_entry false) es
  | RibIpv6Unicast seq p es =>
      seq < 2 ^ 32 /\ prefix_ok true p /\ N.of_nat (length es) < 65536 /\ Forall (wf_entry true) es
  end.

Definition td_len_ok (r : td_record) : Prop := N.of_nat (length (td_body r)) < 2 ^ 32.

Definition td_view (ts : N) (r : td_record) : mrt_view :=
  match r with
  | PeerIndexTable rid peers =>
      VPeerIndex ts rid [] (N.of_nat (length peers)) (map peer_view peers)
  | RibIpv4Unicast seq p es =>
      VRib ts 2 seq (hd 0 p) (tl p) (N.of_nat (length es)) (map (entry_view false) es)
  | RibIpv6Unicast seq p es =>
      VRib ts 4 seq (hd 0 p) (tl p) (N.of_nat (length es)) (map (entry_view true) es)
  end.

(* peer-index consistency across the records of one dump: every RIB entry
   refers to an existing row of the peer index table *)
Definition indexes_valid (npeers : nat) (es : list rib_entry) : Prop :=
  Forall (fun e => re_idx e < N.of_nat npeers) es.
