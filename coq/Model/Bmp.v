(* Model of packet/src/bmp.rs: BmpCodec::encode, PerPeerHeader::encode,
   PeerDownReason::encode, Message::encode_ip.

   The embedded BGP messages are NOT modelled here (the BGP encoder is property
   C04): wherever the Rust calls `PeerCodec::encode_to(msg, &mut buf)` and
   copies `buf`, the model takes the resulting byte string as a parameter
   ("blob").  What the theorems assume of a blob is stated in Spec/BmpRead.v
   ([frames_ok]: a concatenation of BGP frames, each starting with the 16-byte
   marker and a 2-byte length equal to the length of the frame); the
   correspondence run checks that assumption on every blob it sees.

   Integers: lengths and offsets are nat (usize); every `as uN` cast is the
   truncating [be k].  No arithmetic in this file can overflow (`c.len() -
   pos_first` never underflows because the buffer only grows), so the build
   profile does not appear. *)
From Coq Require Import List NArith Bool Arith.
From RB Require Import Base.Val Base.BytesBuf.
Import ListNotations.
Open Scope N_scope.

Inductive ip : Type :=
| IP4 (b : bytes)          (* 4 octets *)
| IP6 (b : bytes).         (* 16 octets *)

Definition is_v6 (a : ip) : bool := match a with IP4 _ => false | IP6 _ => true end.
Definition ip_octets (a : ip) : bytes := match a with IP4 b => b | IP6 b => b end.

(* Message::encode_ip *)
Definition encode_ip (a : ip) : bytes :=
  match a with
  | IP4 b => repeat 0 12 ++ b
  | IP6 b => b
  end.

Record pph : Type := {
  p_type : N;         (* u8 *)
  p_flags : N;        (* u8, caller supplied (L, O, ...) *)
  p_asn : N;          (* u32 *)
  p_id : bytes;       (* Ipv4Addr: 4 octets *)
  p_dist : N;         (* u64 *)
  p_addr : ip;
  p_ts : N            (* u32 *)
}.

Definition PEER_FLAG_IPV6 : N := 128.

(* PerPeerHeader::encode *)
Definition pph_encode (h : pph) : bytes :=
  be 1 (p_type h)
  ++ be 1 (N.lor (p_flags h) (if is_v6 (p_addr h) then PEER_FLAG_IPV6 else 0))
  ++ be 8 (p_dist h)
  ++ encode_ip (p_addr h)
  ++ be 4 (p_asn h)
  ++ p_id h
  ++ be 4 (p_ts h)
  ++ be 4 0.

Inductive down_reason : Type :=
| LocalNotification (blob : bytes)     (* encode_to(notification) on a fresh codec *)
| LocalFsm (code : N)                  (* u16 *)
| RemoteNotification (blob : bytes)
| RemoteUnexpected
| Deconfigured.

Definition reason_code (r : down_reason) : N :=
  match r with
  | LocalNotification _ => 1 | LocalFsm _ => 2 | RemoteNotification _ => 3
  | RemoteUnexpected => 4 | Deconfigured => 5
  end.

(* PeerDownReason::encode *)
Definition reason_encode (r : down_reason) : bytes :=
  be 1 (reason_code r) ++
  match r with
  | LocalNotification b => b
  | LocalFsm c => be 2 c
  | RemoteNotification b => b
  | RemoteUnexpected | Deconfigured => []
  end.

Inductive bmp_msg : Type :=
| RouteMonitoring (h : pph) (blob : bytes)   (* blob = encode_to(update) under add-path tx = addpath *)
| StatsReports
| PeerDown (h : pph) (r : down_reason)
| PeerUp (h : pph) (local_addr : ip) (local_port remote_port : N) (local_open remote_open : bytes)
| Initiation (tlvs : list (N * bytes))
| Termination
| RouteMirroring.

Definition msg_code (m : bmp_msg) : N :=
  match m with
  | RouteMonitoring _ _ => 0 | StatsReports => 1 | PeerDown _ _ => 2 | PeerUp _ _ _ _ _ _ => 3
  | Initiation _ => 4 | Termination => 5 | RouteMirroring => 6
  end.

Definition tlv_encode (t : N * bytes) : bytes :=
  be 2 (fst t) ++ be 2 (N.of_nat (length (snd t))) (* bin.len() as u16 *) ++ snd t.

(* the bytes written between the common header and the length back-patch, for
   the messages that are written in one piece *)
Definition body_encode (m : bmp_msg) : bytes :=
  match m with
  | RouteMonitoring h blob => pph_encode h ++ blob      (* not used by bmp_encode: see rm_loop *)
  | StatsReports => []
  | PeerDown h r => pph_encode h ++ reason_encode r
  | PeerUp h la lp rp lo ro => pph_encode h ++ encode_ip la ++ be 2 lp ++ be 2 rp ++ (lo ++ ro)
  | Initiation tlvs => concat (map tlv_encode tlvs)
  | Termination | RouteMirroring => []
  end.

Definition VERSION : N := 3.

(* Message::begin: common header with a zero length; the caller remembers where
   it starts.  Message::finish: back-patch the length of the message that starts
   at [pos_first]. *)
Definition begin (c : bytes) (code : N) : bytes := c ++ [VERSION] ++ be 4 0 ++ be 1 code.
Definition finish (c : bytes) (pos_first : nat) : bytes :=
  patch c (pos_first + 1) (be 4 (N.of_nat (length c - pos_first)))   (* len as u32 *).

(* Message::pdu_len: length of the BGP PDU at the head of [b]; everything, if
   [b] does not start with a complete PDU. *)
Definition pdu_len (b : bytes) : nat :=
  if (length b <? 19)%nat then length b
  else let n := N.to_nat (be_dec (firstn 2 (skipn 16 b))) in
       if ((n <? 19) || (length b <? n))%nat then length b else n.

(* the pieces the Route Monitoring loop cuts the encode_to output into
   (fuel: the length of the blob is enough, every piece but the last has >= 19 bytes) *)
Fixpoint split_pdus (fuel : nat) (b : bytes) : list bytes :=
  let n := pdu_len b in
  let pdu := firstn n b in
  let rest := skipn n b in
  match rest with
  | [] => [pdu]
  | _ => match fuel with
         | O => [pdu; rest]          (* not reached when fuel >= length b *)
         | S fuel' => pdu :: split_pdus fuel' rest
         end
  end.

(* the Route Monitoring loop: one message per PDU, each with its own common and
   per-peer header; the last one is left open for the final [finish] *)
Fixpoint rm_loop (h : pph) (code : N) (c : bytes) (pos_first : nat) (pdus : list bytes)
  : bytes * nat :=
  match pdus with
  | [] => (c, pos_first)
  | [p] => (c ++ pph_encode h ++ p, pos_first)
  | p :: rest =>
      let c1 := finish (c ++ pph_encode h ++ p) pos_first in
      rm_loop h code (begin c1 code) (length c1) rest
  end.

(* BmpCodec::encode: appends the message(s) for one item to the buffer [c]. *)
Definition bmp_encode (c : bytes) (m : bmp_msg) : bytes :=
  let pos_first := length c in
  let c0 := begin c (msg_code m) in
  let '(c1, pf) :=
    match m with
    | RouteMonitoring h blob => rm_loop h (msg_code m) c0 pos_first (split_pdus (length blob) blob)
    | _ => (c0 ++ body_encode m, pos_first)
    end in
  finish c1 pf.

(* a Framed sink: every message appended to the same buffer *)
Definition bmp_encode_all (c : bytes) (ms : list bmp_msg) : bytes := fold_left bmp_encode ms c.

(* ------------------------------------------------------------ observation *)

Definition run_case (prefill : bytes) (ms : list bmp_msg) : val :=
  VNs (bmp_encode_all prefill ms).
