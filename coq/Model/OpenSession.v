(* C16, "the two OPENs yield ...": an OPEN as it arrives on the wire, through
   the codec (Model/WireMsg.v try_parse, property C03's model), the FSM's
   on_open (Model/Fsm.v: expected AS, hold time) and the negotiation
   (Model/Negotiate.v).  Composition only, no new behaviour.  No proofs. *)
From Coq Require Import List ZArith NArith Bool.
From RB Require Import Base.Val Base.Bytes Model.Caps Model.Stream Model.Wire Model.WireMsg
                       Model.Fsm Model.Negotiate.
Import ListNotations.
Open Scope N_scope.

Definition is_timer_or_down (o : pfo) : bool :=
  match o with
  | PConn _ (SetKa _) | PConn _ (SetHold _) | PConn _ (SessDown _ _) => true
  | _ => false
  end.

(* a connection in OpenSent (local id, AS 65000, capabilities, hold time,
   expected AS) receives the frame *)
Definition run_open_case (lid : N) (lcap : list cap) (lhold exp : N) (frame : list N) (fams : list N) : val :=
  match try_parse no_other Debug (mk_codec false false []) frame with
  | DMsg (POpen asn hold rid caps) _ =>
      let p0 := pfsm_new lid 65000 lcap lhold exp [] in
      let p1 := fst (peer_step p0 RActive (Connected false)) in
      let '(p2, outs) := peer_step p1 RActive (Recv (MOpen asn rid hold caps)) in
      VL [VN 1; VN asn; VN hold; VN rid; v_caps caps;
          VN (st_code (pstate p2 RActive)); VList v_pfo (filter is_timer_or_down outs);
          run_neg_case lcap caps fams; run_gr_case lcap caps]
  | DMsg _ _ => VL [VN 3]
  | DErr e _ => VL [VN 0; VN (n_code e); VN (n_sub e)]
  | DNeed _ => VL [VN 2]
  | DPanic => VL [VI (-1)%Z]
  end.
