(* Model of the daemon-side converters: daemon/src/bmp.rs (apply_snapshot,
   flush_peer_snapshot, adj_rib_in_to_bmp_update, loc_rib_to_bmp) and
   daemon/src/mrt.rs (adj_rib_in_to_mrt, dump_table).

   NLRI and attribute sets are carried, never inspected, by this code: they are
   opaque values here ([val], printed as the harness prints them).  Hash maps
   are association lists; iteration order is unspecified and the observations
   are compared sorted. *)
From Coq Require Import List ZArith NArith Bool Arith.
From RB Require Import Base.Val Base.BytesBuf Model.Bmp Model.Mrt.
Import ListNotations.
Open Scope N_scope.

Record source : Type := {
  s_raddr : ip; s_laddr : ip; s_rasn : N; s_lasn : N; s_rid : bytes (* router id, 4 octets *)
}.

(* table_manager.rs AdjRibInChange *)
Record change : Type := {
  c_source : source;
  c_family : N;
  c_addpath : bool;
  c_nlris : list val;             (* PathNlri values *)
  c_attrs : option val;           (* None = withdrawal *)
  c_nexthop : val;                (* Option<Nexthop> *)
  c_ts : N
}.

(* the bgp::Message the converters build *)
Inductive update : Type :=
| UReach (family : N) (entries : list val) (nexthop : val) (attrs : val)
| UUnreach (family : N) (entries : list val)
| UEor (family : N).

(* adj_rib_in_to_bmp_update, and the body built by adj_rib_in_to_mrt *)
Definition adj_rib_in_to_update (c : change) : update :=
  match c_attrs c with
  | Some a => UReach (c_family c) (c_nlris c) (c_nexthop c) a
  | None => UUnreach (c_family c) (c_nlris c)
  end.

(* a Route Monitoring message before encoding: header, update, add-path flag *)
Record rm : Type := { rm_hdr : pph; rm_update : update; rm_addpath : bool }.

Definition pph_new (flags asn : N) (id : bytes) (dist : N) (addr : ip) (ts : N) : pph :=
  {| p_type := 0; p_flags := flags; p_asn := asn; p_id := id; p_dist := dist; p_addr := addr; p_ts := ts |}.

Definition with_peer_type (h : pph) (t : N) : pph :=
  {| p_type := t; p_flags := p_flags h; p_asn := p_asn h; p_id := p_id h; p_dist := p_dist h;
     p_addr := p_addr h; p_ts := p_ts h |}.

Definition PEER_TYPE_LOC_RIB : N := 3.

(* table_manager.rs LocRibChange -> loc_rib_to_bmp *)
Definition loc_rib_to_bmp (family : N) (net : val) (attr : option val) (nexthop : val) (ts : N)
           (router_id : bytes) (local_asn : N) : rm :=
  let entry := VL [VN 0; net] in          (* PathNlri { nlri, path_id: 0 } *)
  {| rm_hdr := with_peer_type (pph_new 0 local_asn router_id 0 (IP4 [0;0;0;0]) ts) PEER_TYPE_LOC_RIB;
     rm_update := match attr with
                  | Some a => UReach family [entry] nexthop a
                  | None => UUnreach family [entry]
                  end;
     rm_addpath := false |}.

(* loc_rib_peer_up: the Peer Up of the Loc-RIB virtual peer (RFC 9069 4.4).  The OPEN it
   fabricates (used as both the sent and the received OPEN) is described by its fields; its
   wire form is the parameter [open_blob]. *)
Record open_desc : Type := { o_asn : N; o_hold : N; o_rid : N; o_caps : list val }.

Definition be_u32 (b : bytes) : N := be_dec b.      (* u32::from(Ipv4Addr) *)

Definition loc_rib_open (router_id : bytes) (local_asn : N) : open_desc :=
  {| o_asn := local_asn; o_hold := 0; o_rid := be_u32 router_id;
     o_caps := [VL [VN 65; VN local_asn]]          (* FourOctetAsNumber(local_asn) *) |}.

Definition loc_rib_peer_up (router_id : bytes) (local_asn : N) (open_blob : bytes) : bmp_msg :=
  PeerUp (with_peer_type (pph_new 0 local_asn router_id 0 (IP4 [0;0;0;0]) 0) PEER_TYPE_LOC_RIB)
         (IP4 [0;0;0;0]) 0 0 open_blob open_blob.

(* fsm.rs SessionDownReason -> session_down_to_bmp *)
Inductive session_down : Type :=
| SDHoldTimerExpired | SDRemoteNotification (blob : bytes) | SDLocalNotification (blob : bytes)
| SDFsmError | SDAdminShutdown | SDIoError.

Definition session_down_to_bmp (r : option session_down) : down_reason :=
  match r with
  | None => RemoteUnexpected
  | Some SDHoldTimerExpired => LocalFsm 0
  | Some (SDRemoteNotification b) => RemoteNotification b
  | Some (SDLocalNotification b) => LocalNotification b
  | Some SDFsmError => LocalFsm 0
  | Some SDAdminShutdown => LocalFsm 0
  | Some SDIoError => RemoteUnexpected
  end.

(* table_manager.rs AdjRibOutChange -> adj_rib_out_to_bmp_update: always a single NLRI *)
Definition adj_rib_out_to_update (family : N) (nlri : val) (attrs : option val) (nexthop : val) : update :=
  match attrs with
  | Some a => UReach family [nlri] nexthop a
  | None => UUnreach family [nlri]
  end.

(* ---- how BmpCodec::encode / MrtCodec::encode configure their private PeerCodec for one
   monitored update (packet/src/bmp.rs, mrt.rs): add-path tx as stated by the item; the
   RFC 8950 form exactly for an IPv4-unicast announcement with an IPv6 next hop; the
   4096-octet limit first and, if encode_to reports that the attributes leave no room,
   the RFC 8654 limit; an error (never a panic) if that fails too.  The BGP encoder itself
   is the Section variable [encode_to ext_nexthop ext_length addpath u] (None = Err). *)

Definition nh_is_v6 (nh : val) : bool :=
  match nh with
  | VL [VL b] => Nat.eqb (length b) 16 || Nat.eqb (length b) 32
  | _ => false
  end.

Definition needs_rfc8950 (u : update) : bool :=
  match u with
  | UReach f _ nh _ => (f =? 65537) && nh_is_v6 nh
  | _ => false
  end.

Inductive embed_result : Type := Embedded (blob : bytes) | EncodeError | EncoderPanic.

Section Embed.
  Variable encode_to : bool -> bool -> bool -> update -> option bytes.

  Definition embed (addpath : bool) (u : update) : embed_result :=
    match encode_to (needs_rfc8950 u) false addpath u with
    | Some b => Embedded b
    | None =>
        match encode_to (needs_rfc8950 u) true addpath u with
        | Some b => Embedded b
        | None => EncodeError
        end
    end.

  (* before the fixes C19-3 / C19-4: classic form only, 4096 only, `.unwrap()` *)
  Definition embed_before_fix (addpath : bool) (u : update) : embed_result :=
    match encode_to false false addpath u with
    | Some b => Embedded b
    | None => EncoderPanic
    end.
End Embed.

(* ---- the snapshot: peer address -> ((family, nlri) -> single-nlri change) *)

Definition key := (N * val)%type.     (* (family, PathNlri) *)

Fixpoint val_eqb (a b : val) {struct a} : bool :=
  match a, b with
  | VI x, VI y => Z.eqb x y
  | VL l, VL m =>
      (fix go (l m : list val) : bool :=
         match l, m with
         | [], [] => true
         | x :: l', y :: m' => val_eqb x y && go l' m'
         | _, _ => false
         end) l m
  | _, _ => false
  end.

Definition ip_eqb (a b : ip) : bool :=
  match a, b with
  | IP4 x, IP4 y | IP6 x, IP6 y => if list_eq_dec N.eq_dec x y then true else false
  | _, _ => false
  end.

Definition key_eqb (a b : key) : bool := N.eqb (fst a) (fst b) && val_eqb (snd a) (snd b).

Definition peer_map := list (key * change).
Definition snapshot := list (ip * peer_map).

Fixpoint pm_remove (k : key) (m : peer_map) : peer_map :=
  match m with
  | [] => []
  | (k', c) :: m' => if key_eqb k k' then pm_remove k m' else (k', c) :: pm_remove k m'
  end.

Definition pm_insert (k : key) (c : change) (m : peer_map) : peer_map := (k, c) :: pm_remove k m.

Fixpoint snap_get (a : ip) (s : snapshot) : option peer_map :=
  match s with
  | [] => None
  | (a', m) :: s' => if ip_eqb a a' then Some m else snap_get a s'
  end.

Fixpoint snap_remove (a : ip) (s : snapshot) : snapshot :=
  match s with
  | [] => []
  | (a', m) :: s' => if ip_eqb a a' then snap_remove a s' else (a', m) :: snap_remove a s'
  end.

Definition snap_set (a : ip) (m : peer_map) (s : snapshot) : snapshot := (a, m) :: snap_remove a s.

Definition single (c : change) (n : val) : change :=
  {| c_source := c_source c; c_family := c_family c; c_addpath := c_addpath c; c_nlris := [n];
     c_attrs := c_attrs c; c_nexthop := c_nexthop c; c_ts := c_ts c |}.

(* apply_snapshot: reach events insert (one entry per NLRI), withdrawals remove *)
Definition apply_snapshot (s : snapshot) (c : change) : snapshot :=
  let a := s_raddr (c_source c) in
  match c_attrs c with
  | Some _ =>
      let m0 := match snap_get a s with Some m => m | None => [] end in   (* entry().or_default() *)
      snap_set a (fold_left (fun m n => pm_insert (c_family c, n) (single c n) m) (c_nlris c) m0) s
  | None =>
      match snap_get a s with
      | Some m => snap_set a (fold_left (fun m n => pm_remove (c_family c, n) m) (c_nlris c) m) s
      | None => s
      end
  end.

Fixpoint nodup_N (l : list N) : list N :=
  match l with
  | [] => []
  | x :: l' => if existsb (N.eqb x) l' then nodup_N l' else x :: nodup_N l'
  end.

(* flush_peer_snapshot: one Route Monitoring per stored route (header from the
   route's source, flags as given), then one End-of-RIB per family seen under
   [peer_header]; the peer's entry leaves the snapshot *)
Definition flush_peer_snapshot (s : snapshot) (addr : ip) (peer_header : pph) (flags : N)
  : snapshot * list rm :=
  match snap_get addr s with
  | None => (s, [])
  | Some m =>
      let routes :=
        map (fun kc : key * change =>
               let c := snd kc in
               {| rm_hdr := pph_new flags (s_rasn (c_source c)) (s_rid (c_source c)) 0
                                    (s_raddr (c_source c)) (c_ts c);
                  rm_update := UReach (fst (fst kc)) (c_nlris c) (c_nexthop c)
                                      (match c_attrs c with Some a => a | None => VL [] end (* unwrap *));
                  rm_addpath := c_addpath c |}) m in
      let fams := nodup_N (map (fun kc : key * change => fst (fst kc)) m) in
      let eors := map (fun f => {| rm_hdr := peer_header; rm_update := UEor f; rm_addpath := false |}) fams in
      (snap_remove addr s, routes ++ eors)
  end.

(* adj_rib_in_to_mrt *)
Definition adj_rib_in_to_mrt (c : change) : mp_header * update * bool :=
  ({| m_rasn := s_rasn (c_source c); m_lasn := s_lasn (c_source c); m_ifidx := 0;
      m_raddr := s_raddr (c_source c); m_laddr := s_laddr (c_source c); m_asn4 := true |},
   adj_rib_in_to_update c, c_addpath c).

(* ---- dump_table *)

(* one path of a table::NlriChange as dump_table uses it *)
Record dpath : Type := {
  d_addr : ip; d_rid : bytes; d_asn : N; d_nh : option bytes; d_attrs : list bytes
}.
(* (prefix as Nlri::encode writes it, current_paths) *)
Definition dchange := (bytes * list dpath)%type.

Definition index := list (ip * N).      (* HashMap<IpAddr, u16> *)

Fixpoint idx_get (a : ip) (ix : index) : option N :=
  match ix with
  | [] => None
  | (a', i) :: ix' => if ip_eqb a a' then Some i else idx_get a ix'
  end.

(* the loop that builds the peer index: `next_idx = peers.len() as u16` *)
Definition index_step (st : index * list peer_entry) (p : dpath) : index * list peer_entry :=
  let '(ix, peers) := st in
  match idx_get (d_addr p) ix with
  | Some _ => st
  | None => ((d_addr p, N.of_nat (length peers) mod 65536) :: ix,
             peers ++ [{| pe_id := d_rid p; pe_addr := d_addr p; pe_asn := d_asn p |}])
  end.

Definition build_index (changes : list dchange) : index * list peer_entry :=
  fold_left index_step (concat (map snd changes)) ([], []).

Definition rib_entries (ix : index) (ts : N) (paths : list dpath) : list rib_entry :=
  flat_map (fun p => match idx_get (d_addr p) ix with
                     | Some i => [{| re_idx := i; re_orig := ts; re_nh := d_nh p; re_attrs := d_attrs p |}]
                     | None => []
                     end) paths.

(* records of one family: the sequence number counts the records written
   (`seq += 1` on u32: 2^32 prefixes are out of reach and not modelled) *)
Fixpoint rib_records (v6 : bool) (ix : index) (ts seq : N) (changes : list dchange)
  : list (N * td_record) :=
  match changes with
  | [] => []
  | (prefix, paths) :: rest =>
      let es := rib_entries ix ts paths in
      match es with
      | [] => rib_records v6 ix ts seq rest
      | _ => (ts, if v6 then RibIpv6Unicast seq prefix es else RibIpv4Unicast seq prefix es)
             :: rib_records v6 ix ts (seq + 1) rest
      end
  end.

Definition dump_table (router_id : bytes) (ts : N) (v4 v6 : list dchange) : list (N * td_record) :=
  let '(ix, peers) := build_index (v4 ++ v6) in
  (ts, PeerIndexTable router_id peers)
    :: rib_records false ix ts 0 v4 ++ rib_records true ix ts 0 v6.

(* ------------------------------------------------------------ observation *)

Definition v_update (u : update) : val :=
  match u with
  | UReach f es nh a => VL [VN 2; VN 0; VN f; VL es; nh; a]
  | UUnreach f es => VL [VN 2; VN 1; VN f; VL es]
  | UEor f => VL [VN 2; VN 2; VN f]
  end.

(* what the harness prints for one bmp::Message::RouteMonitoring: bytes written by
   BmpCodec (given the reference encoding [blob] of the update), the update, the flag *)
Definition v_rm (m : rm) (blob : bytes) : val :=
  VL [VNs (bmp_encode [] (RouteMonitoring (rm_hdr m) blob)); VNs blob; v_update (rm_update m);
      VB (rm_addpath m)].

Definition run_conv_update (c : change) : val := v_update (adj_rib_in_to_update c).

Definition run_loc (family : N) (net : val) (attr : option val) (nexthop : val) (ts : N)
           (router_id : bytes) (asn : N) (blob : bytes) : val :=
  v_rm (loc_rib_to_bmp family net attr nexthop ts router_id asn) blob.

(* flush: the messages (the harness pairs them with their blobs by the printed
   update), whether EoRs follow the routes, which peers remain *)
Definition run_flush (cs : list change) (addr : ip) (h : pph) (flags : N) : val :=
  let '(s', ms) := flush_peer_snapshot (fold_left apply_snapshot cs []) addr h flags in
  VL [VList (fun m => VL [VL [VN (p_type (rm_hdr m)); VN (p_flags (rm_hdr m)); VN (p_asn (rm_hdr m));
                              VNs (p_id (rm_hdr m)); VN (p_dist (rm_hdr m));
                              VNs (ip_octets (p_addr (rm_hdr m))); VN (p_ts (rm_hdr m))];
                          v_update (rm_update m); VB (rm_addpath m)]) ms;
      VList (fun am : ip * peer_map => VNs (ip_octets (fst am))) s'].

Definition v_open (o : open_desc) : val := VL [VN 1; VN (o_asn o); VN (o_hold o); VN (o_rid o); VL (o_caps o)].

Definition run_locup (router_id : bytes) (asn : N) (blob : bytes) : val :=
  VL [VNs (bmp_encode [] (loc_rib_peer_up router_id asn blob)); VL [VNs blob; VNs blob];
      VNs [0;0;0;0]; VN 0; VN 0; v_open (loc_rib_open router_id asn); v_open (loc_rib_open router_id asn)].

Definition run_down (r : option session_down) (h : pph) : val :=
  let reason := session_down_to_bmp r in
  VL [VNs (bmp_encode [] (PeerDown h reason));
      VNs (match reason with LocalNotification b | RemoteNotification b => b | _ => [] end);
      VN (reason_code reason);
      match reason with LocalFsm c => VN c | _ => VI (-1)%Z end].

Definition run_out_update (family : N) (nlri : val) (attrs : option val) (nexthop : val) : val :=
  v_update (adj_rib_out_to_update family nlri attrs nexthop).

Definition run_mrt_conv (c : change) (blob : bytes) : val :=
  let '(h, u, ap) := adj_rib_in_to_mrt c in
  VL [VNs (mrt_encode 0 [] {| mp_hdr := h; mp_blob := blob; mp_addpath := ap |}); VNs blob;
      v_update u; VB ap].

Definition run_dump (router_id : bytes) (ts : N) (v4 v6 : list dchange) : val :=
  VNs (encode_table_dump_all [] (dump_table router_id ts v4 v6)).
