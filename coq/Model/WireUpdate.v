(* Executable model of the BGP receive path, part 3: the UPDATE arm of
   PeerCodec::parse_message (packet/src/bgp.rs) with Attribute::decode,
   canonical_flags, Nexthop::from_bytes, reconcile_as4 and its helpers
   (count_as_hops, as_path_take_prefix, as_path_reconcile, aggregator_asn).

   The length test `withdrawn_len + attr_len + 23` is modelled as repaired
   (usize arithmetic); the u16 arithmetic of the unrepaired code is kept as
   [upd_len_ok_v0] for the record of the finding.  No proofs in this file. *)
From Coq Require Import List ZArith NArith Bool.
From RB Require Import Base.Val Base.Bytes Model.Caps Model.Wire Model.WireNlri.
Import ListNotations.
Open Scope N_scope.

Inductive adata := AVal (v : N) | ABin (b : list N) | AOpaque (b : list N).
Record attr := { a_code : N; a_flags : N; a_data : adata }.

Definition FLAG_EXTENDED := 16.
Definition FLAG_TRANSITIVE := 64.
Definition FLAG_OPTIONAL := 128.

(* Attribute::canonical_flags *)
Definition canonical_flags (code : N) : option N :=
  match code with
  | 1 | 2 | 3 | 5 | 6 => Some 64
  | 4 | 9 | 10 | 14 | 15 | 26 | 29 => Some 128
  | 7 | 8 | 16 | 17 | 18 | 32 | 40 | 23 => Some 192
  | _ => None
  end.

Definition has_flag (flags f : N) : bool := negb (N.land flags f =? 0).

(* ---- AS_PATH segment walks of Attribute::decode.  [None] = Err(()). *)
Definition seg_type_ok (t : N) : bool := (1 <=? t) && (t <=? 4).

(* two-octet form: validate and up-convert to four octets per AS *)
Fixpoint widen2 (n : nat) (l : list N) : option (list N * list N) :=
  match n with
  | O => Some ([], l)
  | S n' =>
    match l with
    | a :: b :: r =>
      match widen2 n' r with
      | Some (o, r') => Some (0 :: 0 :: a :: b :: o, r')
      | None => None
      end
    | _ => None
    end
  end.

Fixpoint aspath2_fuel (fuel : nat) (b : list N) : option (list N) :=
  match b with
  | [] => Some []
  | _ =>
    match fuel with
    | O => None
    | S f =>
      match b with
      | t :: cnt :: r =>
        if negb (seg_type_ok t) || (cnt =? 0) then None else
        match widen2 (nat_of cnt) r with
        | None => None
        | Some (o, r') =>
          match aspath2_fuel f r' with
          | Some o' => Some (t :: cnt :: o ++ o')
          | None => None
          end
        end
      | _ => None
      end
    end
  end.

(* four-octet form: validate only; [nz] also rejects empty segments (AS_PATH and AS4_PATH since fd00159) *)
Fixpoint aspath4_ok_fuel (fuel : nat) (nz : bool) (b : list N) : bool :=
  match b with
  | [] => true
  | _ =>
    match fuel with
    | O => false
    | S f =>
      match b with
      | t :: cnt :: r =>
        if negb (seg_type_ok t) || (nz && (cnt =? 0)) then false else
        if Nat.ltb (length r) (nat_of (cnt * 4)) then false
        else aspath4_ok_fuel f nz (skipn (nat_of (cnt * 4)) r)
      | _ => false
      end
    end
  end.
Definition aspath4_ok (nz : bool) (b : list N) : bool := aspath4_ok_fuel (S (length b)) nz b.

(* Attribute::decode on the [alen]-byte value [v].  Every arm that succeeds
   reads exactly [alen] bytes from the cursor and every failure is Err(()), so
   the arms are functions of the value alone. *)
Definition attr_decode (code flags : N) (v : list N) (two_byte : bool) : option attr :=
  let n := len v in
  let mk d := Some {| a_code := code; a_flags := flags; a_data := d |} in
  match code with
  | 1 => match v with [x] => if 2 <? x then None else mk (AVal x) | _ => None end
  | 4 | 5 | 9 => match v with [a; b; c; d] => mk (AVal (be32 a b c d)) | _ => None end
  | 2 => if two_byte then
           match aspath2_fuel (S (length v)) v with Some o => mk (ABin o) | None => None end
         else if aspath4_ok true v then mk (ABin v) else None
  | 6 => match v with [] => mk (ABin []) | _ => None end
  | 7 => match v with
         | [a; b; c; d; e; f] => mk (ABin (0 :: 0 :: a :: b :: c :: d :: e :: [f]))
         | [_; _; _; _; _; _; _; _] => mk (ABin v)
         | _ => None
         end
  | 3 => if n =? 4 then mk (ABin v) else None
  | 8 | 10 => if negb (n =? 0) && (n mod 4 =? 0) then mk (ABin v) else None
  | 16 => if negb (n =? 0) && (n mod 8 =? 0) then mk (ABin v) else None
  | 32 => if negb (n =? 0) && (n mod 12 =? 0) then mk (ABin v) else None
  | 17 => if negb (n mod 2 =? 0) || (n <? 6) then None
          else if aspath4_ok true v then mk (ABin v) else None
  | 18 => if n =? 8 then mk (ABin v) else None
  | _ => mk (ABin v)
  end.

(* Nexthop::from_bytes followed by to_bytes (how the harness prints it): 4, 16
   or 32 bytes; a 32-byte value whose link-local half is :: collapses to 16 *)
Definition nexthop_norm (b : list N) : option (list N) :=
  match length b with
  | 4%nat | 16%nat => Some b
  | 32%nat => if forallb (N.eqb 0) (skipn 16 b) then Some (firstn 16 b) else Some b
  | _ => None
  end.

(* ---- reconcile_as4 and helpers; the slice indexing of the Rust is explicit *)
Fixpoint count_hops_fuel (fuel : nat) (b : list N) (acc : N) : res N :=
  match b with
  | [] => Ok acc
  | _ =>
    match fuel with
    | O => Panic FUEL
    | S f =>
      match b with
      | t :: cnt :: r =>
        let acc' := if t =? 1 then acc + 1 else if t =? 2 then acc + cnt else acc in
        count_hops_fuel f (skipn (nat_of (cnt * 4)) r) acc'
      | _ => Panic 3                                      (* bin[pos + 1] *)
      end
    end
  end.
Definition count_hops (b : list N) : res N := count_hops_fuel (S (length b)) b 0.

Fixpoint take_prefix_fuel (fuel : nat) (b : list N) (n : N) : res (list N) :=
  if n =? 0 then Ok [] else
  match b with
  | [] => Ok []
  | _ =>
    match fuel with
    | O => Panic FUEL
    | S f =>
      match b with
      | t :: cnt :: r =>
        let seg := nat_of (cnt * 4) in
        if t =? 2 then
          let tk := N.min cnt n in
          if Nat.ltb (length r) (nat_of (tk * 4)) then Panic 4 else   (* &bin[pos + 2..pos + 2 + take * 4] *)
          rest <- take_prefix_fuel f (skipn seg r) (n - tk) ;;
          Ok (t :: tk :: firstn (nat_of (tk * 4)) r ++ rest)
        else if Nat.ltb (length r) seg then Panic 4                   (* &bin[pos..seg_end] *)
        else if t =? 1 then
          rest <- take_prefix_fuel f (skipn seg r) (n - 1) ;;
          Ok (t :: cnt :: firstn seg r ++ rest)
        else
          rest <- take_prefix_fuel f (skipn seg r) n ;;
          Ok (t :: cnt :: firstn seg r ++ rest)
      | _ => Panic 3
      end
    end
  end.

Definition as_path_reconcile (aspath as4 : list N) : res (list N) :=
  c1 <- count_hops aspath ;;
  c2 <- count_hops as4 ;;
  if c1 <? c2 then Ok aspath else
  m <- take_prefix_fuel (S (length aspath)) aspath (c1 - c2) ;;
  Ok (m ++ as4).

Fixpoint find_code (code : N) (l : list attr) : option attr :=
  match l with
  | [] => None
  | a :: r => if a_code a =? code then Some a else find_code code r
  end.
Fixpoint remove_code (code : N) (l : list attr) : list attr :=
  match l with
  | [] => []
  | a :: r => if a_code a =? code then r else a :: remove_code code r
  end.
Fixpoint replace_code (code : N) (x : attr) (l : list attr) : list attr :=
  match l with
  | [] => []
  | a :: r => if a_code a =? code then x :: r else a :: replace_code code x r
  end.

Definition bin_of (a : attr) : res (list N) :=
  match a_data a with AVal _ => Panic 5 | ABin b | AOpaque b => Ok b end.    (* binary().unwrap() *)

Definition reconcile_as4 (attrs : list attr) : res (list attr) :=
  let as4p := find_code 17 attrs in
  let attrs := match as4p with Some _ => remove_code 17 attrs | None => attrs end in
  let as4a := find_code 18 attrs in
  let attrs := match as4a with Some _ => remove_code 18 attrs | None => attrs end in
  '(attrs, ignore) <-
     match as4a, find_code 7 attrs with
     | Some a4, Some agg =>
       b <- bin_of agg ;;
       match b with
       | x1 :: x2 :: x3 :: x4 :: _ =>                    (* buf[..4].try_into().unwrap() *)
         if be32 x1 x2 x3 x4 =? 23456 then
           nb <- bin_of a4 ;;
           Ok (replace_code 7 {| a_code := 7; a_flags := 192; a_data := ABin nb |} attrs, false)
         else Ok (attrs, true)
       | _ => Panic 6
       end
     | _, _ => Ok (attrs, false)
     end ;;
  if ignore then Ok attrs else
  match as4p, find_code 2 attrs with
  | Some p4, Some p =>
    b <- bin_of p ;;
    b4 <- bin_of p4 ;;
    m <- as_path_reconcile b b4 ;;
    Ok (replace_code 2 {| a_code := 2; a_flags := 64; a_data := ABin m |} attrs)
  | _, _ => Ok attrs
  end.

(* ---- the attribute walk *)
Record ustate := {
  u_seen : list N;
  u_attrs : list attr;                 (* in arrival order *)
  u_errs : list (N * N);               (* AttributeError (code, flags) *)
  u_mp_reach : option (list N);
  u_mp_unreach : option (list N);
  u_nexthop : option (list N) }.

Definition u0 : ustate :=
  {| u_seen := []; u_attrs := []; u_errs := []; u_mp_reach := None; u_mp_unreach := None; u_nexthop := None |}.

Definition seen (s : ustate) (code : N) : bool := existsb (N.eqb code) (u_seen s).
Definition add_err (s : ustate) (code flags : N) : ustate :=
  {| u_seen := u_seen s; u_attrs := u_attrs s; u_errs := u_errs s ++ [(code, flags)];
     u_mp_reach := u_mp_reach s; u_mp_unreach := u_mp_unreach s; u_nexthop := u_nexthop s |}.
Definition add_attr (s : ustate) (a : attr) : ustate :=
  {| u_seen := u_seen s; u_attrs := u_attrs s ++ [a]; u_errs := u_errs s;
     u_mp_reach := u_mp_reach s; u_mp_unreach := u_mp_unreach s; u_nexthop := u_nexthop s |}.
Definition mark_seen (s : ustate) (code : N) : ustate :=
  {| u_seen := code :: u_seen s; u_attrs := u_attrs s; u_errs := u_errs s;
     u_mp_reach := u_mp_reach s; u_mp_unreach := u_mp_unreach s; u_nexthop := u_nexthop s |}.

(* one accepted attribute (Attribute::decode returned Ok) *)
Definition accept (two_byte : bool) (s : ustate) (a : attr) : ustate :=
  let code := a_code a in
  let b := match a_data a with ABin b => b | _ => [] end in
  if code =? 14 then
    {| u_seen := u_seen s; u_attrs := u_attrs s; u_errs := u_errs s;
       u_mp_reach := Some b; u_mp_unreach := u_mp_unreach s; u_nexthop := u_nexthop s |}
  else if code =? 15 then
    {| u_seen := u_seen s; u_attrs := u_attrs s; u_errs := u_errs s;
       u_mp_reach := u_mp_reach s; u_mp_unreach := Some b; u_nexthop := u_nexthop s |}
  else if code =? 3 then
    {| u_seen := u_seen s; u_attrs := u_attrs s; u_errs := u_errs s;
       u_mp_reach := u_mp_reach s; u_mp_unreach := u_mp_unreach s; u_nexthop := nexthop_norm b |}
  else if ((code =? 17) || (code =? 18)) && negb two_byte then s
  else add_attr s a.

(* while c.position() < attr_end { ... }.  [c] is the cursor, [arem] = attr_end -
   position.  Returns the state and a remainder that is non-zero exactly when the
   Rust has `truncated || c.position() != attr_end` after the loop (every `break`
   sets `truncated`, so a break reports max(arem, 1)). *)
Fixpoint attr_loop (fuel : nat) (two_byte : bool) (c : list N) (arem : N) (s : ustate)
  : res (ustate * N) :=
  if arem =? 0 then Ok (s, 0) else
  match fuel with
  | O => Panic FUEL
  | S f =>
    if arem <? 2 then Ok (s, N.max arem 1) else                      (* truncated = true; break *)
    '(flags, c) <- must 10 (get8 c) ;;
    '(code, c) <- must 11 (get8 c) ;;
    let arem := arem - 2 in
    '(alen, c, arem, brk) <-
       (if has_flag flags FLAG_EXTENDED then
          if arem <? 2 then Ok (0, c, arem, true) else
          '(l, c) <- must 12 (get16 c) ;; Ok (l, c, arem - 2, false)
        else
          if arem <? 1 then Ok (0, c, arem, true) else
          '(l, c) <- must 13 (get8 c) ;; Ok (l, c, arem - 1, false)) ;;
    if brk then Ok (s, N.max arem 1) else                            (* truncated = true; break *)
    if arem <? alen then Ok (s, N.max arem 1) else                   (* truncated = true; break *)
    let skip := skipn (nat_of alen) c in
    let arem' := arem - alen in
    if seen s code then
      if (code =? 14) || (code =? 15) then Fail MAL
      else attr_loop f two_byte skip arem' s
    else
      let s := mark_seen s code in
      match canonical_flags code with
      | Some expected =>
        let flags_error := negb (N.land (N.lxor flags expected) 192 =? 0) in
        let s := if flags_error then add_err s code flags else s in
        (* a wrongly flagged MP_REACH_NLRI / MP_UNREACH_NLRI is still decoded *)
        if flags_error && negb ((code =? 14) || (code =? 15)) then
          attr_loop f two_byte skip arem' s
        else
          match (if Nat.ltb (length c) (nat_of alen) then None          (* reads past the end: Err(()) *)
                 else attr_decode code flags (firstn (nat_of alen) c) two_byte) with
          | Some a => attr_loop f two_byte skip arem' (accept two_byte s a)
          | None =>
            attr_loop f two_byte skip arem'
                      (if (code =? 17) || (code =? 18) then s else add_err s code flags)
          end
      | None =>
        if negb (has_flag flags FLAG_OPTIONAL) then
          attr_loop f two_byte skip arem' (add_err s code flags)
        else if has_flag flags FLAG_TRANSITIVE then
          if Nat.ltb (length c) (nat_of alen) then Fail MAL
          else attr_loop f two_byte skip arem'
                         (add_attr s {| a_code := code; a_flags := flags;
                                        a_data := AOpaque (firstn (nat_of alen) c) |})
        else attr_loop f two_byte skip arem' s
      end
  end.

(* ---- the length test of the unrepaired code:
     buf.len() < (withdrawn_len + attr_len + MINIMUM_UPDATE_LENGTH as u16).into()   (u16 arithmetic) *)
Definition upd_len_ok_v0 (p : profile) (buflen wl al : N) : option bool :=
  match add_w 16 p wl al with
  | None => None
  | Some s => match add_w 16 p s 23 with
              | None => None
              | Some t => Some (negb (buflen <? t))
              end
  end.

(* the error bookkeeping after the walk: missing ORIGIN/AS_PATH, missing NEXT_HOP,
   and the attribute block not ending where the walk stopped *)
Definition post_errs (reach_len arem : N) (s : ustate) : ustate :=
  let s := if negb (reach_len =? 0) || (match u_mp_reach s with Some _ => true | None => false end) then
             let s := if negb (seen s 1) || negb (seen s 2) then add_err s 1 64 else s in
             if (match u_errs s with [] => true | _ => false end)
                && (match u_nexthop s with None => true | _ => false end)
                && negb (reach_len =? 0)
             then add_err s 3 64 else s
           else s in
  if negb (arem =? 0) then add_err s 0 0 else s.

Inductive pupdate :=
| UEor (fam : N)
| URoutes (reach : option (N * list (N * nlri) * option (list N)))
          (mp_reach : option (N * list (N * nlri) * option (list N)))
          (unreach : option (N * list (N * nlri)))
          (mp_unreach : option (N * list (N * nlri)))
          (attrs : list attr) (errs : list (N * N)).

Section Update.
  Variable other_nlri : N -> bool -> list N -> option (list N).

  Definition is_nil {A} (l : list A) : bool := match l with [] => true | _ => false end.

  (* [frame] is the whole message (header included), at least 19 bytes;
     [hdr_err] the BadMessageLength built from bytes 16..17 *)
  Definition parse_update (cd : codec) (hdr_err : notif) (frame : list N) : res pupdate :=
    let buflen := len frame in
    if buflen <? 23 then Fail hdr_err else
    let body := skipn 19 frame in
    '(wl, c) <- must 20 (get16 body) ;;
    if buflen <? wl + 23 then Fail MAL else
    let withdrawn := firstn (nat_of wl) c in
    let c := skipn (nat_of wl) c in
    '(al, c) <- rm (get16 c) ;;
    if buflen <? wl + al + 23 then Fail MAL else
    let reach_len := buflen - (23 + wl + al) in
    '(s, arem) <- attr_loop (S (length c)) (c_two_byte cd) c al u0 ;;
    if (reach_len =? 0) && (al =? 0) && (wl =? 0) then Ok (UEor F_IPV4) else
    let s := post_errs reach_len arem s in
    let nlri_bytes := skipn (nat_of al) c in
    reach <- (if negb (reach_len =? 0) then
                ap <- req MAL (fam_lookup (c_fams cd) F_IPV4) ;;
                nlri_list other_nlri F_IPV4 ap true nlri_bytes
              else Ok []) ;;
    unreach <- (if 0 <? wl then
                  ap <- req MAL (fam_lookup (c_fams cd) F_IPV4) ;;
                  if Nat.ltb (length withdrawn) (nat_of wl) then Panic 21 else  (* &buf[start..start+wl] *)
                  nlri_list other_nlri F_IPV4 ap false withdrawn
                else Ok []) ;;
    mp_reach <- match u_mp_reach s with
                | None => Ok None
                | Some d =>
                  if len d <? 5 then Fail E_OPT_ATTR else
                  '(afi, d1) <- must 22 (get16 d) ;;
                  '(safi, d1) <- must 23 (get8 d1) ;;
                  let fam := afi * 65536 + safi in
                  ap <- req MAL (fam_lookup (c_fams cd) fam) ;;
                  '(nhl, d1) <- must 24 (get8 d1) ;;
                  if len d <? 5 + nhl then Fail E_OPT_ATTR else
                  nh <- (if nhl =? 0 then if is_flowspec fam then Ok None else Fail E_OPT_ATTR
                         else if (nhl =? 4) || (nhl =? 16) || (nhl =? 32) then
                           Ok (nexthop_norm (firstn (nat_of nhl) d1))
                         else if (nhl =? 12) || (nhl =? 24) then
                           Ok (nexthop_norm (skipn 8 (firstn (nat_of nhl) d1)))
                         else Fail E_OPT_ATTR) ;;
                  '(_, d2) <- must 25 (get8 (skipn (nat_of nhl) d1)) ;;
                  entries <- nlri_list other_nlri fam ap true d2 ;;
                  Ok (Some (fam, entries, nh))
                end ;;
    mp_unreach <- match u_mp_unreach s with
                  | None => Ok None
                  | Some d =>
                    if len d <? 3 then Fail E_OPT_ATTR else
                    '(afi, d1) <- must 26 (get16 d) ;;
                    '(safi, d1) <- must 27 (get8 d1) ;;
                    let fam := afi * 65536 + safi in
                    ap <- req MAL (fam_lookup (c_fams cd) fam) ;;
                    entries <- nlri_list other_nlri fam ap false d1 ;;
                    Ok (Some (fam, entries))
                  end ;;
    let mp_reach_empty := match mp_reach with None => true | Some (_, e, _) => is_nil e end in
    match mp_unreach with
    | Some (fam, []) =>
      if is_nil reach && mp_reach_empty && is_nil unreach && is_nil (u_attrs s) && is_nil (u_errs s)
      then Ok (UEor fam) else
      attrs <- (if c_two_byte cd then reconcile_as4 (u_attrs s) else Ok (u_attrs s)) ;;
      Ok (URoutes (if is_nil reach then None else Some (F_IPV4, reach, u_nexthop s))
                  (if mp_reach_empty then None else mp_reach)
                  (if is_nil unreach then None else Some (F_IPV4, unreach))
                  None attrs (u_errs s))
    | _ =>
      attrs <- (if c_two_byte cd then reconcile_as4 (u_attrs s) else Ok (u_attrs s)) ;;
      Ok (URoutes (if is_nil reach then None else Some (F_IPV4, reach, u_nexthop s))
                  (if mp_reach_empty then None else mp_reach)
                  (if is_nil unreach then None else Some (F_IPV4, unreach))
                  mp_unreach attrs (u_errs s))
    end.
End Update.

(* ------------------------------------------------------------ observation *)
Definition v_attr (a : attr) : val :=
  match a_data a with
  | AVal v => VL [VN (a_code a); VN (a_flags a); VN 0; VL [VN v]]
  | ABin b => VL [VN (a_code a); VN (a_flags a); VN 1; VNs b]
  | AOpaque b => VL [VN (a_code a); VN (a_flags a); VN 2; VNs b]
  end.

Definition v_reach (r : option (N * list (N * nlri) * option (list N))) : val :=
  VOpt (fun x => match x with (f, e, nh) => VL [VN f; v_entries e; VOpt VNs nh] end) r.
Definition v_unreach (r : option (N * list (N * nlri))) : val :=
  VOpt (fun x => VL [VN (fst x); v_entries (snd x)]) r.

Definition v_pupdate (u : pupdate) : list val :=
  match u with
  | UEor f => [VN 0; VN f]
  | URoutes r mr ur mur attrs errs =>
    [VN 1; v_reach r; v_reach mr; v_unreach ur; v_unreach mur; VList v_attr attrs; VList VPairN errs]
  end.
