(* Executable model of packet/src/bgp.rs validate_message / validate_update
   (RFC 7606 handling of a parsed UPDATE), of the `is_ebgp` argument as
   PeerSession::run_select computes it from the peer's role
   (daemon/src/event/mod.rs), and of the effect of the resulting messages on an
   abstract Adj-RIB-In (PeerSession::rx_update: insert per announced NLRI, remove
   per withdrawn NLRI).  No proofs in this file. *)
From Coq Require Import List ZArith NArith Bool.
From RB Require Import Base.Val Base.Bytes Model.Caps Model.Stream Model.Wire Model.WireNlri Model.WireUpdate Model.WireMsg
     Spec.Rfc7606.
Import ListNotations.
Open Scope N_scope.

(* bgp::Message after validation, UPDATE part *)
Inductive vmsg :=
| VEor (fam : N)
| VReach (fam : N) (entries : list (N * nlri)) (nexthop : option (list N)) (attrs : list attr)
| VUnreach (fam : N) (entries : list (N * nlri)).

Definition has_code (code : N) (l : list attr) : bool := existsb (fun a => a_code a =? code) l.

Definition opt_list {A} (o : option A) : list A := match o with Some a => [a] | None => [] end.

(* an AttributeError that forces treat-as-withdraw: the received flags, or the flags the
   attribute type is specified to have, are not "optional non-transitive" *)
Definition flags_fatal (fl : N) : bool := negb (has_flag fl FLAG_OPTIONAL) || has_flag fl FLAG_TRANSITIVE.
Definition err_fatal (e : N * N) : bool :=
  flags_fatal (snd e) || match canonical_flags (fst e) with Some ef => flags_fatal ef | None => false end.

(* validate_update *)
Definition validate_update (u : pupdate) (is_ebgp : bool) : list vmsg :=
  match u with
  | UEor f => [VEor f]
  | URoutes reach mp_reach unreach mp_unreach attrs errs =>
    let mp_reach_missing_nh :=
      match mp_reach with
      | Some (f, _, None) => negb (is_flowspec f)
      | _ => false
      end in
    let missing_mandatory :=
      (match reach, mp_reach with None, None => false | _, _ => true end) &&
      (negb (has_code 1 attrs) || negb (has_code 2 attrs)
       || (match reach with Some (_, _, None) => true | _ => false end)
       || mp_reach_missing_nh) in
    let treat_as_withdraw :=
      missing_mandatory ||
      existsb err_fatal errs in
    if treat_as_withdraw then
      map (fun r => match r with (f, e, _) => VUnreach f e end) (opt_list reach ++ opt_list mp_reach)
      ++ map (fun r => VUnreach (fst r) (snd r)) (opt_list unreach ++ opt_list mp_unreach)
    else
      let attrs := if is_ebgp then filter (fun a => negb ((a_code a =? 5) || (a_code a =? 9) || (a_code a =? 10))) attrs
                   else attrs in
      map (fun r => match r with (f, e, nh) => VReach f e nh attrs end) (opt_list reach)
      ++ map (fun r => VUnreach (fst r) (snd r)) (opt_list unreach)
      ++ map (fun r => match r with (f, e, nh) => VReach f e nh attrs end) (opt_list mp_reach)
      ++ map (fun r => VUnreach (fst r) (snd r)) (opt_list mp_unreach)
  end.

(* PeerRole (daemon/src/event/mod.rs) and the is_ebgp argument run_select passes:
   the message comes from an external peer that is not a confederation member *)
Inductive prole := REbgp | RIbgp | RIbgpRrClient | RConfedEbgp | RRsClient.
Definition is_ebgp_of_role (r : prole) : bool :=
  match r with REbgp | RRsClient => true | _ => false end.
(* before the repair: matches!(role, PeerRole::Ebgp) *)
Definition is_ebgp_of_role_v0 (r : prole) : bool :=
  match r with REbgp => true | _ => false end.
(* external = the peer is in another AS and outside the local confederation *)
Definition external (r : prole) : bool :=
  match r with REbgp | RRsClient => true | _ => false end.

(* ---- abstract Adj-RIB-In: (family, path id, prefix) -> attributes believed *)
Definition rib := list (key * list attr).

Definition leqb (x y : list N) : bool := if list_eq_dec N.eq_dec x y then true else false.
Definition fcomp_eqb (a b : fcomp) : bool :=
  match a, b with
  | FPrefix t b0 o x, FPrefix t' b' o' x' => (t =? t') && (b0 =? b') && (o =? o') && leqb x x'
  | FOps t ops, FOps t' ops' => (t =? t') && leqb (flat_map (fun p => [fst p; snd p]) ops) (flat_map (fun p => [fst p; snd p]) ops')
  | _, _ => false
  end.
(* a flat rendering of a BGP-LS NLRI, used only to compare RIB keys *)
Definition fo (o : option N) : list N := match o with Some x => [1; x] | None => [0] end.
Definition fol (o : option (list N)) : list N := match o with Some l => 1 :: len l :: l | None => [0] end.
Definition ls_flat_nd (n : lsnd) : list N :=
  fo (nd_asn n) ++ fo (nd_lsid n) ++ fo (nd_area n) ++ fol (nd_igp n) ++ fol (nd_bgp n) ++ fo (nd_confed n).
Definition ls_flat_tlv (t : lstlv) : list N :=
  match t with
  | LsLinkId l r => [0; l; r] | LsAddr k a => 1 :: k :: len a :: a | LsMt ids => 2 :: len ids :: ids
  | LsOspf x => [4; x] | LsReach p a => 5 :: p :: len a :: a | LsUnk t v => 3 :: t :: len v :: v
  end.
Definition ls_flat (x : lsnlri) : list N :=
  match x with
  | LsUnknown t b => 0 :: t :: b
  | LsNode p id n => 1 :: p :: id :: ls_flat_nd n
  | LsLink p id l r tl => 2 :: p :: id :: ls_flat_nd l ++ ls_flat_nd r ++ flat_map ls_flat_tlv tl
  | LsPrefix v6 p id n tl => (if v6 then 4 else 3) :: p :: id :: ls_flat_nd n ++ flat_map ls_flat_tlv tl
  | LsSrv6 p id n sids mts => 6 :: p :: id :: ls_flat_nd n ++ N.of_nat (length sids) :: concat sids ++ mts
  end.
Definition nlri_eqb (a b : nlri) : bool :=
  match a, b with
  | NV4 m x, NV4 m' x' | NV6 m x, NV6 m' x' => (m =? m') && leqb x x'
  | NLab4 l m x, NLab4 l' m' x' | NLab6 l m x, NLab6 l' m' x' => (m =? m') && leqb x x'
  | NVpn4 l r m x, NVpn4 l' r' m' x' | NVpn6 l r m x, NVpn6 l' r' m' x' => (m =? m') && leqb x x' && leqb r r'
  | NEvpn e, NEvpn e' | NRtc e, NRtc e' | NSrp e, NSrp e' | NMup e, NMup e' => leqb e e'
  | NFlow k rd c, NFlow k' rd' c' =>
    (k =? k') && leqb rd rd' && (Nat.eqb (length c) (length c')) && forallb (fun p => fcomp_eqb (fst p) (snd p)) (combine c c')
  | NLs x, NLs y => leqb (ls_flat x) (ls_flat y)
  | NOther, NOther => true
  | _, _ => false
  end.
Definition key_eqb (a b : key) : bool :=
  match a, b with (f, p, x), (f', p', x') => (f =? f') && (p =? p') && nlri_eqb x x' end.

Definition rib_remove (r : rib) (k : key) : rib := filter (fun e => negb (key_eqb (fst e) k)) r.
Definition rib_insert (r : rib) (k : key) (a : list attr) : rib := (k, a) :: rib_remove r k.

Definition apply_vmsg (r : rib) (m : vmsg) : rib :=
  match m with
  | VEor _ => r
  | VReach f es _ attrs => fold_left (fun r e => rib_insert r (f, fst e, snd e) attrs) es r
  | VUnreach f es => fold_left (fun r e => rib_remove r (f, fst e, snd e)) es r
  end.
Definition apply_all (r : rib) (ms : list vmsg) : rib := fold_left apply_vmsg ms r.

(* ------------------------------------------------------------ observation *)
Definition v_vmsg (m : vmsg) : val :=
  match m with
  | VEor f => VL [VN 2; VN 0; VN f]
  | VReach f e nh a => VL [VN 2; VN 1; VN f; v_entries e; VOpt VNs nh; VList v_attr a]
  | VUnreach f e => VL [VN 2; VN 2; VN f; v_entries e]
  end.

(* harness kind 3: validate_message(try_parse(bytes), is_ebgp) on one buffer *)
Definition v_validate (p : profile) (cd : codec) (is_ebgp : bool) (bytes : list N) : val :=
  match try_parse no_other p cd bytes with
  | DNeed _ => VL [VN 1]
  | DErr e _ => VL (VN 2 :: v_notif e)
  | DPanic => VL [VI (Zneg 1)]
  | DMsg m _ =>
    match m with
    | PUpdate u => VL [VN 0; v_pmsg m; VList v_vmsg (validate_update u is_ebgp)]
    | POpen _ _ _ _ => VL [VN 0; v_pmsg m; VL [VL [VN 1]]]
    | PNotif _ => VL [VN 0; v_pmsg m; VL [VL [VN 3]]]
    | PKeepalive => VL [VN 0; v_pmsg m; VL [VL [VN 4]]]
    | PRefresh _ => VL [VN 0; v_pmsg m; VL [VL [VN 5]]]
    end
  end.

Definition v_key (k : key) : val := match k with (f, p, x) => VL [VN f; VN p; v_nlri x] end.
Definition v_verdict (v : verdict) : val :=
  VL [VB (v_locatable v); VB (v_must_withdraw v); VNs (v_discard v); VList v_key (v_announced v); VList v_key (v_withdrawn v)].

(* [ [debug obs, release obs], Spec verdict ] *)
Definition run_c05 (cd : codec) (is_ebgp : bool) (bytes : list N) : val :=
  VL [VL [v_validate Debug cd is_ebgp bytes; v_validate Release cd is_ebgp bytes]; v_verdict (judge cd bytes)].
