(* Executable model of one address family of table/src/lib.rs `Table`
   (one shard): comparator, sorted insertion, re-sort on stale marking,
   change notifications, destination-id allocator, per-peer statistics and
   the shared prefix-limit counters.  No proofs in this file.

   Abstractions (see DESIGN.md section 8, C02/C06/C15):
   - an attribute block is the record of the values the RIB reads from it,
     plus an allocation token standing for the address of its Arc;
   - a Source is (allocation token, remote address, router id, role); its two
     atomic flags live in [t_flags], keyed by the token;
   - FnvHashMap iteration order is not modelled: per-destination outputs are
     compared as sets keyed by the prefix;
   - `sort_unstable` is the stable insertion sort [isort] (what the standard
     library runs for slices of at most 20 elements); later proofs use only
     that it returns a sorted permutation;
   - `partition_point` is "first index where the predicate fails", which is
     its library meaning on the sorted lists it is applied to. *)
From Coq Require Import List NArith ZArith Bool.
From RB Require Import Base.Val.
Import ListNotations.
Open Scope N_scope.

Record attrs := {
  a_tok : N;                      (* Arc::as_ptr of the attribute vector *)
  a_lp : option N;                (* LOCAL_PREF *)
  a_segs : option (list (N * N)); (* AS_PATH segments: (type 1..4, count) *)
  a_origin : option N;
  a_clen : option N;              (* CLUSTER_LIST entries *)
  a_oid : option N;               (* ORIGINATOR_ID *)
  a_llgr : bool;                  (* carries the LLGR_STALE community *)
  a_nollgr : bool;                (* carries the NO_LLGR community *)
  a_mm : option N;                (* EVPN MAC-mobility sequence number *)
  a_orig : N                      (* Arc::as_ptr of the attributes as received, before import policy
                                     (original_attr; the same block when policy changed nothing) *)
}.

Record src := {
  s_tok : N;                      (* Arc::as_ptr of the Source *)
  s_addr : N;                     (* remote_addr *)
  s_rid : N;                      (* router_id *)
  s_role : N                      (* 0 Ebgp 1 RsClient 2 Ibgp 3 IbgpRrClient 4 ConfedEbgp *)
}.

Record entry := {
  e_lpid : N;                     (* path.local_path_id *)
  e_rpid : N;                     (* remote_path_id *)
  e_src : src;
  e_nh : option N;                (* path.nexthop (address) *)
  e_attr : attrs;
  e_filtered : bool;
  e_nhinv : bool
}.

Record dest := {
  d_entries : list entry;
  d_next_pid : N;
  d_id : N
}.

Definition flagmap := list (N * (bool * bool)).   (* source token -> (stale, llgr_stale) *)

Record table := {
  t_deferring : bool;
  t_dests : list (N * dest);      (* FnvHashMap<Nlri, Destination> *)
  t_used : list N;                (* local ids whose bit is set in IdAllocator *)
  t_stats : list (N * (N * N));   (* remote_addr -> (received, accepted) *)
  t_flags : flagmap;
  t_ctrs : list (N * N);          (* prefix-limit counters (AtomicU64), by counter id *)
  t_shard : N;
  t_bad : bool                    (* a u64 `-= 1` on the statistics underflowed (debug panic) *)
}.

(* ------------------------------------------------------------- small maps *)

Fixpoint alookup {A} (k : N) (m : list (N * A)) : option A :=
  match m with
  | [] => None
  | (k', v) :: r => if k =? k' then Some v else alookup k r
  end.

Fixpoint aremove {A} (k : N) (m : list (N * A)) : list (N * A) :=
  match m with
  | [] => []
  | (k', v) :: r => if k =? k' then aremove k r else (k', v) :: aremove k r
  end.

Fixpoint aset {A} (k : N) (v : A) (m : list (N * A)) : list (N * A) :=
  match m with
  | [] => [(k, v)]
  | (k', v') :: r => if k =? k' then (k, v) :: r else (k', v') :: aset k v r
  end.

Definition flags_of (fl : flagmap) (tok : N) : bool * bool :=
  match alookup tok fl with Some f => f | None => (false, false) end.

Definition is_stale (fl : flagmap) (e : entry) : bool := fst (flags_of fl (s_tok (e_src e))).
Definition src_llgr (fl : flagmap) (e : entry) : bool := snd (flags_of fl (s_tok (e_src e))).

(* ------------------------------------------------------------ comparator *)

Definition lp_of (a : attrs) : N := match a_lp a with Some v => v | None => 100 end.
Definition origin_of (a : attrs) : N := match a_origin a with Some v => v | None => 2 end.
Definition clen_of (a : attrs) : N := match a_clen a with Some v => v | None => 0 end.

(* Attribute::as_path_length: AS_SET counts 1, AS_SEQUENCE its length,
   confederation segments 0 *)
Definition seg_hops (s : N * N) : N :=
  match fst s with
  | 1 => 1
  | 2 => snd s
  | _ => 0
  end.
Definition hops_of (a : attrs) : N :=
  match a_segs a with
  | Some segs => fold_right (fun s acc => seg_hops s + acc) 0 segs
  | None => 0
  end.

Definition prefers_over_ibgp (role : N) : bool := (role =? 0) || (role =? 1).

(* RibEntry::is_llgr_stale *)
Definition is_llgr_stale (fl : flagmap) (e : entry) : bool :=
  src_llgr fl e || a_llgr (e_attr e).

(* RibEntry::originator_id *)
Definition oid_of (e : entry) : N :=
  match a_oid (e_attr e) with Some v => v | None => s_rid (e_src e) end.

Definition thenc (c d : comparison) : comparison :=
  match c with Eq => d | _ => c end.

Definition bool_cmp (a b : bool) : comparison :=
  match a, b with
  | false, true => Lt
  | true, false => Gt
  | _, _ => Eq
  end.

(* impl Ord for RibEntry: Less = self is better *)
Definition cmp_code (fl : flagmap) (a b : entry) : comparison :=
  thenc (bool_cmp (is_llgr_stale fl a) (is_llgr_stale fl b))
 (thenc (CompOpp (N.compare (lp_of (e_attr a)) (lp_of (e_attr b))))
 (thenc (N.compare (hops_of (e_attr a)) (hops_of (e_attr b)))
 (thenc (N.compare (origin_of (e_attr a)) (origin_of (e_attr b)))
 (thenc (bool_cmp (prefers_over_ibgp (s_role (e_src b))) (prefers_over_ibgp (s_role (e_src a))))
 (thenc (bool_cmp (is_stale fl a) (is_stale fl b))
 (thenc (N.compare (clen_of (e_attr a)) (clen_of (e_attr b)))
        (N.compare (oid_of a) (oid_of b)))))))).

(* evpn_type2_cmp *)
Definition evpn_cmp (fl : flagmap) (a b : entry) : comparison :=
  match a_mm (e_attr a), a_mm (e_attr b) with
  | Some sa, Some sb => thenc (CompOpp (N.compare sa sb)) (cmp_code fl a b)
  | Some _, None => Lt
  | None, Some _ => Gt
  | None, None => cmp_code fl a b
  end.

(* prefixes numbered from 1000 are EVPN MAC/IP advertisement NLRI *)
Definition is_type2 (net : N) : bool := 1000 <=? net.

Definition cmp_for (fl : flagmap) (net : N) : entry -> entry -> comparison :=
  if is_type2 net then evpn_cmp fl else cmp_code fl.

Definition is_ge (c : comparison) : bool := match c with Lt => false | _ => true end.

(* dst.entry.partition_point(|a| entry.cmp(a).is_ge()), then insert *)
Fixpoint ins_sorted (cmp : entry -> entry -> comparison) (e : entry) (l : list entry) : list entry :=
  match l with
  | [] => [e]
  | a :: r => if is_ge (cmp e a) then a :: ins_sorted cmp e r else e :: a :: r
  end.

(* sort_unstable on at most 20 elements: insertion sort, left to right *)
Definition isort (cmp : entry -> entry -> comparison) (l : list entry) : list entry :=
  fold_left (fun acc e => ins_sorted cmp e acc) l [].

(* ------------------------------------------------------------ eligibility *)

Definition eligible (e : entry) : bool := negb (e_filtered e) && negb (e_nhinv e).
Definition elig_list (d : dest) : list entry := filter eligible (d_entries d).
Definition best_of (d : dest) : option entry := hd_error (elig_list d).

(* (Arc::as_ptr(source), Arc::as_ptr(attr), nexthop) *)
Definition best_key (d : dest) : option (N * N * option N) :=
  match best_of d with
  | Some e => Some (s_tok (e_src e), a_tok (e_attr e), e_nh e)
  | None => None
  end.

Definition oN_eqb (a b : option N) : bool :=
  match a, b with
  | Some x, Some y => x =? y
  | None, None => true
  | _, _ => false
  end.

Definition key_eqb (a b : option (N * N * option N)) : bool :=
  match a, b with
  | Some (s1, t1, n1), Some (s2, t2, n2) => (s1 =? s2) && (t1 =? t2) && oN_eqb n1 n2
  | None, None => true
  | _, _ => false
  end.

Definition best_lpid (d : dest) : option N :=
  match best_of d with Some e => Some (e_lpid e) | None => None end.

(* ------------------------------------------------------------- id allocator *)

(* lowest local id whose bit is clear *)
Fixpoint mex_from (fuel : nat) (k : N) (used : list N) : N :=
  match fuel with
  | O => k
  | S f => if existsb (N.eqb k) used then mex_from f (k + 1) used else k
  end.
Definition alloc_id (used : list N) : N := mex_from (length used) 0 used.

Definition dest_id (shard local : N) : N := N.lor (N.shiftl shard 24) local.

(* Destination::alloc_path_id; None = the u32 space is exhausted (unreachable) *)
Definition next_u32 (n : N) : N :=
  let m := (n + 1) mod 4294967296 in if m =? 0 then 1 else m.

Fixpoint alloc_pid_from (fuel : nat) (next : N) (ents : list entry) : option (N * N) :=
  match fuel with
  | O => None
  | S f =>
      let next' := next_u32 next in
      if existsb (fun p => e_lpid p =? next) ents then alloc_pid_from f next' ents
      else Some (next, next')
  end.

Definition alloc_pid (d : dest) : option (N * N) :=
  let start := match d_entries d with [] => 1 | _ => d_next_pid d end in
  alloc_pid_from (S (length (d_entries d))) start (d_entries d).

(* ------------------------------------------------------------- notifications *)

Record change := {
  c_net : N;
  c_dest_id : N;
  c_best_changed : bool;
  c_any_changed : bool;
  c_replaced : option N;
  c_paths : list entry
}.

Inductive out :=
| ONoChange
| OLimit
| OChanged (c : change).

(* u64 `x -= 1` on a statistics field *)
Definition dec_stat (x : N) : N * bool := if x =? 0 then (0, true) else (x - 1, false).

Definition u64 : N := 18446744073709551616.
Definition wrap_dec (x : N) : N := if x =? 0 then u64 - 1 else x - 1.
Definition wrap_inc (x : N) : N := (x + 1) mod u64.

Definition stats_of (t : table) (addr : N) : N * N :=
  match alookup addr (t_stats t) with Some s => s | None => (0, 0) end.

Definition from_addr (addr : N) (e : entry) : bool := s_addr (e_src e) =? addr.

Definition set_dests (t : table) (ds : list (N * dest)) : table :=
  {| t_deferring := t_deferring t; t_dests := ds; t_used := t_used t; t_stats := t_stats t;
     t_flags := t_flags t; t_ctrs := t_ctrs t; t_shard := t_shard t; t_bad := t_bad t |}.

(* ------------------------------------------------------------------ insert *)

Definition with_entries (d : dest) (es : list entry) (np : N) : dest :=
  {| d_entries := es; d_next_pid := np; d_id := d_id d |}.

Definition ctr_of (t : table) (c : N) : N :=
  match alookup c (t_ctrs t) with Some v => v | None => 0 end.

(* destinations.entry(net).or_insert_with(|| Destination::with_id(alloc())):
   the destination and the allocator's used set afterwards *)
Definition ins_lookup (t : table) (net : N) : dest * list N :=
  match alookup net (t_dests t) with
  | Some d => (d, t_used t)
  | None =>
      let l := alloc_id (t_used t) in
      ({| d_entries := []; d_next_pid := 1; d_id := dest_id (t_shard t) l |}, l :: t_used t)
  end.

(* same peer address and same remote path id: the path being replaced *)
Definition same_key (s : src) (rpid : N) (e : entry) : bool :=
  from_addr (s_addr s) e && (e_rpid e =? rpid).

Definition ins_is_new (s : src) (rpid : N) (d0 : dest) : bool :=
  match find (same_key s rpid) (d_entries d0) with
  | None => negb (existsb (fun e => from_addr (s_addr s) e && negb (e_rpid e =? rpid)) (d_entries d0))
  | Some _ => false
  end.

Definition ins_over (t : table) (limit : option (N * N)) (is_new : bool) : bool :=
  match limit with
  | Some (mx, c) => is_new && (mx <=? ctr_of t c)
  | None => false
  end.

Definition ins_ctrs (t : table) (limit : option (N * N)) (is_new : bool) : list (N * N) :=
  match limit with
  | Some (mx, c) => if is_new then aset c (wrap_inc (ctr_of t c)) (t_ctrs t) else t_ctrs t
  | None => t_ctrs t
  end.

Definition ins_pid (d0 : dest) (rest : list entry) (replaced : option entry) : option (N * N) :=
  match replaced with
  | Some old => Some (e_lpid old, d_next_pid d0)
  | None => alloc_pid (with_entries d0 rest (d_next_pid d0))
  end.

Definition ins_stats (st : N * N) (replaced : option entry) (is_new filtered : bool) : N * N * bool :=
  let rcv := fst st in
  let acc := snd st in
  match replaced with
  | Some old =>
      match e_filtered old, filtered with
      | true, false => (rcv, acc + 1, false)
      | false, true => (rcv, fst (dec_stat acc), snd (dec_stat acc))
      | _, _ => (rcv, acc, false)
      end
  | None =>
      if is_new then (rcv + 1, if filtered then acc else acc + 1, false)
      else (rcv, if filtered then acc else acc + 1, false)
  end.

Definition ins_out (t : table) (d0 d2 : dest) (net : N) (replaced : option entry) (filtered : bool) : out :=
  if t_deferring t then ONoChange
  else
    let best_changed := negb (key_eqb (best_key d0) (best_key d2)) in
    let any_changed := negb filtered ||
                       match replaced with Some r => negb (e_filtered r) | None => false end in
    if negb best_changed && negb any_changed then ONoChange
    else OChanged {| c_net := net; c_dest_id := d_id d2; c_best_changed := best_changed;
                     c_any_changed := any_changed;
                     c_replaced := match replaced with Some r => Some (e_lpid r) | None => None end;
                     c_paths := elig_list d2 |}.

Definition insert (t : table) (s : src) (net rpid : N) (nh : option N) (a : attrs)
           (filtered nhinv : bool) (limit : option (N * N)) : table * out :=
  let d0 := fst (ins_lookup t net) in
  let replaced := find (same_key s rpid) (d_entries d0) in
  let rest := filter (fun e => negb (same_key s rpid e)) (d_entries d0) in
  let is_new := ins_is_new s rpid d0 in
  if ins_over t limit is_new then
    (* nothing is inserted; a destination created for the lookup with no path
       is removed again and its id released *)
    (t, OLimit)
  else
    match ins_pid d0 rest replaced with
    | None => (t, ONoChange)      (* unreachable: 2^32 live paths *)
    | Some pn =>
        let e := {| e_lpid := fst pn; e_rpid := rpid; e_src := s; e_nh := nh; e_attr := a;
                    e_filtered := filtered; e_nhinv := nhinv |} in
        let st := ins_stats (stats_of t (s_addr s)) replaced is_new filtered in
        let d2 := with_entries d0 (ins_sorted (cmp_for (t_flags t) net) e rest) (snd pn) in
        ({| t_deferring := t_deferring t; t_dests := aset net d2 (t_dests t);
            t_used := snd (ins_lookup t net); t_stats := aset (s_addr s) (fst st) (t_stats t);
            t_flags := t_flags t; t_ctrs := ins_ctrs t limit is_new; t_shard := t_shard t;
            t_bad := t_bad t || snd st |},
         ins_out t d0 d2 net replaced filtered)
    end.

(* ------------------------------------------------------------------ remove *)

Fixpoint remove_first (f : entry -> bool) (l : list entry) : list entry :=
  match l with
  | [] => []
  | x :: r => if f x then r else x :: remove_first f r
  end.

Definition local_of (id : N) : N := N.land id 16777215.

Definition rem_stats (st : N * N) (still was_unfiltered : bool) : N * N * bool :=
  let r1 := if still then (fst st, false) else dec_stat (fst st) in
  let a1 := if was_unfiltered then dec_stat (snd st) else (snd st, false) in
  (fst r1, fst a1, snd r1 || snd a1).

Definition rem_ctrs (t : table) (ctr : option N) (still : bool) : list (N * N) :=
  match ctr with
  | Some c => if still then t_ctrs t else aset c (wrap_dec (ctr_of t c)) (t_ctrs t)
  | None => t_ctrs t
  end.

Definition remove (t : table) (s : src) (net rpid : N) (ctr : option N) : table * option change :=
  match alookup net (t_dests t) with
  | None => (t, None)
  | Some d =>
      match find (same_key s rpid) (d_entries d) with
      | None => (t, None)
      | Some removed =>
          let was_unfiltered := negb (e_filtered removed) in
          (* Vec::remove(position) removes the first match only *)
          let rest := remove_first (same_key s rpid) (d_entries d) in
          let still := existsb (from_addr (s_addr s)) rest in
          let st := rem_stats (stats_of t (s_addr s)) still was_unfiltered in
          let stats1 := aset (s_addr s) (fst st) (t_stats t) in
          let d' := with_entries d rest (d_next_pid d) in
          match rest with
          | [] =>
              ({| t_deferring := t_deferring t; t_dests := aremove net (t_dests t);
                  t_used := filter (fun x => negb (x =? local_of (d_id d))) (t_used t);
                  t_stats := stats1; t_flags := t_flags t; t_ctrs := rem_ctrs t ctr still;
                  t_shard := t_shard t; t_bad := t_bad t || snd st |},
               if was_unfiltered
               then Some {| c_net := net; c_dest_id := d_id d; c_best_changed := true;
                            c_any_changed := true; c_replaced := None; c_paths := [] |}
               else None)
          | _ =>
              ({| t_deferring := t_deferring t; t_dests := aset net d' (t_dests t);
                  t_used := t_used t; t_stats := stats1; t_flags := t_flags t;
                  t_ctrs := rem_ctrs t ctr still; t_shard := t_shard t; t_bad := t_bad t || snd st |},
               let best_changed := negb (key_eqb (best_key d) (best_key d')) in
               if negb best_changed && negb was_unfiltered then None
               else Some {| c_net := net; c_dest_id := d_id d; c_best_changed := best_changed;
                            c_any_changed := was_unfiltered; c_replaced := None;
                            c_paths := elig_list d' |})
          end
      end
  end.

(* ------------------------------------- drop / drop_stale / drop_llgr / drop_no_llgr *)

Inductive dropkind := DKAll | DKStale | DKLlgr | DKNoLlgr.

Definition drop_sel (fl : flagmap) (k : dropkind) (addr : N) (e : entry) : bool :=
  from_addr addr e &&
  match k with
  | DKAll => true
  | DKStale => is_stale fl e
  | DKLlgr => src_llgr fl e       (* the source's LLGR mark; the LLGR_STALE community alone does not qualify *)
  | DKNoLlgr => a_nollgr (e_attr e)
  end.

Definition oNeqb (a b : option N) : bool := oN_eqb a b.

(* one destination of the `retain` closure; returns the destination to keep
   (None = removed), the change to push, and the entries removed *)
Definition drop_dest (fl : flagmap) (k : dropkind) (addr net : N) (d : dest)
  : option dest * option change * list entry :=
  let sel := drop_sel fl k addr in
  if negb (existsb sel (d_entries d)) then (Some d, None, [])
  else
    let old_best := best_lpid d in
    let removed_any_elig := existsb (fun e => sel e && eligible e) (d_entries d) in
    let gone := filter sel (d_entries d) in
    let rest := filter (fun e => negb (sel e)) (d_entries d) in
    let d' := with_entries d rest (d_next_pid d) in
    if negb removed_any_elig then
      (match rest with [] => None | _ => Some d' end, None, gone)
    else
      match rest with
      | [] => (None, Some {| c_net := net; c_dest_id := d_id d; c_best_changed := true;
                             c_any_changed := true; c_replaced := None; c_paths := [] |}, gone)
      | _ => (Some d', Some {| c_net := net; c_dest_id := d_id d;
                               c_best_changed := negb (oNeqb old_best (best_lpid d'));
                               c_any_changed := true; c_replaced := None;
                               c_paths := elig_list d' |}, gone)
      end.

(* statistics effect of removing [gone] from one destination whose remaining
   entries are [rest]: received goes down when the peer's last path for the
   prefix is gone, accepted once per removed unfiltered path *)
Definition drop_account (addr : N) (st : N * N * bool) (r : list entry * list entry) : N * N * bool :=
  let '(rcv, acc, bad) := st in
  let '(rest, gone) := r in
  match gone with
  | [] => st
  | _ =>
      let still := existsb (from_addr addr) rest in
      let '(rcv1, b1) := if still then (rcv, false) else dec_stat rcv in
      fold_left (fun '(r0, a, b) e => if e_filtered e then (r0, a, b)
                                     else let '(a', b') := dec_stat a in (r0, a', b || b'))
                gone (rcv1, acc, bad || b1)
  end.

Fixpoint iter_n {A} (n : nat) (f : A -> A) (x : A) : A :=
  match n with O => x | S k => iter_n k f (f x) end.

Definition drop_op (t : table) (k : dropkind) (addr : N) (ctr : option N) : table * list change :=
  let rs := map (fun nd => (nd, drop_dest (t_flags t) k addr (fst nd) (snd nd))) (t_dests t) in
  let kept := flat_map (fun r => match fst (fst (snd r)) with
                                 | Some d' => [(fst (fst r), d')] | None => [] end) rs in
  let chs := flat_map (fun r => match snd (fst (snd r)) with Some c => [c] | None => [] end) rs in
  let freed := flat_map (fun r => match fst (fst (snd r)) with
                                  | Some _ => [] | None => [local_of (d_id (snd (fst r)))] end) rs in
  (* (remaining entries, removed entries) per destination *)
  let parts := map (fun r => (match fst (fst (snd r)) with Some d' => d_entries d' | None => [] end,
                              snd (snd r))) rs in
  let '(rcv, acc) := stats_of t addr in
  let '(rcv', acc', bad') := fold_left (drop_account addr) parts (rcv, acc, false) in
  let cdec := length (filter (fun pr => match snd pr with
                                        | [] => false
                                        | _ => negb (existsb (from_addr addr) (fst pr)) end) parts) in
  (* Table::drop forgets the peer's statistics for the family altogether *)
  let stats' :=
    match k with
    | DKAll => aremove addr (t_stats t)
    | _ => match alookup addr (t_stats t) with
           | Some _ => aset addr (rcv', acc') (t_stats t)
           | None => t_stats t
           end
    end in
  let ctrs' :=
    match k, ctr with
    | DKAll, _ => t_ctrs t
    | _, Some c => aset c (iter_n cdec wrap_dec (ctr_of t c)) (t_ctrs t)
    | _, None => t_ctrs t
    end in
  ({| t_deferring := t_deferring t; t_dests := kept;
      t_used := filter (fun x => negb (existsb (N.eqb x) freed)) (t_used t);
      t_stats := stats'; t_flags := t_flags t; t_ctrs := ctrs'; t_shard := t_shard t;
      t_bad := t_bad t || match k with
                          | DKAll => false
                          | _ => match alookup addr (t_stats t) with Some _ => bad' | None => false end
                          end |}, chs).

(* --------------------------------------------------- restale / restale_llgr *)

Definition mark (llgr : bool) (fl : flagmap) (tok : N) : flagmap :=
  let '(s, l) := flags_of fl tok in
  aset tok (if llgr then (s, true) else (true, l)) fl.

Definition mark_dest (llgr : bool) (addr : N) (fl : flagmap) (d : dest) : flagmap :=
  fold_left (fun f e => if from_addr addr e then mark llgr f (s_tok (e_src e)) else f) (d_entries d) fl.

(* The loop marks and re-sorts destination by destination.  Every entry of
   [addr] in a destination has its source marked before that destination is
   sorted, and sources of other peers are never marked, so (a source token
   having one remote address) each destination is sorted under flags that agree
   with the final flags on every source it holds: the model marks first and
   sorts under the final flags. *)
Definition restale_flags (llgr : bool) (addr : N) (ds : list (N * dest)) (fl : flagmap) : flagmap :=
  fold_left (fun f nd => mark_dest llgr addr f (snd nd)) ds fl.

Fixpoint indexed_from {A} (k : nat) (l : list A) : list (nat * A) :=
  match l with
  | [] => []
  | x :: r => (k, x) :: indexed_from (S k) r
  end.

(* restale: one change per destination.  restale_llgr: marking changes what is
   exported for every eligible path of the peer (LLGR_STALE is added at export
   time) even when its rank does not move, so each of them is reported as
   replaced (one change per path) and a marked best path as changed. *)
Definition restale_dest (fl' : flagmap) (llgr : bool) (addr net : N) (d : dest) : dest * list change :=
  if negb (existsb (from_addr addr) (d_entries d)) then (d, [])
  else
    let old_best := best_lpid d in
    let any_unf := existsb (fun e => from_addr addr e && negb (e_filtered e)) (d_entries d) in
    let d' := with_entries d (isort (cmp_for fl' net) (d_entries d)) (d_next_pid d) in
    let moved := negb (oNeqb old_best (best_lpid d')) in
    let marked := if llgr then map e_lpid (filter (from_addr addr) (elig_list d')) else [] in
    let best_marked :=
      match best_lpid d', marked with
      | Some b, m :: _ => m =? b
      | _, _ => false
      end in
    let best_changed := moved || best_marked in
    (d', if best_changed || any_unf
         then match marked with
              | [] => [{| c_net := net; c_dest_id := d_id d; c_best_changed := best_changed;
                          c_any_changed := any_unf; c_replaced := None; c_paths := elig_list d' |}]
              | _ => map (fun kp => {| c_net := net; c_dest_id := d_id d;
                                       c_best_changed := best_changed && Nat.eqb (fst kp) 0;
                                       c_any_changed := true; c_replaced := Some (snd kp);
                                       c_paths := elig_list d' |})
                         (indexed_from 0 marked)
              end
         else []).

Definition restale_op (t : table) (llgr : bool) (addr : N) : table * list change :=
  let fl' := restale_flags llgr addr (t_dests t) (t_flags t) in
  let rs := map (fun nd => (fst nd, restale_dest fl' llgr addr (fst nd) (snd nd))) (t_dests t) in
  ({| t_deferring := t_deferring t; t_dests := map (fun x => (fst x, fst (snd x))) rs;
      t_used := t_used t; t_stats := t_stats t;
      t_flags := fl'; t_ctrs := t_ctrs t; t_shard := t_shard t; t_bad := t_bad t |},
   flat_map (fun x => snd (snd x)) rs).

(* ---------------------------------------------------- update_nexthop_validity *)

Definition nhv_dest (nh : N) (reachable : bool) (net : N) (d : dest) : dest * option change :=
  let old_key := best_key d in
  let hit e := match e_nh e with Some x => (x =? nh) && negb (Bool.eqb (e_nhinv e) (negb reachable)) | None => false end in
  if negb (existsb hit (d_entries d)) then (d, None)
  else
    let es := map (fun e => if match e_nh e with Some x => x =? nh | None => false end
                            then {| e_lpid := e_lpid e; e_rpid := e_rpid e; e_src := e_src e;
                                    e_nh := e_nh e; e_attr := e_attr e; e_filtered := e_filtered e;
                                    e_nhinv := negb reachable |}
                            else e) (d_entries d) in
    let d' := with_entries d es (d_next_pid d) in
    (d', Some {| c_net := net; c_dest_id := d_id d;
                 c_best_changed := negb (key_eqb old_key (best_key d'));
                 c_any_changed := true; c_replaced := None; c_paths := elig_list d' |}).

Definition nhv_op (t : table) (nh : N) (reachable : bool) : table * list change :=
  let rs := map (fun nd => (fst nd, nhv_dest nh reachable (fst nd) (snd nd))) (t_dests t) in
  (set_dests t (map (fun x => (fst x, fst (snd x))) rs),
   flat_map (fun x => match snd (snd x) with Some c => [c] | None => [] end) rs).

(* ------------------------------------------------------------------ deferral *)

Definition loc_rib (t : table) (mx : option N) : list change :=
  flat_map (fun nd =>
              let ps := elig_list (snd nd) in
              let ps := match mx with Some m => firstn (N.to_nat m) ps | None => ps end in
              match ps with
              | [] => []
              | _ => [{| c_net := fst nd; c_dest_id := d_id (snd nd); c_best_changed := true;
                         c_any_changed := true; c_replaced := None; c_paths := ps |}]
              end) (t_dests t).

(* Table::end_deferral: one change per destination, an empty path list for a
   destination with no eligible path *)
Definition all_dests (t : table) : list change :=
  map (fun nd => {| c_net := fst nd; c_dest_id := d_id (snd nd); c_best_changed := true;
                    c_any_changed := true; c_replaced := None; c_paths := elig_list (snd nd) |})
      (t_dests t).

Definition set_deferring (t : table) (b : bool) : table :=
  {| t_deferring := b; t_dests := t_dests t; t_used := t_used t; t_stats := t_stats t;
     t_flags := t_flags t; t_ctrs := t_ctrs t; t_shard := t_shard t; t_bad := t_bad t |}.

(* NlriChange::ecmp_paths *)
Definition ecmp_key (fl : flagmap) (e : entry) : N * N * N * bool * bool * N * bool :=
  (lp_of (e_attr e), hops_of (e_attr e), origin_of (e_attr e),
   prefers_over_ibgp (s_role (e_src e)), is_stale fl e, clen_of (e_attr e), is_llgr_stale fl e).

Definition ecmp_key_eqb (x y : N * N * N * bool * bool * N * bool) : bool :=
  let '(a1, b1, c1, d1, e1, f1, g1) := x in
  let '(a2, b2, c2, d2, e2, f2, g2) := y in
  (a1 =? a2) && (b1 =? b2) && (c1 =? c2) && Bool.eqb d1 d2 && Bool.eqb e1 e2 && (f1 =? f2) && Bool.eqb g1 g2.

Fixpoint take_while {A} (f : A -> bool) (l : list A) : list A :=
  match l with
  | [] => []
  | x :: r => if f x then x :: take_while f r else []
  end.

Definition ecmp_paths (fl : flagmap) (paths : list entry) : list entry :=
  match paths with
  | [] => []
  | b :: _ => take_while (fun p => ecmp_key_eqb (ecmp_key fl p) (ecmp_key fl b)) paths
  end.

(* ------------------------------------------------------------------- driver *)

Inductive op :=
| Insert (s : src) (net rpid : N) (nh : option N) (a : attrs) (filtered nhinv : bool) (limit : option (N * N))
| Remove (s : src) (net rpid : N) (ctr : option N)
| Drop (k : dropkind) (addr : N) (ctr : option N)
| Restale (llgr : bool) (addr : N)
| NhValidity (nh : N) (reachable : bool)
| StartDeferral
| EndDeferral.

(* while the family is deferring (Restarting Speaker mode) the table is updated
   but no mutator hands a change to the distribution layer; end_deferral reports
   the final state of every destination *)
Definition quiet (t : table) (cs : list change) : list change :=
  if t_deferring t then [] else cs.

Definition step (t : table) (o : op) : table * list change * bool (* limit exceeded *) :=
  match o with
  | Insert s net rpid nh a f i lim =>
      match insert t s net rpid nh a f i lim with
      | (t', OChanged c) => (t', [c], false)
      | (t', ONoChange) => (t', [], false)
      | (t', OLimit) => (t', [], true)
      end
  | Remove s net rpid ctr =>
      match remove t s net rpid ctr with
      | (t', Some c) => (t', quiet t [c], false)
      | (t', None) => (t', [], false)
      end
  | Drop k addr ctr => let '(t', cs) := drop_op t k addr ctr in (t', quiet t cs, false)
  | Restale llgr addr => let '(t', cs) := restale_op t llgr addr in (t', quiet t cs, false)
  | NhValidity nh r => let '(t', cs) := nhv_op t nh r in (t', quiet t cs, false)
  | StartDeferral => (set_deferring t true, [], false)
  | EndDeferral => (set_deferring t false, all_dests t, false)
  end.

Definition empty_table (shard : N) : table :=
  {| t_deferring := false; t_dests := []; t_used := []; t_stats := []; t_flags := [];
     t_ctrs := []; t_shard := shard; t_bad := false |}.

Definition run (t : table) (ops : list op) : table :=
  fold_left (fun s o => fst (fst (step s o))) ops t.

(* ------------------------------------------------------------- observation *)

Definition v_entry (fl : flagmap) (e : entry) : val :=
  VL [VN (e_lpid e); VN (s_tok (e_src e)); VN (a_tok (e_attr e)); VOpt VN (e_nh e)].

Definition v_change (fl : flagmap) (c : change) : val :=
  VL [VN (c_net c); VN (c_dest_id c); VB (c_best_changed c); VB (c_any_changed c);
      VOpt VN (c_replaced c); VList (v_entry fl) (c_paths c);
      VList (v_entry fl) (ecmp_paths fl (c_paths c))].

(* Table::rs_local_paths *)
Definition rs_local (peer : N) (d : dest) : option entry :=
  find (fun e => (s_role (e_src e) =? 1) && negb (from_addr peer e) && eligible e) (d_entries d).

(* Table::adj_in_paths: the paths received from one peer (Adj-RIB-In view),
   with or without the ones import policy rejected *)
Definition adj_in (peer : N) (with_filtered : bool) (d : dest) : list entry :=
  filter (fun e => from_addr peer e && (with_filtered || negb (e_filtered e))) (d_entries d).

(* Table::collect_adj_in_paths, one destination: the input of a soft reset *)
Definition soft_in (fl : flagmap) (peer : N) (include_stale : bool) (d : dest) : list entry :=
  filter (fun e => from_addr peer e && (include_stale || negb (is_stale fl e))) (d_entries d).

Definition v_adj (e : entry) : val :=
  VL [VN (e_rpid e); VN (s_tok (e_src e)); VN (a_orig (e_attr e)); VB (e_filtered e)].
Definition v_soft (e : entry) : val :=
  VL [VN (e_rpid e); VN (s_tok (e_src e)); VOpt VN (e_nh e); VN (a_orig (e_attr e))].
Definition v_limited (fl : flagmap) (c : change) : val :=
  VL [VN (c_net c); VList (v_entry fl) (c_paths c)].

(* Table::destinations(Global, enable_filtered = true): every entry in rank
   order with its flags *)
Definition v_dest (fl : flagmap) (nd : N * dest) : val :=
  VL [VN (fst nd);
      VList (fun e => VL [VN (e_rpid e); VN (s_tok (e_src e)); VN (a_tok (e_attr e));
                          VB (e_filtered e); VB (is_stale fl e)]) (d_entries (snd nd))].

Definition v_state (t : table) (addrs ctrs : list N) : val :=
  VL [VList (v_change (t_flags t)) (loc_rib t None);
      VList (v_dest (t_flags t)) (t_dests t);
      (* Table::state *)
      VL [VN (N.of_nat (length (t_dests t)));
          VN (N.of_nat (length (flat_map (fun nd => d_entries (snd nd)) (t_dests t))));
          VN (N.of_nat (length (filter (fun e => negb (e_filtered e))
                                       (flat_map (fun nd => d_entries (snd nd)) (t_dests t)))))];
      (* Table::peer_stats *)
      VList (fun a => match alookup a (t_stats t) with
                      | Some (r, c) => VL [VN a; VN r; VN c]
                      | None => VL [VN a]
                      end) addrs;
      VList (fun c => VN (ctr_of t c)) ctrs;
      VB (t_bad t);
      (* Table::destinations(RsLocal(peer)): per peer, the best path among the
         other route-server clients' eligible paths, prefix by prefix *)
      VList (fun a => VL [VN a; VList (fun nd => match rs_local a (snd nd) with
                                                 | Some e => VL [VN (fst nd); VN (s_tok (e_src e)); VN (a_orig (e_attr e))]
                                                 | None => VL [VN (fst nd)]
                                                 end) (t_dests t)]) addrs;
      (* read-only views: collect_loc_rib_paths_limited(1 / 2), destinations(AdjIn(peer))
         without / with filtered paths, collect_adj_in_paths without / with stale paths *)
      VL [VList (v_limited (t_flags t)) (loc_rib t (Some 1));
          VList (v_limited (t_flags t)) (loc_rib t (Some 2));
          VList (fun a => VL [VN a; VList (fun nd => VL [VN (fst nd);
                                                         VList v_adj (adj_in a false (snd nd));
                                                         VList v_adj (adj_in a true (snd nd));
                                                         VList v_soft (soft_in (t_flags t) a false (snd nd));
                                                         VList v_soft (soft_in (t_flags t) a true (snd nd))])
                                         (t_dests t)]) addrs]].

Fixpoint observe (t : table) (addrs ctrs : list N) (ops : list op) : list val :=
  match ops with
  | [] => []
  | o :: r =>
      let '(t', cs, lim) := step t o in
      VL [VList (v_change (t_flags t')) cs; VB lim; v_state t' addrs ctrs] :: observe t' addrs ctrs r
  end.

Definition run_case (shard : N) (addrs ctrs : list N) (ops : list op) : val :=
  VL (observe (empty_table shard) addrs ctrs ops).
