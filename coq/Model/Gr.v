(* Executable model of the graceful-restart helper side:
     daemon/src/gr.rs          GrState::{new, process, is_peer_restarting}   (arm for arm)
     daemon/src/event/mod.rs   the disconnect block of session_loop, gr_on_disconnect,
                               the admin-down override of run(), apply_disconnect,
                               process_effects(GrSessionEstablished / GrEorReceived),
                               gr_restart_timer_expired, llgr_timer_expired,
                               spawn_llgr_timers, PeerContext::force_down (timer part)
     table/src/lib.rs          drop, restale, drop_stale, restale_llgr, drop_no_llgr,
                               drop_llgr_stale restricted to the routes of one peer
   No proofs in this file.

   One peer.  Families are (afi<<16|safi) codes, durations seconds.  A timer is
   "armed" while its task is pending (oneshot sender present and not closed).
   The RIB is the list of the peer's routes; a route carries the generation of
   the session that announced it and the stale / llgr_stale marks of its Source
   (marks are per (session, family) in the code and every marking operation works
   on all routes of one (peer, family), so a per-route mark is equivalent). *)
From Coq Require Import List NArith Bool.
From RB Require Import Base.Val Model.Deferral.
Import ListNotations.
Open Scope N_scope.

(* ------------------------------------------------------------ GrState *)

Inductive grinner :=
| GIdle
| GPeerRestarting (stale_families : list fam) (llgr : option (list (fam * N)))
| GLlgrStaling (remaining : fset)
| GPeerReconnected (pending : fset) (from_llgr : bool).

Inductive grinput :=
| GSessionDropped (gr : option (list fam * N)) (llgr : option (list (fam * N)))
| GSessionEstablished (gr_families : list fam)
| GEorReceived (f : fam)
| GTimerExpired
| GLlgrTimerExpired (f : fam).

Inductive groutput :=
| GStartTimer (d : N)
| GStopTimer
| GDeleteStaleRoutes (l : list fam)
| GStartLlgrTimers (l : list (fam * N))
| GStopLlgrTimers
| GDeleteLlgrStaleRoutes (l : list fam).

Definition is_peer_restarting (s : grinner) : bool :=
  match s with GIdle => false | _ => true end.

Definition gr_step (s : grinner) (i : grinput) : grinner * list groutput :=
  match s, i with
  | GLlgrStaling r, GSessionDropped _ _ => (GLlgrStaling r, [])
  | _, GSessionDropped (Some (fams, rt)) llgr =>
      (* stale_families = gp.families, then every LLGR family not yet contained (fix C10-5) *)
      let stale := fold_left (fun acc f => if mem f acc then acc else acc ++ [f])
                             (match llgr with Some lp => map fst lp | None => [] end) fams in
      (GPeerRestarting stale llgr, [GStartTimer rt])
  | _, GSessionDropped None (Some lp) => (GLlgrStaling (dedup (map fst lp)), [GStartLlgrTimers lp])
  | GPeerRestarting stale (Some lp), GTimerExpired =>
      (* stale families without LLGR are deleted now (fix C10-4) *)
      let remaining := dedup (map fst lp) in
      let expired := filter (fun f => negb (mem f remaining)) stale in
      (GLlgrStaling remaining,
       match expired with [] => [] | _ => [GDeleteStaleRoutes expired] end ++ [GStartLlgrTimers lp])
  | GPeerRestarting stale None, GTimerExpired => (GIdle, [GDeleteStaleRoutes stale])
  | GPeerRestarting stale _, GSessionEstablished gr_families =>
      let gr_set := dedup gr_families in
      let dropped := filter (fun f => negb (mem f gr_set)) stale in
      let outs := GStopTimer :: match dropped with [] => [] | _ => [GDeleteStaleRoutes dropped] end in
      (match gr_set with [] => GIdle | _ => GPeerReconnected gr_set false end, outs)
  | GLlgrStaling remaining, GSessionEstablished gr_families =>
      let gr_set := dedup gr_families in
      (* staling families that are not re-negotiated are purged at once (fix C10-3) *)
      let dropped := filter (fun f => negb (mem f gr_set)) remaining in
      (match gr_set with [] => GIdle | _ => GPeerReconnected gr_set true end,
       GStopLlgrTimers :: match dropped with [] => [] | _ => [GDeleteLlgrStaleRoutes dropped] end)
  | GLlgrStaling remaining, GLlgrTimerExpired f =>
      let r := fremove f remaining in
      (match r with [] => GIdle | _ => GLlgrStaling r end, [GDeleteLlgrStaleRoutes [f]])
  | GPeerReconnected pending false, GEorReceived f =>
      let p := fremove f pending in
      (match p with [] => GIdle | _ => GPeerReconnected p false end, [GDeleteStaleRoutes [f]])
  | GPeerReconnected pending true, GEorReceived f =>
      let p := fremove f pending in
      (match p with [] => GIdle | _ => GPeerReconnected p true end, [GDeleteLlgrStaleRoutes [f]])
  | s, _ => (s, [])
  end.

(* ------------------------------------------------------------ routes of the peer *)

Record route := {
  r_fam : fam;
  r_id : N;              (* prefix / path id *)
  r_sess : N;            (* generation of the session that announced it *)
  r_stale : bool;        (* Source.stale *)
  r_llgr : bool;         (* Source.llgr_stale *)
  r_no_llgr : bool;      (* carries NO_LLGR (0xFFFF0007) *)
  r_llgr_comm : bool     (* carries LLGR_STALE (0xFFFF0006) *)
}.

Definition set_marks (r : route) (st lg : bool) : route :=
  {| r_fam := r_fam r; r_id := r_id r; r_sess := r_sess r; r_stale := st; r_llgr := lg;
     r_no_llgr := r_no_llgr r; r_llgr_comm := r_llgr_comm r |}.

(* RibEntry::is_llgr_stale *)
Definition is_llgr_stale (r : route) : bool := r_llgr r || r_llgr_comm r.

Definition in_fams (l : list fam) (r : route) : bool := mem (r_fam r) l.

Definition rib_drop (rib : list route) (fams : list fam) : list route :=
  filter (fun r => negb (in_fams fams r)) rib.
Definition rib_restale (rib : list route) (fams : list fam) : list route :=
  map (fun r => if in_fams fams r then set_marks r true (r_llgr r) else r) rib.
Definition rib_drop_stale (rib : list route) (fams : list fam) : list route :=
  filter (fun r => negb (in_fams fams r && r_stale r)) rib.
(* drop_llgr_stale selects by the mark of the Source (fix C10-6) *)
Definition rib_drop_llgr_stale (rib : list route) (fams : list fam) : list route :=
  filter (fun r => negb (in_fams fams r && r_llgr r)) rib.
(* TableShard::mark_llgr_stale = restale_llgr then drop_no_llgr *)
Definition rib_mark_llgr (rib : list route) (fams : list fam) : list route :=
  filter (fun r => negb (in_fams fams r && r_no_llgr r))
         (map (fun r => if in_fams fams r then set_marks r (r_stale r) true else r) rib).
(* Table::insert: replaces the path with the same (peer, path id) *)
Definition rib_insert (rib : list route) (r : route) : list route :=
  filter (fun q => negb ((r_fam q =? r_fam r) && (r_id q =? r_id r))) rib ++ [r].

(* ------------------------------------------------------------ glue *)

Inductive reason :=
| RsTcp             (* shutdown == None / IoError *)
| RsRemoteCease     (* RemoteNotification, not Hard Reset *)
| RsRemoteHard      (* RemoteNotification Cease/Hard Reset *)
| RsLocalCease      (* LocalNotification with a Cease subcode, not Hard Reset *)
| RsLocalHard       (* LocalNotification Cease/Hard Reset *)
| RsLocalOther      (* LocalNotification, not Cease (OPEN / UPDATE / FSM error message) *)
| RsHold            (* HoldTimerExpired *)
| RsOther           (* FsmError, AdminShutdown *)
| RsRemoteOther.    (* RemoteNotification that is not a Cease (OPEN / UPDATE / FSM error message sent by the peer) *)

Record session := {
  s_gen : N;
  s_fams : list fam;                       (* self.source.keys() *)
  s_gr : option (list fam * N * bool);     (* negotiated families, restart time, N bit *)
  s_llgr : option (list (fam * N))
}.

Record hstate := {
  h_gr : grinner;
  h_rtimer : bool;               (* restart timer armed *)
  h_ltimers : list fam;          (* families with an armed LLGR timer *)
  h_rib : list route;
  h_sess : option session;
  h_gen : N;                     (* sessions established so far *)
  h_admin_down : bool
}.

Definition h0 : hstate :=
  {| h_gr := GIdle; h_rtimer := false; h_ltimers := []; h_rib := []; h_sess := None; h_gen := 0;
     h_admin_down := false |}.

Inductive hevent :=
| HUp (fams : list fam) (gr : option (list fam * N * bool)) (llgr : option (list (fam * N)))
| HAnnounce (f : fam) (id : N) (no_llgr llgr_comm : bool)
| HEor (f : fam)
| HDown (r : reason)
| HFailedConnect                 (* a connection that ends before Established *)
| HRestartTimer                  (* the restart timer task runs its handler *)
| HLlgrTimer (f : fam)           (* the LLGR timer task of f runs its handler *)
| HForceDown                     (* PeerContext::force_down: fires every armed timer *)
| HSetAdminDown (b : bool).

(* gr_on_disconnect *)
Definition gr_applies (r : reason) (nbit : bool) : bool :=
  match r with
  | RsTcp => true
  | RsRemoteCease => nbit
  | RsRemoteHard => false
  | RsLocalCease => nbit
  | RsLocalHard => false
  | RsLocalOther => false
  | RsHold => nbit
  | RsOther => false
  | RsRemoteOther => false     (* only a Cease is eligible, received or sent (fix C10-8) *)
  end.

(* the reason class of a NOTIFICATION (code, subcode) sent or received *)
Definition reason_of_notification (local : bool) (code sub : N) : reason :=
  if code =? 6 then
    if sub =? 9 then (if local then RsLocalHard else RsRemoteHard)
    else (if local then RsLocalCease else RsRemoteCease)
  else (if local then RsLocalOther else RsRemoteOther).

Definition delete_fams (outs : list groutput) : list fam :=
  flat_map (fun o => match o with GDeleteStaleRoutes l => l | _ => [] end) outs.
Definition delete_llgr_fams (outs : list groutput) : list fam :=
  flat_map (fun o => match o with GDeleteLlgrStaleRoutes l => l | _ => [] end) outs.
Definition has_stop_llgr (outs : list groutput) : bool :=
  existsb (fun o => match o with GStopLlgrTimers => true | _ => false end) outs.
Definition start_llgr (outs : list groutput) : option (list (fam * N)) :=
  fold_right (fun o acc => match o with GStartLlgrTimers l => Some l | _ => acc end) None outs.

(* ctx.llgr_family_timers.extend(timers) *)
Definition add_timers (cur : list fam) (l : list fam) : list fam := dedup (cur ++ l).

Definition upd_h (h : hstate) (g : grinner) (rt : bool) (lt : list fam) (rib : list route) : hstate :=
  {| h_gr := g; h_rtimer := rt; h_ltimers := lt; h_rib := rib; h_sess := h_sess h; h_gen := h_gen h;
     h_admin_down := h_admin_down h |}.

(* apply_disconnect, given the (already filtered) negotiated GR / LLGR of the DisconnectInfo *)
Definition apply_disconnect (h : hstate) (gr : option (list fam * N)) (llgr : option (list (fam * N))) : hstate :=
  match gr, llgr with
  | None, None =>
      (* else branch: if !ctx.gr_state.is_peer_restarting() { ctx.cancel_gr_timer() }   (fix C10-1) *)
      upd_h h (h_gr h) (if is_peer_restarting (h_gr h) then h_rtimer h else false) (h_ltimers h) (h_rib h)
  | _, _ =>
      let '(g', outs) := gr_step (h_gr h) (GSessionDropped gr llgr) in
      (* cancel_gr_timer, then the outputs in order *)
      let rt := existsb (fun o => match o with GStartTimer _ => true | _ => false end) outs in
      match start_llgr outs with
      | Some l => upd_h h g' rt (add_timers (h_ltimers h) (map fst l)) (rib_mark_llgr (h_rib h) (map fst l))
      | None => upd_h h g' rt (h_ltimers h) (h_rib h)
      end
  end.

(* the end of session_loop() and of run() for the live session s *)
Definition down_of (h : hstate) (s : session) (r : reason) : hstate :=
          (* session_loop (fix C10-2): eligibility, including admin-down, is decided first;
             the families kept and marked stale are derived from the result *)
          let gr' := match s_gr s with
                     | Some (l, rt, nbit) => if gr_applies r nbit then Some (l, rt) else None
                     | None => None
                     end in
          let llgr' := match gr', r with
                       | Some _, _ => s_llgr s
                       | None, RsTcp => s_llgr s
                       | None, _ => None
                       end in
          let gr'' := if h_admin_down h then None else gr' in
          let llgr'' := if h_admin_down h then None else llgr' in
          let gr_fams := match gr'' with Some (l, _) => l | None => [] end in
          let llgr_fams := match llgr'' with Some l => map fst l | None => [] end in
          let drop_fams := filter (fun f => negb (mem f gr_fams) && negb (mem f llgr_fams)) (s_fams s) in
          (* every kept family is marked stale (fix C10-5) *)
          let rib1 := rib_restale (rib_drop (h_rib h) drop_fams) (gr_fams ++ llgr_fams) in
          let h1 := {| h_gr := h_gr h; h_rtimer := h_rtimer h; h_ltimers := h_ltimers h; h_rib := rib1;
                       h_sess := None; h_gen := h_gen h; h_admin_down := h_admin_down h |} in
          apply_disconnect h1 gr'' llgr''.

(* gr_restart_timer_expired; [cur] are the LLGR timers that stay armed next to the new ones *)
Definition restart_handler (h : hstate) (cur : list fam) : hstate :=
  let '(g', outs) := gr_step (h_gr h) GTimerExpired in
  let rib1 := rib_drop (h_rib h) (delete_fams outs) in
  match start_llgr outs with
  | Some l => upd_h h g' false (add_timers cur (map fst l)) (rib_mark_llgr rib1 (map fst l))
  | None => upd_h h g' false cur rib1
  end.

(* llgr_timer_expired for family f (the timer slot itself is handled by the caller) *)
Definition llgr_handler (h : hstate) (f : fam) : hstate :=
  let '(g', outs) := gr_step (h_gr h) (GLlgrTimerExpired f) in
  upd_h h g' (h_rtimer h) (h_ltimers h) (rib_drop_llgr_stale (h_rib h) (delete_llgr_fams outs)).

(* the negotiated GR / LLGR sets restricted to the families of the session *)
Definition norm_gr (fams : list fam) (gr : option (list fam * N * bool)) : option (list fam * N * bool) :=
  match gr with
  | Some (l, rt, nb) => match filter (fun f => mem f fams) l with [] => None | l' => Some (l', rt, nb) end
  | None => None
  end.
Definition norm_llgr (fams : list fam) (ll : option (list (fam * N))) : option (list (fam * N)) :=
  match ll with
  | Some l => match filter (fun e => mem (fst e) fams) l with [] => None | l' => Some l' end
  | None => None
  end.

(* PeerContext::force_down, timer part: fire_gr_timer, fire_llgr_timers.  The timers armed at the
   call run their handlers; LLGR timers started by the restart-timer handler are new tasks and
   stay pending *)
Definition force_timers (h : hstate) : hstate :=
  let armed := h_ltimers h in
  let h1 := if h_rtimer h then restart_handler h [] else upd_h h (h_gr h) false [] (h_rib h) in
  fold_left llgr_handler armed h1.

Definition h_step (h : hstate) (e : hevent) : hstate :=
  match e with
  | HUp fams gr0 llgr0 =>
      (* apply_outputs (fix C10-7): only address families of the session are negotiated *)
      let gr := norm_gr fams gr0 in
      let llgr := norm_llgr fams llgr0 in
      match h_sess h with
      | Some _ => h
      | None =>
        if h_admin_down h then h      (* accept_connection: "admin down; ignore a new passive connection" *)
        else
          let gen := h_gen h + 1 in
          let gr_families := match gr with Some (l, _, _) => l | None => [] end in
          (* process_effects(GrSessionEstablished): cancel_gr_timer, GrState, purges *)
          let '(g', outs) := gr_step (h_gr h) (GSessionEstablished gr_families) in
          let lt := if has_stop_llgr outs then [] else h_ltimers h in
          let rib := rib_drop_llgr_stale (rib_drop_stale (h_rib h) (delete_fams outs)) (delete_llgr_fams outs) in
          {| h_gr := g'; h_rtimer := false; h_ltimers := lt; h_rib := rib;
             h_sess := Some {| s_gen := gen; s_fams := fams; s_gr := gr; s_llgr := llgr |};
             h_gen := gen; h_admin_down := h_admin_down h |}
      end
  | HAnnounce f id nl lc =>
      match h_sess h with
      | Some s =>
          if mem f (s_fams s) then
            upd_h h (h_gr h) (h_rtimer h) (h_ltimers h)
                  (rib_insert (h_rib h) {| r_fam := f; r_id := id; r_sess := s_gen s; r_stale := false;
                                           r_llgr := false; r_no_llgr := nl; r_llgr_comm := lc |})
          else h
      | None => h
      end
  | HEor f =>
      match h_sess h with
      | Some s =>
          match s_gr s with
          | Some _ =>
              let '(g', outs) := gr_step (h_gr h) (GEorReceived f) in
              upd_h h g' (h_rtimer h) (h_ltimers h)
                    (rib_drop_llgr_stale (rib_drop_stale (h_rib h) (delete_fams outs)) (delete_llgr_fams outs))
          | None => h
          end
      | None => h
      end
  | HDown r => match h_sess h with Some s => down_of h s r | None => h end
  | HFailedConnect =>
      (* accept_connection refuses the connection of an admin-down peer and a second connection
         of the same role; otherwise the session ends before Established *)
      if h_admin_down h then h
      else match h_sess h with Some _ => h | None => apply_disconnect h None None end
  | HRestartTimer => if h_rtimer h then restart_handler h (h_ltimers h) else h
  | HLlgrTimer f =>
      if mem f (h_ltimers h) then
        llgr_handler (upd_h h (h_gr h) (h_rtimer h) (fremove f (h_ltimers h)) (h_rib h)) f
      else h
  | HForceDown =>
      let h2 := force_timers h in
      (* ... and the live session is told to close (CloseReason::Silent): it ends with AdminShutdown *)
      match h_sess h2 with Some s => down_of h2 s RsOther | None => h2 end
  | HSetAdminDown b =>
      {| h_gr := h_gr h; h_rtimer := h_rtimer h; h_ltimers := h_ltimers h; h_rib := h_rib h;
         h_sess := h_sess h; h_gen := h_gen h; h_admin_down := b |}
  end.

Definition h_run (h : hstate) (evs : list hevent) : hstate := fold_left h_step evs h.

(* ------------------------------------------------------------ two connections of one neighbour *)

(* The ConnArbiter of a peer has two connection slots (Role::Active, Role::Passive).  [h_step]
   describes the connections of one role (HUp / HFailedConnect are refused by accept_connection
   while a session of that role exists).  [cstate] adds the other slot: a second connection of the
   same neighbour that is registered with the arbiter and has not reached Established ([c_sib]).
   Each connection ends through its own session_loop / apply_disconnect: the end of one is not
   influenced by the other slot being in use.  The slot flags themselves are only what decides
   whether accept_connection admits a connection and whether run() resets the Peer record; the
   GR / LLGR handling of apply_disconnect does not read them. *)
Record cstate := { c_h : hstate; c_sib : bool }.

Definition c0 : cstate := {| c_h := h0; c_sib := false |}.

Inductive cevent :=
| CBase (e : hevent)             (* an event of [h_step]; connections are those of the first role *)
| CSibOpen                       (* accept_connection admits a connection of the other role: OpenSent *)
| CSibFail                       (* it ends in OpenSent / OpenConfirm *)
| CSibUp (fams : list fam) (gr : option (list fam * N * bool)) (llgr : option (list (fam * N))).
                                 (* the neighbour's OPEN arrives on it *)

(* Established on a connection that accept_connection has admitted before: apply_outputs and
   process_effects do not look at admin_down (only accept_connection does), so this is the
   establishment part of HUp with that check passed *)
Definition establish (h : hstate) (fams : list fam) (gr : option (list fam * N * bool))
           (llgr : option (list (fam * N))) : hstate :=
  h_step (h_step (h_step h (HSetAdminDown false)) (HUp fams gr llgr)) (HSetAdminDown (h_admin_down h)).

Definition c_step (c : cstate) (e : cevent) : cstate :=
  match e with
  | CBase HForceDown =>
      (* force_down sends the close reason to both slots: the second connection ends as well *)
      let h' := h_step (c_h c) HForceDown in
      {| c_h := if c_sib c then apply_disconnect h' None None else h'; c_sib := false |}
  | CBase e => {| c_h := h_step (c_h c) e; c_sib := c_sib c |}
  | CSibOpen =>
      (* refused for an admin-down peer; a second one of the same role is refused as well *)
      if h_admin_down (c_h c) then c else {| c_h := c_h c; c_sib := true |}
  | CSibFail =>
      if c_sib c then {| c_h := apply_disconnect (c_h c) None None; c_sib := false |} else c
  | CSibUp fams gr llgr =>
      if c_sib c then
        match h_sess (c_h c) with
        | Some _ =>
            (* PeerFsm::check_collision: the Established connection wins, this one is closed with a
               Cease / Connection Collision Resolution and ends with nothing negotiated *)
            {| c_h := apply_disconnect (c_h c) None None; c_sib := false |}
        | None => {| c_h := establish (c_h c) fams gr llgr; c_sib := false |}
        end
      else c
  end.

Definition c_run (c : cstate) (evs : list cevent) : cstate := fold_left c_step evs c.

(* ------------------------------------------------------------ entries of llgr_family_timers whose timer is gone *)

(* [h_ltimers] are the families with an ARMED LLGR timer (an entry of PeerContext::llgr_family_timers
   whose task is alive).  llgr_timer_expired does not remove the entry of the timer that ran out:
   the entry stays in the map with its task gone ("dead") until the map is cleared (StopLlgrTimers
   when the peer comes back during the LLGR period, fire_llgr_timers of a forced peer-down) or a
   later LLGR period of the family stores its new timer over it (llgr_family_timers.extend
   overwrites).  [t_dead] keeps these entries next to the state, so that the map of the code is
   [h_ltimers] (alive) plus [t_dead] (dead); a dead entry is not an armed timer. *)
Definition is_llgr_staling (g : grinner) : bool := match g with GLlgrStaling _ => true | _ => false end.

Definition fired_of (e : cevent) : option fam := match e with CBase (HLlgrTimer f) => Some f | _ => None end.
Definition is_force (e : cevent) : bool := match e with CBase HForceDown => true | _ => false end.

(* h, h': the state before and after the step *)
Definition dead_next (h h' : hstate) (fired : option fam) (force : bool) (dead : list fam) : list fam :=
  let established := negb (h_gen h' =? h_gen h) in
  let base :=
    if force then []                               (* fire_llgr_timers drains the map *)
    else match fired with
         | Some f => if mem f (h_ltimers h) then f :: dead else dead      (* the entry stays, its task is gone *)
         | None => if established && is_llgr_staling (h_gr h) then []     (* StopLlgrTimers: cancel_llgr_timers clears *)
                   else dead
         end in
  (* extend(): the timers armed in this step replace whatever entry their family had *)
  dedup (filter (fun f => negb (mem f (h_ltimers h'))) base).

Record tstate := { t_c : cstate; t_dead : list fam }.
Definition t0 : tstate := {| t_c := c0; t_dead := [] |}.
Definition t_step (t : tstate) (e : cevent) : tstate :=
  let c' := c_step (t_c t) e in
  {| t_c := c'; t_dead := dead_next (c_h (t_c t)) (c_h c') (fired_of e) (is_force e) (t_dead t) |}.
Definition t_run (t : tstate) (evs : list cevent) : tstate := fold_left t_step evs t.

(* ------------------------------------------------------------ observation *)

Definition v_pairs (l : list (fam * N)) : val := VList VPairN l.

Definition v_groutput (o : groutput) : val :=
  match o with
  | GStartTimer d => VL [VN 0; VN d]
  | GStopTimer => VL [VN 1]
  | GDeleteStaleRoutes l => VL [VN 2; VNs l]
  | GStartLlgrTimers l => VL [VN 3; v_pairs l]
  | GStopLlgrTimers => VL [VN 4]
  | GDeleteLlgrStaleRoutes l => VL [VN 5; VNs l]
  end.

Fixpoint observe_gr (s : grinner) (ins : list grinput) : list val :=
  match ins with
  | [] => []
  | i :: r => let '(s', o) := gr_step s i in
              VL [VList v_groutput o; VB (is_peer_restarting s')] :: observe_gr s' r
  end.

Definition run_gr_case (ins : list grinput) : val := VL (observe_gr GIdle ins).

Definition v_route (r : route) : val :=
  VL [VN (r_fam r); VN (r_id r); VN (r_sess r); VB (r_stale r); VB (r_llgr r); VB (r_no_llgr r); VB (r_llgr_comm r)].

Definition v_negotiated (s : option session) : val :=
  match s with
  | None => VL []
  | Some s => VL [VOpt (fun g => match g with (l, rt, nb) => VL [VNs l; VN rt; VB nb] end) (s_gr s);
                  VOpt v_pairs (s_llgr s)]
  end.

Fixpoint observe_t (t : tstate) (evs : list cevent) : list val :=
  match evs with
  | [] => []
  | e :: r => let t' := t_step t e in
              let h' := c_h (t_c t') in
              VL [VB (is_peer_restarting (h_gr h')); VB (h_rtimer h'); VNs (h_ltimers h');
                  VList v_route (h_rib h'); v_negotiated (h_sess h'); VNs (t_dead t')] :: observe_t t' r
  end.

Definition run_c_case (evs : list cevent) : val := VL (observe_t t0 evs).
Definition run_h_case (evs : list hevent) : val := run_c_case (map CBase evs).
