(* Executable model of the ENCODER side of packet/src/bgp.rs:
     PeerCodec::negotiate, PeerCodec::encode_to, do_encode, mp_reach_encode,
     mp_unreach_encode, Attribute::encode, as_path_downgrade_2byte /
     as_path_has_wide_as / as_path_strip_confed / aggregator_downgrade_2byte,
     Capability::encode, Notification::from_notification (as used to build the
     value that is encoded), and the NLRI encoders of bgp.rs (Ipv4Net, Ipv6Net),
     vpn.rs, labeled.rs, mpls.rs.  NLRI of the other families enter as their
     wire bytes ([NRaw]): their framing is modelled, their inner encoding is not.
     Modelled structurally besides the prefix families: Flowspec (x4), RTC, EVPN route
     types 1-5, SR Policy (x2), MUP route types 1-4 (x2), BGP-LS (TLV level).

   Bytes are [N] (< 256), buffers are [list N].  A message is encoded into a
   list of frames.  Machine arithmetic that can overflow is written through
   [add8]/[mul8]/[add16]/[sub16] which panic in the Debug profile and wrap in
   Release; [as u8]/[as u16] casts are [trunc8]/[trunc16].  Slice indexing /
   unwrap panics of the Rust are [Panic].  No proofs in this file. *)
From Coq Require Import List ZArith NArith Bool.
From RB Require Import Base.Val Model.Caps.
Import ListNotations.
Open Scope N_scope.

Inductive profile := Debug | Release.

Inductive res (A : Type) : Type :=
| Ok (a : A)
| Fail            (* the Rust function returned Err(_) *)
| Panic.          (* the Rust code panicked *)
Arguments Ok {A} a.
Arguments Fail {A}.
Arguments Panic {A}.

Definition bind {A B} (r : res A) (f : A -> res B) : res B :=
  match r with Ok a => f a | Fail => Fail | Panic => Panic end.
Notation "x <- r ;; k" := (bind r (fun x => k)) (at level 61, r at next level, right associativity).

Definition len {A} (l : list A) : N := N.of_nat (length l).

(* ---- machine integers *)
Definition trunc8 (n : N) : N := n mod 256.
Definition trunc16 (n : N) : N := n mod 65536.
Definition wrapping (p : profile) (bound n : N) : res N :=
  if n <? bound then Ok n else match p with Debug => Panic | Release => Ok (n mod bound) end.
Definition add8 p a b := wrapping p 256 (a + b).
Definition mul8 p a b := wrapping p 256 (a * b).
Definition add16 p a b := wrapping p 65536 (a + b).
Definition sub16 (p : profile) (a b : N) : res N :=
  if b <=? a then Ok (a - b) else match p with Debug => Panic | Release => Ok (a + 65536 - b) end.

Definition be16 (n : N) : list N := [(n / 256) mod 256; n mod 256].
Definition be32 (n : N) : list N :=
  [(n / 16777216) mod 256; (n / 65536) mod 256; (n / 256) mod 256; n mod 256].
Definition zeros (n : nat) : list N := repeat 0 n.

(* ---- families: Family(u32) = afi << 16 | safi *)
Definition afi (f : N) : N := (f / 65536) mod 65536.
Definition safi (f : N) : N := f mod 256.
Definition fam (a s : N) : N := a * 65536 + s.
Definition F_IPV4 := fam 1 1.
Definition F_IPV6 := fam 2 1.
Definition F_IPV4_MC := fam 1 2.
Definition F_IPV6_MC := fam 2 2.
Definition F_IPV4_MPLS := fam 1 4.
Definition F_IPV6_MPLS := fam 2 4.
Definition F_IPV4_VPN := fam 1 128.
Definition F_IPV6_VPN := fam 2 128.
Definition F_IPV4_FLOWSPEC := fam 1 133.
Definition F_IPV6_FLOWSPEC := fam 2 133.
Definition F_IPV4_FLOWSPEC_VPN := fam 1 134.
Definition F_IPV6_FLOWSPEC_VPN := fam 2 134.
Definition F_IPV4_SRPOLICY := fam 1 73.
Definition F_IPV6_SRPOLICY := fam 2 73.
Definition F_EVPN := fam 25 70.

Definition is_flowspec (f : N) : bool :=
  (f =? F_IPV4_FLOWSPEC) || (f =? F_IPV6_FLOWSPEC) || (f =? F_IPV4_FLOWSPEC_VPN) || (f =? F_IPV6_FLOWSPEC_VPN).
Definition is_vpn (f : N) : bool := (f =? F_IPV4_VPN) || (f =? F_IPV6_VPN).
Definition nh_as_is (f : N) : bool :=
  (f =? F_IPV4_SRPOLICY) || (f =? F_IPV6_SRPOLICY) || (f =? F_IPV4_MC) || (f =? F_IPV6_MC) || (f =? F_EVPN).

(* ---- PeerCodec::negotiate *)
Record fstate := { addpath_rx : bool; addpath_tx : bool }.
Record codec := {
  ext_len : bool;                 (* extended_length *)
  ext_nh : bool;                  (* extended_nexthop *)
  fams : list (N * fstate);       (* families (a hash map: keys unique) *)
  two_byte : bool                 (* two_byte_as *)
}.

Fixpoint mp_fams (v : list cap) : list N :=
  match v with
  | [] => []
  | CMultiProtocol f :: t => f :: mp_fams t
  | _ :: t => mp_fams t
  end.

Definition memN (x : N) (l : list N) : bool := existsb (N.eqb x) l.

(* the mode stored for family [f] after the AddPath loop: the last entry wins *)
Fixpoint last_mode (f : N) (l : list (N * N)) (acc : N) : N :=
  match l with
  | [] => acc
  | (g, m) :: t => last_mode f t (if g =? f then m else acc)
  end.
Fixpoint addpath_mode (f : N) (v : list cap) (acc : N) : N :=
  match v with
  | [] => acc
  | CAddPath l :: t => addpath_mode f t (last_mode f l acc)
  | _ :: t => addpath_mode f t acc
  end.
Fixpoint extnh_of (f : N) (v : list cap) : bool :=
  match v with
  | [] => false
  | CExtNexthop l :: t =>
      existsb (fun p => (fst p =? f) && (afi (fst p) =? 1) && (snd p =? 2)) l || extnh_of f t
  | _ :: t => extnh_of f t
  end.
Definition has_extmsg (v : list cap) : bool :=
  existsb (fun c => match c with CExtMessage => true | _ => false end) v.
Definition has_as4 (v : list cap) : bool :=
  existsb (fun c => match c with CFourOctet _ => true | _ => false end) v.

Fixpoint dedup (l : list N) : list N :=
  match l with
  | [] => []
  | x :: t => if memN x t then dedup t else x :: dedup t
  end.

Definition bit0 (m : N) : bool := N.testbit m 0.
Definition bit1 (m : N) : bool := N.testbit m 1.

Definition negotiate (local remote : list cap) : codec :=
  let lf := mp_fams local in
  let common := filter (fun f => memN f lf) (dedup (mp_fams remote)) in
  {| ext_len := has_extmsg local && has_extmsg remote;
     ext_nh := existsb (fun f => extnh_of f local && extnh_of f remote) common;
     fams := map (fun f =>
               let lm := addpath_mode f local 0 in
               let rm := addpath_mode f remote 0 in
               (f, {| addpath_rx := bit0 lm && bit1 rm; addpath_tx := bit1 lm && bit0 rm |})) common;
     two_byte := negb (has_as4 local && has_as4 remote) |}.

Fixpoint fam_state (c : list (N * fstate)) (f : N) : option fstate :=
  match c with
  | [] => None
  | (g, s) :: t => if g =? f then Some s else fam_state t f
  end.
Definition addpath_for (c : codec) (f : N) : bool :=
  match fam_state (fams c) f with Some s => addpath_tx s | None => false end.
Definition max_len (c : codec) : N := if ext_len c then 65535 else 4096.

(* ---- NLRI *)
(* ---- Flowspec (flowspec.rs): a rule is a list of components; prefix components (types 1, 2)
   carry <length, [offset (IPv6 only)], ceil(length / 8) octets>, the others a list of
   <operator, value> pairs written with the shortest of 1/2/4/8 value octets *)
Inductive fcomp :=
| FPrefix (ty mask off : N) (addr : list N)          (* [off] is written for IPv6 rules only *)
| FOps (ty : N) (ops : list (N * N)).                (* Op { bits, value } *)

Definition op_order (v : N) : N :=
  if v <=? 255 then 0 else if v <=? 65535 then 1 else if v <=? 4294967295 then 2 else 3.
Definition be64 (n : N) : list N := be32 ((n / 4294967296) mod 4294967296) ++ be32 (n mod 4294967296).
Definition enc_op (o : N * N) : list N :=
  let ord := op_order (snd o) in
  N.lor (fst o) (ord * 16) ::
  (if ord =? 0 then [snd o mod 256] else if ord =? 1 then be16 (snd o) else if ord =? 2 then be32 (snd o) else be64 (snd o)).

Definition enc_fcomp (v6 : bool) (c : fcomp) : res (list N) :=
  match c with
  | FPrefix ty m off a =>
      let n := (m + 7) / 8 in
      if n <=? len a then Ok ([ty; m] ++ (if v6 then [off] else []) ++ firstn (N.to_nat n) a) else Panic
  | FOps ty ops => Ok (ty :: flat_map enc_op ops)
  end.
Fixpoint enc_fcomps (v6 : bool) (l : list fcomp) : res (list N) :=
  match l with
  | [] => Ok []
  | c :: t => b <- enc_fcomp v6 c ;; r <- enc_fcomps v6 t ;; Ok (b ++ r)
  end.
(* write_nlri_len: one octet below 240, else 0xF0 | (len >> 8) as u8, len & 0xFF *)
Definition fs_len (n : N) : list N :=
  if n <? 240 then [n] else [N.lor 240 ((n / 256) mod 256); n mod 256].

(* ---- EVPN (evpn.rs): route types 1-5; labels are raw 24-bit fields *)
Definition be24 (n : N) : list N := [(n / 65536) mod 256; (n / 256) mod 256; n mod 256].
Inductive evpn :=
| Ev1 (rd esi : list N) (etag label : N)
| Ev2 (rd esi : list N) (etag : N) (mac : list N) (ip : list N) (label1 : N) (label2 : option N)   (* ip: 0, 4 or 16 octets *)
| Ev3 (rd : list N) (etag : N) (ip : list N)
| Ev4 (rd esi : list N) (ip : list N)
| Ev5 (rd esi : list N) (etag plen : N) (ip gw : list N) (label : N).
Definition ip_bits (ip : list N) : N := 8 * len ip.
Definition enc_evpn (e : evpn) : list N :=
  let '(ty, data) :=
    match e with
    | Ev1 rd esi etag l => (1, rd ++ esi ++ be32 etag ++ be24 l)
    | Ev2 rd esi etag mac ip l1 l2 =>
        (2, rd ++ esi ++ be32 etag ++ [48] ++ mac ++ [ip_bits ip] ++ ip ++ be24 l1 ++
            match l2 with Some l => be24 l | None => [] end)
    | Ev3 rd etag ip => (3, rd ++ be32 etag ++ [ip_bits ip] ++ ip)
    | Ev4 rd esi ip => (4, rd ++ esi ++ [ip_bits ip] ++ ip)
    | Ev5 rd esi etag plen ip gw l =>
        (5, rd ++ esi ++ be32 etag ++ [plen] ++ ip ++ (if len gw =? len ip then gw else zeros (length ip)) ++ be24 l)
    end in
  [ty; trunc8 (len data)] ++ data.

(* ---- RTC (rtc.rs) and SR Policy (sr_policy.rs) *)
Inductive rtc := RtcAll | RtcAs (asn : N) | RtcExact (asn : N) (rt : list N).
Definition enc_rtc (r : rtc) : list N :=
  match r with
  | RtcAll => [0]
  | RtcAs a => [32] ++ be32 a
  | RtcExact a rt => [96] ++ be32 a ++ rt
  end.

(* ---- BGP-LS (ls.rs): NLRI = <type (2), length (2), protocol id, identifier (8), descriptor TLVs>;
   a TLV is <type (2), length (2), value> (write_tlv); the node descriptors sit in a container TLV
   (256 local, 257 remote).  A descriptor is modelled as the pair <type, value octets> that the
   struct field / enum variant is written as; node descriptor fields are written in type order. *)
Definition enc_tlv16 (t : N * list N) : list N := be16 (fst t) ++ be16 (trunc16 (len (snd t))) ++ snd t.
Inductive lsn :=
| LsNode (proto id : N) (local : list (N * list N))
| LsLink (proto id : N) (local remote link : list (N * list N))
| LsPfx (v6 : bool) (proto id : N) (local pfx : list (N * list N))
| LsSrv6 (proto id : N) (local : list (N * list N)) (sids : list (N * list N))    (* <multi-topology id, SID (16)> *)
| LsOther (ty : N) (body : list N).
Definition ls_container (c : N) (l : list (N * list N)) : list N := enc_tlv16 (c, flat_map enc_tlv16 l).
Definition enc_ls (n : lsn) : list N :=
  let '(ty, body) :=
    match n with
    | LsNode p i l => (1, p :: be64 i ++ ls_container 256 l)
    | LsLink p i l r k => (2, p :: be64 i ++ ls_container 256 l ++ ls_container 257 r ++ flat_map enc_tlv16 k)
    | LsPfx v6 p i l k => (if v6 then 4 else 3, p :: be64 i ++ ls_container 256 l ++ flat_map enc_tlv16 k)
    | LsSrv6 p i l s =>
        (6, p :: be64 i ++ ls_container 256 l ++ flat_map (fun x => enc_tlv16 (518, be16 (fst x) ++ [0; 0] ++ snd x)) s)
    | LsOther t b => (t, b)
    end in
  be16 ty ++ be16 (trunc16 (len body)) ++ body.

(* ---- MUP (mup.rs): architecture type 1 (3GPP-5G), route types 1-4 *)
Inductive mup :=
| Mup1 (rd : list N) (plen : N) (addr : list N)                                  (* Interwork Segment Discovery *)
| Mup2 (rd addr : list N)                                                        (* Direct Segment Discovery *)
| Mup3 (rd : list N) (plen : N) (addr : list N) (teid qfi : N) (ep : list N) (src : option (list N))   (* Type 1 ST *)
| Mup4 (rd : list N) (ealen : N) (ep : list N) (teid : N).                       (* Type 2 ST *)
(* encode_prefix: `&octets()[..byte_len.min(width)]` *)
Definition mup_prefix (plen : N) (addr : list N) : list N :=
  firstn (N.to_nat (N.min ((plen + 7) / 8) (len addr))) addr.
Definition enc_mup (m : mup) : res (list N) :=
  r <- (match m with
        | Mup1 rd pl a => Ok (1, rd ++ [pl] ++ mup_prefix pl a)
        | Mup2 rd a => Ok (2, rd ++ a)
        | Mup3 rd pl a teid qfi ep src =>
            Ok (3, rd ++ [pl] ++ mup_prefix pl a ++ be32 teid ++ [qfi] ++ [8 * len ep] ++ ep ++
                   match src with None => [0] | Some s => [8 * len s] ++ s end)
        | Mup4 rd el ep teid =>
            (* `teid_be[..teid_bytes]`: slice panic past the four octets *)
            let tb := ((el - 8 * len ep) + 7) / 8 in
            if tb <=? 4 then Ok (4, rd ++ [el] ++ ep ++ firstn (N.to_nat tb) (be32 teid)) else Panic
        end) ;;
  Ok ([1] ++ be16 (fst r) ++ [trunc8 (len (snd r))] ++ snd r).

Inductive nlri :=
| NV4 (mask : N) (addr : list N)                               (* Ipv4Net; addr = 4 octets *)
| NV6 (mask : N) (addr : list N)                               (* Ipv6Net; addr = 16 octets *)
| NVpn4 (labels : list N) (rd : list N) (mask : N) (addr : list N)
| NVpn6 (labels : list N) (rd : list N) (mask : N) (addr : list N)
| NLab4 (labels : list N) (mask : N) (addr : list N)
| NLab6 (labels : list N) (mask : N) (addr : list N)
| NFlow (v6 : bool) (rd : option (list N)) (comps : list fcomp) (* Flowspec / Flowspec VPN, IPv4 / IPv6 *)
| NRtc (r : rtc)
| NEvpn (e : evpn)
| NSrp (dist color : N) (endpoint : list N)                    (* SrPolicyNlri; endpoint = 4 or 16 octets *)
| NMup (m : mup)
| NLs (n : lsn)
| NRaw (bytes : list N).                                       (* any other family: its wire bytes *)

Definition pnlri : Type := N * nlri.     (* PathNlri { path_id, nlri } *)

Definition div_ceil8 (m : N) : N := (m + 7) / 8.

(* `for i in 0..prefix_len { dst.put_u8(octets()[i]) }` : index panic past the array *)
Definition prefix_octets (mask : N) (addr : list N) : res (list N) :=
  let n := div_ceil8 mask in
  if n <=? len addr then Ok (firstn (N.to_nat n) addr) else Panic.

(* MplsLabel::encode *)
Definition enc_label (v : N) (bos : bool) : list N :=
  let raw := v * 16 + (if bos then 1 else 0) in
  [(raw / 65536) mod 256; (raw / 256) mod 256; raw mod 256].
Fixpoint enc_labels (l : list N) : list N :=
  match l with
  | [] => []
  | [v] => enc_label v true
  | v :: t => enc_label v false ++ enc_labels t
  end.
Definition labels_len (l : list N) : N := 3 * len l.

Definition enc_nlri (p : profile) (n : nlri) : res (list N) :=
  match n with
  | NV4 m a | NV6 m a => o <- prefix_octets m a ;; Ok (m :: o)
  | NVpn4 ls rd m a | NVpn6 ls rd m a =>
      x <- add8 p (trunc8 (labels_len ls * 8)) 64 ;;
      bits <- add8 p x m ;;
      o <- prefix_octets m a ;;
      Ok (bits :: enc_labels ls ++ rd ++ o)
  | NLab4 ls m a | NLab6 ls m a =>
      bits <- add8 p (trunc8 (labels_len ls * 8)) m ;;
      o <- prefix_octets m a ;;
      Ok (bits :: enc_labels ls ++ o)
  | NFlow v6 rd comps =>
      body <- enc_fcomps v6 comps ;;
      let full := (match rd with Some r => r | None => [] end) ++ body in
      Ok (fs_len (len full) ++ full)
  | NRtc r => Ok (enc_rtc r)
  | NEvpn e => Ok (enc_evpn e)
  | NSrp d c ep => Ok ([if len ep =? 4 then 96 else 192] ++ be32 d ++ be32 c ++ ep)
  | NMup m => enc_mup m
  | NLs n => Ok (enc_ls n)
  | NRaw b => Ok b
  end.

(* Nlri::encode_withdraw: a labeled-unicast withdrawal carries the fixed 3-byte
   compatibility label field 0x800000 (RFC 8277 2.4) instead of its label stack *)
Definition enc_nlri_withdraw (p : profile) (n : nlri) : res (list N) :=
  match n with
  | NLab4 _ m a | NLab6 _ m a =>
      bits <- add8 p 24 m ;;
      o <- prefix_octets m a ;;
      Ok (bits :: [128; 0; 0] ++ o)
  | _ => enc_nlri p n
  end.

Definition enc_pnlri (p : profile) (addpath withdraw : bool) (e : pnlri) : res (list N) :=
  b <- (if withdraw then enc_nlri_withdraw p (snd e) else enc_nlri p (snd e)) ;;
  Ok ((if addpath then be32 (fst e) else []) ++ b).

(* PeerCodec::put_entries: every entry is encoded into a scratch buffer and appended
   while the wire message stays within [limit] bytes ([cur] = dst.len() - buf_head):
     if dst.len() + scratch.len() > limit { break }
   Returns the bytes written and the count. *)
Fixpoint put_entries (p : profile) (limit : N) (addpath withdraw : bool) (cur : N) (es : list pnlri)
  : res (list N * nat) :=
  match es with
  | [] => Ok ([], 0%nat)
  | e :: t =>
      b <- enc_pnlri p addpath withdraw e ;;
      if cur + len b <=? limit then
        r <- put_entries p limit addpath withdraw (cur + len b) t ;;
        Ok (b ++ fst r, S (snd r))
      else Ok ([], 0%nat)
  end.

(* ---- attributes *)
Inductive adata := AVal (v : N) | ABin (b : list N) | AOpaque (b : list N).
Record attr := { a_code : N; a_flags : N; a_data : adata }.

Definition FLAG_EXT : N := 16.
Definition canonical_flags (code : N) : option N :=
  if (code =? 1) || (code =? 2) || (code =? 3) || (code =? 5) || (code =? 6) then Some 64
  else if (code =? 4) || (code =? 9) || (code =? 10) || (code =? 14) || (code =? 15) || (code =? 26) || (code =? 29) then Some 128
  else if (code =? 7) || (code =? 8) || (code =? 16) || (code =? 17) || (code =? 18) || (code =? 32) || (code =? 40) || (code =? 23) then Some 192
  else None.

Definition a_binary (a : attr) : option (list N) :=
  match a_data a with AVal _ => None | ABin b | AOpaque b => Some b end.
Definition a_value (a : attr) : option N :=
  match a_data a with AVal v => Some v | _ => None end.

(* Attribute::encode (the returned u16 is the truncated number of bytes written) *)
Definition enc_attr (a : attr) : res (list N) :=
  let c := a_code a in
  if c =? 1 then
    match a_value a with Some v => Ok [a_flags a; c; 1; trunc8 v] | None => Panic end
  else if (c =? 4) || (c =? 5) || (c =? 9) then
    match a_value a with Some v => Ok ([a_flags a; c; 4] ++ be32 v) | None => Panic end
  else
    match a_binary a with
    | None => Panic
    | Some b =>
        let fl := if 255 <? len b then N.lor (a_flags a) FLAG_EXT else a_flags a in
        Ok ([fl; c] ++ (if N.testbit fl 4 then be16 (trunc16 (len b)) else [trunc8 (len b)]) ++ b)
    end.

Definition mk_bin (code : N) (b : list N) : attr :=
  {| a_code := code; a_flags := match canonical_flags code with Some f => f | None => 0 end; a_data := ABin b |}.

Definition TRANS_ASN : N := 23456.
Definition rd32 (b : list N) : N :=
  match b with
  | [b0; b1; b2; b3] => ((b0 * 256 + b1) * 256 + b2) * 256 + b3
  | _ => 0
  end.
Definition as2 (asn : N) : N := if 65535 <? asn then TRANS_ASN else asn.

(* one walk over the AS_PATH segments: `buf[pos]`, `buf[pos + 1]`, `buf[start..start + 4]`
   panic when the value is not a whole number of well-formed segments *)
Fixpoint chunks4 (n : nat) (b : list N) : list (list N) :=
  match n with O => [] | S k => firstn 4 b :: chunks4 k (skipn 4 b) end.
Fixpoint aspath_segments (fuel : nat) (b : list N) : res (list (N * list N)) :=
  match fuel with
  | O => Ok []
  | S k =>
      match b with
      | [] => Ok []
      | [_] => Panic
      | t :: c :: rest =>
          if len rest <? 4 * c then Panic
          else
            r <- aspath_segments k (skipn (N.to_nat (4 * c)) rest) ;;
            Ok ((t, map rd32 (chunks4 (N.to_nat c) rest)) :: r)
      end
  end.
Definition segs_of (b : list N) : res (list (N * list N)) := aspath_segments (S (length b)) b.

Definition enc_seg2 (s : N * list N) : list N :=
  fst s :: trunc8 (len (snd s)) :: flat_map (fun a => be16 (as2 a)) (snd s).
Definition enc_seg4 (s : N * list N) : list N :=
  fst s :: trunc8 (len (snd s)) :: flat_map be32 (snd s).
Definition seg_wide (s : N * list N) : bool := existsb (fun a => 65535 <? a) (snd s).
Definition seg_confed (s : N * list N) : bool := (fst s =? 3) || (fst s =? 4).

(* the attributes written for one attribute of the message on a two-octet-AS session *)
Definition attrs_2byte (a : attr) : res (list attr) :=
  if a_code a =? 2 then
    match a_binary a with
    | None => Panic
    | Some b =>
        segs <- segs_of b ;;
        let down := mk_bin 2 (flat_map enc_seg2 segs) in
        let stripped := filter (fun s => negb (seg_confed s)) segs in
        (* no AS4_PATH when nothing is left after removing the confederation segments *)
        if existsb seg_wide segs && (match stripped with [] => false | _ => true end) then
          Ok [down; mk_bin 17 (flat_map enc_seg4 stripped)]
        else Ok [down]
    end
  else if a_code a =? 7 then
    match a_binary a with
    | None => Panic
    | Some b =>
        if len b <? 8 then Panic
        else
          let asn := rd32 (firstn 4 b) in
          let down := mk_bin 7 (be16 (as2 asn) ++ firstn 4 (skipn 4 b)) in
          if 65535 <? asn then Ok [down; mk_bin 18 b] else Ok [down]
    end
  else Ok [a].

(* `attr_len += a.encode_wire(dst) as usize` over a list of attributes: bytes and the
   usize accumulator (each addend is the u16 returned by Attribute::encode) *)
Fixpoint enc_attr_list (acc : N) (l : list attr) : res (list N * N) :=
  match l with
  | [] => Ok ([], acc)
  | a :: t =>
      b <- enc_attr a ;;
      r <- enc_attr_list (acc + trunc16 (len b)) t ;;
      Ok (b ++ fst r, snd r)
  end.

Fixpoint enc_attrs (two : bool) (acc : N) (l : list attr) : res (list N * N) :=
  match l with
  | [] => Ok ([], acc)
  | a :: t =>
      w <- (if two then attrs_2byte a else Ok [a]) ;;
      r1 <- enc_attr_list acc w ;;
      r2 <- enc_attrs two (snd r1) t ;;
      Ok (fst r1 ++ fst r2, snd r2)
  end.

(* ---- MP_REACH_NLRI / MP_UNREACH_NLRI.  [cur] = dst.len() - buf_head on entry.
   Returns (attribute bytes, mp_len as u16, count). *)
Definition mp_nexthop (f : N) (nh : option (list N)) : list N :=
  let b := match nh with Some b => b | None => [] end in
  if is_flowspec f then [0]
  else if is_vpn f && (len b =? 32) then 48 :: zeros 8 ++ firstn 16 b ++ zeros 8 ++ skipn 16 b
  else if is_vpn f then trunc8 (8 + trunc8 (len b)) :: zeros 8 ++ b
  else if (len b <? 16) && ((len b =? 0) || (afi f =? 2)) && negb (nh_as_is f) then
    if len b =? 4 then 16 :: zeros 10 ++ [255; 255] ++ b        (* IPv4-mapped IPv6 address *)
    else 16 :: b ++ zeros (16 - length b)
  else trunc8 (len b) :: b.

Definition mp_reach (p : profile) (c : codec) (cur : N) (f : N) (es : list pnlri) (nh : option (list N))
  : res (list N * N * nat) :=
  let head := be16 (afi f) ++ [safi f] ++ mp_nexthop f nh ++ [0] in
  let addpath := addpath_for c f in
  r <- put_entries p (max_len c) addpath false (cur + 4 + len head) es ;;
  let mp_len := trunc16 (4 + len head + len (fst r)) in
  v <- sub16 p mp_len 4 ;;
  Ok ([144; 14] ++ be16 v ++ head ++ fst r, mp_len, snd r).

Definition mp_unreach (p : profile) (c : codec) (cur : N) (f : N) (es : list pnlri)
  : res (list N * N * nat) :=
  let head := be16 (afi f) ++ [safi f] in
  let addpath := addpath_for c f in
  r <- put_entries p (max_len c) addpath true (cur + 4 + len head) es ;;
  let mp_len := trunc16 (4 + len head + len (fst r)) in
  v <- sub16 p mp_len 4 ;;
  Ok ([144; 15] ++ be16 v ++ head ++ fst r, mp_len, snd r).

(* ---- capabilities: Capability::encode; returns the bytes (the u8 result is trunc8 of their length) *)
Definition lower (b : N) : N := if (65 <=? b) && (b <=? 90) then b + 32 else b.
Definition fam3 (f : N) : list N := be16 (afi f) ++ [safi f].

Definition enc_cap_bytes (c : cap) : list N :=
  match c with
  | CMultiProtocol f => [1; 4] ++ be16 (afi f) ++ [0; safi f]
  | CRouteRefresh => [2; 0]
  | CExtNexthop l => [5; trunc8 (len l * 6)] ++ flat_map (fun x => be32 (fst x) ++ be16 (snd x)) l
  | CExtMessage => [6; 0]
  | CGR fl t l =>
      [64; trunc8 (len l * 4 + 2)] ++ be16 (N.lor (trunc16 (fl * 4096)) t) ++ flat_map (fun x => fam3 (fst x) ++ [snd x]) l
  | CFourOctet a => [65; 4] ++ be32 a
  | CAddPath l => [69; trunc8 (len l * 4)] ++ flat_map (fun x => fam3 (fst x) ++ [snd x]) l
  | CEnhancedRR => [70; 0]
  | CLLGR l =>
      [71; trunc8 (len l * 7)] ++ flat_map (fun x => fam3 (fst (fst x)) ++ [snd (fst x)] ++
                                   [trunc8 (snd x / 65536); trunc8 (snd x / 256); trunc8 (snd x)]) l
  | CFqdn h d =>
      [73; trunc8 (2 + len h + len d); trunc8 (len h)] ++ map lower h ++ [trunc8 (len d)] ++ map lower d
  | CUnknown code b => [code; trunc8 (len b)] ++ b
  end.

(* the result is Err(()) when the value does not fit the one-octet capability length *)
Definition enc_cap (c : cap) : res (list N) :=
  let b := enc_cap_bytes c in
  if 257 <? len b then Fail else Ok b.

(* `cap_len += cap.encode(dst)?` with a usize accumulator *)
Fixpoint enc_caps (acc : N) (l : list cap) : res (list N * N) :=
  match l with
  | [] => Ok ([], acc)
  | c :: t =>
      b <- enc_cap c ;;
      r <- enc_caps (acc + len b) t ;;
      Ok (b ++ fst r, snd r)
  end.

(* ---- Notification::from_notification followed by code/subcode/data *)
Definition notif_keeps_data (code sub : N) : bool :=
  match code, sub with
  | 1, 2 | 1, 3 | 2, 1 | 2, 4 | 2, 7 | 2, 6 | 3, 2 | 3, 3 | 3, 4 | 3, 5 | 3, 6 | 3, 8 | 7, 1 => true
  | _, _ => false
  end.
Definition notif_known (code sub : N) : bool :=
  match code, sub with
  | 2, 0 | 2, 2 | 2, 3 | 3, 1 | 3, 9 | 3, 10 | 3, 11 => true
  | 6, s => (1 <=? s) && (s <=? 9)
  | 4, _ | 5, _ => true
  | _, _ => notif_keeps_data code sub
  end.
Definition notif_norm (code sub : N) (data : list N) : N * N * list N :=
  if code =? 4 then (4, 0, [])
  else if notif_known code sub then (code, sub, if notif_keeps_data code sub then data else [])
  else (code, sub, data).     (* Notification::Other *)

(* ---- messages *)
Inductive msg :=
| MOpen (asn hold rid : N) (caps : list cap)
| MReach (f : N) (nh : option (list N)) (attrs : list attr) (es : list pnlri)
| MUnreach (f : N) (es : list pnlri)
| MEor (f : N)
| MNotif (code sub : N) (data : list N)
| MKeepalive
| MRefresh (f : N).

Definition marker : list N := repeat 255 16.
(* the 19-byte header with the back-patched length `(pos_end - pos_head) as u16` *)
Definition frame_of (body : list N) : list N :=
  marker ++ be16 (trunc16 (18 + len body)) ++ body.

(* do_encode on the entries from `start` on ([es] = &entries[start..]): (frame, n_encoded) *)
Definition do_encode (p : profile) (c : codec) (m : msg) (es : list pnlri) : res (list N * nat) :=
  match m with
  | MOpen asn hold rid caps =>
      let t := if 65535 <? asn then TRANS_ASN else asn in
      let fixed := [1; 4] ++ be16 t ++ be16 hold ++ be32 rid in
      match caps with
      | [] => Ok (frame_of (fixed ++ [0]), 0%nat)
      | _ =>
          r <- enc_caps 0 caps ;;
          if 255 <? snd r + 2 then Fail
          else Ok (frame_of (fixed ++ [snd r + 2; 2; snd r] ++ fst r), 0%nat)
      end
  | MReach f nh attrs _ =>
      r <- enc_attrs (two_byte c) 0 attrs ;;
      if (f =? F_IPV4) && negb (ext_nh c) then
        r2 <- (match es, nh with
               | _ :: _, Some b =>
                   if len b =? 4 then enc_attr_list (snd r) [mk_bin 3 b] else Ok ([], snd r)
               | _, _ => Ok ([], snd r)
               end) ;;
        let pre := [2; 0; 0] ++ be16 (trunc16 (snd r2)) ++ fst r ++ fst r2 in
        let addpath := addpath_for c f in
        n <- put_entries p (max_len c) addpath false (18 + len pre) es ;;
        Ok (frame_of (pre ++ fst n), snd n)
      else
        let cur := 18 + 5 + len (fst r) in
        mp <- mp_reach p c cur f es nh ;;
        let '(mpb, mp_len, cnt) := mp in
        Ok (frame_of ([2; 0; 0] ++ be16 (trunc16 (snd r + mp_len)) ++ fst r ++ mpb), cnt)
  | MUnreach f _ =>
      if (f =? F_IPV4) && negb (ext_nh c) then
        let addpath := addpath_for c f in
        (* two bytes are kept for the empty path attribute length that follows *)
        n <- put_entries p (max_len c - 2) addpath true (18 + 3) es ;;
        Ok (frame_of ([2] ++ be16 (trunc16 (len (fst n))) ++ fst n ++ [0; 0]), snd n)
      else
        mp <- mp_unreach p c (18 + 5) f es ;;
        let '(mpb, mp_len, cnt) := mp in
        Ok (frame_of ([2; 0; 0] ++ be16 mp_len ++ mpb), cnt)
  | MEor f =>
      if f =? F_IPV4 then Ok (frame_of [2; 0; 0; 0; 0], 0%nat)
      else
        mp <- mp_unreach p c (18 + 5) f [] ;;
        let '(mpb, mp_len, _) := mp in
        al <- add16 p 0 mp_len ;;
        Ok (frame_of ([2; 0; 0] ++ be16 al ++ mpb), 0%nat)
  | MNotif code sub data =>
      let '(c', s', d') := notif_norm code sub data in
      Ok (frame_of ([3; c'; s'] ++ d'), 0%nat)
  | MKeepalive => Ok (frame_of [4], 0%nat)
  | MRefresh f => Ok (frame_of ([5] ++ be32 f), 0%nat)
  end.

Definition entries_of (m : msg) : list pnlri :=
  match m with MReach _ _ _ es | MUnreach _ es => es | _ => [] end.

(* the loop of encode_to: every wire message is encoded into a scratch buffer; the
   call fails, writing nothing, when a message exceeds the negotiated maximum or when no
   entry could be placed (`end <= start`).  [fuel] bounds the iterations by the number of
   entries left (every iteration encodes at least one). *)
Fixpoint enc_loop (fuel : nat) (p : profile) (c : codec) (m : msg) (es : list pnlri) : res (list (list N)) :=
  match fuel with
  | O => Ok []
  | S k =>
      r <- do_encode p c m es ;;
      if max_len c <? len (fst r) then Fail
      else
        let rest := skipn (snd r) es in
        match rest with
        | [] => Ok [fst r]                        (* `end >= total`: done *)
        | _ =>
            match snd r with
            | O => Fail                           (* `end <= start`: no progress *)
            | _ => tl <- enc_loop k p c m rest ;; Ok (fst r :: tl)
            end
        end
  end.

Definition encode_to (p : profile) (c : codec) (m : msg) : res (list (list N)) :=
  enc_loop (S (length (entries_of m))) p c m (entries_of m).

(* ---- observation *)
(* Fletcher-style digest of a long buffer: (sum of (b+1), sum of the running sums) *)
Definition hash_bytes (l : list N) : N * N :=
  fold_left (fun h b => let s := fst h + b + 1 in (s, snd h + s)) l (0, 0).

Definition v_buf (l : list N) : val :=
  VL [VN (len l); VN (fst (hash_bytes l)); VN (snd (hash_bytes l)); if len l <=? 256 then VNs l else VL []].

(* raw attribute of a case: kind 0 = new_with_value, 1 = new_with_bin, 2 = new_opaque *)
Definition mk_attr (kind code flags v : N) (b : list N) : option attr :=
  match kind with
  | 0 => match canonical_flags code with
         | Some f => Some {| a_code := code; a_flags := f; a_data := AVal v |} | None => None end
  | 1 => match canonical_flags code with
         | Some f => Some {| a_code := code; a_flags := f; a_data := ABin b |} | None => None end
  | _ => Some {| a_code := code; a_flags := flags; a_data := AOpaque b |}
  end.

Definition v_res (r : res (list (list N))) : val :=
  match r with
  | Ok frames => VL [VN (len frames); v_buf (concat frames)]
  | Fail => VL [VI (Z.opp 2); v_buf []]
  | Panic => VL [VI (Z.opp 1)]
  end.

Definition run_case (p : profile) (local remote : list cap) (m : msg) : val :=
  v_res (encode_to p (negotiate local remote) m).

(* ---- compact construction of large cases (the same functions exist in gen/c04.py) *)
Fixpoint pat_from (n : nat) (v : N) : list N :=
  match n with O => [] | S k => v :: pat_from k (if v + 7 <? 256 then v + 7 else v + 7 - 256) end.
Definition pat_bytes (n : nat) (seed : N) : list N := pat_from n (seed mod 256).

Definition b3 (i : N) : list N := [(i / 65536) mod 256; (i / 256) mod 256; i mod 256].
Definition bulk_entry (kind i : N) : pnlri :=
  match kind with
  | 0 => (i + 1, NV4 (8 + i mod 25) (10 :: b3 i))
  | 1 => (i + 1, NV6 (i mod 129) ([32; 1; 13; 184] ++ b3 i ++ pat_bytes 9 i))
  | 2 => (i + 1, NVpn4 [100 + i mod 7] ([0; 0; 253; 232] ++ 0 :: b3 i) (i mod 33) (10 :: b3 i))
  | 3 => (i + 1, NVpn6 [100 + i mod 7] ([0; 2; 0; 1] ++ 0 :: b3 i) (i mod 129) ([32; 1; 13; 184] ++ b3 i ++ pat_bytes 9 i))
  | 4 => (i + 1, NLab4 [16 + i mod 5] (i mod 33) (10 :: b3 i))
  | 5 => (i + 1, NLab6 [16 + i mod 5] (i mod 129) ([32; 1; 13; 184] ++ b3 i ++ pat_bytes 9 i))
  | 6 => (i + 1, NV4 32 (10 :: b3 i))
  | 7 => (i + 1, NV6 128 ([32; 1; 13; 184] ++ b3 i ++ pat_bytes 9 i))
  | 8 => (i + 1, NVpn6 [100; 200] ([0; 2; 0; 1] ++ 0 :: b3 i) (64 + i mod 17) ([32; 1; 13; 184] ++ b3 i ++ pat_bytes 9 i))
  | 9 => (i + 1, NEvpn (Ev2 ([0; 0; 253; 232] ++ 0 :: b3 i) (pat_bytes 10 i) i ([2; 0; 0] ++ b3 i)
                            (if i mod 3 =? 0 then [] else if i mod 3 =? 1 then 10 :: b3 i else [32; 1; 13; 184] ++ b3 i ++ pat_bytes 9 i)
                            (i mod 16777216) (if i mod 2 =? 0 then None else Some 200)))
  | 10 => (i + 1, NFlow false None [FPrefix 1 24 0 (10 :: b3 i); FOps 4 [(1, i mod 65536); (129, 443)]])
  | 11 => (i + 1, NRtc (RtcExact (65000 + i mod 100) ([0; 2; 253; 232] ++ 0 :: b3 i)))
  | 12 => (i + 1, NSrp i (100 + i mod 3) (10 :: b3 i))
  | 13 => (i + 1, NEvpn (Ev5 ([0; 2; 0; 1] ++ 0 :: b3 i) (pat_bytes 10 i) i (i mod 129)
                             ([32; 1; 13; 184] ++ b3 i ++ pat_bytes 9 i) (pat_bytes 16 (i + 1)) 7))
  | 16 => (i + 1, NLs (LsPfx false (1 + i mod 7) i [(512, be32 (65000 + i mod 9)); (515, pat_bytes 4 i)]
                             [(263, be16 (i mod 4096)); (265, 24 :: b3 i)]))
  | 15 => (i + 1, NMup (Mup3 ([0; 0; 253; 232] ++ 0 :: b3 i) (i mod 33) (10 :: b3 i) i (i mod 64) [192; 0; 2; 1]
                              (if i mod 2 =? 0 then None else Some [198; 51; 100; 7])))
  | 14 => (i + 1, NFlow true (Some ([0; 0; 253; 232] ++ 0 :: b3 i)) [FOps 3 [(129, 6)]; FOps 5 [(3, 1000 + i mod 50000); (197, 70000)]])
  | _ => (i + 1, NRaw (pat_bytes (N.to_nat (kind - 100)) i))
  end.
Fixpoint bulk (kind : N) (n : nat) (start : N) : list pnlri :=
  match n with O => [] | S k => bulk_entry kind start :: bulk kind k (start + 1) end.

Definition run_case2 (local remote : list cap) (m : msg) : val :=
  VL [run_case Debug local remote m; run_case Release local remote m].

Fixpoint all_some {A} (l : list (option A)) : option (list A) :=
  match l with
  | [] => Some []
  | None :: _ => None
  | Some a :: t => match all_some t with Some r => Some (a :: r) | None => None end
  end.
Definition mk_reach (f : N) (nh : option (list N)) (attrs : list (option attr)) (es : list pnlri) : option msg :=
  match all_some attrs with Some a => Some (MReach f nh a es) | None => None end.
(* a case the harness rejects as not constructible prints [-9] *)
Definition run_case2o (local remote : list cap) (m : option msg) : val :=
  match m with
  | Some m => run_case2 local remote m
  | None => VL [VL [VI (Z.opp 9)]; VL [VI (Z.opp 9)]]
  end.
