(* BGP capabilities as the daemon holds them after parsing
   (packet/src/bgp.rs, enum Capability).  Families are the u32
   (afi << 16 | safi) the Rust [Family] newtype wraps. *)
From Coq Require Import List NArith Bool.
From RB Require Import Base.Val.
Import ListNotations.
Open Scope N_scope.

Inductive cap : Type :=
| CMultiProtocol (f : N)
| CRouteRefresh
| CExtNexthop (l : list (N * N))
| CExtMessage
| CGR (flags time : N) (fams : list (N * N))
| CFourOctet (asn : N)
| CAddPath (l : list (N * N))
| CEnhancedRR
| CLLGR (l : list (N * N * N))
| CFqdn (host dom : list N)
| CUnknown (code : N) (bin : list N).

Definition v_cap (c : cap) : val :=
  match c with
  | CMultiProtocol f => VL [VN 1; VN f]
  | CRouteRefresh => VL [VN 2]
  | CExtNexthop l => VL [VN 5; VList VPairN l]
  | CExtMessage => VL [VN 6]
  | CGR fl t fams => VL [VN 64; VN fl; VN t; VList VPairN fams]
  | CFourOctet a => VL [VN 65; VN a]
  | CAddPath l => VL [VN 69; VList VPairN l]
  | CEnhancedRR => VL [VN 70]
  | CLLGR l => VL [VN 71; VList (fun x => VL [VN (fst (fst x)); VN (snd (fst x)); VN (snd x)]) l]
  | CFqdn h d => VL [VN 73; VNs h; VNs d]
  | CUnknown c b => VL [VN 0; VN c; VNs b]
  end.

Definition v_caps (l : list cap) : val := VList v_cap l.

(* ------------------------------------------------------------------------
   The per-family result of PeerCodec::negotiate (packet/src/bgp.rs), used by
   Model/Negotiate.v and, since the repair of finding C16-2, by the FSM's
   send-max filter (Model/Fsm.v effective_max). *)

Definition has_mp (caps : list cap) (f : N) : bool :=
  existsb (fun c => match c with CMultiProtocol g => g =? f | _ => false end) caps.

(* `fc.addpath = *mode` for every AddPath entry of a family that has a
   MultiProtocol capability, in capability order: the last entry wins *)
Definition addpath_mode (caps : list cap) (f : N) : N :=
  fold_left (fun acc c =>
               match c with
               | CAddPath es => fold_left (fun acc e => if fst e =? f then snd e else acc) es acc
               | _ => acc
               end) caps 0.

Definition bit (m b : N) : bool := negb (N.land m b =? 0).

(* FamilyState {addpath_rx, addpath_tx} of a negotiated family, None otherwise *)
Definition neg_family (l r : list cap) (f : N) : option (bool * bool) :=
  if has_mp l f && has_mp r f then
    let lm := addpath_mode l f in
    let rm := addpath_mode r f in
    Some (bit lm 1 && bit rm 2, bit lm 2 && bit rm 1)
  else None.

