(* BGP capabilities as the daemon holds them after parsing
   (packet/src/bgp.rs, enum Capability).  Families are the u32
   (afi << 16 | safi) the Rust [Family] newtype wraps. *)
From Coq Require Import List NArith Bool.
From RB Require Import Base.Val.
Import ListNotations.
Open Scope N_scope.

Inductive cap : Type :=
| CMultiProtocol (f : N)
| CRouteRefresh
| CExtNexthop (l : list (N * N))
| CExtMessage
| CGR (flags time : N) (fams : list (N * N))
| CFourOctet (asn : N)
| CAddPath (l : list (N * N))
| CEnhancedRR
| CLLGR (l : list (N * N * N))
| CFqdn (host dom : list N)
| CUnknown (code : N) (bin : list N).

Definition v_cap (c : cap) : val :=
  match c with
  | CMultiProtocol f => VL [VN 1; VN f]
  | CRouteRefresh => VL [VN 2]
  | CExtNexthop l => VL [VN 5; VList VPairN l]
  | CExtMessage => VL [VN 6]
  | CGR fl t fams => VL [VN 64; VN fl; VN t; VList VPairN fams]
  | CFourOctet a => VL [VN 65; VN a]
  | CAddPath l => VL [VN 69; VList VPairN l]
  | CEnhancedRR => VL [VN 70]
  | CLLGR l => VL [VN 71; VList (fun x => VL [VN (fst (fst x)); VN (snd (fst x)); VN (snd x)]) l]
  | CFqdn h d => VL [VN 73; VNs h; VNs d]
  | CUnknown c b => VL [VN 0; VN c; VNs b]
  end.

Definition v_caps (l : list cap) : val := VList v_cap l.
