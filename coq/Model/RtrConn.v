(* Executable model of the connection layer of one RTR client (property C13, "all of a
   cache's VRPs are removed when its session ends"):
     daemon/src/rpki.rs         RpkiClient::try_connect (the connection task: connect, serve,
                                10 s retry sleep), RpkiClient::serve (one session = one
                                Arc<IpAddr> source identity), the cleanup that ends a session
     daemon/src/event/grpc.rs   add_rpki, delete_rpki, enable_rpki, disable_rpki,
                                reset_rpki (hard and soft)
     daemon/src/event/mod.rs    Global::add_rpki_client / remove_rpki_client
   on top of the session model Model/RtrClient.v (serve_inner) and the table model
   Model/Rpki.v.  No proofs in this file.

   One switch reproduces the code before the `fix:` commit of the cancellation race:
   [fx_guard] = the session's cleanup (up = false, rpki_drop_all of the session's source)
   runs however the session future ends.  Before the repair try_connect raced
   `serve(..)` against `cancel.cancelled()` in a tokio::select!; when the outer branch
   was polled first the serve future was dropped before its tail code ran.  Which branch
   is polled first is the scheduler's choice: it enters as the boolean carried by the
   cancelling operations and is ignored by the current code.

   A session's source identity (the Arc created by `serve`) is a fresh token per
   connection: tokens start at [BASE] and are never reused; identities below [BASE]
   belong to other caches (the pre-installed VRPs of the cases use 9). *)
From Coq Require Import List NArith Bool ZArith.
From RB Require Import Base.Val Model.Rpki Model.RtrClient.
Import ListNotations.
Open Scope N_scope.

Definition BASE : N := 10.

Inductive tk := TIdle | TServe | TSleep.

Record conn := {
  k_reg : bool;          (* Global.rpki_clients has the entry *)
  k_disabled : bool;     (* RpkiClient.disabled *)
  k_task : tk;           (* no task / inside serve_inner / in the retry sleep after a session *)
  k_cur : cstate;        (* the live session's locals + the client's RpkiState and Notify permit *)
  k_tok : N;             (* source identity of the live (or last) session *)
  k_gen : N;             (* next fresh identity *)
  k_tab : rtab
}.

Inductive cop :=
| OAdd
| ODelete (outer_first : bool)
| OEnable
| ODisable (outer_first : bool)
| OResetHard (outer_first : bool)
| OResetSoft
| OFeed (bytes : list N)     (* the cache sends one TCP segment on the live connection *)
| OClose                     (* the cache closes the connection *)
| OTimer.                    (* the 10 s retry sleep expires *)

(* gRPC status codes of the API functions *)
Definition OK : N := 0.
Definition NOT_FOUND : N := 5.
Definition ALREADY_EXISTS : N := 6.
Definition FAILED_PRECONDITION : N := 9.

(* RpkiClient::new(): fresh RpkiState, fresh Notify, no session *)
Definition fresh_client : cstate :=
  {| c_v := []; c_eod := false; c_sid := 0; c_serial := 0; c_eod_count := 0; c_up := false;
     c_buf := []; c_permit := false; c_done := true; c_open := false |}.

(* serve_inner's prologue on a new connection: the locals are new, RpkiState and the
   Notify permit are the client's *)
Definition new_session (st : cstate) : cstate :=
  {| c_v := []; c_eod := false; c_sid := c_sid st; c_serial := c_serial st;
     c_eod_count := c_eod_count st; c_up := true; c_buf := []; c_permit := c_permit st;
     c_done := false; c_open := true |}.

Definition set_conn (k : conn) (reg dis : bool) (task : tk) (cur : cstate) (tok gen : N) (t : rtab) : conn :=
  {| k_reg := reg; k_disabled := dis; k_task := task; k_cur := cur; k_tok := tok; k_gen := gen; k_tab := t |}.

(* try_connect: TcpStream::connect succeeded, serve() creates the source identity and
   serve_inner sends the Reset Query *)
Definition connect (k : conn) : conn * list N :=
  (set_conn k (k_reg k) (k_disabled k) TServe (new_session (k_cur k)) (k_gen k) (k_gen k + 1) (k_tab k),
   enc_reset_query).

(* the CancellationToken of the client's task fires *)
Definition cancel_task (guard outer_first : bool) (k : conn) : conn :=
  match k_task k with
  | TServe =>
      if guard || negb outer_first then
        let (st1, t1) := finish_session (k_tok k) (k_cur k) (k_tab k) in
        set_conn k (k_reg k) (k_disabled k) TIdle st1 (k_tok k) (k_gen k) t1
      else
        (* the serve future is dropped where it stands: no tail code *)
        set_conn k (k_reg k) (k_disabled k) TIdle (k_cur k) (k_tok k) (k_gen k) (k_tab k)
  | _ => set_conn k (k_reg k) (k_disabled k) TIdle (k_cur k) (k_tok k) (k_gen k) (k_tab k)
  end.

Definition with_reg (k : conn) (reg dis : bool) : conn :=
  set_conn k reg dis (k_task k) (k_cur k) (k_tok k) (k_gen k) (k_tab k).

Definition with_cur (k : conn) (task : tk) (cur : cstate) (t : rtab) : conn :=
  set_conn k (k_reg k) (k_disabled k) task cur (k_tok k) (k_gen k) t.

(* one operation: new state, API status (0 for cache-side operations), bytes the client wrote *)
Definition conn_step (guard : bool) (k : conn) (o : cop) : conn * N * list N :=
  match o with
  | OAdd =>
      if k_reg k then (k, ALREADY_EXISTS, [])
      else
        let k1 := set_conn k true false TIdle fresh_client (k_tok k) (k_gen k) (k_tab k) in
        let (k2, sent) := connect k1 in (k2, OK, sent)
  | ODelete b =>
      if k_reg k then (with_reg (cancel_task guard b k) false false, OK, [])
      else (k, NOT_FOUND, [])
  | OEnable =>
      if negb (k_reg k) then (k, NOT_FOUND, [])
      else if negb (k_disabled k) then (k, FAILED_PRECONDITION, [])
      else let (k2, sent) := connect (with_reg k true false) in (k2, OK, sent)
  | ODisable b =>
      if negb (k_reg k) then (k, NOT_FOUND, [])
      else if k_disabled k then (k, FAILED_PRECONDITION, [])
      else (with_reg (cancel_task guard b k) true true, OK, [])
  | OResetHard b =>
      if negb (k_reg k) then (k, NOT_FOUND, [])
      else
        let k1 := cancel_task guard b k in
        (* rpki_drop_all(Arc::new(addr)): a fresh identity matches no installed VRP *)
        if k_disabled k1 then (k1, OK, [])
        else let (k2, sent) := connect k1 in (k2, OK, sent)
  | OResetSoft =>
      if negb (k_reg k) then (k, NOT_FOUND, [])
      else if k_disabled k then (k, FAILED_PRECONDITION, [])
      else
        match k_task k with
        | TServe =>
            let '(st1, t1, sent) := client_event fixed (k_tok k) (k_cur k) (k_tab k) (ESoftReset (k_tok k)) in
            (with_cur k TServe st1 t1, OK, sent)
        | _ => (with_cur k (k_task k) (with_permit (k_cur k) true) (k_tab k), OK, [])   (* the permit waits in the Notify *)
        end
  | OFeed bytes =>
      match k_task k with
      | TServe =>
          let '(st1, t1, sent) := client_event fixed (k_tok k) (k_cur k) (k_tab k) (EFeed (k_tok k) bytes) in
          (with_cur k (if c_done st1 then TSleep else TServe) st1 t1, OK, sent)
      | _ => (k, OK, [])
      end
  | OClose =>
      match k_task k with
      | TServe =>
          let '(st1, t1, sent) := client_event fixed (k_tok k) (k_cur k) (k_tab k) (EClose (k_tok k)) in
          (with_cur k TSleep st1 t1, OK, sent)
      | _ => (k, OK, [])
      end
  | OTimer =>
      match k_task k with
      | TSleep => let (k2, sent) := connect k in (k2, OK, sent)
      | _ => (k, OK, [])
      end
  end.

Definition conn_init (pre : list (net * N * N)) : conn :=
  {| k_reg := false; k_disabled := false; k_task := TIdle; k_cur := fresh_client; k_tok := BASE; k_gen := BASE;
     k_tab := fold_left (fun t x => insert (fst (fst x)) (mk_roa 9 (snd (fst x)) (snd x)) t) pre rtab_new |}.

Definition conn_run (guard : bool) (k : conn) (ops : list cop) : conn :=
  fold_left (fun k o => fst (fst (conn_step guard k o))) ops k.

(* ---- observations: [status, bytes written, table, [serial, end_of_data count, up] or [] when not registered] *)
Definition observe_conn (k : conn) (code : N) (sent : list N) : val :=
  match dump (k_tab k) with
  | PPanic => VL [VI (-1)%Z]
  | POk d =>
      VL [VN code; VNs sent; d;
          if k_reg k then VL [VN (c_serial (k_cur k)); VN (c_eod_count (k_cur k)); VB (c_up (k_cur k))] else VL []]
  end.

Fixpoint observe_conn_ops (guard : bool) (k : conn) (ops : list cop) : list val :=
  match ops with
  | [] => []
  | o :: rest =>
      let '(k', code, sent) := conn_step guard k o in
      observe_conn k' code sent :: observe_conn_ops guard k' rest
  end.

Definition run_conn_case (pre : list (net * N * N)) (ops : list cop) : val :=
  VL (observe_conn_ops true (conn_init pre) ops).
Definition run_conn_case_pre (pre : list (net * N * N)) (ops : list cop) : val :=
  VL (observe_conn_ops false (conn_init pre) ops).
