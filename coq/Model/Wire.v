(* Executable model of the BGP receive path of packet/src/bgp.rs, part 1:
   result types, cursor reads, NOTIFICATION contents, the session codec, and
   Capability::decode.  The other parts are WireNlri.v (NLRI decoders),
   WireUpdate.v (UPDATE arm of parse_message) and WireMsg.v (parse_message,
   try_parse, observation).

   Conventions.  A cursor is the list of bytes not yet read.  Where the Rust
   reads with `.unwrap()`, indexes a slice or subtracts in a narrow type, the
   model has an explicit [Panic] branch; where it reads with `?`/map_err the
   model has a [Fail] branch carrying the NOTIFICATION.  Loops run on fuel and
   exhaustion is [Panic 99]; Proofs/Wire*.v show no [Panic] is reachable.
   No proofs in this file. *)
From Coq Require Import List ZArith NArith Bool.
From RB Require Import Base.Val Base.Bytes Model.Caps.
Import ListNotations.
Open Scope N_scope.

(* NOTIFICATION content: code, subcode, data (notification_code/_subcode/_data). *)
Record notif := { n_code : N; n_sub : N; n_data : list N }.
Definition mkn (c s : N) (d : list N) : notif := {| n_code := c; n_sub := s; n_data := d |}.

Definition E_MALFORMED_ATTR_LIST := mkn 3 1 [].        (* UpdateMalformedAttributeList *)
Definition E_OPT_ATTR := mkn 3 9 [].                   (* UpdateOptionalAttributeError *)
Definition E_OPEN_MALFORMED := mkn 2 0 [].             (* OpenMalformed *)

Inductive res (A : Type) :=
| Ok (a : A)
| Fail (e : notif)
| Panic (tag : N).
Arguments Ok {A} a.
Arguments Fail {A} e.
Arguments Panic {A} tag.

Definition bind {A B} (r : res A) (k : A -> res B) : res B :=
  match r with Ok a => k a | Fail e => Fail e | Panic t => Panic t end.

Notation "x <- e ;; k" := (bind e (fun x => k)) (at level 61, e at next level, right associativity).
Notation "' p <- e ;; k" := (bind e (fun x_ => let p := x_ in k))
  (at level 61, p pattern, e at next level, right associativity).

(* `?` on a read: failure is the given NOTIFICATION *)
Definition req {A} (e : notif) (o : option A) : res A :=
  match o with Some a => Ok a | None => Fail e end.
(* `.unwrap()` / slice index: failure is a panic *)
Definition must {A} (tag : N) (o : option A) : res A :=
  match o with Some a => Ok a | None => Panic tag end.

Definition FUEL : N := 99.

(* ---- cursor reads *)
Definition get8 (l : list N) : option (N * list N) :=
  match l with a :: r => Some (a, r) | [] => None end.
Definition get16 (l : list N) : option (N * list N) :=
  match l with a :: b :: r => Some (be16 a b, r) | _ => None end.
Definition get24 (l : list N) : option (N * list N) :=
  match l with a :: b :: c :: r => Some (be24 a b c, r) | _ => None end.
Definition get32 (l : list N) : option (N * list N) :=
  match l with a :: b :: c :: d :: r => Some (be32 a b c d, r) | _ => None end.
(* n bytes *)
Definition take (n : nat) (l : list N) : option (list N * list N) :=
  if Nat.ltb (length l) n then None else Some (firstn n l, skipn n l).

Definition nat_of (n : N) : nat := N.to_nat n.

(* ---- the negotiated session codec, as far as decoding looks at it *)
Record codec := {
  c_ext_len : bool;                   (* extended_length *)
  c_two_byte : bool;                  (* two_byte_as *)
  c_fams : list (N * bool) }.         (* families: family -> addpath_rx *)

Fixpoint fam_lookup (l : list (N * bool)) (f : N) : option bool :=
  match l with
  | [] => None
  | (g, ap) :: r => if g =? f then Some ap else fam_lookup r f
  end.

Definition max_len (c : codec) : N := if c_ext_len c then 65535 else 4096.

(* ---- Notification::from_notification followed by the three accessors *)
Definition notif_norm (code sub : N) (data : list N) : notif :=
  match code, sub with
  | 1, 2 | 1, 3 | 2, 1 | 2, 4 | 2, 7 | 2, 6
  | 3, 2 | 3, 3 | 3, 4 | 3, 5 | 3, 6 | 3, 8 | 7, 1 => mkn code sub data
  | 2, 0 | 2, 2 | 2, 3 | 3, 1 | 3, 9 | 3, 10 | 3, 11 => mkn code sub []
  | 4, _ => mkn 4 0 []
  | 5, _ => mkn 5 sub []
  | 6, 1 | 6, 2 | 6, 3 | 6, 4 | 6, 5 | 6, 6 | 6, 7 | 6, 8 | 6, 9 => mkn 6 sub []
  | _, _ => mkn code sub data
  end.

(* ---- String::from_utf8(bytes).unwrap_or_default(): well-formed UTF-8
   (Unicode table 3-7, which is what core::str::from_utf8 accepts) or "" *)
Definition inr (lo hi b : N) : bool := (lo <=? b) && (b <=? hi).

Fixpoint utf8_valid_fuel (fuel : nat) (l : list N) : bool :=
  match fuel with
  | O => false
  | S f =>
    match l with
    | [] => true
    | b :: r =>
      if b <=? 0x7f then utf8_valid_fuel f r else
      if inr 0xc2 0xdf b then
        match r with c1 :: r' => inr 0x80 0xbf c1 && utf8_valid_fuel f r' | _ => false end else
      if inr 0xe0 0xef b then
        match r with
        | c1 :: c2 :: r' =>
          (if b =? 0xe0 then inr 0xa0 0xbf c1 else if b =? 0xed then inr 0x80 0x9f c1 else inr 0x80 0xbf c1)
          && inr 0x80 0xbf c2 && utf8_valid_fuel f r'
        | _ => false
        end else
      if inr 0xf0 0xf4 b then
        match r with
        | c1 :: c2 :: c3 :: r' =>
          (if b =? 0xf0 then inr 0x90 0xbf c1 else if b =? 0xf4 then inr 0x80 0x8f c1 else inr 0x80 0xbf c1)
          && inr 0x80 0xbf c2 && inr 0x80 0xbf c3 && utf8_valid_fuel f r'
        | _ => false
        end else
      false
    end
  end.
Definition utf8_or_empty (l : list N) : list N :=
  if utf8_valid_fuel (S (length l)) l then l else [].

(* ---- Capability::decode(code, c, len).  The cursor [c] is the rest of the whole
   frame: nothing bounds a read by [len] except the arm's own length test.
   Err(()) becomes OpenMalformed in the caller, so it is [Fail E_OPEN_MALFORMED]. *)
Definition cap_err {A} : res A := Fail E_OPEN_MALFORMED.
Definition rq {A} (o : option A) : res A := req E_OPEN_MALFORMED o.

(* for _ in 0..n { family u32; afi u16; keep when family.afi()==1 && afi==2 } *)
Fixpoint cap_extnh (n : nat) (c : list N) (acc : list (N * N)) : res (list (N * N) * list N) :=
  match n with
  | O => Ok (rev acc, c)
  | S n' =>
    '(fam, c) <- rq (get32 c) ;;
    '(afi, c) <- rq (get16 c) ;;
    if negb (fam / 65536 =? 1) || negb (afi =? 2) then cap_extnh n' c acc
    else cap_extnh n' c ((fam, afi) :: acc)
  end.

(* afi u16, safi u8, flags u8 *)
Fixpoint cap_gr_fams (n : nat) (c : list N) (acc : list (N * N)) : res (list (N * N) * list N) :=
  match n with
  | O => Ok (rev acc, c)
  | S n' =>
    '(afi, c) <- rq (get16 c) ;;
    '(safi, c) <- rq (get8 c) ;;
    '(fl, c) <- rq (get8 c) ;;
    cap_gr_fams n' c ((afi * 65536 + safi, fl) :: acc)
  end.

(* afi, safi, mode; entries with mode 0 or > 3 are skipped *)
Fixpoint cap_addpath (n : nat) (c : list N) (acc : list (N * N)) : res (list (N * N) * list N) :=
  match n with
  | O => Ok (rev acc, c)
  | S n' =>
    '(afi, c) <- rq (get16 c) ;;
    '(safi, c) <- rq (get8 c) ;;
    '(v, c) <- rq (get8 c) ;;
    if (v =? 0) || (3 <? v) then cap_addpath n' c acc
    else cap_addpath n' c ((afi * 65536 + safi, v) :: acc)
  end.

(* afi, safi, flags, 24-bit time *)
Fixpoint cap_llgr (n : nat) (c : list N) (acc : list (N * N * N)) : res (list (N * N * N) * list N) :=
  match n with
  | O => Ok (rev acc, c)
  | S n' =>
    '(afi, c) <- rq (get16 c) ;;
    '(safi, c) <- rq (get8 c) ;;
    '(fl, c) <- rq (get8 c) ;;
    '(t, c) <- rq (get24 c) ;;
    cap_llgr n' c ((afi * 65536 + safi, fl, t) :: acc)
  end.

Definition cap_decode (p : profile) (code : N) (c : list N) (clen : N) : res (cap * list N) :=
  match code with
  | 1 => if negb (clen =? 4) then cap_err else
         '(f, c) <- rq (get32 c) ;; Ok (CMultiProtocol f, c)
  | 2 => if negb (clen =? 0) then cap_err else Ok (CRouteRefresh, c)
  | 5 => if negb (clen mod 6 =? 0) then cap_err else
         '(l, c) <- cap_extnh (nat_of (clen / 6)) c [] ;; Ok (CExtNexthop l, c)
  | 6 => if negb (clen =? 0) then cap_err else Ok (CExtMessage, c)
  | 64 => if negb (clen mod 4 =? 2) then cap_err else
          '(restart, c) <- rq (get16 c) ;;
          (* (len - 2) / 4 in u8 *)
          n <- must 1 (sub_w 8 p clen 2) ;;
          '(l, c) <- cap_gr_fams (nat_of (n / 4)) c [] ;;
          Ok (CGR (restart / 4096) (restart mod 4096) l, c)
  | 65 => if negb (clen =? 4) then cap_err else
          '(a, c) <- rq (get32 c) ;; Ok (CFourOctet a, c)
  | 69 => if negb (clen mod 4 =? 0) then cap_err else
          '(l, c) <- cap_addpath (nat_of (clen / 4)) c [] ;; Ok (CAddPath l, c)
  | 70 => if negb (clen =? 0) then cap_err else Ok (CEnhancedRR, c)
  | 71 => if negb (clen mod 7 =? 0) then cap_err else
          '(l, c) <- cap_llgr (nat_of (clen / 7)) c [] ;; Ok (CLLGR l, c)
  | 73 => if clen <? 2 then cap_err else
          '(hl, c) <- rq (get8 c) ;;
          if clen <? hl + 2 then cap_err else
          '(h, c) <- rq (take (nat_of hl) c) ;;
          '(dl, c) <- rq (get8 c) ;;
          if clen <? 2 + hl + dl then cap_err else
          '(d, c) <- rq (take (nat_of dl) c) ;;
          Ok (CFqdn (utf8_or_empty h) (utf8_or_empty d), c)
  | _ => '(b, c) <- rq (take (nat_of clen) c) ;; Ok (CUnknown code b, c)
  end.
