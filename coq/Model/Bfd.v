(* Executable model of packet/src/bfd.rs  Message::decode (RFC 5880 control
   packet).  Every slice index and `&buf[4..]` of the Rust has an explicit
   [BfdPanic] branch; the five cursor reads map failure to Error::Io as the
   code does.  No proofs in this file. *)
From Coq Require Import List ZArith NArith Bool.
From RB Require Import Base.Val Base.Bytes.
Import ListNotations.
Open Scope N_scope.

Record bfd_msg := {
  b_diag : N; b_state : N; b_poll : bool; b_final : bool; b_cpi : bool; b_demand : bool;
  b_mult : N; b_my : N; b_your : N; b_tx : N; b_rx : N; b_echo : N }.

(* error kinds: 0 InvalidLength(n) 1 InvalidVersion(v) 2 InvalidState(v)
   3 InvalidDiagnostic(v) 4 Io *)
Inductive bfd_res := BfdOk (m : bfd_msg) | BfdErr (kind v : N) | BfdPanic.

Definition bit (b : N) (k : N) : bool := N.testbit b k.

(* Cursor::read_u32::<NetworkEndian> *)
Definition rd32 (l : list N) : option (N * list N) :=
  match l with
  | a :: b :: c :: d :: r => Some (be32 a b c d, r)
  | _ => None
  end.

Definition bfd_decode (buf : list N) : bfd_res :=
  let n := len buf in
  if n <? 24 then BfdErr 0 n else
  match nth_error buf 3 with
  | None => BfdPanic                                   (* buf[3] *)
  | Some l3 =>
    if negb (n =? l3) then BfdErr 0 n else
    match nth_error buf 0 with
    | None => BfdPanic                                 (* buf[0] *)
    | Some b0 =>
      let version := b0 / 32 in
      if negb (version =? 1) then BfdErr 1 version else
      let diag := N.land b0 31 in
      if 31 <? diag then BfdErr 3 diag else
      match nth_error buf 1 with
      | None => BfdPanic                               (* buf[1] *)
      | Some b1 =>
        let st := b1 / 64 in
        if 3 <? st then BfdErr 2 st else               (* State::from_u8 *)
        match nth_error buf 2 with
        | None => BfdPanic                             (* buf[2] *)
        | Some b2 =>
          if n <? 4 then BfdPanic else                 (* &buf[4..] *)
          let c := skipn 4 buf in
          match rd32 c with None => BfdErr 4 0 | Some (my, c) =>
          match rd32 c with None => BfdErr 4 0 | Some (your, c) =>
          match rd32 c with None => BfdErr 4 0 | Some (tx, c) =>
          match rd32 c with None => BfdErr 4 0 | Some (rx, c) =>
          match rd32 c with None => BfdErr 4 0 | Some (echo, _) =>
            BfdOk {| b_diag := diag; b_state := st;
                     b_poll := bit b1 5; b_final := bit b1 4; b_cpi := bit b1 3; b_demand := bit b1 1;
                     b_mult := b2; b_my := my; b_your := your; b_tx := tx; b_rx := rx; b_echo := echo |}
          end end end end end
        end
      end
    end
  end.

(* ------------------------------------------------------------ observation *)
Definition v_bfd (r : bfd_res) : val :=
  match r with
  | BfdOk m => VL [VN 0; VN (b_diag m); VN (b_state m); VB (b_poll m); VB (b_final m); VB (b_cpi m);
                   VB (b_demand m); VN (b_mult m); VN (b_my m); VN (b_your m); VN (b_tx m);
                   VN (b_rx m); VN (b_echo m)]
  | BfdErr k v => VL [VN 1; VN k; VN v]
  | BfdPanic => VL [VI (Zneg 1)]
  end.

(* The harness runs debug and release builds; decode has no overflow-prone
   arithmetic, so both observations are the same function of the bytes. *)
Definition run_bfd (buf : list N) : val := VL [v_bfd (bfd_decode buf); v_bfd (bfd_decode buf)].
