(* Executable model of the session-parameter negotiation (property C16):
     packet/src/bgp.rs   IpNet::contains, PeerCodec::negotiate
     daemon/src/fsm.rs   the effective send-max filter of PeerFsm::process
                         (Model/Fsm.v effective_max, re-used here)
     daemon/src/event/mod.rs  PeerSession::negotiate_gr, negotiate_llgr
   No proofs in this file.  Families are the u32 (afi << 16 | safi). *)
From Coq Require Import List ZArith NArith Bool.
From RB Require Import Base.Val Model.Caps Model.Fsm.
Import ListNotations.
Open Scope N_scope.

(* ------------------------------------------------------- IpNet::contains *)

Inductive cres := COk (b : bool) | CPanic.   (* slice index out of bounds *)

Inductive ipaddr := A4 (octets : list N) | A6 (octets : list N).
Inductive ipnet := Net4 (octets : list N) (mask : N) | Net6 (octets : list N) (mask : N).

(* `for i in 0..div { if a[i] != b[i] { return false } }` then the partial byte;
   [a] is the prefix, [b] the address, both as the remaining octets *)
Fixpoint contains_from (div : nat) (r : N) (a b : list N) : cres :=
  match div with
  | S n =>
      match a, b with
      | x :: a', y :: b' => if x =? y then contains_from n r a' b' else COk false
      | _, _ => CPanic
      end
  | O =>
      if 0 <? r then
        match a, b with
        | x :: _, y :: _ =>
            let bit := 8 - r in
            let m := N.shiftl (N.shiftr 255 bit) bit in          (* 0xff >> bit << bit *)
            COk (N.land x m =? N.land y m)
        | _, _ => CPanic
        end
      else COk true
  end.

Definition contains_octets (a b : list N) (mask : N) : cres :=
  contains_from (N.to_nat (N.shiftr mask 3)) (N.land mask 7) a b.

Definition contains (net : ipnet) (addr : ipaddr) : cres :=
  match addr, net with
  | A4 b, Net4 a mask => contains_octets a b mask
  | A6 b, Net6 a mask => contains_octets a b mask
  | _, _ => COk false
  end.

(* ------------------------------------------------ PeerCodec::negotiate *)

(* has_mp and addpath_mode (last ADD-PATH entry wins) are in Model/Caps.v: the
   FSM's send-max filter uses the same negotiation result *)

(* ExtendedNexthop (family with AFI 1, next-hop AFI 2), any entry *)
Definition ext_nh (caps : list cap) (f : N) : bool :=
  (N.shiftr f 16 =? 1) &&
  existsb (fun c => match c with
                    | CExtNexthop es => existsb (fun e => (fst e =? f) && (snd e =? 2)) es
                    | _ => false
                    end) caps.

Definition has_extmsg (caps : list cap) : bool :=
  existsb (fun c => match c with CExtMessage => true | _ => false end) caps.
Definition has_as4 (caps : list cap) : bool :=
  existsb (fun c => match c with CFourOctet _ => true | _ => false end) caps.

(* bit and neg_family (FamilyState of a negotiated family) are in Model/Caps.v *)

Definition neg_extended_length (l r : list cap) : bool := has_extmsg l && has_extmsg r.
Definition neg_two_byte_as (l r : list cap) : bool := negb (has_as4 l && has_as4 r).

Definition mp_list (caps : list cap) : list N :=
  flat_map (fun c => match c with CMultiProtocol f => [f] | _ => [] end) caps.

(* PeerCodec.extended_nexthop (private field): some common family has it on both sides *)
Definition neg_extended_nexthop (l r : list cap) : bool :=
  existsb (fun f => has_mp l f && ext_nh l f && ext_nh r f) (mp_list r).

(* the driver's effective_max(family): the FSM's filtered send-max, 1 when absent *)
Definition driver_max (smax : list (N * N)) (l r : list cap) (f : N) : N :=
  match find (fun fv => fst fv =? f) (effective_max smax l r) with
  | Some fv => snd fv
  | None => 1
  end.

(* -------------------------------------------- negotiate_gr / negotiate_llgr *)

Definition first_gr (caps : list cap) : option (N * N * list (N * N)) :=
  match flat_map (fun c => match c with CGR fl t fams => [(fl, t, fams)] | _ => [] end) caps with
  | x :: _ => Some x
  | [] => None
  end.

(* Some (families, restart_time, notification_enabled) *)
Definition negotiate_gr (l r : list cap) : option (list N * N * bool) :=
  match first_gr l, first_gr r with
  | Some (lfl, _, lf), Some (pfl, pt, pf) =>
      let fams := filter (fun f => existsb (fun q => fst q =? f) pf) (map fst lf) in
      match fams with
      | [] => None
      | _ => Some (fams, pt, bit lfl 4 && bit pfl 4)
      end
  | _, _ => None
  end.

Definition first_llgr (caps : list cap) : option (list (N * N * N)) :=
  match flat_map (fun c => match c with CLLGR v => [v] | _ => [] end) caps with
  | x :: _ => Some x
  | [] => None
  end.

(* the `seen` filter of negotiate_llgr: the first entry of every family *)
Fixpoint first_entries (seen : list N) (v : list (N * N * N)) : list (N * N * N) :=
  match v with
  | [] => []
  | e :: t =>
      if existsb (N.eqb (fst (fst e))) seen then first_entries seen t
      else e :: first_entries (fst (fst e) :: seen) t
  end.

(* Some [(family, stale seconds)] *)
Definition negotiate_llgr (l r : list cap) : option (list (N * N)) :=
  match first_llgr l, first_llgr r with
  | Some lv0, Some pv =>
      let lv := first_entries [] lv0 in
      let fams :=
        flat_map (fun e =>
                    let lf := fst (fst e) in
                    let lt := snd e in
                    match find (fun q => fst (fst q) =? lf) pv with
                    | Some q =>
                        let secs := if 0 <? snd q then snd q else lt in
                        if secs =? 0 then [] else [(fst (fst q), secs)]
                    | None => []
                    end) lv in
      match fams with
      | [] => None
      | _ => Some fams
      end
  | _, _ => None
  end.

(* ------------------------------------------------------------ observation *)

Definition v_cres (c : cres) : val :=
  match c with COk b => VL [VB b] | CPanic => VL [VI (-1)%Z] end.

Definition v_net_case (net : ipnet) (addr : ipaddr) : val := v_cres (contains net addr).

Definition v_fam (l r : list cap) (f : N) : val :=
  match neg_family l r f with
  | Some (rx, tx) => VL [VN f; VN 1; VB rx; VB tx]
  | None => VL [VN f; VN 0; VN 0; VN 0]
  end.

(* both directions over a list of families chosen by the generator (sorted) *)
Definition run_neg_case (l r : list cap) (fams : list N) : val :=
  VL [VList (v_fam l r) fams; VB (neg_extended_length l r); VB (neg_two_byte_as l r);
      VList (v_fam r l) fams; VB (neg_extended_length r l); VB (neg_two_byte_as r l)].

Definition v_gr (o : option (list N * N * bool)) : val :=
  match o with
  | Some (fams, t, n) => VL [VNs fams; VN t; VB n]
  | None => VL []
  end.

Definition v_llgr (o : option (list (N * N))) : val :=
  match o with
  | Some fams => VL [VList VPairN fams]
  | None => VL []
  end.

Definition run_gr_case (l r : list cap) : val :=
  VL [v_gr (negotiate_gr l r); v_llgr (negotiate_llgr l r);
      v_gr (negotiate_gr r l); v_llgr (negotiate_llgr r l)].

Definition run_sess_case (l r : list cap) (smax : list (N * N)) (fams : list N) : val :=
  VL [v_gr (negotiate_gr l r); v_llgr (negotiate_llgr l r);
      v_gr (negotiate_gr r l); v_llgr (negotiate_llgr r l);
      VList (fun f => VL [VN f; VN (driver_max smax l r f);
                          VB (match neg_family l r f with Some (_, tx) => tx | None => false end)]) fams].
