(* Executable model of the admission decision (property C16):
     daemon/src/event/mod.rs   accept_connection, Global::add_peer, the peer
                               bookkeeping at the end of PeerSession::run
     daemon/src/event/peer.rs  PeerParams::{build, build_local_cap, apply_peer_group}
   as pure functions over an abstract configuration.  No proofs in this file.

   Hash maps: Global.peers is an association list with distinct keys;
   Global.peer_group is the list of groups in the map's iteration order (the
   order is an input: nothing may depend on which order it is); the
   `families` map of a neighbour is the list of its entries in iteration
   order (build_local_cap emits capabilities in that order). *)
From Coq Require Import List ZArith NArith Bool.
From RB Require Import Base.Val Model.Caps Model.Fsm Model.Negotiate.
Import ListNotations.
Open Scope N_scope.

Definition IPV4 : N := 65537.
Definition IPV6 : N := 131073.
Definition IPV4_SRPOLICY : N := 65609.       (* afi 1, safi 73 *)
Definition DEFAULT_HOLD_TIME : N := 180.

Definition octets_eqb (a b : list N) : bool :=
  (length a =? length b)%nat && forallb (fun p => fst p =? snd p) (combine a b).

Definition addr_eqb (a b : ipaddr) : bool :=
  match a, b with
  | A4 x, A4 y | A6 x, A6 y => octets_eqb x y
  | _, _ => false
  end.

Definition is_v6 (a : ipaddr) : bool := match a with A6 _ => true | A4 _ => false end.

Record rrcfg := { rr_client : bool; rr_cluster : option N }.
Record grcfg := { gr_time : N; gr_notif : bool; gr_families : list N }.

(* the fields of PeerParams / PeerGroup that reach the session *)
Record params := {
  pa_expected_asn : N; pa_local_asn : N; pa_passive : bool; pa_rs_client : bool; pa_rr : rrcfg;
  pa_delete : bool; pa_admin_down : bool; pa_hold : N;
  pa_multihop : option N; pa_ttlsec : option N;
  pa_families : list (N * N);        (* family -> add-path mode *)
  pa_send_max : list (N * N);
  pa_prefix_limits : list (N * N);
  pa_gr : option grcfg;
  pa_llgr : option (list (N * N))    (* family, stale time *)
}.

Record group := {
  g_as : N; g_prefixes : list ipnet; g_rs_client : bool; g_hold : option N; g_local_asn : N;
  g_passive : bool; g_rr : rrcfg; g_multihop : option N; g_ttlsec : option N;
  g_families : list (N * N); g_send_max : list (N * N);
  g_gr : option grcfg; g_llgr : option (list (N * N))
}.

(* PeerConfig (+ the PeerFsm parameters) and the mutable parts of Peer *)
Record peer := {
  pe_expected_asn : N; pe_local_asn : N; pe_passive : bool; pe_delete : bool; pe_hold : N;
  pe_local_cap : list cap; pe_rs_client : bool; pe_rr : rrcfg; pe_router_id : N;
  pe_multihop : option N; pe_ttlsec : option N; pe_prefix_limits : list (N * N);
  pe_send_max : list (N * N);
  pe_admin_down : bool;
  pe_conn_active : bool;             (* ConnArbiter.active_close_tx.is_some() *)
  pe_conn_passive : bool
}.

Record global := {
  gl_asn : N; gl_router_id : N;
  gl_confed : option (N * list N);   (* confederation id, member ASes *)
  gl_restarting : bool;              (* selection_deferral.is_some() *)
  gl_peers : list (ipaddr * peer);
  gl_groups : list group
}.

(* ------------------------------------------------- PeerParams::apply_peer_group *)

Definition opt_or {A} (a b : option A) : option A := match a with Some _ => a | None => b end.

Definition apply_peer_group (p : params) (g : group) : params :=
  let fam_empty := match pa_families p with [] => true | _ => false end in
  {| pa_expected_asn := if (pa_expected_asn p =? 0) && negb (g_as g =? 0) then g_as g else pa_expected_asn p;
     pa_local_asn := if (pa_local_asn p =? 0) && negb (g_local_asn g =? 0) then g_local_asn g else pa_local_asn p;
     pa_passive := pa_passive p || g_passive g;
     pa_rs_client := pa_rs_client p || g_rs_client g;
     pa_rr := if negb (rr_client (pa_rr p)) && rr_client (g_rr g) then g_rr g else pa_rr p;
     pa_delete := pa_delete p; pa_admin_down := pa_admin_down p;
     pa_hold := if pa_hold p =? DEFAULT_HOLD_TIME then match g_hold g with Some h => h | None => pa_hold p end
                else pa_hold p;
     pa_multihop := opt_or (pa_multihop p) (g_multihop g);
     pa_ttlsec := opt_or (pa_ttlsec p) (g_ttlsec g);
     pa_families := if fam_empty then g_families g else pa_families p;
     pa_send_max := if fam_empty then g_send_max g else pa_send_max p;
     pa_prefix_limits := pa_prefix_limits p;
     pa_gr := opt_or (pa_gr p) (g_gr g);
     pa_llgr := opt_or (pa_llgr p) (g_llgr g) |}.

(* ---------------------------------------------- PeerParams::build_local_cap *)

Definition build_local_cap (v6 : bool) (local_asn : N) (fams : list (N * N))
           (gr : option grcfg) (llgr : option (list (N * N))) : list cap :=
  (match fams with
   | [] => [CMultiProtocol (if v6 then IPV6 else IPV4)]
   | _ =>
       map (fun fm => CMultiProtocol (fst fm)) fams
       ++ (match filter (fun fm => 0 <? snd fm) fams with [] => [] | ap => [CAddPath ap] end)
       ++ (if v6 then
             match filter (fun f => (N.shiftr f 16 =? 1) && negb (f =? IPV4_SRPOLICY)) (map fst fams) with
             | [] => []
             | enh => [CExtNexthop (map (fun f => (f, 2)) enh)]
             end
           else [])
   end)
  ++ (match gr with
      | Some g => [CGR (if gr_notif g then 4 else 0) (gr_time g) (map (fun f => (f, 0)) (gr_families g))]
      | None => []
      end)
  ++ (match llgr with
      | Some l => [CLLGR (map (fun ft => (fst ft, 0, snd ft)) l)]
      | None => []
      end)
  ++ [CFourOctet local_asn; CExtMessage].

(* ---------------------------- Global::add_peer (confederation) + PeerParams::build *)

(* peers outside the confederation see its identifier; a peer in the member
   list, or in the neighbour's own AS (iBGP), is inside *)
Definition confed_local_asn (confed : option (N * list N)) (global_asn expected local : N) : N :=
  match confed with
  | Some (id, members) =>
      let own := if local =? 0 then global_asn else local in
      if existsb (N.eqb expected) members || (expected =? own) then local else id
  | None => local
  end.

Definition build_peer (g : global) (addr : ipaddr) (p : params) : peer :=
  let la0 := confed_local_asn (gl_confed g) (gl_asn g) (pa_expected_asn p) (pa_local_asn p) in
  let la := if la0 =? 0 then gl_asn g else la0 in
  {| pe_expected_asn := pa_expected_asn p; pe_local_asn := la; pe_passive := pa_passive p;
     pe_delete := pa_delete p; pe_hold := pa_hold p;
     pe_local_cap := build_local_cap (is_v6 addr) la (pa_families p) (pa_gr p) (pa_llgr p);
     pe_rs_client := pa_rs_client p; pe_rr := pa_rr p; pe_router_id := gl_router_id g;
     pe_multihop := pa_multihop p; pe_ttlsec := pa_ttlsec p; pe_prefix_limits := pa_prefix_limits p;
     pe_send_max := pa_send_max p;
     pe_admin_down := pa_admin_down p; pe_conn_active := false; pe_conn_passive := false |}.

(* the PeerParams accept_connection makes up for a dynamic neighbour *)
Definition params_of_group (gr : group) : params :=
  {| pa_expected_asn := g_as gr; pa_local_asn := g_local_asn gr; pa_passive := g_passive gr;
     pa_rs_client := g_rs_client gr; pa_rr := g_rr gr; pa_delete := true; pa_admin_down := false;
     pa_hold := match g_hold gr with Some h => h | None => DEFAULT_HOLD_TIME end;
     pa_multihop := g_multihop gr; pa_ttlsec := g_ttlsec gr;
     pa_families := g_families gr; pa_send_max := g_send_max gr; pa_prefix_limits := [];
     pa_gr := g_gr gr; pa_llgr := g_llgr gr |}.

(* ------------------------------------------------------ accept_connection *)

Fixpoint lookup (a : ipaddr) (l : list (ipaddr * peer)) : option peer :=
  match l with
  | [] => None
  | (k, p) :: t => if addr_eqb k a then Some p else lookup a t
  end.

Fixpoint update (a : ipaddr) (p : peer) (l : list (ipaddr * peer)) : list (ipaddr * peer) :=
  match l with
  | [] => [(a, p)]
  | (k, q) :: t => if addr_eqb k a then (k, p) :: t else (k, q) :: update a p t
  end.

Fixpoint remove (a : ipaddr) (l : list (ipaddr * peer)) : list (ipaddr * peer) :=
  match l with
  | [] => []
  | (k, q) :: t => if addr_eqb k a then t else (k, q) :: remove a t
  end.

Definition conn_of (p : peer) (r : role) : bool :=
  match r with RActive => pe_conn_active p | RPassive => pe_conn_passive p end.

Definition set_conn (p : peer) (r : role) (b : bool) : peer :=
  {| pe_expected_asn := pe_expected_asn p; pe_local_asn := pe_local_asn p; pe_passive := pe_passive p;
     pe_delete := pe_delete p; pe_hold := pe_hold p; pe_local_cap := pe_local_cap p;
     pe_rs_client := pe_rs_client p; pe_rr := pe_rr p; pe_router_id := pe_router_id p;
     pe_multihop := pe_multihop p; pe_ttlsec := pe_ttlsec p; pe_prefix_limits := pe_prefix_limits p;
     pe_send_max := pe_send_max p; pe_admin_down := pe_admin_down p;
     pe_conn_active := match r with RActive => b | RPassive => pe_conn_active p end;
     pe_conn_passive := match r with RPassive => b | RActive => pe_conn_passive p end |}.

Definition set_admin (p : peer) (b : bool) : peer :=
  {| pe_expected_asn := pe_expected_asn p; pe_local_asn := pe_local_asn p; pe_passive := pe_passive p;
     pe_delete := pe_delete p; pe_hold := pe_hold p; pe_local_cap := pe_local_cap p;
     pe_rs_client := pe_rs_client p; pe_rr := pe_rr p; pe_router_id := pe_router_id p;
     pe_multihop := pe_multihop p; pe_ttlsec := pe_ttlsec p; pe_prefix_limits := pe_prefix_limits p;
     pe_send_max := pe_send_max p; pe_admin_down := b;
     pe_conn_active := pe_conn_active p; pe_conn_passive := pe_conn_passive p |}.

Definition set_peers (g : global) (l : list (ipaddr * peer)) : global :=
  {| gl_asn := gl_asn g; gl_router_id := gl_router_id g; gl_confed := gl_confed g;
     gl_restarting := gl_restarting g; gl_peers := l; gl_groups := gl_groups g |}.

(* `d.prefix.contains(&remote_addr)`; a panic of contains is a panic of the task *)
Definition prefix_hit (a : ipaddr) (n : ipnet) : bool :=
  match contains n a with COk b => b | CPanic => false end.

Definition group_matches (a : ipaddr) (gr : group) : bool := existsb (prefix_hit a) (g_prefixes gr).

(* PeerRole: 0 Ebgp, 1 RsClient, 2 Ibgp, 3 IbgpRrClient, 4 ConfedEbgp *)
Definition peer_role (g : global) (p : peer) : N :=
  if pe_rs_client p then 1
  else if negb (pe_local_asn p =? 0) && (pe_expected_asn p =? pe_local_asn p) then
         if rr_client (pe_rr p) then 3 else 2
  else match gl_confed g with
       | Some (_, members) => if existsb (N.eqb (pe_expected_asn p)) members then 4 else 0
       | None => 0
       end.

Definition cluster_id (role : N) (p : peer) : option N :=
  if (role =? 2) || (role =? 3) then
    Some (match rr_cluster (pe_rr p) with Some c => c | None => pe_router_id p end)
  else None.

(* TTL the socket is given: Some n = set_ttl(n), None = left alone *)
Definition socket_ttl (p : peer) : option N :=
  match pe_ttlsec p with
  | Some _ => Some 255
  | None =>
      match pe_multihop p with
      | Some t => if negb (pe_expected_asn p =? pe_local_asn p) then Some t else None
      | None => Some 1
      end
  end.

(* what PeerSession::new is given (PeerResources) *)
Record session := {
  s_dir : role; s_role : N; s_local_asn : N; s_local_cap : list cap; s_restarting : bool;
  s_prefix_limits : list (N * N); s_router_id : N; s_cluster : option N; s_confed_id : N;
  s_ttl : option N
}.

Definition session_of (g : global) (p : peer) (r : role) : session :=
  let pr := peer_role g p in
  {| s_dir := r; s_role := pr; s_local_asn := pe_local_asn p; s_local_cap := pe_local_cap p;
     s_restarting := gl_restarting g; s_prefix_limits := pe_prefix_limits p;
     s_router_id := pe_router_id p; s_cluster := cluster_id pr p;
     s_confed_id := match gl_confed g with Some (id, _) => id | None => 0 end;
     s_ttl := socket_ttl p |}.

Inductive decision := Reject | Accept (g' : global) (s : session).

Definition accept_connection (g : global) (a : ipaddr) (r : role) : decision :=
  match lookup a (gl_peers g) with
  | Some p =>
      if pe_admin_down p then Reject
      else if conn_of p r then Reject
      else let p' := set_conn p r true in
           Accept (set_peers g (update a p' (gl_peers g))) (session_of g p' r)
  | None =>
      match find (group_matches a) (gl_groups g) with
      | None => Reject
      | Some gr =>
          let p' := set_conn (build_peer g a (params_of_group gr)) r true in
          Accept (set_peers g (update a p' (gl_peers g))) (session_of g p' r)
      end
  end.

(* the end of PeerSession::run for the connection (a, r): the close sender is
   dropped; when no connection of the peer is left a dynamic peer is removed *)
Definition disconnect (g : global) (a : ipaddr) (r : role) : global :=
  match lookup a (gl_peers g) with
  | Some p =>
      let p' := set_conn p r false in
      if negb (pe_conn_active p') && negb (pe_conn_passive p') && pe_delete p'
      then set_peers g (remove a (gl_peers g))
      else set_peers g (update a p' (gl_peers g))
  | None => g
  end.

(* the UpdatePeer request (api::Peer) as far as the harness fills it in *)
Record upd := {
  u_asn : N; u_local_asn : N; u_hold : N;      (* hold_time 0 = default *)
  u_passive : bool; u_rs_client : bool; u_rr_client : bool; u_cluster : option N
}.

Definition pair_eqb (a b : N * N) : bool := (fst a =? fst b) && (snd a =? snd b).
Fixpoint list_eqb {A} (e : A -> A -> bool) (x y : list A) : bool :=
  match x, y with
  | [], [] => true
  | a :: x', b :: y' => e a b && list_eqb e x' y'
  | _, _ => false
  end.
Definition trip_eqb (a b : N * N * N) : bool := pair_eqb (fst a) (fst b) && (snd a =? snd b).

(* `new_local_cap != peer.config.local_cap` *)
Definition cap_eqb (a b : cap) : bool :=
  match a, b with
  | CMultiProtocol f, CMultiProtocol g => f =? g
  | CRouteRefresh, CRouteRefresh | CExtMessage, CExtMessage | CEnhancedRR, CEnhancedRR => true
  | CExtNexthop l, CExtNexthop m | CAddPath l, CAddPath m => list_eqb pair_eqb l m
  | CGR f t l, CGR g u m => (f =? g) && (t =? u) && list_eqb pair_eqb l m
  | CFourOctet x, CFourOctet y => x =? y
  | CLLGR l, CLLGR m => list_eqb trip_eqb l m
  | CFqdn h d, CFqdn h' d' => list_eqb N.eqb h h' && list_eqb N.eqb d d'
  | CUnknown c x, CUnknown c' x' => (c =? c') && list_eqb N.eqb x x'
  | _, _ => false
  end.

Definition optn_eqb (a b : option N) : bool :=
  match a, b with Some x, Some y => x =? y | None, None => true | _, _ => false end.

(* update_peer: the configuration is replaced (delete-on-disconnect is kept: a
   dynamic neighbour stays dynamic); when a session-relevant setting changed,
   a new PeerFsm is installed and the connections are told to stop; their tasks
   then find no connection left *)
Definition update_peer (g : global) (a : ipaddr) (u : upd) : global :=
  match lookup a (gl_peers g) with
  | None => g
  | Some p =>
      if negb (Bool.eqb (u_rs_client u) (pe_rs_client p)) || negb (Bool.eqb (u_rr_client u) (rr_client (pe_rr p)))
      then g
      else
        let la0 := confed_local_asn (gl_confed g) (gl_asn g) (u_asn u) (u_local_asn u) in
        let la := if la0 =? 0 then gl_asn g else la0 in
        let hold := if u_hold u =? 0 then DEFAULT_HOLD_TIME else u_hold u in
        let caps := build_local_cap (is_v6 a) la [] None None in
        let teardown :=
          negb (u_asn u =? pe_expected_asn p) || negb (la =? pe_local_asn p)
          || negb (Bool.eqb (u_passive u) (pe_passive p)) || negb (hold =? pe_hold p)
          || negb (list_eqb cap_eqb caps (pe_local_cap p)) || negb (optn_eqb None (pe_multihop p)) in
        let had := pe_conn_active p || pe_conn_passive p in
        let p' :=
          {| pe_expected_asn := u_asn u; pe_local_asn := la; pe_passive := u_passive u;
             pe_delete := pe_delete p; pe_hold := hold; pe_local_cap := caps;
             pe_rs_client := u_rs_client u;
             pe_rr := {| rr_client := u_rr_client u; rr_cluster := u_cluster u |};
             pe_router_id := gl_router_id g; pe_multihop := None; pe_ttlsec := None;
             pe_prefix_limits := [];
             pe_send_max := if teardown then [] else pe_send_max p;
             pe_admin_down := pe_admin_down p;
             pe_conn_active := if teardown then false else pe_conn_active p;
             pe_conn_passive := if teardown then false else pe_conn_passive p |} in
        if teardown && had && pe_delete p then set_peers g (remove a (gl_peers g))
        else set_peers g (update a p' (gl_peers g))
  end.

Inductive op :=
| OConnect (a : ipaddr) (r : role)
| ODisconnect (a : ipaddr) (r : role)     (* the connection (a, r), if there is one, ends *)
| OAdmin (a : ipaddr) (down : bool)       (* the admin_down flag alone *)
| ODisable (a : ipaddr)                   (* grpc.rs disable_peer, and the connection tasks it ends *)
| OEnable (a : ipaddr)                    (* grpc.rs enable_peer *)
| ODelete (a : ipaddr)                    (* grpc.rs delete_peer, and the connection tasks it ends *)
| ODeleteReconnect (a : ipaddr) (r : role)
| OUpdate (a : ipaddr) (u : upd)
   (* grpc.rs update_peer with a request that names AS numbers, hold time,
      passive, route-server / route-reflector flags and nothing else, and the
      connection tasks it ends *)
| ODisconnectRace (a : ipaddr) (rold rnew : role).
   (* delete_peer, then a new connection from the same address is admitted while
      the deleted neighbour's connection tasks are still running the end of
      PeerSession::run: they find a record that is not theirs (Arc::ptr_eq on
      the PeerContext) and leave it alone *)

(* disable_peer: admin_down is set and force_down takes both close senders
   and tells the tasks to stop; each task then runs the end of
   PeerSession::run, which finds no connection left: a dynamic neighbour that
   had a connection is removed *)
Definition disable (g : global) (a : ipaddr) : global :=
  match lookup a (gl_peers g) with
  | Some p =>
      if pe_admin_down p then g
      else
        let had := pe_conn_active p || pe_conn_passive p in
        let p' := set_conn (set_conn (set_admin p true) RActive false) RPassive false in
        if had && pe_delete p then set_peers g (remove a (gl_peers g))
        else set_peers g (update a p' (gl_peers g))
  | None => g
  end.

Definition step_op (g : global) (o : op) : global * option (option session) :=
  match o with
  | OConnect a r =>
      match accept_connection g a r with
      | Accept g' s => (g', Some (Some s))
      | Reject => (g, Some None)
      end
  | ODisconnect a r =>
      match lookup a (gl_peers g) with
      | Some p => if conn_of p r then (disconnect g a r, None) else (g, None)
      | None => (g, None)
      end
  | OAdmin a b =>
      match lookup a (gl_peers g) with
      | Some p => (set_peers g (update a (set_admin p b) (gl_peers g)), None)
      | None => (g, None)
      end
  | ODisable a => (disable g a, None)
  | OEnable a =>
      match lookup a (gl_peers g) with
      | Some p => (set_peers g (update a (set_admin p false) (gl_peers g)), None)
      | None => (g, None)
      end
  | ODelete a => (set_peers g (remove a (gl_peers g)), None)
  | OUpdate a u => (update_peer g a u, None)
  | ODisconnectRace a rold rnew =>
      (* the connection (a, rold) ends; between its apply_disconnect and the
         final lock of PeerSession::run a connection (a, rnew) is admitted; the
         old task looks at the close senders again under the lock *)
      match lookup a (gl_peers g) with
      | Some p =>
          if conn_of p rold then
            let g1 := set_peers g (update a (set_conn p rold false) (gl_peers g)) in
            match accept_connection g1 a rnew with
            | Accept g' s => (g', Some (Some s))
            | Reject => (disconnect g a rold, Some None)
            end
          else (g, None)
      | None => (g, None)
      end
  | ODeleteReconnect a r =>
      let g1 := set_peers g (remove a (gl_peers g)) in
      match accept_connection g1 a r with
      | Accept g' s => (g', Some (Some s))
      | Reject => (g1, Some None)
      end
  end.

Definition run_ops (g : global) (ops : list op) : global := fold_left (fun g o => fst (step_op g o)) ops g.

(* a configured neighbour as the case gives it: address, its PeerParams and
   the peer group it belongs to (index into the groups as configured) *)
Definition add_static (groups : list group) (g : global) (n : ipaddr * params * option nat) : global :=
  let '(a, p, gi) := n in
  let p1 := match gi with
            | Some k => match nth_error groups k with Some gr => apply_peer_group p gr | None => p end
            | None => p
            end in
  match lookup a (gl_peers g) with
  | Some _ => g                          (* add_peer: AlreadyExists *)
  | None => set_peers g (gl_peers g ++ [(a, build_peer g a p1)])
  end.

(* ------------------------------------------------------------ observation *)

Definition v_addr (a : ipaddr) : val :=
  match a with A4 o => VL [VN 4; VNs o] | A6 o => VL [VN 6; VNs o] end.

Definition v_optn (o : option N) : val := VOpt VN o.

Definition v_session (s : session) : val :=
  VL [v_role (s_dir s); VN (s_role s); VN (s_local_asn s); v_caps (s_local_cap s); VB (s_restarting s);
      VList VPairN (s_prefix_limits s); VN (s_router_id s); v_optn (s_cluster s); VN (s_confed_id s);
      v_optn (s_ttl s)].

Definition v_peer (ap : ipaddr * peer) : val :=
  let p := snd ap in
  VL [v_addr (fst ap); VN (pe_expected_asn p); VN (pe_local_asn p); VB (pe_passive p); VB (pe_delete p);
      VN (pe_hold p); v_caps (pe_local_cap p); VB (pe_rs_client p); VB (rr_client (pe_rr p));
      v_optn (rr_cluster (pe_rr p)); VList VPairN (pe_prefix_limits p); VList VPairN (pe_send_max p);
      VB (pe_admin_down p); VB (pe_conn_active p); VB (pe_conn_passive p)].

Fixpoint observe_ops (g : global) (ops : list op) : list val :=
  match ops with
  | [] => []
  | o :: rest =>
      let '(g', res) := step_op g o in
      VL [match res with
          | Some (Some s) => VL [v_session s]
          | _ => VL []
          end;
          VList v_peer (gl_peers g')] :: observe_ops g' rest
  end.

(* groups are given in the hash map's iteration order (reported by the harness) *)
Definition run_accept_case (asn rid : N) (confed : option (N * list N)) (restarting : bool)
           (groups_cfg : list group) (order : list nat)
           (statics : list (ipaddr * params * option nat)) (ops : list op) : val :=
  let groups := flat_map (fun k => match nth_error groups_cfg k with Some g => [g] | None => [] end) order in
  let g0 := {| gl_asn := asn; gl_router_id := rid; gl_confed := confed; gl_restarting := restarting;
               gl_peers := []; gl_groups := groups |} in
  let g1 := fold_left (add_static groups_cfg) statics g0 in
  VL (VList v_peer (gl_peers g1) :: observe_ops g1 ops).
