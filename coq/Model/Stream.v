(* How a stream decoder is driven: bytes arrive in chunks, are appended to the
   receive buffer, and the decoder is called until it asks for more bytes or
   fails.  This is the loop of PeerSession::run_select (daemon/src/event/mod.rs:
   `loop { match self.codec.try_parse(rxbuf) ... None => break }`) and of
   tokio_util's FramedRead around RtrCodec; harness/hx-packet drives the real
   decoders the same way and prints one event per call.  No proofs here. *)
From Coq Require Import List NArith Bool.
From RB Require Import Base.Val Base.Bytes.
Import ListNotations.

Section Stream.
  Context {M E : Type}.

  (* Outcome of one decoder call on the receive buffer. *)
  Inductive dres :=
  | DMsg (m : M) (rest : list N)      (* a message; [rest] is what stays in the buffer *)
  | DNeed                             (* Ok(None): wait for more bytes, buffer untouched *)
  | DErr (e : E) (rest : list N)      (* protocol error: the session is torn down *)
  | DPanic.

  Variable dec : list N -> dres.

  Inductive ev :=
  | EvMsg (m : M) (remaining : nat)
  | EvNeed (remaining : nat)
  | EvErr (e : E) (remaining : nat)
  | EvSpin                            (* a message was returned and nothing consumed *)
  | EvFuel.                           (* the driver's own iteration bound *)

  Inductive dstate := Pending (buf : list N) | Stopped.

  (* Call the decoder until it stops returning messages.  [None] = panic. *)
  Fixpoint drain (fuel : nat) (buf : list N) : option (list ev * dstate) :=
    match fuel with
    | O => Some ([EvFuel], Stopped)
    | S f =>
      match dec buf with
      | DPanic => None
      | DNeed => Some ([EvNeed (length buf)], Pending buf)
      | DErr e rest => Some ([EvErr e (length rest)], Stopped)
      | DMsg m rest =>
        if Nat.eqb (length rest) (length buf) then Some ([EvMsg m (length rest); EvSpin], Stopped)
        else match drain f rest with
             | None => None
             | Some (evs, st) => Some (EvMsg m (length rest) :: evs, st)
             end
      end
    end.

  Fixpoint feed (st : dstate) (chunks : list (list N)) : option (list ev) :=
    match chunks with
    | [] => Some []
    | c :: cs =>
      match st with
      | Stopped => Some []
      | Pending buf =>
        match drain (S (length (buf ++ c))) (buf ++ c) with
        | None => None
        | Some (evs, st') =>
          match feed st' cs with None => None | Some evs' => Some (evs ++ evs') end
        end
      end
    end.

  Definition run_stream (chunks : list (list N)) : option (list ev) := feed (Pending []) chunks.

  (* what the session layer receives: the messages, and the error that ended the stream *)
  Fixpoint msgs_of (l : list ev) : list M :=
    match l with
    | [] => []
    | EvMsg m _ :: r => m :: msgs_of r
    | _ :: r => msgs_of r
    end.

  Fixpoint err_of (l : list ev) : option E :=
    match l with
    | [] => None
    | EvErr e _ :: _ => Some e
    | _ :: r => err_of r
    end.

  Variable v_m : M -> val.
  Variable v_e : E -> list val.

  Definition v_ev (e : ev) : val :=
    match e with
    | EvMsg m r => VL [VN 0; v_m m; VN (N.of_nat r)]
    | EvNeed r => VL [VN 1; VN (N.of_nat r)]
    | EvErr e r => VL (VN 2 :: v_e e ++ [VN (N.of_nat r)])
    | EvSpin => VL [VN 9]
    | EvFuel => VL [VN 8]
    end.

  Definition v_stream (o : option (list ev)) : val :=
    match o with
    | None => VL [VI (Zneg 1)]
    | Some l => VL (map v_ev l)
    end.
End Stream.

Arguments dres : clear implicits.
Arguments ev : clear implicits.
