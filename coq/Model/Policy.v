(* Executable model of route-policy evaluation in table/src/policy.rs
   (Condition::evalute, SingleAsPathMatch::is_match, match_string_set,
   Statement::apply, Policy::apply, PolicyAssignment::apply, apply_import,
   apply_export) and of the attribute helpers it calls in packet/src/bgp.rs
   (AsPathIter, Attribute::as_path_length, as_path_prepend,
   as_path_prepend_confed, new_with_value/new_with_bin/canonical_flags).
   Transcribed arm for arm from the code AFTER the fix: commits listed in
   known_findings.json (the behaviour before them is Model/PolicyPre.v).
   No proofs in this file.

   Conventions: panics are values ([res]); machine integers are [N] with
   explicit wrap / overflow ([profile]); byte strings are [list N];
   addresses are [N] (32 or 128 bits); regular-expression matching is a
   Section variable (an oracle per pattern id). *)
From Coq Require Import List NArith ZArith Bool.
From RB Require Import Base.Val.
Import ListNotations.
Open Scope N_scope.

(* ------------------------------------------------------------------ *)
(* results with panics; build profile                                   *)

Inductive res (A : Type) : Type :=
| Ok (a : A)
| Panic (tag : N).
Arguments Ok {A} a.
Arguments Panic {A} tag.

Definition bind {A B} (r : res A) (f : A -> res B) : res B :=
  match r with Ok a => f a | Panic t => Panic t end.
Notation "'do' x <- r ; k" := (bind r (fun x => k))
  (at level 200, x name, r at level 100, k at level 200).

Inductive profile := Debug | Release.

(* panic tags *)
Definition P_UNWRAP_BINARY : N := 1.    (* attr.binary().unwrap() on a Val attribute *)
Definition P_READ_U8 : N := 2.          (* Cursor read_u8().unwrap() past the end *)
Definition P_UNREACHABLE : N := 3.      (* unreachable!() on an AS_PATH segment type *)
Definition P_INDEX : N := 4.            (* slice index out of bounds *)
Definition P_OVERFLOW : N := 5.         (* arithmetic overflow, debug profile *)
Definition P_TREEBITMAP : N := 6.       (* treebitmap: prefix has host bits set *)

(* ------------------------------------------------------------------ *)
(* data                                                                 *)

Inductive ip := IP4 (a : N) | IP6 (a : N).
Inductive nlri := NV4 (a m : N) | NV6 (a m : N).
Inductive nexthop := NH4 (a : N) | NH6 (a : N) | NH6LL (g l : N).

Definition ip_eqb (x y : ip) : bool :=
  match x, y with
  | IP4 a, IP4 b => a =? b
  | IP6 a, IP6 b => a =? b
  | _, _ => false
  end.

Definition nh_addr (n : nexthop) : ip :=
  match n with NH4 a => IP4 a | NH6 a => IP6 a | NH6LL g _ => IP6 g end.
Definition nh_of_ip (a : ip) : nexthop :=
  match a with IP4 a => NH4 a | IP6 a => NH6 a end.

Inductive adata := DVal (v : N) | DBin (b : list N) | DOpaque (b : list N).
Record attr := { a_code : N; a_flags : N; a_data : adata }.

Definition ORIGIN : N := 1.
Definition AS_PATH : N := 2.
Definition MED : N := 4.
Definition LOCAL_PREF : N := 5.
Definition COMMUNITY : N := 8.
Definition EXT_COMMUNITY : N := 16.
Definition LARGE_COMMUNITY : N := 32.

Definition SEG_SET : N := 1.
Definition SEG_SEQ : N := 2.
Definition SEG_CONFED_SEQ : N := 3.
Definition SEG_CONFED_SET : N := 4.

(* Attribute::canonical_flags *)
Definition canonical_flags (code : N) : option N :=
  match code with
  | 1 | 2 | 3 | 5 | 6 => Some 64
  | 4 | 9 | 10 | 14 | 15 | 26 | 29 => Some 128
  | 7 | 8 | 16 | 17 | 18 | 32 | 40 | 23 => Some 192
  | _ => None
  end.

Definition attr_value (a : attr) : option N :=
  match a_data a with DVal v => Some v | _ => None end.
Definition attr_binary (a : attr) : option (list N) :=
  match a_data a with DVal _ => None | DBin b | DOpaque b => Some b end.

Definition find_attr (code : N) (l : list attr) : option attr :=
  find (fun a => a_code a =? code) l.
Definition retain_not (code : N) (l : list attr) : list attr :=
  filter (fun a => negb (a_code a =? code)) l.

Record source := {
  s_is_local : bool;          (* ptr-equal to the LOCAL_SOURCE static *)
  s_remote_addr : ip;
  s_local_addr : ip;
  s_remote_asn : N;
  s_local_asn : N
}.

(* ------------------------------------------------------------------ *)
(* byte helpers                                                         *)

Definition be32 (b0 b1 b2 b3 : N) : N := ((b0 * 256 + b1) * 256 + b2) * 256 + b3.
Definition u32_bytes (v : N) : list N :=
  [(v / 16777216) mod 256; (v / 65536) mod 256; (v / 256) mod 256; v mod 256].

Fixpoint be_n (acc : N) (b : list N) : N :=
  match b with [] => acc | x :: r => be_n (acc * 256 + x) r end.

(* chunks(k) keeping only the full chunks, each chunk read big-endian *)
Fixpoint chunks_be (fuel : nat) (k : nat) (b : list N) : list N :=
  match fuel with
  | O => []
  | S f =>
      if Nat.ltb (length b) k then []
      else be_n 0 (firstn k b) :: chunks_be f k (skipn k b)
  end.

Definition chunks_of (k : nat) (b : list N) : list N :=
  match k with O => [] | _ => chunks_be (length b) k b end.

Definition n_bytes (k : nat) (v : N) : list N :=
  map (fun i => (v / 256 ^ N.of_nat i) mod 256) (rev (seq 0 k)).

(* ------------------------------------------------------------------ *)
(* AS_PATH: AsPathIter, as_path_length, as_path_prepend                 *)

(* n big-endian u32 values; None when the buffer is too short *)
Fixpoint take_u32s (n : nat) (b : list N) : option (list N * list N) :=
  match n with
  | O => Some ([], b)
  | S k =>
      match b with
      | b0 :: b1 :: b2 :: b3 :: r =>
          match take_u32s k r with
          | Some (v, r') => Some (be32 b0 b1 b2 b3 :: v, r')
          | None => None
          end
      | _ => None
      end
  end.

(* AsPathIter: a short read ends the iteration (ok()?) *)
Fixpoint aspath_segs (fuel : nat) (b : list N) : list (list N) :=
  match fuel with
  | O => []
  | S f =>
      match b with
      | _ :: n :: r =>
          match take_u32s (N.to_nat n) r with
          | Some (v, r') => v :: aspath_segs f r'
          | None => []
          end
      | _ => []
      end
  end.

(* AsPathIter::new(attr): attr.binary().unwrap() *)
Definition aspath_iter (a : attr) : res (list (list N)) :=
  match attr_binary a with
  | None => Panic P_UNWRAP_BINARY
  | Some b => Ok (aspath_segs (length b) b)
  end.

(* Attribute::as_path_length: usize accumulator; a missing count byte ends the
   scan, AS_SET counts 1, AS_SEQUENCE its count, every other type 0;
   set_position may run past the end. *)
Fixpoint aslen_loop (fuel : nat) (b : list N) (acc : N) : N :=
  match fuel with
  | O => acc
  | S f =>
      match b with
      | [] => acc
      | _ :: [] => acc
      | t :: l :: r =>
          aslen_loop f (skipn (N.to_nat (4 * l)) r)
                     (if t =? SEG_SET then acc + 1 else if t =? SEG_SEQ then acc + l else acc)
      end
  end.

Definition as_path_length (a : attr) : res N :=
  match attr_binary a with
  | None => Panic P_UNWRAP_BINARY
  | Some b => Ok (aslen_loop (length b) b 0)
  end.

(* as_path_prepend (seg = 2) / as_path_prepend_confed (seg = 3) *)
Definition as_path_prepend (seg : N) (a : attr) (asn : N) : res attr :=
  match attr_binary a with
  | None => Panic P_UNWRAP_BINARY
  | Some b =>
      match b with
      | [] => Ok {| a_code := a_code a; a_flags := a_flags a;
                    a_data := DBin (seg :: 1 :: u32_bytes asn) |}
      | _ :: [] => Ok {| a_code := a_code a; a_flags := a_flags a;
                         a_data := DBin (seg :: 1 :: u32_bytes asn ++ b) |}
      | b0 :: b1 :: r =>
          if (b0 =? seg) && (b1 <? 255) then
            Ok {| a_code := a_code a; a_flags := a_flags a;
                  a_data := DBin (b0 :: (b1 + 1) :: u32_bytes asn ++ r) |}
          else
            Ok {| a_code := a_code a; a_flags := a_flags a;
                  a_data := DBin (seg :: 1 :: u32_bytes asn ++ b) |}
      end
  end.

Fixpoint prepend_n (n : nat) (seg : N) (a : attr) (asn : N) : res attr :=
  match n with
  | O => Ok a
  | S k => do a' <- as_path_prepend seg a asn; prepend_n k seg a' asn
  end.

Definition empty_as_path : attr := {| a_code := AS_PATH; a_flags := 64; a_data := DBin [] |}.

(* ------------------------------------------------------------------ *)
(* as_path_string (table/src/policy.rs): the AS_PATH as GoBGP prints it   *)

(* u32::to_string: ASCII decimal digits *)
Fixpoint dec_loop (fuel : nat) (n : N) (acc : list N) : list N :=
  match fuel with
  | O => acc
  | S f =>
      let acc' := (48 + n mod 10) :: acc in
      if n / 10 =? 0 then acc' else dec_loop f (n / 10) acc'
  end.
Definition dec_string (n : N) : list N := dec_loop 40 n [].

(* [String]::join(sep) *)
Fixpoint join (sep : list N) (l : list (list N)) : list N :=
  match l with
  | [] => []
  | [x] => x
  | x :: r => x ++ sep ++ join sep r
  end.

(* "{a,b}" AS_SET, "(a b)" AS_CONFED_SEQUENCE, "[a,b]" AS_CONFED_SET, "a b" otherwise *)
Definition seg_string (t : N) (v : list N) : list N :=
  let nums := map dec_string v in
  if t =? SEG_SET then [123] ++ join [44] nums ++ [125]
  else if t =? SEG_CONFED_SEQ then [40] ++ join [32] nums ++ [41]
  else if t =? SEG_CONFED_SET then [91] ++ join [44] nums ++ [93]
  else join [32] nums.

(* a segment whose numbers run past the end of the buffer ends the scan *)
Fixpoint render_segs (fuel : nat) (b : list N) : list (list N) :=
  match fuel with
  | O => []
  | S f =>
      match b with
      | t :: n :: r =>
          match take_u32s (N.to_nat n) r with
          | Some (v, r') => seg_string t v :: render_segs f r'
          | None => []
          end
      | _ => []
      end
  end.

Definition render_path (b : list N) : list N := join [32] (render_segs (length b) b).

(* Attribute::as_path_origin: the last AS of the path when its last segment is
   a non-empty AS_SEQUENCE.  A short read ends the scan (after the repair). *)
Fixpoint origin_loop (fuel : nat) (b : list N) (last : N * list N) : N * list N :=
  match fuel with
  | O => last
  | S f =>
      match b with
      | t :: n :: r =>
          match take_u32s (N.to_nat n) r with
          | Some (v, r') => origin_loop f r' (t, v)
          | None => last
          end
      | _ => last
      end
  end.

Definition as_path_origin (a : attr) : res (option N) :=
  match attr_binary a with
  | None => Panic P_UNWRAP_BINARY
  | Some b =>
      let '(t, v) := origin_loop (length b) b (0, []) in
      Ok (if t =? SEG_SEQ then match rev v with x :: _ => Some x | [] => None end else None)
  end.

(* ------------------------------------------------------------------ *)
(* communities                                                          *)

Definition bin_of (code : N) (l : list attr) : option (list N) :=
  match find_attr code l with
  | Some a => attr_binary a
  | None => None
  end.

Definition communities_from_attr (l : list attr) : list N :=
  match bin_of COMMUNITY l with Some b => chunks_of 4 b | None => [] end.
Definition ext_communities_from_attr (l : list attr) : list N :=
  match bin_of EXT_COMMUNITY l with Some b => chunks_of 8 b | None => [] end.
Definition large_communities_from_attr (l : list attr) : list N :=
  match bin_of LARGE_COMMUNITY l with Some b => chunks_of 12 b | None => [] end.

(* communities_to_attr & co: None when empty *)
Definition comm_attr (code : N) (k : nat) (vals : list N) : option attr :=
  match vals with
  | [] => None
  | _ => match canonical_flags code with
         | Some f => Some {| a_code := code; a_flags := f;
                             a_data := DBin (flat_map (n_bytes k) vals) |}
         | None => None
         end
  end.

Definition new_with_value (code v : N) : option attr :=
  match canonical_flags code with
  | Some f => Some {| a_code := code; a_flags := f; a_data := DVal v |}
  | None => None
  end.

Definition push_opt (l : list attr) (o : option attr) : list attr :=
  match o with Some a => l ++ [a] | None => l end.

(* ext_community_to_string(c).is_some(): which 8-byte values have a string *)
Definition ext_has_string (c : N) : bool :=
  let c0 := (c / 2 ^ 56) mod 256 in
  let c1 := (c / 2 ^ 48) mod 256 in
  let c7 := c mod 256 in
  if ((c0 =? 0) || (c0 =? 1) || (c0 =? 2)) && ((c1 =? 2) || (c1 =? 3)) then true
  else if (c0 =? 3) && (c1 =? 12) then true
  else if (c0 =? 64) && (c1 =? 4) then true
  else if (c0 =? 67) && (c1 =? 0) then c7 <=? 2
  else false.

(* ------------------------------------------------------------------ *)
(* defined sets as stored                                               *)

(* a prefix-set entry: key = address masked to [pe_mask] bits (the treebitmap
   key), raw = the address as configured (kept in Prefix.net) *)
Record pent := { pe_key : N; pe_mask : N; pe_raw : N; pe_min : N; pe_max : N }.
Record pset := {
  ps_v4 : list pent;
  ps_v6 : list pent;
  ps_zero : option (N * N);
  ps_zero6 : option (N * N)
}.

Record ipnet := { n_v6 : bool; n_addr : N; n_mask : N }.

(* SingleAsPathMatch: kind 0 Include 1 LeftMost 2 Origin 3 Only,
   4..7 the Range variants *)
Record single := { sg_kind : N; sg_a : N; sg_b : N }.
Record apset := { ap_single : list single; ap_regex : list N }.

(* a community pattern: ^hi:lo$ of a numeric / well-known / "hi:lo" entry
   (exact), or a general regular expression (oracle, by id) *)
Inductive cpat := CExact (v : N) | CRegex (id : N).

Inductive setv :=
| SPrefix (p : pset)
| SNeighbor (l : list ipnet)
| SAsPath (s : apset)
| SComm (l : list cpat)
| SExt (l : list N)
| SLarge (l : list N).

Definition set_kind (s : setv) : N :=
  match s with
  | SPrefix _ => 0 | SNeighbor _ => 1 | SAsPath _ => 2
  | SComm _ => 3 | SExt _ => 4 | SLarge _ => 5
  end.

Inductive mopt := MAny | MAll | MInvert.
Inductive cmp := CEq | CGe | CLe.
Inductive disp := DPass | DAccept | DReject.
Inductive rtype := RInternal | RExternal | RLocal.

Definition disp_eqb (a b : disp) : bool :=
  match a, b with
  | DPass, DPass | DAccept, DAccept | DReject, DReject => true
  | _, _ => false
  end.

Inductive cond :=
| CSet (name : N) (opt : mopt) (s : setv)
| CAsPathLen (c : cmp) (v : N)
| CNexthop (l : list ip)
| CRpki (st : N)
| CLocalPrefEq (v : N)
| CMedEq (v : N)
| COriginEq (v : N)
| CRouteType (t : rtype)
| CCommCount (c : cmp) (v : N)
| CAfiSafiIn (l : list N).

Inductive nh_action := NhAddress (a : ip) | NhSelf | NhPeer | NhUnchanged.
Inductive catype := CaAdd | CaRemove | CaReplace.

Record actions := {
  ac_nexthop : option nh_action;
  ac_comm : option (catype * list N);
  ac_local_pref : option N;
  ac_med : option (bool * Z);            (* true = Replace, false = Mod; i64 *)
  ac_prepend : option (N * N * bool);    (* asn, repeat, use_left_most *)
  ac_ext : option (catype * list N);
  ac_large : option (catype * list N);
  ac_origin : option N
}.

Record stmt := { st_name : N; st_conds : list cond; st_disp : option disp; st_act : actions }.
Record policy := { p_name : N; p_stmts : list stmt }.
(* as_needs_rpki is the cached PolicyAssignment::needs_rpki: computed when the
   assignment is built, read by the daemon to decide whether evaluation gets the
   RPKI table at all *)
Record assignment := { as_disp : disp; as_pols : list policy; as_needs_rpki : bool }.

(* PolicyAssignment::compute_needs_rpki *)
Definition is_rpki_cond (c : cond) : bool := match c with CRpki _ => true | _ => false end.
Definition compute_needs_rpki (l : list policy) : bool :=
  existsb (fun p => existsb (fun s => existsb is_rpki_cond (st_conds s)) (p_stmts p)) l.

(* the mutable route state threaded through evaluation *)
Record rstate := { r_attrs : list attr; r_nh : option nexthop }.

(* the immutable evaluation context *)
Record ctx := {
  x_src : source;
  x_net : nlri;
  x_orig_nh : option nexthop;
  x_confed : bool;
  x_local : ip;
  x_peer : ip
}.

(* ------------------------------------------------------------------ *)
(* addresses and prefixes                                               *)

(* [a] masked to its first [m] of [w] bits *)
Definition mask_to (w a m : N) : N :=
  if w <=? m then a else (a / 2 ^ (w - m)) * 2 ^ (w - m).

(* treebitmap matches(addr): entries whose key is a prefix of addr *)
Definition key_matches (w addr : N) (e : pent) : bool :=
  (pe_mask e <=? w) && (mask_to w addr (pe_mask e) =? pe_key e).

Definition in_range (lo hi m : N) : bool := (lo <=? m) && (m <=? hi).

Definition pents_match (w addr m : N) (l : list pent) : bool :=
  existsb (fun e => key_matches w addr e && (pe_mask e <=? m) && in_range (pe_min e) (pe_max e) m) l.

Definition zero_match (z : option (N * N)) (m : N) : bool :=
  match z with Some (lo, hi) => in_range lo hi m | None => false end.

Definition pset_matched (p : pset) (n : nlri) : bool :=
  match n with
  | NV4 a m => zero_match (ps_zero p) m || pents_match 32 a m (ps_v4 p)
  | NV6 a m => zero_match (ps_zero6 p) m || pents_match 128 a m (ps_v6 p)
  end.

(* IpNet::contains *)
Definition byte_at (w a i : N) : N := (a / 2 ^ (w - 8 * (i + 1))) mod 256.

Definition net_contains (n : ipnet) (a : ip) : bool :=
  let go (w pa b : N) :=
    let m := n_mask n in
    let dv := m / 8 in
    let r := m mod 8 in
    (pa / 2 ^ (w - 8 * dv) =? b / 2 ^ (w - 8 * dv)) &&
    (if 0 <? r then byte_at w pa dv =? N.land (byte_at w b dv) (255 - (2 ^ (8 - r) - 1)) else true) in
  match a, n_v6 n with
  | IP4 b, false => go 32 (n_addr n) b
  | IP6 b, true => go 128 (n_addr n) b
  | _, _ => false
  end.

(* ------------------------------------------------------------------ *)
(* SingleAsPathMatch::is_match (on the segments AsPathIter yields)       *)

Definition in_rng (lo hi x : N) : bool := (lo <=? x) && (x <=? hi).

Definition single_match (s : single) (segs : list (list N)) : bool :=
  let flat := concat segs in
  let a := sg_a s in
  let b := sg_b s in
  match sg_kind s with
  | 0 => existsb (fun x => x =? a) flat
  | 4 => existsb (in_rng a b) flat
  | 1 => match flat with x :: _ => x =? a | [] => false end
  | 5 => match flat with x :: _ => in_rng a b x | [] => false end
  | 2 => match rev flat with x :: _ => x =? a | [] => false end
  | 6 => match rev flat with x :: _ => in_rng a b x | [] => false end
  | 3 => match flat with [x] => x =? a | _ => false end
  | 7 => match flat with [x] => in_rng a b x | _ => false end
  | _ => false
  end.

Definition cmp_eval (c : cmp) (l v : N) : bool :=
  match c with CEq => l =? v | CGe => v <=? l | CLe => l <=? v end.

Definition IPV4_FAMILY : N := 65537.
Definition IPV6_FAMILY : N := 131073.
Definition nlri_family (n : nlri) : N :=
  match n with NV4 _ _ => IPV4_FAMILY | NV6 _ _ => IPV6_FAMILY end.

Section WithRegex.
  (* regular-expression oracles: pattern id -> subject -> bool.  Subjects are
     the values whose (injective) string form the code matches against:
     a community u32 ("hi:lo"), an extended community (8 bytes, big-endian;
     only those with a string form are offered), a large community (12 bytes). *)
  Variable rx_comm : N -> N -> bool.
  Variable rx_ext : N -> N -> bool.
  Variable rx_large : N -> N -> bool.
  (* a general as-path pattern (by id) against the rendered path *)
  Variable rx_aspath : N -> list N -> bool.
  (* RpkiTable::validate as a function of the route's prefix and origin AS
     (state 0 NotFound, 1 Valid, 2 Invalid; None = validate returns None);
     the outer None = evaluation without an RPKI table *)
  Variable rpki : option (nlri -> N -> option N).

  Definition cpat_match (p : cpat) (c : N) : bool :=
    match p with CExact v => c =? v | CRegex id => rx_comm id c end.

  (* match_string_set *)
  Definition match_set {P} (m : P -> N -> bool) (strs : list N) (pats : list P) (o : mopt) : bool :=
    match o with
    | MAny => existsb (fun s => existsb (fun p => m p s) pats) strs
    | MAll => forallb (fun p => existsb (fun s => m p s) strs) pats
    | MInvert => negb (existsb (fun s => existsb (fun p => m p s) pats) strs)
    end.

  (* Condition::evalute (rpki = None) *)
  Definition cond_eval (x : ctx) (r : rstate) (c : cond) : res bool :=
    match c with
    | CSet _ o (SPrefix p) =>
        if pset_matched p (x_net x)
        then Ok (match o with MAny => true | _ => false end)
        else Ok (match o with MAny => false | _ => true end)
    | CSet _ o (SNeighbor l) =>
        let found := existsb (fun n => net_contains n (x_peer x)) l in
        Ok (match o with MInvert => negb found | _ => found end)
    | CSet _ o (SAsPath s) =>
        let a := find_attr AS_PATH (r_attrs r) in
        (* single matches walk the segments (AsPathIter::new unwraps the binary) *)
        do segs <- (match a, ap_single s with
                    | Some a', _ :: _ => do sg <- aspath_iter a'; Ok (Some sg)
                    | _, _ => Ok None
                    end);
        let single := fun m => match segs with Some sg => single_match m sg | None => false end in
        (* general patterns see the rendered path; it is built only when needed *)
        let path := match ap_regex s with
                    | [] => None
                    | _ => match a with
                           | Some a' => match attr_binary a' with Some b => Some (render_path b) | None => None end
                           | None => None
                           end
                    end in
        let regex := fun id => match path with Some p => rx_aspath id p | None => false end in
        Ok (match o with
            | MAny => existsb single (ap_single s) || existsb regex (ap_regex s)
            | MAll => forallb single (ap_single s) && forallb regex (ap_regex s)
            | MInvert => negb (existsb single (ap_single s) || existsb regex (ap_regex s))
            end)
    | CSet _ o (SComm l) =>
        Ok (match_set cpat_match (communities_from_attr (r_attrs r)) l o)
    | CSet _ o (SExt l) =>
        Ok (match_set rx_ext (filter ext_has_string (ext_communities_from_attr (r_attrs r))) l o)
    | CSet _ o (SLarge l) =>
        Ok (match_set rx_large (large_communities_from_attr (r_attrs r)) l o)
    | CAsPathLen c v =>
        match find_attr AS_PATH (r_attrs r) with
        | Some a => do l <- as_path_length a; Ok (cmp_eval c (l mod 2 ^ 32) v)
        | None => Ok false
        end
    | CNexthop l =>
        Ok (match r_nh r with
            | Some nh => existsb (ip_eqb (nh_addr nh)) l
            | None => false
            end)
    | CRpki st =>
        match rpki with
        | None => Ok false
        | Some validate =>
            do asn <- (match find_attr AS_PATH (r_attrs r) with
                       | Some a => do o <- as_path_origin a;
                                   Ok (match o with Some x => x | None => s_local_asn (x_src x) end)
                       | None => Ok (s_local_asn (x_src x))
                       end);
            Ok (match validate (x_net x) asn with Some v => v =? st | None => false end)
        end
    | CLocalPrefEq v =>
        Ok (match find_attr LOCAL_PREF (r_attrs r) with
            | Some a => match attr_value a with Some w => w =? v | None => false end
            | None => false
            end)
    | CMedEq v =>
        Ok (match find_attr MED (r_attrs r) with
            | Some a => match attr_value a with Some w => w =? v | None => false end
            | None => false
            end)
    | COriginEq v =>
        Ok (match find_attr ORIGIN (r_attrs r) with
            | Some a => match attr_value a with Some w => w =? v | None => false end
            | None => false
            end)
    | CRouteType t =>
        let s := x_src x in
        Ok (match t with
            | RLocal => s_is_local s
            | RInternal => negb (s_is_local s) && (s_remote_asn s =? s_local_asn s)
            | RExternal => negb (s_is_local s) && negb (s_remote_asn s =? s_local_asn s)
            end)
    | CCommCount c v =>
        Ok (cmp_eval c (N.of_nat (length (communities_from_attr (r_attrs r))) mod 2 ^ 32) v)
    | CAfiSafiIn l => Ok (existsb (fun f => f =? nlri_family (x_net x)) l)
    end.

  (* conditions.iter().all(..): short-circuit, in order *)
  Fixpoint conds_all (x : ctx) (r : rstate) (l : list cond) : res bool :=
    match l with
    | [] => Ok true
    | c :: rest =>
        do b <- cond_eval x r c;
        if b then conds_all x r rest else Ok false
    end.

  (* ---------------------------------------------------------------- *)
  (* actions                                                            *)

  Definition ca_apply (t : catype) (existing vals : list N) : list N :=
    match t with
    | CaAdd => existing ++ vals
    | CaRemove => filter (fun c => negb (existsb (N.eqb c) vals)) existing
    | CaReplace => vals
    end.

  Definition I64_MIN : Z := (- 2 ^ 63)%Z.
  Definition I64_MAX : Z := (2 ^ 63 - 1)%Z.
  Definition wrap_i64 (z : Z) : Z := ((z + 2 ^ 63) mod 2 ^ 64 - 2 ^ 63)%Z.

  (* (current as i64).saturating_add(action.value) *)
  Definition sat_add_i64 (a b : Z) : Z :=
    let s := (a + b)%Z in
    if (s <? I64_MIN)%Z then I64_MIN else if (I64_MAX <? s)%Z then I64_MAX else s.

  Definition clamp_u32 (z : Z) : N :=
    if (z <? 0)%Z then 0 else if (4294967295 <? z)%Z then 4294967295 else Z.to_N z.

  Definition act_nexthop (x : ctx) (a : option nh_action) (nh : option nexthop) : option nexthop :=
    match a with
    | None => nh
    | Some (NhAddress i) => Some (nh_of_ip i)
    | Some NhSelf => Some (nh_of_ip (x_local x))
    | Some NhPeer => Some (nh_of_ip (x_peer x))
    | Some NhUnchanged => match x_orig_nh x with Some o => Some o | None => nh end
    end.

  Definition act_comm (a : option (catype * list N)) (l : list attr) : list attr :=
    match a with
    | None => l
    | Some (t, vals) =>
        push_opt (retain_not COMMUNITY l) (comm_attr COMMUNITY 4 (ca_apply t (communities_from_attr l) vals))
    end.

  Definition act_ext (a : option (catype * list N)) (l : list attr) : list attr :=
    match a with
    | None => l
    | Some (t, vals) =>
        push_opt (retain_not EXT_COMMUNITY l)
                 (comm_attr EXT_COMMUNITY 8 (ca_apply t (ext_communities_from_attr l) vals))
    end.

  Definition act_large (a : option (catype * list N)) (l : list attr) : list attr :=
    match a with
    | None => l
    | Some (t, vals) =>
        push_opt (retain_not LARGE_COMMUNITY l)
                 (comm_attr LARGE_COMMUNITY 12 (ca_apply t (large_communities_from_attr l) vals))
    end.

  Definition act_local_pref (a : option N) (l : list attr) : list attr :=
    match a with
    | None => l
    | Some v => push_opt (retain_not LOCAL_PREF l) (new_with_value LOCAL_PREF v)
    end.

  Definition act_origin (a : option N) (l : list attr) : list attr :=
    match a with
    | None => l
    | Some v => push_opt (retain_not ORIGIN l) (new_with_value ORIGIN v)
    end.

  Definition act_med (a : option (bool * Z)) (l : list attr) : list attr :=
    match a with
    | None => l
    | Some (replace, v) =>
        let cur := match find_attr MED l with
                   | Some m => match attr_value m with Some w => w | None => 0 end
                   | None => 0
                   end in
        let nm := if replace then clamp_u32 v else clamp_u32 (sat_add_i64 (Z.of_N cur) v) in
        push_opt (retain_not MED l) (new_with_value MED nm)
    end.

  Definition act_prepend (x : ctx) (a : option (N * N * bool)) (l : list attr) : res (list attr) :=
    match a with
    | None => Ok l
    | Some (asn, rep, leftmost) =>
        if rep =? 0 then Ok l
        else
          let existing := match find_attr AS_PATH l with Some e => e | None => empty_as_path end in
          do asn' <- (if leftmost then
                        do segs <- aspath_iter existing;
                        Ok (match segs with
                            | (v :: _) :: _ => v
                            | _ => asn
                            end)
                      else Ok asn);
          do na <- prepend_n (N.to_nat rep) (if x_confed x then SEG_CONFED_SEQ else SEG_SEQ) existing asn';
          Ok (retain_not AS_PATH l ++ [na])
    end.

  (* Statement::apply *)
  Definition stmt_apply (x : ctx) (s : stmt) (r : rstate) : res (disp * rstate) :=
    do m <- conds_all x r (st_conds s);
    if negb m then Ok (DPass, r)
    else
      let a := st_act s in
      let nh := act_nexthop x (ac_nexthop a) (r_nh r) in
      let l1 := act_comm (ac_comm a) (r_attrs r) in
      let l2 := act_local_pref (ac_local_pref a) l1 in
      let l3 := act_med (ac_med a) l2 in
      do l4 <- act_prepend x (ac_prepend a) l3;
      let l5 := act_ext (ac_ext a) l4 in
      let l6 := act_large (ac_large a) l5 in
      let l7 := act_origin (ac_origin a) l6 in
      Ok (match st_disp s with Some d => d | None => DPass end,
          {| r_attrs := l7; r_nh := nh |}).

  (* Policy::apply *)
  Fixpoint policy_apply (x : ctx) (l : list stmt) (r : rstate) : res (disp * rstate) :=
    match l with
    | [] => Ok (DPass, r)
    | s :: rest =>
        do dr <- stmt_apply x s r;
        let '(d, r') := dr in
        if disp_eqb d DPass then policy_apply x rest r' else Ok (d, r')
    end.

  (* PolicyAssignment::apply *)
  Fixpoint pols_apply (x : ctx) (dflt : disp) (l : list policy) (r : rstate)
    : res (disp * rstate) :=
    match l with
    | [] => Ok (dflt, r)
    | p :: rest =>
        do dr <- policy_apply x (p_stmts p) r;
        let '(d, r') := dr in
        if disp_eqb d DPass then pols_apply x dflt rest r' else Ok (d, r')
    end.

  Definition eval_code (a : assignment) (x : ctx) (r : rstate) : res (disp * rstate) :=
    pols_apply x (as_disp a) (as_pols a) r.

  (* apply_export *)
  Definition apply_export := eval_code.

  (* apply_import: original nexthop = current, never towards a confederation
     member, addresses from the source; result (filtered, attrs, nexthop) *)
  Definition apply_import (a : assignment) (src : source) (n : nlri) (r : rstate)
    : res (bool * rstate) :=
    let x := {| x_src := src; x_net := n; x_orig_nh := r_nh r; x_confed := false;
                x_local := s_local_addr src; x_peer := s_remote_addr src |} in
    do dr <- eval_code a x r;
    Ok (disp_eqb (fst dr) DReject, snd dr).
End WithRegex.

(* ------------------------------------------------------------------ *)
(* printers                                                             *)

Definition v_ip (a : ip) : val :=
  match a with
  | IP4 a => VL [VN 4; VN a]
  | IP6 a => VL [VN 6; VN (a / 2 ^ 64); VN (a mod 2 ^ 64)]
  end.

Definition v_nh (n : option nexthop) : val :=
  match n with
  | None => VL []
  | Some (NH4 a) => VL [VL [VN 4; VN a]]
  | Some (NH6 a) => VL [VL [VN 6; VN (a / 2 ^ 64); VN (a mod 2 ^ 64)]]
  | Some (NH6LL g l) => VL [VL [VN 7; VN (g / 2 ^ 64); VN (g mod 2 ^ 64); VN (l / 2 ^ 64); VN (l mod 2 ^ 64)]]
  end.

Definition v_attr (a : attr) : val :=
  match a_data a with
  | DVal v => VL [VN 0; VN (a_code a); VN (a_flags a); VN v]
  | DBin b => VL [VN 1; VN (a_code a); VN (a_flags a); VNs b]
  | DOpaque b => VL [VN 2; VN (a_code a); VN (a_flags a); VNs b]
  end.

Definition disp_code (d : disp) : N :=
  match d with DPass => 0 | DAccept => 1 | DReject => 2 end.

Definition v_rstate (r : rstate) : list val := [VList v_attr (r_attrs r); v_nh (r_nh r)].
