(* The deferral-relevant slice of table/src/lib.rs (Table::start_deferral,
   Table::insert, Table::end_deferral / collect_loc_rib_paths) and the driver
   glue of daemon/src/event/mod.rs that connects RestartingDeferral to it
   (start-up in serve(), process_restarting_outputs,
   gr_selection_deferral_timer_expired, the PeerEstablished / EorReceived /
   PeerWithdrawn call sites).  No proofs in this file.

   The slice keeps, per family, the deferring flag and per prefix the paths
   (peer, remote path id, filtered).  Best-path order, attributes, next hops,
   statistics, prefix limits and destination ids are not in the slice (they are
   the subject of the full RIB model); what is observed of insert() is whether
   it returned Changed and how many unfiltered paths the change carries, and of
   end_deferral() the set of (prefix, number of unfiltered paths).

   insert() returns Changed iff best_changed || any_changed.  With
   any_changed = !filtered || replaced-was-unfiltered, and best_changed only
   possible when an unfiltered path is added, replaced or removed, this is
   any_changed; every insert of the harness carries a fresh attribute block. *)
From Coq Require Import List NArith Bool.
From RB Require Import Base.Val Model.Deferral.
Import ListNotations.
Open Scope N_scope.

(* pa_nh: the next hop (0 = none); pa_nhinv: FLAG_NEXTHOP_INVALID; pa_stale: Source.stale (the
   harness gives every (peer, family) a new Source after a restale, as a new session does) *)
Record path := { pa_peer : N; pa_id : N; pa_filtered : bool; pa_nh : N; pa_nhinv : bool; pa_stale : bool }.

Definition mk_path (peer pid : N) (filtered : bool) (nh : N) (nhinv : bool) : path :=
  {| pa_peer := peer; pa_id := pid; pa_filtered := filtered; pa_nh := nh; pa_nhinv := nhinv; pa_stale := false |}.
Definition set_stale (p : path) : path :=
  {| pa_peer := pa_peer p; pa_id := pa_id p; pa_filtered := pa_filtered p; pa_nh := pa_nh p;
     pa_nhinv := pa_nhinv p; pa_stale := true |}.
Definition set_nhinv (p : path) (b : bool) : path :=
  {| pa_peer := pa_peer p; pa_id := pa_id p; pa_filtered := pa_filtered p; pa_nh := pa_nh p;
     pa_nhinv := b; pa_stale := pa_stale p |}.

Record ribf := { rf_deferring : bool; rf_dests : list (N * list path) }.

Definition table := list (fam * ribf).

Definition rib_new : ribf := {| rf_deferring := false; rf_dests := [] |}.

Fixpoint t_get (t : table) (f : fam) : option ribf :=
  match t with
  | [] => None
  | (k, v) :: r => if k =? f then Some v else t_get r f
  end.

Fixpoint t_set (t : table) (f : fam) (v : ribf) : table :=
  match t with
  | [] => [(f, v)]
  | (k, w) :: r => if k =? f then (k, v) :: r else (k, w) :: t_set r f v
  end.

Fixpoint d_get (l : list (N * list path)) (n : N) : option (list path) :=
  match l with
  | [] => None
  | (k, v) :: r => if k =? n then Some v else d_get r n
  end.

Fixpoint d_set (l : list (N * list path)) (n : N) (v : list path) : list (N * list path) :=
  match l with
  | [] => [(n, v)]
  | (k, w) :: r => if k =? n then (k, v) :: r else (k, w) :: d_set r n v
  end.

Definition same_path (peer pid : N) (p : path) : bool := (pa_peer p =? peer) && (pa_id p =? pid).

(* Destination::unfiltered_iter: neither filtered by import policy nor next-hop-invalid *)
Definition eligible (p : path) : bool := negb (pa_filtered p) && negb (pa_nhinv p).
Definition unfiltered (l : list path) : list path := filter eligible l.

Definition n_unfiltered (l : list path) : N := N.of_nat (length (unfiltered l)).

Inductive tabop :=
| TStart (f : fam)
| TInsert (f : fam) (net peer pid : N) (filtered : bool) (nh : N) (nhinv : bool)
| TEnd (f : fam)
| TRemove (f : fam) (net peer pid : N)      (* Table::remove: a withdrawal *)
| TDrop (f : fam) (peer : N)                (* Table::drop: the peer's session ended *)
| TRestale (f : fam) (peer : N)             (* Table::restale: the peer's paths become stale *)
| TDropStale (f : fam) (peer : N)           (* Table::drop_stale *)
| TNhValid (nh : N) (reachable : bool).     (* Table::update_nexthop_validity, every family *)

Inductive tabres :=
| RUnit
| RNoChange
| RChanged (net npaths : N)
| RChanges (l : list (N * N))
| RChangesF (l : list (fam * N * N)).

(* Table::start_deferral *)
Definition t_start (t : table) (f : fam) : table :=
  match t_get t f with
  | Some r => t_set t f {| rf_deferring := true; rf_dests := rf_dests r |}
  | None => t_set t f {| rf_deferring := true; rf_dests := [] |}
  end.

(* Table::insert (slice) *)
Definition t_insert (t : table) (f : fam) (net peer pid : N) (filtered : bool) (nh : N) (nhinv : bool)
  : table * tabres :=
  let r := match t_get t f with Some r => r | None => rib_new end in
  let old := match d_get (rf_dests r) net with Some l => l | None => [] end in
  let replaced_unfiltered := existsb (fun p => same_path peer pid p && negb (pa_filtered p)) old in
  let kept := filter (fun p => negb (same_path peer pid p)) old in
  let new := kept ++ [mk_path peer pid filtered nh nhinv] in
  let r' := {| rf_deferring := rf_deferring r; rf_dests := d_set (rf_dests r) net new |} in
  let t' := t_set t f r' in
  if rf_deferring r then (t', RNoChange)
  else if negb filtered || replaced_unfiltered then (t', RChanged net (n_unfiltered new))
       else (t', RNoChange).

(* end_deferral reports every destination of the family, also one left without an eligible path
   (count 0) *)
Definition loc_rib (r : ribf) : list (N * N) :=
  map (fun e => (fst e, n_unfiltered (snd e))) (rf_dests r).

(* Table::end_deferral *)
Definition t_end (t : table) (f : fam) : table * list (N * N) :=
  match t_get t f with
  | Some r => (t_set t f {| rf_deferring := false; rf_dests := rf_dests r |}, loc_rib r)
  | None => (t, [])
  end.

Definition d_remove (l : list (N * list path)) (n : N) : list (N * list path) :=
  filter (fun e => negb (fst e =? n)) l.

(* Table::remove (slice); while the family is deferring no change is returned (fix C11-2) *)
Definition t_remove (t : table) (f : fam) (net peer pid : N) : table * tabres :=
  match t_get t f with
  | None => (t, RNoChange)
  | Some r =>
      match d_get (rf_dests r) net with
      | None => (t, RNoChange)
      | Some old =>
          match filter (same_path peer pid) old with
          | [] => (t, RNoChange)
          | removed :: _ =>
              let kept := filter (fun p => negb (same_path peer pid p)) old in
              let dests := match kept with [] => d_remove (rf_dests r) net | _ => d_set (rf_dests r) net kept end in
              let t' := t_set t f {| rf_deferring := rf_deferring r; rf_dests := dests |} in
              if pa_filtered removed || rf_deferring r then (t', RNoChange)
              else (t', RChanged net (n_unfiltered kept))
          end
      end
  end.

(* Table::drop (slice): one change per destination that loses an unfiltered path of the peer *)
Definition t_drop (t : table) (f : fam) (peer : N) : table * tabres :=
  match t_get t f with
  | None => (t, RChanges [])
  | Some r =>
      let of_peer := fun p : path => pa_peer p =? peer in
      let changes :=
        flat_map (fun e => if existsb (fun p => of_peer p && eligible p) (snd e)
                           then [(fst e, n_unfiltered (filter (fun p => negb (of_peer p)) (snd e)))] else [])
                 (rf_dests r) in
      let dests :=
        flat_map (fun e => match filter (fun p => negb (of_peer p)) (snd e) with
                           | [] => []
                           | l => [(fst e, l)]
                           end) (rf_dests r) in
      (* if rt.deferring { changes.clear() }   (fix C11-2) *)
      (t_set t f {| rf_deferring := rf_deferring r; rf_dests := dests |},
       RChanges (if rf_deferring r then [] else changes))
  end.

(* Table::restale (slice): the peer's paths are marked; one change per destination in which the
   peer has an unfiltered path (best_changed alone cannot occur without ties in the order) *)
Definition t_restale (t : table) (f : fam) (peer : N) : table * tabres :=
  match t_get t f with
  | None => (t, RChanges [])
  | Some r =>
      let of_peer := fun p : path => pa_peer p =? peer in
      let changes :=
        flat_map (fun e => if existsb (fun p => of_peer p && negb (pa_filtered p)) (snd e)
                           then [(fst e, n_unfiltered (snd e))] else []) (rf_dests r) in
      let dests := map (fun e => (fst e, map (fun p => if of_peer p then set_stale p else p) (snd e))) (rf_dests r) in
      (t_set t f {| rf_deferring := rf_deferring r; rf_dests := dests |},
       RChanges (if rf_deferring r then [] else changes))
  end.

(* Table::drop_stale (slice) *)
Definition t_drop_stale (t : table) (f : fam) (peer : N) : table * tabres :=
  match t_get t f with
  | None => (t, RChanges [])
  | Some r =>
      let sel := fun p : path => (pa_peer p =? peer) && pa_stale p in
      let changes :=
        flat_map (fun e => if existsb (fun p => sel p && eligible p) (snd e)
                           then [(fst e, n_unfiltered (filter (fun p => negb (sel p)) (snd e)))] else [])
                 (rf_dests r) in
      let dests :=
        flat_map (fun e => match filter (fun p => negb (sel p)) (snd e) with
                           | [] => []
                           | l => [(fst e, l)]
                           end) (rf_dests r) in
      (t_set t f {| rf_deferring := rf_deferring r; rf_dests := dests |},
       RChanges (if rf_deferring r then [] else changes))
  end.

(* Table::update_nexthop_validity (slice): every family; one change per destination in which
   a flag flipped, none for a deferring family *)
Definition nh_flip (nh : N) (reachable : bool) (p : path) : path :=
  if (pa_nh p =? nh) && negb (nh =? 0) then set_nhinv p (negb reachable) else p.
Definition nh_hit (nh : N) (reachable : bool) (p : path) : bool :=
  (pa_nh p =? nh) && negb (nh =? 0) && negb (Bool.eqb (pa_nhinv p) (negb reachable)).
Definition t_nhvalid (t : table) (nh : N) (reachable : bool) : table * tabres :=
  (map (fun kr => (fst kr, {| rf_deferring := rf_deferring (snd kr);
                              rf_dests := map (fun e => (fst e, map (nh_flip nh reachable) (snd e))) (rf_dests (snd kr)) |})) t,
   RChangesF (flat_map (fun kr =>
                if rf_deferring (snd kr) then []
                else flat_map (fun e => if existsb (nh_hit nh reachable) (snd e)
                                        then [(fst kr, fst e, n_unfiltered (map (nh_flip nh reachable) (snd e)))]
                                        else []) (rf_dests (snd kr))) t)).

Definition t_step (t : table) (o : tabop) : table * tabres :=
  match o with
  | TStart f => (t_start t f, RUnit)
  | TInsert f net peer pid filtered nh nhinv => t_insert t f net peer pid filtered nh nhinv
  | TEnd f => let '(t', l) := t_end t f in (t', RChanges l)
  | TRemove f net peer pid => t_remove t f net peer pid
  | TDrop f peer => t_drop t f peer
  | TRestale f peer => t_restale t f peer
  | TDropStale f peer => t_drop_stale t f peer
  | TNhValid nh reachable => t_nhvalid t nh reachable
  end.

Definition t_deferring (t : table) (f : fam) : bool :=
  match t_get t f with Some r => rf_deferring r | None => false end.

(* ------------------------------------------------------------------ glue *)

(* what the driver distributes to the peers *)
Inductive ann :=
| AnnInsert (f : fam) (net npaths : N)           (* Changed returned by an insert *)
| AnnRelease (f : fam) (nets : list (N * N)).    (* the changes of one end_deferral(f) call *)

Record sys := {
  sys_rd : option rdstate;      (* Global::selection_deferral *)
  sys_timer : option N;         (* Global::selection_deferral_timer: armed with this duration *)
  sys_tab : table;
  sys_log : list ann            (* oldest first *)
}.

Inductive sysev :=
| EvRd (i : rdinput)
| EvInsert (f : fam) (net peer pid : N) (filtered : bool).

(* TableManager::end_deferral_families *)
Fixpoint end_families (t : table) (log : list ann) (l : list fam) : table * list ann :=
  match l with
  | [] => (t, log)
  | f :: r => let '(t', ch) := t_end t f in end_families t' (log ++ [AnnRelease f ch]) r
  end.

Definition fdc_of (outs : list rdoutput) : list fam :=
  flat_map (fun o => match o with FamilyDeferralComplete f => [f] | _ => [] end) outs.

(* the last EndDeferral of the list wins (end_remaining = Some(remaining)) *)
Definition end_of (outs : list rdoutput) : option (list fam) :=
  fold_left (fun acc o => match o with EndDeferral l => Some l | _ => acc end) outs None.

(* the last StartDeferralTimer of the list wins; flatten() *)
Definition timer_of (outs : list rdoutput) : option N :=
  fold_left (fun acc o => match o with StartDeferralTimer d => d | _ => acc end) outs None.

(* process_restarting_outputs, given the machine left by process() *)
Definition apply_rd_outputs (s : sys) (rd' : rdstate) (outs : list rdoutput) : sys :=
  let '(t1, log1) := match fdc_of outs with
                     | [] => (sys_tab s, sys_log s)
                     | l => end_families (sys_tab s) (sys_log s) l
                     end in
  match end_of outs with
  | Some rem =>
      let '(t2, log2) := match rem with [] => (t1, log1) | _ => end_families t1 log1 rem end in
      (* timer handle taken and aborted; selection_deferral = None; a duration
         returned to the GrSessionEstablished call site would still be armed *)
      {| sys_rd := None; sys_timer := timer_of outs; sys_tab := t2; sys_log := log2 |}
  | None =>
      {| sys_rd := Some rd';
         sys_timer := match timer_of outs with Some d => Some d | None => sys_timer s end;
         sys_tab := t1; sys_log := log1 |}
  end.

(* serve(): RestartingDeferral::new, start_deferral_families, selection_deferral = Some *)
Definition sys_init (gr_peers : list (peer * list fam)) (d : option N) : sys :=
  let '(rd, outs) := rd_new gr_peers d in
  if is_completed rd then {| sys_rd := None; sys_timer := None; sys_tab := []; sys_log := [] |}
  else
    let fams := flat_map (fun o => match o with DeferFamilies l => l | _ => [] end) outs in
    {| sys_rd := Some rd; sys_timer := None;
       sys_tab := fold_left t_start fams []; sys_log := [] |}.

Definition sys_step (s : sys) (e : sysev) : sys :=
  match e with
  | EvRd i =>
      match sys_rd s with
      | Some rd => let '(rd', outs) := rd_step rd i in apply_rd_outputs s rd' outs
      | None => s
      end
  | EvInsert f net peer pid filtered =>
      let '(t', res) := t_insert (sys_tab s) f net peer pid filtered 0 false in
      {| sys_rd := sys_rd s; sys_timer := sys_timer s; sys_tab := t';
         sys_log := match res with RChanged n k => sys_log s ++ [AnnInsert f n k] | _ => sys_log s end |}
  end.

Definition sys_run (s : sys) (evs : list sysev) : sys := fold_left sys_step evs s.

(* ------------------------------------------------------------ observation *)

Definition v_tabres (r : tabres) : val :=
  match r with
  | RUnit => VL []
  | RNoChange => VL [VN 0]
  | RChanged n k => VL [VN 1; VN n; VN k]
  | RChanges l => VL [VN 2; VList VPairN l]
  | RChangesF l => VL [VN 3; VList (fun x => VL [VN (fst (fst x)); VN (snd (fst x)); VN (snd x)]) l]
  end.

Fixpoint observe_tab (t : table) (ops : list tabop) : list val :=
  match ops with
  | [] => []
  | o :: r => let '(t', res) := t_step t o in
              VL [v_tabres res; VB (match o with TStart f | TInsert f _ _ _ _ _ _ | TEnd f | TRemove f _ _ _ | TDrop f _ | TRestale f _
                                  | TDropStale f _ => t_deferring t' f | TNhValid _ _ => false end)]
                :: observe_tab t' r
  end.

Definition run_tab_case (ops : list tabop) : val := VL (observe_tab [] ops).

(* the observer peer sees one NlriChange (family, prefix, number of paths) per
   announcement; the changes of one end_deferral call arrive in hash order *)
Definition v_ann (a : ann) : list val :=
  match a with
  | AnnInsert f n k => [VL [VN f; VN n; VN k]]
  | AnnRelease f l => map (fun e => VL [VN f; VN (fst e); VN (snd e)]) l
  end.

(* after every event: is selection_deferral still Some, is the timer handle
   present, the deferring flag of the listed families, what was distributed *)
Fixpoint observe_sys (s : sys) (fams : list fam) (evs : list sysev) : list val :=
  match evs with
  | [] => []
  | e :: r =>
      let s' := sys_step s e in
      let newlog := skipn (length (sys_log s)) (sys_log s') in
      VL [VB (match sys_rd s' with Some _ => true | None => false end);
          VB (match sys_timer s' with Some _ => true | None => false end);
          VL (map (fun f => VB (t_deferring (sys_tab s') f)) fams);
          VL (flat_map v_ann newlog)] :: observe_sys s' fams r
  end.

Definition run_sys_case (gr_peers : list (peer * list fam)) (d : option N) (fams : list fam)
           (evs : list sysev) : val :=
  let s := sys_init (mk_peers gr_peers) d in
  VL [VB (match sys_rd s with Some _ => true | None => false end);
      VL (map (fun f => VB (t_deferring (sys_tab s) f)) fams);
      VL (observe_sys s fams evs)].
