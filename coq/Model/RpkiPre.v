(* RpkiTable::validate as it was BEFORE the `fix:` commits of property C12
   (repository commit e40a5c0 and earlier; validate_pre2 = after the first of them, a1f6617).  Kept only so that the
   refutation lemmas of Proofs/Rpki.v (C12_*_refuted) are about a faithful
   model of that code; the current code is Model/Rpki.v.  No proofs here.

   Pre-fix candidate lookup:
       let mut addr = addr_bytes;  addr.drain(mask.div_ceil(8) as usize..);
       for (ipnet, entry) in m.iter_prefix(&addr) { ... }
   i.e. every entry whose key *starts with* the route's address cut to whole
   octets: VRPs for more-specific prefixes are found, covering VRPs are found
   only if the octets of the route happen to be a byte prefix of the VRP's.
   Pre-fix origin: as_path_origin() == None (AS_SET tail included) falls back
   to the session's local AS. *)
From Coq Require Import List NArith Bool ZArith.
From RB Require Import Base.Val Model.Rpki.
Import ListNotations.
Open Scope N_scope.

Definition cands_pre (addr : list N) (mask : N) (m : trie) : pres trie :=
  let n := N.to_nat (div_ceil8 mask) in
  if (length addr <? n)%nat then PPanic        (* Vec::drain(start..) with start > len *)
  else POk (iter_prefix (firstn n addr) m).

Definition origin_asn_pre (local_asn : N) (attrs : list (N * list N)) : pres N :=
  match find (fun a => fst a =? AS_PATH) attrs with
  | Some a =>
      match as_path_origin (snd a) with
      | PPanic => PPanic
      | POk (Some asn) => POk asn
      | POk None => POk local_asn
      end
  | None => POk local_asn
  end.

Definition validate_pre := validate_with cands_pre origin_asn_pre.

(* the state between the two fix commits: covering lookup, old origin rule *)
Definition validate_pre2 := validate_with cands_cover origin_asn_pre.

Definition run_case_pre (ops : list op) : val := run_case_with validate_pre ops.
