(* Executable model of the export pipeline of daemon/src/event/export.rs
   (process_nlri_change and everything it calls), of the inbound loop checks
   (is_as_loop in export.rs, applied by the route extraction of PeerSession::rx_msg;
   the ORIGINATOR_ID / CLUSTER_LIST test at the top of PeerSession::rx_update in
   event/mod.rs) and of the AS_PATH edits of
   packet/src/bgp.rs (as_path_prepend, as_path_prepend_confed,
   as_path_strip_confed, as_path_count).  No proofs in this file.

   Conventions.
   * An attribute is (code, flags, data); data is what AttributeData is:
     Val(u32) | Bin(bytes) | Opaque(bytes).  Bytes are N in 0..255, u32 are N.
   * AS_PATH is kept as the RAW byte string the code edits (type, count, count
     4-octet AS numbers, repeated); the segment view used by the Spec is
     [encode_path] below.  Every slice index / Cursor read / unwrap of the Rust
     is a [Panic] branch here.
   * Source::is_local / is_kernel are pointer comparisons against two statics;
     the model has three constructors instead (the statics' field values are
     the ones written in table/src/lib.rs).
   * FnvHashSet iteration order (the order of the withdrawals in the Add-Path
     branch) is unspecified: the model emits them sorted by path id and the
     harness sorts that run too.
   * inject_local_pref_if_absent uses partition_point (binary search) on a
     vector that is not necessarily sorted by code; the model inserts before
     the first attribute whose code is >= 5, which is the partition point
     whenever the vector is partitioned; for other inputs the position is
     unspecified and the comparison sorts (gen/c09.py, canon). *)
From Coq Require Import List NArith ZArith Bool.
From RB Require Import Base.Val.
Import ListNotations.
Open Scope N_scope.

(* ------------------------------------------------------------ panics *)
Inductive res (A : Type) := Ok (a : A) | Panic.
Arguments Ok {A} a.
Arguments Panic {A}.

Definition rbind {A B} (r : res A) (f : A -> res B) : res B :=
  match r with Ok a => f a | Panic => Panic end.

Fixpoint rmap {A B} (f : A -> res B) (l : list A) : res (list B) :=
  match l with
  | [] => Ok []
  | x :: t => rbind (f x) (fun y => rbind (rmap f t) (fun t' => Ok (y :: t')))
  end.

(* ------------------------------------------------------------ attributes *)
Inductive adata := DVal (v : N) | DBin (b : list N) | DOpaque (b : list N).
Record attr := { a_code : N; a_flags : N; a_data : adata }.

Definition ORIGIN : N := 1.
Definition AS_PATH : N := 2.
Definition MED : N := 4.
Definition LOCAL_PREF : N := 5.
Definition COMMUNITY : N := 8.
Definition ORIGINATOR_ID : N := 9.
Definition CLUSTER_LIST : N := 10.
Definition AIGP : N := 26.

Definition FLAG_PARTIAL : N := 32.
Definition FLAG_TRANSITIVE : N := 64.
Definition FLAG_OPTIONAL : N := 128.

Definition SEG_SET : N := 1.
Definition SEG_SEQ : N := 2.
Definition SEG_CONFED_SEQ : N := 3.
Definition SEG_CONFED_SET : N := 4.

Definition DEFAULT_LOCAL_PREF : N := 100.

Definition has_code (c : N) (l : list attr) : bool := existsb (fun a => a_code a =? c) l.
Definition find_code (c : N) (l : list attr) : option attr := find (fun a => a_code a =? c) l.

(* Attribute::binary() *)
Definition binary (a : attr) : option (list N) :=
  match a_data a with DVal _ => None | DBin b => Some b | DOpaque b => Some b end.
(* Attribute::value() *)
Definition value (a : attr) : option N :=
  match a_data a with DVal v => Some v | _ => None end.
Definition is_opaque (a : attr) : bool :=
  match a_data a with DOpaque _ => true | _ => false end.
Definition is_transitive (a : attr) : bool := N.testbit (a_flags a) 6.
Definition with_partial_bit (a : attr) : attr :=
  {| a_code := a_code a; a_flags := N.lor (a_flags a) FLAG_PARTIAL; a_data := a_data a |}.

(* ------------------------------------------------------------ bytes *)
Definition be32 (v : N) : list N :=
  [ (v / 16777216) mod 256; (v / 65536) mod 256; (v / 256) mod 256; v mod 256 ].

Definition rd32 (a b c d : N) : N := a * 16777216 + b * 65536 + c * 256 + d.

Fixpoint bytes_eqb (a b : list N) : bool :=
  match a, b with
  | [], [] => true
  | x :: a', y :: b' => (x =? y) && bytes_eqb a' b'
  | _, _ => false
  end.

(* slice.chunks(4).any(|c| c == pat)   (pat has 4 bytes) *)
Fixpoint chunks4_any (fuel : nat) (pat : list N) (b : list N) : bool :=
  match fuel with
  | O => false
  | S f =>
    match b with
    | [] => false
    | _ => bytes_eqb (firstn 4 b) pat || chunks4_any f pat (skipn 4 b)
    end
  end.
Definition chunks4_contains (pat b : list N) : bool := chunks4_any (S (length b)) pat b.

(* ------------------------------------------------------------ AS_PATH edits (packet/src/bgp.rs) *)
(* as_path_prepend (ty = 2) and as_path_prepend_confed (ty = 3) differ only in
   the segment type; u8 arithmetic buf[1] + 1 cannot overflow because of the
   < 255 test; since a62a64e / 0db415e the head test is guarded by len >= 2, so
   no byte string makes them panic. *)
Definition path_prepend_b (ty asn : N) (buf : list N) : res (list N) :=
  match buf with
  | [] => Ok ([ty; 1] ++ be32 asn)
  | b0 :: rest =>
    if b0 =? ty then
      match rest with
      | [] => Ok ([ty; 1] ++ be32 asn ++ buf)      (* len >= 2 guard: a one-byte buffer is kept behind a new segment *)
      | b1 :: rest' =>
        if b1 <? 255 then Ok (b0 :: (b1 + 1) :: be32 asn ++ rest')
        else Ok ([ty; 1] ++ be32 asn ++ buf)
      end
    else Ok ([ty; 1] ++ be32 asn ++ buf)
  end.

Definition is_confed_seg (t : N) : bool := (t =? SEG_CONFED_SEQ) || (t =? SEG_CONFED_SET).

(* as_path_strip_confed: the Cursor may be positioned past the end (the loop
   then stops); the second read_u8().unwrap() and the slice of a kept segment
   are the panics. *)
Fixpoint strip_confed_fuel (fuel : nat) (buf : list N) : res (list N) :=
  match fuel with
  | O => Ok []
  | S f =>
    match buf with
    | [] => Ok []
    | [_] => Panic
    | t :: l :: rest =>
      let n := (4 * N.to_nat l)%nat in
      if is_confed_seg t then strip_confed_fuel f (skipn n rest)
      else if Nat.ltb (length rest) n then Panic
      else rbind (strip_confed_fuel f (skipn n rest))
                 (fun r => Ok (t :: l :: firstn n rest ++ r))
    end
  end.
Definition path_strip_confed_b (buf : list N) : res (list N) :=
  strip_confed_fuel (S (length buf)) buf.

(* number of occurrences of asn among the first 4*cnt bytes read as u32s *)
Fixpoint count_u32 (cnt : nat) (asn : N) (b : list N) : option (N * list N) :=
  match cnt with
  | O => Some (0, b)
  | S k =>
    match b with
    | x0 :: x1 :: x2 :: x3 :: r =>
      match count_u32 k asn r with
      | Some (n, r') => Some ((if rd32 x0 x1 x2 x3 =? asn then 1 else 0) + n, r')
      | None => None
      end
    | _ => None
    end
  end.

(* as_path_count: None is the io::Error of a short read *)
Fixpoint path_count_fuel (fuel : nat) (asn : N) (buf : list N) : option N :=
  match fuel with
  | O => Some 0
  | S f =>
    match buf with
    | [] => Some 0
    | [_] => None
    | _ :: l :: rest =>
      match count_u32 (N.to_nat l) asn rest with
      | None => None
      | Some (n, r) =>
        match path_count_fuel f asn r with
        | Some m => Some (n + m)
        | None => None
        end
      end
    end
  end.
Definition path_count_b (asn : N) (buf : list N) : option N :=
  path_count_fuel (S (length buf)) asn buf.

(* the attribute-level wrappers: self.binary().unwrap() *)
Definition attr_with_bin (a : attr) (b : list N) : attr :=
  {| a_code := a_code a; a_flags := a_flags a; a_data := DBin b |}.

Definition as_path_prepend (ty asn : N) (a : attr) : res attr :=
  match binary a with
  | None => Panic
  | Some buf => rbind (path_prepend_b ty asn buf) (fun b => Ok (attr_with_bin a b))
  end.

Definition as_path_strip_confed (a : attr) : res attr :=
  match binary a with
  | None => Panic
  | Some buf => rbind (path_strip_confed_b buf) (fun b => Ok (attr_with_bin a b))
  end.

(* as_path_count(asn).is_ok_and(|n| n > 0) *)
Definition as_path_has (asn : N) (a : attr) : res bool :=
  match binary a with
  | None => Panic
  | Some buf => Ok (match path_count_b asn buf with Some n => 0 <? n | None => false end)
  end.

Definition empty_as_path : attr := {| a_code := AS_PATH; a_flags := FLAG_TRANSITIVE; a_data := DBin [] |}.

(* ------------------------------------------------------------ roles, sources, contexts *)
Inductive role := Ebgp | RsClient | Ibgp | IbgpRrClient | ConfedEbgp.

Definition role_code (r : role) : N :=
  match r with Ebgp => 0 | RsClient => 1 | Ibgp => 2 | IbgpRrClient => 3 | ConfedEbgp => 4 end.
Definition role_eqb (a b : role) : bool := role_code a =? role_code b.
Definition role_is_ibgp (r : role) : bool :=
  match r with Ibgp | IbgpRrClient => true | _ => false end.

Inductive ipaddr := IP4 (b : list N) | IP6 (b : list N).
Definition ip_eqb (a b : ipaddr) : bool :=
  match a, b with
  | IP4 x, IP4 y => bytes_eqb x y
  | IP6 x, IP6 y => bytes_eqb x y
  | _, _ => false
  end.
Definition ip_bytes (a : ipaddr) : list N := match a with IP4 b => b | IP6 b => b end.
Definition ip_unspecified (a : ipaddr) : bool := forallb (fun x => x =? 0) (ip_bytes a).

Inductive nexthop := NhV4 (a : list N) | NhV6 (a : list N) | NhV6LL (a ll : list N).
Definition nh_addr (n : nexthop) : ipaddr :=
  match n with NhV4 a => IP4 a | NhV6 a => IP6 a | NhV6LL a _ => IP6 a end.

Record peer_src := {
  ps_raddr : ipaddr;
  ps_rasn : N;
  ps_lasn : N;
  ps_rid : N;
  ps_role : role;
  ps_llgr : bool
}.
Inductive source := SrcLocal | SrcKernel | SrcPeer (p : peer_src).

Definition zero4 : list N := [0; 0; 0; 0].
Definition src_raddr (s : source) : ipaddr :=
  match s with SrcPeer p => ps_raddr p | _ => IP4 zero4 end.
Definition src_rasn (s : source) : N := match s with SrcPeer p => ps_rasn p | _ => 0 end.
Definition src_lasn (s : source) : N := match s with SrcPeer p => ps_lasn p | _ => 0 end.
Definition src_rid (s : source) : N := match s with SrcPeer p => ps_rid p | _ => 0 end.
Definition src_role (s : source) : role := match s with SrcPeer p => ps_role p | _ => Ibgp end.
Definition src_llgr (s : source) : bool := match s with SrcPeer p => ps_llgr p | _ => false end.
Definition src_is_local (s : source) : bool := match s with SrcLocal => true | _ => false end.
Definition src_is_rr_client (s : source) : bool := role_eqb (src_role s) IbgpRrClient.
Definition src_is_rs_client (s : source) : bool := role_eqb (src_role s) RsClient.

Record ectx := {
  x_role : role;
  x_lasn : N;
  x_laddr : ipaddr;
  x_link : option (list N);
  x_confed : N
}.

(* ------------------------------------------------------------ export.rs helpers *)
Definition is_ibgp_learned (s : source) : bool :=
  negb (src_is_local s) && (src_rasn s =? src_lasn s).

Definition rs_isolation_suppress (s : source) (dest : role) : bool :=
  negb (Bool.eqb (src_is_rs_client s) (role_eqb dest RsClient)).

Definition ibgp_split_horizon_suppress (s : source) (dest : role) (cid : option N) : bool :=
  if negb (role_is_ibgp dest) then false
  else if negb (is_ibgp_learned s) then false
  else match cid with
       | None => true
       | Some _ => negb (src_is_rr_client s) && role_eqb dest Ibgp
       end.

Definition is_flowspec (fam : N) : bool :=
  (fam =? 65669) || (fam =? 131205) || (fam =? 65670) || (fam =? 131206).

Definition local_nh (x : ectx) : nexthop :=
  match x_laddr x with
  | IP4 b => NhV4 b
  | IP6 b => match x_link x with Some ll => NhV6LL b ll | None => NhV6 b end
  end.

Definition export_nexthop (x : ectx) (nh : option nexthop) (fam : N) (is_local : bool) : option nexthop :=
  match nh with
  | None => if is_flowspec fam then None else Some (local_nh x)
  | Some n =>
    if is_local && negb (ip_unspecified (nh_addr n)) then Some n
    else if is_local then Some (local_nh x)
    else match x_role x with
         | RsClient | Ibgp | IbgpRrClient => Some n
         | ConfedEbgp | Ebgp => Some (local_nh x)
         end
  end.

Definition pre_policy_defaults (x : ectx) (attrs : list attr) (nh : option nexthop) (fam : N)
           (is_local : bool) : list attr * option nexthop :=
  (if role_eqb (x_role x) Ebgp then filter (fun a => negb (a_code a =? MED)) attrs else attrs,
   export_nexthop x nh fam is_local).

Definition mk_val (c fl v : N) : attr := {| a_code := c; a_flags := fl; a_data := DVal v |}.
Definition mk_bin (c fl : N) (b : list N) : attr := {| a_code := c; a_flags := fl; a_data := DBin b |}.

Fixpoint insert_before_ge (c : N) (x : attr) (l : list attr) : list attr :=
  match l with
  | [] => [x]
  | a :: t => if a_code a <? c then a :: insert_before_ge c x t else x :: l
  end.

Definition inject_local_pref_if_absent (attrs : list attr) : list attr :=
  if has_code LOCAL_PREF attrs then attrs
  else insert_before_ge LOCAL_PREF (mk_val LOCAL_PREF FLAG_TRANSITIVE DEFAULT_LOCAL_PREF) attrs.

Definition rr_reflect_attrs (attrs : list attr) (src_rid cid : N) : list attr :=
  let has_orig := has_code ORIGINATOR_ID attrs in
  let existing := match find_code CLUSTER_LIST attrs with
                  | Some a => match binary a with Some b => b | None => [] end
                  | None => [] end in
  let ncl := be32 cid ++ existing in
  filter (fun a => negb (a_code a =? CLUSTER_LIST)) attrs
  ++ (if has_orig then [] else [mk_val ORIGINATOR_ID FLAG_OPTIONAL src_rid])
  ++ [mk_bin CLUSTER_LIST FLAG_OPTIONAL ncl].

Definition LLGR_STALE : list N := [255; 255; 0; 6].

Definition with_llgr_stale_community (attrs : list attr) : list attr :=
  let existing := match find_code COMMUNITY attrs with
                  | Some a => binary a | None => None end in
  match existing with
  | Some bin =>
    if chunks4_contains LLGR_STALE bin then attrs
    else
      let nc := mk_bin COMMUNITY (FLAG_TRANSITIVE + FLAG_OPTIONAL) (bin ++ LLGR_STALE) in
      map (fun a => if a_code a =? COMMUNITY then nc else a) attrs
  | None => attrs ++ [mk_bin COMMUNITY (FLAG_TRANSITIVE + FLAG_OPTIONAL) LLGR_STALE]
  end.

Definition opaque_rule (l : list attr) : list attr :=
  if negb (existsb is_opaque l) then l
  else flat_map (fun a => if negb (is_opaque a) then [a]
                          else if is_transitive a then [with_partial_bit a] else []) l.

Definition ebgp_strips (c : N) : bool :=
  (c =? LOCAL_PREF) || (c =? ORIGINATOR_ID) || (c =? CLUSTER_LIST) || (c =? AIGP).

Definition export_attrs (x : ectx) (attrs : list attr) : res (list attr) :=
  let exported :=
    match x_role x with
    | RsClient => Ok attrs
    | Ibgp | IbgpRrClient => Ok (inject_local_pref_if_absent attrs)
    | ConfedEbgp =>
      rbind (rmap (fun a => if a_code a =? AS_PATH then as_path_prepend SEG_CONFED_SEQ (x_lasn x) a
                            else Ok a) attrs)
            (fun l => if has_code AS_PATH attrs then Ok l
                      else rbind (as_path_prepend SEG_CONFED_SEQ (x_lasn x) empty_as_path)
                                 (fun p => Ok (l ++ [p])))
    | Ebgp =>
      let asn := if negb (x_confed x =? 0) then x_confed x else x_lasn x in
      rbind (rmap (fun a => if a_code a =? AS_PATH
                            then rbind (as_path_strip_confed a) (as_path_prepend SEG_SEQ asn)
                            else Ok a)
                  (filter (fun a => negb (ebgp_strips (a_code a))) attrs))
            (fun l => if has_code AS_PATH attrs then Ok l
                      else rbind (as_path_prepend SEG_SEQ asn empty_as_path)
                                 (fun p => Ok (l ++ [p])))
    end in
  rbind exported (fun l => Ok (opaque_rule l)).

Definition is_as_loop (attrs : list attr) (lasn confed : N) : res bool :=
  match find_code AS_PATH attrs with
  | None => Ok false
  | Some p =>
    rbind (as_path_has lasn p) (fun h1 =>
      if h1 then Ok true
      else if negb (confed =? 0) && negb (confed =? lasn) then as_path_has confed p
      else Ok false)
  end.

(* the RFC 4456 test at the top of PeerSession::rx_update, for an UPDATE that
   carries reachable NLRI: true = the UPDATE is dropped before anything is
   inserted *)
Definition rr_loop_drop (attrs : list attr) (local_rid : N) (cid : option N) : bool :=
  let originator_loop :=
    match find_code ORIGINATOR_ID attrs with
    | Some a => (match value a with Some v => v | None => 0 end) =? local_rid
    | None => false
    end in
  let cluster_loop :=
    match cid with
    | None => false
    | Some c =>
      match find_code CLUSTER_LIST attrs with
      | Some a => match binary a with Some b => chunks4_contains (be32 c) b | None => false end
      | None => false
      end
    end in
  originator_loop || cluster_loop.

(* what the receive path does with one reach UPDATE (rx_msg: is_as_loop => the
   routes are ignored, the message still reaches the FSM; rx_update: RR loop => dropped; else the attributes handed to
   insert_route, with LOCAL_PREF defaulted on iBGP sessions) *)
Definition rx_reach (x : ectx) (local_rid : N) (cid : option N) (attrs : list attr)
  : res (option (list attr)) :=
  rbind (is_as_loop attrs (x_lasn x) (x_confed x)) (fun lp =>
    if lp then Ok None
    else if rr_loop_drop attrs local_rid cid then Ok None
    else Ok (Some (if role_is_ibgp (x_role x) then inject_local_pref_if_absent attrs else attrs))).

(* ------------------------------------------------------------ process_nlri_change *)
Record path := { p_lpid : N; p_src : source; p_nh : option nexthop; p_attrs : list attr }.

Record change := {
  c_family : N;
  c_dest : N;
  c_best_changed : bool;
  c_any_changed : bool;
  c_replaced : option N;
  c_paths : list path
}.

(* the part of ExportMap that concerns the change's family *)
Inductive emap :=
| ENone                                 (* family absent *)
| EPlain (dests : list N)
| EAddPath (m : list (N * list N)).

Fixpoint mem (x : N) (l : list N) : bool :=
  match l with [] => false | y :: t => (x =? y) || mem x t end.
Fixpoint remove_n (x : N) (l : list N) : list N :=
  match l with [] => [] | y :: t => if x =? y then remove_n x t else y :: remove_n x t end.
Definition add_n (x : N) (l : list N) : list N := if mem x l then l else l ++ [x].

Fixpoint alookup (k : N) (m : list (N * list N)) : option (list N) :=
  match m with [] => None | (k', v) :: t => if k =? k' then Some v else alookup k t end.
Fixpoint aremove (k : N) (m : list (N * list N)) : list (N * list N) :=
  match m with [] => [] | (k', v) :: t => if k =? k' then aremove k t else (k', v) :: aremove k t end.
Definition aset (k : N) (v : list N) (m : list (N * list N)) : list (N * list N) :=
  aremove k m ++ [(k, v)].

Definition em_mark_sent (e : emap) (d pid : N) : emap :=
  match e with
  | ENone => EPlain [d]
  | EPlain s => EPlain (add_n d s)
  | EAddPath m => EAddPath (aset d (add_n pid (match alookup d m with Some v => v | None => [] end)) m)
  end.

Definition em_mark_withdrawn (e : emap) (d pid : N) : emap :=
  match e with
  | ENone => ENone
  | EPlain s => EPlain (remove_n d s)
  | EAddPath m =>
    match alookup d m with
    | Some ids => let ids' := remove_n pid ids in
                  match ids' with [] => EAddPath (aremove d m) | _ => EAddPath (aset d ids' m) end
    | None => EAddPath m
    end
  end.

Definition em_was_sent (e : emap) (d : N) : bool :=
  match e with
  | ENone => false
  | EPlain s => mem d s
  | EAddPath m => match alookup d m with Some _ => true | None => false end
  end.

Definition em_contains_path (e : emap) (d pid : N) : bool :=
  match e with
  | ENone => false
  | EPlain s => mem d s
  | EAddPath m => match alookup d m with Some ids => mem pid ids | None => false end
  end.

Definition em_sent_path_ids (e : emap) (d : N) : list N :=
  match e with
  | ENone => []
  | EPlain s => if mem d s then [0] else []
  | EAddPath m => match alookup d m with Some ids => ids | None => [] end
  end.

Inductive sinkop :=
| Unreach (dest pid : N)
| Reach (dest pid : N) (nh : option nexthop) (attrs : list attr) (src : source).

(* table::apply_export as seen from here: None = Reject.  Arguments: source,
   attributes and next hop after pre_policy_defaults, the original next hop, and
   the is_confed flag process_nlri_change computes (receiver is a confed-eBGP
   peer).  [policy_fn] is a policy that cannot panic; [policy_fn_r] one that can
   (an as-prepend action runs the AS_PATH edits on whatever bytes it finds). *)
Definition policy_fn := source -> list attr -> option nexthop -> option nexthop -> bool
                        -> option (list attr * option nexthop).
Definition policy_fn_r := source -> list attr -> option nexthop -> option nexthop -> bool
                          -> res (option (list attr * option nexthop)).
Definition no_policy : policy_fn := fun _ a nh _ _ => Some (a, nh).
Definition lift_policy (pol : policy_fn) : policy_fn_r := fun s a nh onh ic => Ok (pol s a nh onh ic).
(* a panic makes the whole call panic, so that nothing is advertised: below the
   panicking policy is the same as one that answers on the inputs it survives *)
Definition lower_policy (polr : policy_fn_r) : policy_fn :=
  fun s a nh onh ic => match polr s a nh onh ic with Ok o => o | Panic => None end.

(* A one-statement export policy without conditions (table/src/policy.rs
   Statement::apply: the nexthop, med and as-prepend actions in the order of the
   code; Policy::apply / PolicyAssignment::apply for a single statement): the shape
   used to tie the "export-policy next-hop / MED actions" of the property, and the
   is_confed argument, to the real table::apply_export. *)
Inductive nh_action := NaAddress (ip : ipaddr) | NaSelf | NaPeer | NaUnchanged.
Inductive med_action := MedMod (delta : Z) | MedReplace (v : Z).
Inductive disp := DPass | DAccept | DReject.
Record stmt := { st_nh : option nh_action; st_med : option med_action; st_disp : disp }.
Record prepend_action := { pa_asn : N; pa_repeat : N; pa_left_most : bool }.

Definition ip_to_nh (ip : ipaddr) : nexthop := match ip with IP4 b => NhV4 b | IP6 b => NhV6 b end.
Definition clamp_u32 (z : Z) : N :=
  if (z <? 0)%Z then 0 else if (4294967295 <? z)%Z then 4294967295 else Z.to_N z.

Definition stmt_nh (x : ectx) (raddr : ipaddr) (st : stmt) (nh onh : option nexthop) : option nexthop :=
  match st_nh st with
  | None => nh
  | Some (NaAddress ip) => Some (ip_to_nh ip)
  | Some NaSelf => Some (ip_to_nh (x_laddr x))
  | Some NaPeer => Some (ip_to_nh raddr)
  | Some NaUnchanged => match onh with Some o => Some o | None => nh end
  end.

Definition stmt_attrs (st : stmt) (a : list attr) : list attr :=
  match st_med st with
  | None => a
  | Some act =>
    let cur := match find_code MED a with
               | Some m => match value m with Some v => v | None => 0 end
               | None => 0
               end in
    let nm := match act with
              | MedMod d => clamp_u32 (Z.of_N cur + d)
              | MedReplace v => clamp_u32 v
              end in
    filter (fun t => negb (a_code t =? MED)) a ++ [mk_val MED FLAG_OPTIONAL nm]
  end.

Definition stmt_rejects (st : stmt) (default : disp) : bool :=
  match (match st_disp st with DPass => default | d => d end) with DReject => true | _ => false end.

Definition stmt_policy (x : ectx) (raddr : ipaddr) (st : stmt) (default : disp) : policy_fn :=
  fun _ a nh onh _ =>
    if stmt_rejects st default then None else Some (stmt_attrs st a, stmt_nh x raddr st nh onh).

(* AsPathIter::new(attr).next().and_then(|seg| seg.first().copied()): the first AS of
   the first segment, provided that segment can be read completely *)
Definition as_path_first_asn (a : attr) : res (option N) :=
  match binary a with
  | None => Panic
  | Some buf =>
    Ok (match buf with
        | _ :: n :: x0 :: x1 :: x2 :: x3 :: rest =>
          if n =? 0 then None
          else if Nat.ltb (4 + length rest) (4 * N.to_nat n) then None
          else Some (rd32 x0 x1 x2 x3)
        | _ => None
        end)
  end.

Fixpoint prepend_n (k : nat) (ty asn : N) (a : attr) : res attr :=
  match k with O => Ok a | S k' => rbind (as_path_prepend ty asn a) (prepend_n k' ty asn) end.

Definition apply_prepend (ic : bool) (pa : prepend_action) (attrs : list attr) : res (list attr) :=
  if pa_repeat pa =? 0 then Ok attrs
  else
    let existing := match find_code AS_PATH attrs with Some p => p | None => empty_as_path end in
    rbind (if pa_left_most pa
           then rbind (as_path_first_asn existing)
                      (fun o => Ok (match o with Some v => v | None => pa_asn pa end))
           else Ok (pa_asn pa)) (fun asn =>
      rbind (prepend_n (N.to_nat (pa_repeat pa)) (if ic then SEG_CONFED_SEQ else SEG_SEQ) asn existing) (fun np =>
        Ok (filter (fun t => negb (a_code t =? AS_PATH)) attrs ++ [np]))).

(* the statement with an as-prepend action; the actions run (and may panic) before
   the disposition is looked at *)
Definition stmt_policy_r (x : ectx) (raddr : ipaddr) (st : stmt) (pre : option prepend_action)
           (default : disp) : policy_fn_r :=
  fun _ a nh onh ic =>
    rbind (match pre with None => Ok (stmt_attrs st a) | Some pa => apply_prepend ic pa (stmt_attrs st a) end)
          (fun a2 => Ok (if stmt_rejects st default then None else Some (a2, stmt_nh x raddr st nh onh))).

(* The rtc_filter argument of process_nlri_change (daemon/src/rtc.rs RtcFilter::allows):
   a path whose attributes the filter does not allow is treated as rejected, before
   pre_policy_defaults and the export policy run.  allows looks only at
   EXTENDED_COMMUNITY attributes, which pre_policy_defaults never touches, so the
   filter is exactly a wrapper around the policy. *)
Definition EXTENDED_COMMUNITY : N := 16.

Fixpoint chunks8_any (fuel : nat) (rts : list (list N)) (b : list N) : bool :=
  match fuel with
  | O => false
  | S f =>
    if Nat.ltb (length b) 8 then false          (* chunks_exact: a short tail is ignored *)
    else existsb (bytes_eqb (firstn 8 b)) rts || chunks8_any f rts (skipn 8 b)
  end.

Definition rtc_allows (accept_all : bool) (rts : list (list N)) (attrs : list attr) : bool :=
  accept_all
  || existsb (fun a => (a_code a =? EXTENDED_COMMUNITY)
                       && match binary a with
                          | Some d => chunks8_any (S (length d)) rts d
                          | None => false
                          end) attrs.

Definition with_rtc (f : list attr -> bool) (polr : policy_fn_r) : policy_fn_r :=
  fun s a nh onh ic => if f a then polr s a nh onh ic else Ok None.

(* echo / split horizon / RS isolation *)
Definition visible (x : ectx) (raddr : ipaddr) (cid : option N) (p : path) : bool :=
  negb (ip_eqb (src_raddr (p_src p)) raddr)
  && negb (ibgp_split_horizon_suppress (p_src p) (x_role x) cid)
  && negb (rs_isolation_suppress (p_src p) (x_role x)).

(* pre-policy defaults, policy, reflection: shared by both branches *)
Definition policy_stage (x : ectx) (pol : policy_fn) (cid : option N) (fam : N) (p : path)
  : option (list attr * option nexthop) :=
  let '(a0, nh0) := pre_policy_defaults x (p_attrs p) (p_nh p) fam (src_is_local (p_src p)) in
  match pol (p_src p) a0 nh0 (p_nh p) (role_eqb (x_role x) ConfedEbgp) with
  | None => None
  | Some (a1, nh1) =>
    let a2 := match cid with
              | Some c => if is_ibgp_learned (p_src p) then rr_reflect_attrs a1 (src_rid (p_src p)) c else a1
              | None => a1
              end in
    Some (a2, nh1)
  end.

Definition llgr_stage (p : path) (a : list attr) : list attr :=
  if src_llgr (p_src p) then with_llgr_stale_community a else a.

Fixpoint insert_sorted (x : N) (l : list N) : list N :=
  match l with [] => [x] | y :: t => if x <=? y then x :: l else y :: insert_sorted x t end.
Definition sort_n (l : list N) : list N := fold_right insert_sorted [] l.

Fixpoint addpath_reaches (x : ectx) (d : N) (replaced : option N) (e : emap)
         (top : list (N * list attr * option nexthop * source)) : res (list sinkop * emap) :=
  match top with
  | [] => Ok ([], e)
  | (pid, a, nh, s) :: t =>
    let already := em_contains_path e d pid in
    let was_replaced := match replaced with Some r => r =? pid | None => false end in
    if negb already || was_replaced then
      rbind (export_attrs x a) (fun a' =>
        rbind (addpath_reaches x d replaced (em_mark_sent e d pid) t) (fun r =>
          Ok (Reach d pid nh a' s :: fst r, snd r)))
    else addpath_reaches x d replaced e t
  end.

Definition process_change (x : ectx) (pol : policy_fn) (emax : N) (raddr : ipaddr)
           (cid : option N) (c : change) (e : emap) : res (list sinkop * emap) :=
  if emax =? 1 then
    if negb (c_best_changed c) then Ok ([], e)
    else
      let vis := match c_paths c with
                 | [] => None
                 | best :: _ => if visible x raddr cid best then Some best else None
                 end in
      let pr := match vis with
                | None => None
                | Some best => match policy_stage x pol cid (c_family c) best with
                               | None => None
                               | Some (a, nh) => Some (best, a, nh)
                               end
                end in
      match pr with
      | None =>
        if em_was_sent e (c_dest c)
        then Ok ([Unreach (c_dest c) 0], em_mark_withdrawn e (c_dest c) 0)
        else Ok ([], e)
      | Some (best, a, nh) =>
        rbind (export_attrs x (llgr_stage best a)) (fun a' =>
          Ok ([Reach (c_dest c) 0 nh a' (p_src best)], em_mark_sent e (c_dest c) 0))
      end
  else
    if negb (c_any_changed c) then Ok ([], e)
    else
      let cand := firstn (N.to_nat emax) (filter (visible x raddr cid) (c_paths c)) in
      let top := flat_map (fun p =>
                   match policy_stage x pol cid (c_family c) p with
                   | None => []
                   | Some (a, nh) => [(p_lpid p, llgr_stage p a, nh, p_src p)]
                   end) cand in
      let sent := em_sent_path_ids e (c_dest c) in
      let cur := map (fun t => fst (fst (fst t))) top in
      let gone := sort_n (filter (fun pid => negb (mem pid cur)) sent) in
      let e1 := fold_left (fun e pid => em_mark_withdrawn e (c_dest c) pid) gone e in
      rbind (addpath_reaches x (c_dest c) (c_replaced c) e1 top) (fun r =>
        Ok (map (fun pid => Unreach (c_dest c) pid) gone ++ fst r, snd r)).

(* the same with an export policy that can panic: the panic is the panic of the call *)
Definition policy_stage_r (x : ectx) (polr : policy_fn_r) (cid : option N) (fam : N) (p : path)
  : res (option (list attr * option nexthop)) :=
  let '(a0, nh0) := pre_policy_defaults x (p_attrs p) (p_nh p) fam (src_is_local (p_src p)) in
  rbind (polr (p_src p) a0 nh0 (p_nh p) (role_eqb (x_role x) ConfedEbgp)) (fun o =>
    Ok (match o with
        | None => None
        | Some (a1, nh1) =>
          Some (match cid with
                | Some c => if is_ibgp_learned (p_src p) then rr_reflect_attrs a1 (src_rid (p_src p)) c else a1
                | None => a1
                end, nh1)
        end)).

Fixpoint top_n_r (x : ectx) (polr : policy_fn_r) (cid : option N) (fam : N) (cand : list path)
  : res (list (N * list attr * option nexthop * source)) :=
  match cand with
  | [] => Ok []
  | p :: t =>
    rbind (policy_stage_r x polr cid fam p) (fun o =>
      rbind (top_n_r x polr cid fam t) (fun r =>
        Ok (match o with
            | None => r
            | Some (a, nh) => (p_lpid p, llgr_stage p a, nh, p_src p) :: r
            end)))
  end.

Definition process_change_r (x : ectx) (polr : policy_fn_r) (emax : N) (raddr : ipaddr)
           (cid : option N) (c : change) (e : emap) : res (list sinkop * emap) :=
  if emax =? 1 then
    if negb (c_best_changed c) then Ok ([], e)
    else
      let vis := match c_paths c with
                 | [] => None
                 | best :: _ => if visible x raddr cid best then Some best else None
                 end in
      rbind (match vis with
             | None => Ok None
             | Some best => rbind (policy_stage_r x polr cid (c_family c) best) (fun o =>
                              Ok (match o with None => None | Some (a, nh) => Some (best, a, nh) end))
             end) (fun pr =>
        match pr with
        | None =>
          if em_was_sent e (c_dest c)
          then Ok ([Unreach (c_dest c) 0], em_mark_withdrawn e (c_dest c) 0)
          else Ok ([], e)
        | Some (best, a, nh) =>
          rbind (export_attrs x (llgr_stage best a)) (fun a' =>
            Ok ([Reach (c_dest c) 0 nh a' (p_src best)], em_mark_sent e (c_dest c) 0))
        end)
  else
    if negb (c_any_changed c) then Ok ([], e)
    else
      let cand := firstn (N.to_nat emax) (filter (visible x raddr cid) (c_paths c)) in
      rbind (top_n_r x polr cid (c_family c) cand) (fun top =>
        let sent := em_sent_path_ids e (c_dest c) in
        let cur := map (fun t => fst (fst (fst t))) top in
        let gone := sort_n (filter (fun pid => negb (mem pid cur)) sent) in
        let e1 := fold_left (fun e pid => em_mark_withdrawn e (c_dest c) pid) gone e in
        rbind (addpath_reaches x (c_dest c) (c_replaced c) e1 top) (fun r =>
          Ok (map (fun pid => Unreach (c_dest c) pid) gone ++ fst r, snd r))).

(* the session loop: every NlriChange delivered to a neighbour's task goes through
   handle_prefix_update -> process_nlri_change with the same ExportMap and sink
   (also the initial dump of on_established and do_route_refresh, which feed
   it the changes of collect_loc_rib_paths_limited) *)
Fixpoint run_changes (x : ectx) (pol : policy_fn) (emax : N) (raddr : ipaddr) (cid : option N)
         (cs : list change) (e : emap) : res (list sinkop * emap) :=
  match cs with
  | [] => Ok ([], e)
  | c :: t =>
    rbind (process_change x pol emax raddr cid c e) (fun r1 =>
      rbind (run_changes x pol emax raddr cid t (snd r1)) (fun r2 =>
        Ok (fst r1 ++ fst r2, snd r2)))
  end.

(* PeerSession::handle_prefix_update (event/mod.rs), the caller of process_nlri_change for
   every change a neighbour's task receives, for a family that is not a VPN family: nothing
   when the family was not negotiated; otherwise process_nlri_change with the session's
   send-max for the family, its address, cluster id, export context and export policy, into
   the family's PendingTx.  (The same policy may panic: process_change_r.) *)
Fixpoint run_updates (has_family : bool) (x : ectx) (polr : policy_fn_r) (emax : N) (raddr : ipaddr)
         (cid : option N) (cs : list change) (e : emap) : res (list sinkop * emap) :=
  match cs with
  | [] => Ok ([], e)
  | c :: t =>
    rbind (if has_family then process_change_r x polr emax raddr cid c e else Ok ([], e)) (fun r1 =>
      rbind (run_updates has_family x polr emax raddr cid t (snd r1)) (fun r2 =>
        Ok (fst r1 ++ fst r2, snd r2)))
  end.

(* PeerSession::apply_refresh_walk (route refresh / soft reset out, since 13d2f6a): every
   destination of the walk goes through process_nlri_change once per path, that path named as
   replaced, on a session with send-max > 1 (so that the Add-Path branch re-sends it); once,
   with no replaced id, otherwise.  A destination without paths is not looked at on an Add-Path
   session. *)
Definition with_replaced (c : change) (r : option N) : change :=
  {| c_family := c_family c; c_dest := c_dest c; c_best_changed := c_best_changed c;
     c_any_changed := c_any_changed c; c_replaced := r; c_paths := c_paths c |}.

Definition refresh_changes (emax : N) (c : change) : list change :=
  if 1 <? emax then map (fun p => with_replaced c (Some (p_lpid p))) (c_paths c)
  else [with_replaced c None].

(* PendingTx (peer_tx.rs): reach / unreach keyed by (path id - 0 unless Add-Path TX -, NLRI),
   the last operation for a key wins; drain_messages hands over what is pending.  The model
   has one NLRI per destination id. *)
Inductive pending := PNothing | PUnreach | PReach (nh : option nexthop) (attrs : list attr).

Fixpoint pending_after (addpath_tx : bool) (ops : list sinkop) (d key : N) (st : pending) : pending :=
  match ops with
  | [] => st
  | Unreach d' p' :: t =>
    pending_after addpath_tx t d key
      (if (d' =? d) && ((if addpath_tx then p' else 0) =? key) then PUnreach else st)
  | Reach d' p' nh a _ :: t =>
    pending_after addpath_tx t d key
      (if (d' =? d) && ((if addpath_tx then p' else 0) =? key) then PReach nh a else st)
  end.

(* ------------------------------------------------------------ the LLGR period begins
   Table::restale_llgr(addr, family) (table/src/lib.rs, since 03ea310), for one
   destination that holds a path of the peer: the shared llgr_stale flag of the
   peer's source is set, the entries are re-sorted, and the change stream below
   is reported.  Inputs: the best path id before marking, whether any not
   filtered entry is from the peer, and the eligible (not filtered, next hop
   valid) paths in their new order, flags already set.  Every eligible path of
   the peer is named as replaced in a change of its own (all carry the same
   list); best_changed goes with the first, and holds when the best moved or
   the best is one of the marked paths.  The Rib side (sorting, what is
   eligible) is property C02/C06; here only the shape of the stream matters. *)
Definition opt_n_eqb (a b : option N) : bool :=
  match a, b with
  | None, None => true
  | Some x, Some y => x =? y
  | _, _ => false
  end.

Fixpoint marked_changes (fam dest : N) (best_changed : bool) (paths : list path) (marked : list N)
  : list change :=
  match marked with
  | [] => []
  | pid :: t =>
    {| c_family := fam; c_dest := dest; c_best_changed := best_changed; c_any_changed := true;
       c_replaced := Some pid; c_paths := paths |} :: marked_changes fam dest false paths t
  end.

Definition restale_llgr_changes (fam dest : N) (old_best : option N) (any_from_addr : bool)
           (addr : ipaddr) (paths : list path) : list change :=
  let marked := map p_lpid (filter (fun p => ip_eqb (src_raddr (p_src p)) addr) paths) in
  let new_best := match paths with p :: _ => Some (p_lpid p) | [] => None end in
  let best_marked := match new_best, marked with
                     | Some b, m :: _ => m =? b
                     | _, _ => false
                     end in
  let best_changed := negb (opt_n_eqb old_best new_best) || best_marked in
  if best_changed || any_from_addr then
    match marked with
    | [] => [ {| c_family := fam; c_dest := dest; c_best_changed := best_changed;
                 c_any_changed := any_from_addr; c_replaced := None; c_paths := paths |} ]
    | _ => marked_changes fam dest best_changed paths marked
    end
  else [].

(* the stream before 03ea310: one change, best_changed only when the best moved, no
   path named as replaced (kept to state what the defect was) *)
Definition restale_llgr_changes_old (fam dest : N) (old_best : option N) (any_from_addr : bool)
           (paths : list path) : list change :=
  let new_best := match paths with p :: _ => Some (p_lpid p) | [] => None end in
  let best_changed := negb (opt_n_eqb old_best new_best) in
  if best_changed || any_from_addr then
    [ {| c_family := fam; c_dest := dest; c_best_changed := best_changed;
         c_any_changed := any_from_addr; c_replaced := None; c_paths := paths |} ]
  else [].

(* One destination holding one path learned from peer [ps]: Table::insert reports
   (best_changed, any_changed) = (true, true); then restale_llgr's stream is exported
   to the same neighbour. *)
Definition set_llgr (ps : peer_src) (b : bool) : peer_src :=
  {| ps_raddr := ps_raddr ps; ps_rasn := ps_rasn ps; ps_lasn := ps_lasn ps; ps_rid := ps_rid ps;
     ps_role := ps_role ps; ps_llgr := b |}.

Definition IPV4_UNICAST : N := 65537.

Definition llgr_path (ps : peer_src) (stale : bool) (nh : option nexthop) (attrs : list attr) : path :=
  {| p_lpid := 1; p_src := SrcPeer (set_llgr ps stale); p_nh := nh; p_attrs := attrs |}.

Definition llgr_change1 (ps : peer_src) (nh : option nexthop) (attrs : list attr) : change :=
  {| c_family := IPV4_UNICAST; c_dest := 1; c_best_changed := true; c_any_changed := true; c_replaced := None;
     c_paths := [llgr_path ps false nh attrs] |}.

Definition llgr_stream (new_stream : bool) (ps : peer_src) (nh : option nexthop) (attrs : list attr) : list change :=
  if new_stream
  then restale_llgr_changes IPV4_UNICAST 1 (Some 1) true (ps_raddr ps) [llgr_path ps true nh attrs]
  else restale_llgr_changes_old IPV4_UNICAST 1 (Some 1) true [llgr_path ps true nh attrs].

Definition llgr_scenario_v (new_stream : bool) (x : ectx) (pol : policy_fn) (emax : N) (raddr : ipaddr)
           (cid : option N) (ps : peer_src) (nh : option nexthop) (attrs : list attr)
  : res (list sinkop * list sinkop * emap) :=
  let e0 := if emax =? 1 then ENone else EAddPath [] in
  rbind (process_change x pol emax raddr cid (llgr_change1 ps nh attrs) e0) (fun r1 =>
    rbind (run_changes x pol emax raddr cid (llgr_stream new_stream ps nh attrs) (snd r1)) (fun r2 =>
      Ok (fst r1, fst r2, snd r2))).
Definition llgr_scenario := llgr_scenario_v true.

(* Table::drop_no_llgr(addr, family) for one destination (table/src/lib.rs): the paths of
   the peer that carry NO_LLGR (0xFFFF0007) are removed when its LLGR period begins (RFC 9494
   4.2; TableManager::mark_llgr_stale calls it right after restale_llgr).  Inputs as for
   restale_llgr_changes; [others_left]: entries that are not eligible remain.  A change is
   reported only when an eligible path was removed. *)
Definition NO_LLGR : list N := [255; 255; 0; 7].

Definition has_no_llgr (attrs : list attr) : bool :=
  match find_code COMMUNITY attrs with
  | Some a => match binary a with Some b => chunks4_contains NO_LLGR b | None => false end
  | None => false
  end.

Definition drop_no_llgr_changes (fam dest : N) (addr : ipaddr) (old_best : option N) (paths : list path)
           (others_left : bool) : list change :=
  let doomed := fun p => ip_eqb (src_raddr (p_src p)) addr && has_no_llgr (p_attrs p) in
  if negb (existsb doomed paths) then []
  else
    let rest := filter (fun p => negb (doomed p)) paths in
    match rest, others_left with
    | [], false => [ {| c_family := fam; c_dest := dest; c_best_changed := true; c_any_changed := true;
                        c_replaced := None; c_paths := [] |} ]
    | _, _ =>
      let new_best := match rest with p :: _ => Some (p_lpid p) | [] => None end in
      [ {| c_family := fam; c_dest := dest; c_best_changed := negb (opt_n_eqb old_best new_best);
           c_any_changed := true; c_replaced := None; c_paths := rest |} ]
    end.

(* the whole of TableManager::mark_llgr_stale for the one-path destination, exported *)
Definition llgr_full_stream (ps : peer_src) (nh : option nexthop) (attrs : list attr) : list change :=
  llgr_stream true ps nh attrs
  ++ drop_no_llgr_changes IPV4_UNICAST 1 (ps_raddr ps) (Some 1) [llgr_path ps true nh attrs] false.

Definition llgr_scenario_full (x : ectx) (pol : policy_fn) (emax : N) (raddr : ipaddr)
           (cid : option N) (ps : peer_src) (nh : option nexthop) (attrs : list attr)
  : res (list sinkop * list sinkop * emap) :=
  let e0 := if emax =? 1 then ENone else EAddPath [] in
  rbind (process_change x pol emax raddr cid (llgr_change1 ps nh attrs) e0) (fun r1 =>
    rbind (run_changes x pol emax raddr cid (llgr_full_stream ps nh attrs) (snd r1)) (fun r2 =>
      Ok (fst r1, fst r2, snd r2))).

(* ------------------------------------------------------------ printers *)
Definition v_attr (a : attr) : val :=
  match a_data a with
  | DVal v => VL [VN (a_code a); VN (a_flags a); VN 0; VN v]
  | DBin b => VL [VN (a_code a); VN (a_flags a); VN 1; VNs b]
  | DOpaque b => VL [VN (a_code a); VN (a_flags a); VN 2; VNs b]
  end.
Definition v_attrs (l : list attr) : val := VList v_attr l.

Definition v_nh (n : nexthop) : val :=
  match n with
  | NhV4 a => VL [VN 0; VNs a]
  | NhV6 a => VL [VN 1; VNs a]
  | NhV6LL a ll => VL [VN 2; VNs a; VNs ll]
  end.

Definition v_res {A} (f : A -> val) (r : res A) : val :=
  match r with Ok a => f a | Panic => VL [VI (Zneg 1)] end.

Definition v_src (s : source) : val :=
  match s with
  | SrcLocal => VL [VN 0]
  | SrcKernel => VL [VN 1]
  | SrcPeer p => VL [VN 2; VNs (ip_bytes (ps_raddr p))]
  end.

Definition v_sinkop (o : sinkop) : val :=
  match o with
  | Unreach d pid => VL [VN 0; VN d; VN pid]
  | Reach d pid nh a s => VL [VN 1; VN d; VN pid; VOpt v_nh nh; v_attrs a; v_src s]
  end.

(* the export map is observed through sent_path_ids on a fixed set of dest ids *)
Definition v_emap (e : emap) (probe : list N) : val :=
  VList (fun d => VNs (sort_n (em_sent_path_ids e d))) probe.

(* ------------------------------------------------------------ case entry points *)
Inductive case :=
| CPrepend (ty asn : N) (a : attr)                           (* 0: as_path_prepend / _confed *)
| CStrip (a : attr)                                          (* 1: as_path_strip_confed *)
| CLoop (attrs : list attr) (lasn confed : N)                (* 2: is_as_loop *)
| CExportAttrs (x : ectx) (attrs : list attr)                (* 3 *)
| CPrePolicy (x : ectx) (attrs : list attr) (nh : option nexthop) (fam : N) (is_local : bool)  (* 4 *)
| CReflect (attrs : list attr) (rid cid : N)                 (* 5 *)
| CLlgr (attrs : list attr)                                  (* 6 *)
| CInjectLp (attrs : list attr)                              (* 7 *)
| CSuppress (s : source) (dest : role) (cid : option N)      (* 8 *)
| CProcess (x : ectx) (emax : N) (raddr : ipaddr) (cid : option N) (c : change) (e : emap) (probe : list N) (* 9 *)
| CRxLoop (x : ectx) (rid : N) (cid : option N) (attrs : list attr)    (* 10 *)
| CLlgrScenario (x : ectx) (emax : N) (raddr : ipaddr) (cid : option N) (ps : peer_src)
                (nh : option nexthop) (attrs : list attr)               (* 11 *)
| CProcessPol (x : ectx) (emax : N) (raddr : ipaddr) (cid : option N) (c : change) (e : emap) (probe : list N)
              (st : stmt) (pre : option prepend_action) (default : disp) (* 12: with a real export policy *)
| CHistory (x : ectx) (emax : N) (raddr : ipaddr) (cid : option N) (cs : list change) (probe : list N) (* 13 *)
| CProcessRtc (x : ectx) (emax : N) (raddr : ipaddr) (cid : option N) (c : change) (e : emap) (probe : list N)
              (accept_all : bool) (rts : list (list N))                 (* 14: with an RtcFilter *)
| CRestale (old_best : option N) (any_from_addr : bool) (addr : ipaddr) (paths : list path) (* 15: restale_llgr's stream *)
| CUpdates (has_family : bool) (x : ectx) (emax : N) (raddr : ipaddr) (cid : option N) (cs : list change)
           (pol : option (stmt * option prepend_action * disp)) (probe : list (N * N))   (* 17: handle_prefix_update + PendingTx *)
| CRefresh (x : ectx) (emax : N) (raddr : ipaddr) (cid : option N) (before walk : list change)
           (pol1 pol2 : option (stmt * option prepend_action * disp)) (probe : list (N * N)). (* 18: then apply_refresh_walk *)

Definition run_case (c : case) : val :=
  match c with
  | CPrepend ty asn a => v_res v_attr (as_path_prepend ty asn a)
  | CStrip a => v_res v_attr (as_path_strip_confed a)
  | CLoop attrs lasn confed => v_res VB (is_as_loop attrs lasn confed)
  | CExportAttrs x attrs => v_res v_attrs (export_attrs x attrs)
  | CPrePolicy x attrs nh fam il =>
    let r := pre_policy_defaults x attrs nh fam il in VL [v_attrs (fst r); VOpt v_nh (snd r)]
  | CReflect attrs rid cid => v_attrs (rr_reflect_attrs attrs rid cid)
  | CLlgr attrs => v_attrs (with_llgr_stale_community attrs)
  | CInjectLp attrs => v_attrs (inject_local_pref_if_absent attrs)
  | CSuppress s dest cid =>
    VL [VB (is_ibgp_learned s); VB (ibgp_split_horizon_suppress s dest cid); VB (rs_isolation_suppress s dest)]
  | CProcess x emax raddr cid ch e probe =>
    v_res (fun r => VL [VList v_sinkop (fst r); v_emap (snd r) probe])
          (process_change x no_policy emax raddr cid ch e)
  | CRxLoop x rid cid attrs =>
    v_res (fun o => VOpt v_attrs o) (rx_reach x rid cid attrs)
  | CLlgrScenario x emax raddr cid ps nh attrs =>
    v_res (fun r => VL [VList v_sinkop (fst (fst r)); VList v_sinkop (snd (fst r))])
          (llgr_scenario_full x no_policy emax raddr cid ps nh attrs)
  | CProcessPol x emax raddr cid ch e probe st pre default =>
    v_res (fun r => VL [VList v_sinkop (fst r); v_emap (snd r) probe])
          (process_change_r x (stmt_policy_r x raddr st pre default) emax raddr cid ch e)
  | CHistory x emax raddr cid cs probe =>
    v_res (fun r => VL [VList v_sinkop (fst r); v_emap (snd r) probe])
          (run_changes x no_policy emax raddr cid cs (if emax =? 1 then ENone else EAddPath []))
  | CProcessRtc x emax raddr cid ch e probe acc rts =>
    v_res (fun r => VL [VList v_sinkop (fst r); v_emap (snd r) probe])
          (process_change_r x (with_rtc (rtc_allows acc rts) (lift_policy no_policy)) emax raddr cid ch e)
  | CRestale old any addr paths =>
    VList (fun c => VL [VB (c_best_changed c); VB (c_any_changed c); VOpt VN (c_replaced c);
                        VNs (map p_lpid (c_paths c))])
          (restale_llgr_changes IPV4_UNICAST 1 old any addr paths)
  | CUpdates hf x emax raddr cid cs pol probe =>
    let polr := match pol with
                | None => lift_policy no_policy
                | Some (st, pre, dflt) => stmt_policy_r x raddr st pre dflt
                end in
    v_res (fun r =>
             VL [VList (fun dk => match pending_after (negb (emax =? 1)) (fst r) (fst dk) (snd dk) PNothing with
                                  | PNothing => VL []
                                  | PUnreach => VL [VN 0]
                                  | PReach nh a => VL [VN 1; VOpt v_nh nh; v_attrs a]
                                  end) probe;
                 VList (fun d => VNs (sort_n (em_sent_path_ids (snd r) d))) (map fst probe)])
          (run_updates hf x polr emax raddr cid cs (if emax =? 1 then ENone else EAddPath []))
  | CRefresh x emax raddr cid before walk pol1 pol2 probe =>
    let mk := fun pol => match pol with
                         | None => lift_policy no_policy
                         | Some (st, pre, dflt) => stmt_policy_r x raddr st pre dflt
                         end in
    v_res (fun r =>
             VL [VList (fun dk => match pending_after (negb (emax =? 1)) (fst r) (fst dk) (snd dk) PNothing with
                                  | PNothing => VL []
                                  | PUnreach => VL [VN 0]
                                  | PReach nh a => VL [VN 1; VOpt v_nh nh; v_attrs a]
                                  end) probe;
                 VList (fun d => VNs (sort_n (em_sent_path_ids (snd r) d))) (map fst probe)])
          (rbind (run_updates true x (mk pol1) emax raddr cid before (if emax =? 1 then ENone else EAddPath []))
                 (fun r1 => run_updates true x (mk pol2) emax raddr cid (flat_map (refresh_changes emax) walk) (snd r1)))
  end.
