(* Model of packet/src/mrt.rs: MpHeader::encode, MrtCodec::encode (BGP4MP),
   encode_table_dump / write_mrt_record / write_rib_entries / encode_nexthop_attr /
   encode_mrt_mp_reach_ipv6 (TABLE_DUMP_V2).

   As in Model/Bmp.v the BGP encoder is not modelled: the output of
   `PeerCodec::encode_to(body)` is the parameter [blob]; the wire form of each
   path attribute (`Attribute::encode_wire`) and of the prefix (`Nlri::encode`)
   are byte-string parameters as well.  Wall-clock time (`SystemTime::now()`) is
   the parameter [ts].  `as u16`/`as u32`/`as u8` casts are the truncating [be k];
   `dst.len() - pos` cannot underflow (the buffer only grows). *)
From Coq Require Import List NArith Bool Arith.
From RB Require Import Base.Val Base.BytesBuf Model.Bmp.
Import ListNotations.
Open Scope N_scope.

(* ------------------------------------------------------------------ BGP4MP *)

Record mp_header : Type := {
  m_rasn : N; m_lasn : N;      (* u32 *)
  m_ifidx : N;                 (* u16 *)
  m_raddr : ip; m_laddr : ip;
  m_asn4 : bool
}.

(* MpHeader::encode: the AFI follows the remote address; the local address is
   written only when it is of the same family *)
Definition mph_encode (h : mp_header) : bytes :=
  (if m_asn4 h then be 4 (m_rasn h) ++ be 4 (m_lasn h)
   else be 2 (m_rasn h) ++ be 2 (m_lasn h))      (* remote_asn as u16 *)
  ++ be 2 (m_ifidx h)
  ++ match m_raddr h with
     | IP4 a => be 2 1 ++ a ++ (match m_laddr h with IP4 l => l | IP6 _ => [] end)
     | IP6 a => be 2 2 ++ a ++ (match m_laddr h with IP6 l => l | IP4 _ => [] end)
     end.

Record mp_msg : Type := { mp_hdr : mp_header; mp_blob : bytes; mp_addpath : bool }.

Definition SUBTYPE_AS4 : N := 4.
Definition SUBTYPE_AS4_ADDPATH : N := 8.

(* one iteration of the loop of MrtCodec::encode: Header::encode with len = 0,
   MpHeader, one BGP message, then the back-patch of the length at [pos - 4] *)
Definition mp_record (h : mp_header) (ts subtype : N) (dst : bytes) (pdu : bytes) : bytes :=
  let d1 := dst ++ be 4 ts ++ be 2 16 ++ be 2 subtype ++ be 4 0 in
  let pos := length d1 in
  let d2 := d1 ++ mph_encode h ++ pdu in
  patch d2 (pos - 4) (be 4 (N.of_nat (length d2 - pos)))     (* len as u32 *).

(* MrtCodec::encode (Message::Mp): one BGP4MP record per BGP message that
   encode_to produced (RFC 6396 4.4.2: the BGP Message field holds one message) *)
Definition mrt_encode (ts : N) (dst : bytes) (m : mp_msg) : bytes :=
  let subtype := if mp_addpath m then SUBTYPE_AS4_ADDPATH else SUBTYPE_AS4 in
  fold_left (mp_record (mp_hdr m) ts subtype)
            (split_pdus (length (mp_blob m)) (mp_blob m)) dst.

Definition mrt_encode_all (ts : N) (dst : bytes) (ms : list mp_msg) : bytes :=
  fold_left (mrt_encode ts) ms dst.

(* ----------------------------------------------------------- TABLE_DUMP_V2 *)

Record peer_entry : Type := { pe_id : bytes (* 4 *); pe_addr : ip; pe_asn : N (* u32 *) }.

Record rib_entry : Type := {
  re_idx : N;                   (* u16 *)
  re_orig : N;                  (* u32 *)
  re_nh : option bytes;         (* Nexthop::to_bytes(): 4, 16 or 32 octets *)
  re_attrs : list bytes         (* Attribute::encode_wire of each attribute *)
}.

Inductive td_record : Type :=
| PeerIndexTable (router_id : bytes) (peers : list peer_entry)
| RibIpv4Unicast (seq : N) (prefix : bytes (* Nlri::encode *)) (entries : list rib_entry)
| RibIpv6Unicast (seq : N) (prefix : bytes) (entries : list rib_entry).

Definition TABLE_DUMP_V2 : N := 13.

Definition peer_encode (p : peer_entry) : bytes :=
  be 1 (if is_v6 (pe_addr p) then 3 else 2) ++ pe_id p ++ ip_octets (pe_addr p) ++ be 4 (pe_asn p).

(* encode_nexthop_attr / encode_mrt_mp_reach_ipv6 *)
Definition nh_attr (ipv6 : bool) (nh : bytes) : bytes :=
  if ipv6 then [128; 14] ++ be 1 (N.of_nat (1 + length nh)) ++ be 1 (N.of_nat (length nh)) ++ nh
  else [64; 3] ++ be 1 (N.of_nat (length nh)) ++ nh.

(* One iteration of the loop of write_rib_entries, with its attribute-length
   back-patch.  Offsets are taken relative to the first byte the iteration
   writes: the patch only touches bytes written by the same iteration, so the
   bytes already in [dst] play no role (this also keeps the model linear-time). *)
Definition entry_bytes (ipv6 : bool) (e : rib_entry) : bytes :=
  let d1 := be 2 (re_idx e) ++ be 4 (re_orig e) in
  let attr_len_offset := length d1 in
  let d2 := d1 ++ be 2 0 in
  let attr_start := length d2 in
  let d3 := d2 ++ concat (re_attrs e)
               ++ match re_nh e with Some nh => nh_attr ipv6 nh | None => [] end in
  patch d3 attr_len_offset (be 2 (N.of_nat (length d3 - attr_start)))   (* as u16 *).

Definition write_rib_entries (ipv6 : bool) (es : list rib_entry) : bytes :=
  be 2 (N.of_nat (length es))  (* entries.len() as u16 *) ++ concat (map (entry_bytes ipv6) es).

(* what the body closure of write_mrt_record appends *)
Definition td_body (r : td_record) : bytes :=
  match r with
  | PeerIndexTable rid peers =>
      rid ++ be 2 0 ++ be 2 (N.of_nat (length peers))  (* peers.len() as u16 *)
          ++ concat (map peer_encode peers)
  | RibIpv4Unicast seq prefix es => be 4 seq ++ prefix ++ write_rib_entries false es
  | RibIpv6Unicast seq prefix es => be 4 seq ++ prefix ++ write_rib_entries true es
  end.

Definition td_subtype (r : td_record) : N :=
  match r with PeerIndexTable _ _ => 1 | RibIpv4Unicast _ _ _ => 2 | RibIpv6Unicast _ _ _ => 4 end.

(* encode_table_dump = write_mrt_record *)
Definition encode_table_dump (ts : N) (dst : bytes) (r : td_record) : bytes :=
  let d1 := dst ++ be 4 ts ++ be 2 TABLE_DUMP_V2 ++ be 2 (td_subtype r) in
  let len_offset := length d1 in
  let d2 := d1 ++ be 4 0 in
  let body_start := length d2 in
  let d3 := d2 ++ td_body r in
  patch d3 len_offset (be 4 (N.of_nat (length d3 - body_start)))    (* as u32 *).

Definition encode_table_dump_all (dst : bytes) (rs : list (N * td_record)) : bytes :=
  fold_left (fun d tr => encode_table_dump (fst tr) d (snd tr)) rs dst.

(* ------------------------------------------------------------ observation *)

(* for the cases with 65535..65537 list elements the observation is a digest of
   the bytes (length, Fletcher-style position-sensitive sums, first 40 bytes) *)
Definition digest (l : bytes) : val :=
  VL [VN (N.of_nat (length l));
      (let '(s1, s2) := fold_left (fun acc b => let s1 := fst acc + b in (s1, snd acc + s1)) l (0, 0) in
       VL [VN s1; VN s2]);
      VNs (firstn 40 l)].

Definition run_td_digest (prefill : bytes) (rs : list (N * td_record)) : val :=
  digest (encode_table_dump_all prefill rs).

Definition run_mrt (prefill : bytes) (ms : list mp_msg) : val :=
  VNs (mrt_encode_all 0 prefill ms).

Definition run_td (prefill : bytes) (rs : list (N * td_record)) : val :=
  VNs (encode_table_dump_all prefill rs).
