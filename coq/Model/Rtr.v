(* Executable model of packet/src/rpki.rs: Message::from_bytes and
   <RtrCodec as Decoder>::decode.

   Two decoders are given.  [rtr_decode_v0] is the code as it stood before the
   repair (commit e40a5c0 of /repo): any error of from_bytes means Ok(None),
   and the buffer is advanced by the PDU's own length field whatever its
   value.  It is kept to state what was wrong (Proofs/Rtr.v, *_v0_refuted).
   [rtr_decode] is the repaired code, which the correspondence run ties to the
   working tree: frame by the length field first (length below the 8-byte
   header is an error), parse exactly the frame, and turn a parse failure
   (unknown PDU type, PDU shorter than its type needs) into an error instead
   of "need more".
   No proofs in this file. *)
From Coq Require Import List ZArith NArith Bool.
From RB Require Import Base.Val Base.Bytes Model.Stream.
Import ListNotations.
Open Scope N_scope.

Inductive rtr_msg :=
| RSerialNotify (sid serial : N)
| RSerialQuery (sid serial : N)
| RResetQuery
| RCacheResponse (sid : N)
| RPrefix (ty flags plen maxlen : N) (addr : list N) (asn : N)     (* ty = 4 | 6 *)
| REndOfData (sid serial refresh retry expire : N)
| RCacheReset
| RErrorReport (code : N).

(* Cursor reads: [None] is the io error of a read past the end. *)
Definition rd8 (l : list N) : option (N * list N) :=
  match l with a :: r => Some (a, r) | [] => None end.
Definition rd16 (l : list N) : option (N * list N) :=
  match l with a :: b :: r => Some (be16 a b, r) | _ => None end.
Definition rd32 (l : list N) : option (N * list N) :=
  match l with a :: b :: c :: d :: r => Some (be32 a b c d, r) | _ => None end.
Fixpoint rdn (n : nat) (l : list N) : option (list N * list N) :=
  match n with
  | O => Some ([], l)
  | S n' => match l with
            | [] => None
            | a :: r => match rdn n' r with None => None | Some (x, r') => Some (a :: x, r') end
            end
  end.

(* Message::from_bytes: [None] = Err(_); the N is the PDU's length field. *)
Definition rtr_from_bytes (buf : list N) : option (rtr_msg * N) :=
  match rd8 buf with None => None | Some (version, c) =>
  match rd8 c with None => None | Some (ty, c) =>
  match rd16 c with None => None | Some (sid, c) =>
  match rd32 c with None => None | Some (length, c) =>
  if len buf <? length then None else
  match ty with
  | 0 => match rd32 c with None => None | Some (serial, _) => Some (RSerialNotify sid serial, length) end
  | 1 => match rd32 c with None => None | Some (serial, _) => Some (RSerialQuery sid serial, length) end
  | 2 => Some (RResetQuery, length)
  | 3 => Some (RCacheResponse sid, length)
  | 4 =>
    match rd8 c with None => None | Some (flags, c) =>
    match rd8 c with None => None | Some (plen, c) =>
    match rd8 c with None => None | Some (maxlen, c) =>
    match rd8 c with None => None | Some (_, c) =>
    match rdn 4 c with None => None | Some (addr, c) =>
    match rd32 c with None => None | Some (asn, _) =>
      Some (RPrefix 4 flags plen maxlen addr asn, length)
    end end end end end end
  | 6 =>
    match rd8 c with None => None | Some (flags, c) =>
    match rd8 c with None => None | Some (plen, c) =>
    match rd8 c with None => None | Some (maxlen, c) =>
    match rd8 c with None => None | Some (_, c) =>
    match rdn 16 c with None => None | Some (addr, c) =>
    match rd32 c with None => None | Some (asn, _) =>
      Some (RPrefix 6 flags plen maxlen addr asn, length)
    end end end end end end
  | 7 =>
    match rd32 c with None => None | Some (serial, c) =>
    if 1 <=? version then
      match rd32 c with None => None | Some (refresh, c) =>
      match rd32 c with None => None | Some (retry, c) =>
      match rd32 c with None => None | Some (expire, _) =>
        Some (REndOfData sid serial refresh retry expire, length)
      end end end
    else Some (REndOfData sid serial 0 0 0, length)
    end
  | 8 => Some (RCacheReset, length)
  | 10 => Some (RErrorReport sid, length)
  | _ => None
  end end end end end.

Definition rtr_res := dres rtr_msg unit.

(* ---- before the repair.  BytesMut::split_to(len) panics when len > src.len(). *)
Definition rtr_decode_v0 (src : list N) : rtr_res :=
  match rtr_from_bytes src with
  | Some (m, l) => if len src <? l then DPanic else DMsg m (skipn (N.to_nat l) src)
  | None => DNeed
  end.

(* ---- the repaired decoder.
       if src.len() < 8 { return Ok(None) }
       let length = u32::from_be_bytes([src[4], src[5], src[6], src[7]]) as usize;
       if length < 8 { return Err(..) }
       if src.len() < length { return Ok(None) }
       let frame = src.split_to(length);
       Message::from_bytes(&frame).map(|(m, _)| Some(m))            *)
Definition rtr_decode (src : list N) : rtr_res :=
  if len src <? 8 then DNeed else
  match src with
  | _ :: _ :: _ :: _ :: a :: b :: c :: d :: _ =>
    let length := be32 a b c d in
    if length <? 8 then DErr tt src else
    if len src <? length then DNeed else
    let frame := firstn (N.to_nat length) src in
    let rest := skipn (N.to_nat length) src in
    match rtr_from_bytes frame with
    | Some (m, _) => DMsg m rest
    | None => DErr tt rest
    end
  | _ => DPanic                                         (* src[4..8] *)
  end.

(* ------------------------------------------------------------ observation *)
Definition v_rtr_msg (m : rtr_msg) : val :=
  match m with
  | RSerialNotify s n => VL [VN 0; VN s; VN n]
  | RSerialQuery s n => VL [VN 1; VN s; VN n]
  | RResetQuery => VL [VN 2]
  | RCacheResponse s => VL [VN 3; VN s]
  | RPrefix t f p m a asn => VL [VN t; VN f; VN p; VN m; VNs a; VN asn]
  | REndOfData s n a b c => VL [VN 7; VN s; VN n; VN a; VN b; VN c]
  | RCacheReset => VL [VN 8]
  | RErrorReport c => VL [VN 10; VN c]
  end.

Definition v_rtr_stream (d : list N -> rtr_res) (chunks : list (list N)) : val :=
  v_stream v_rtr_msg (fun _ : unit => []) (run_stream d chunks).

(* debug and release builds: no overflow-prone arithmetic in either decoder *)
Definition run_rtr (chunks : list (list N)) : val :=
  VL [v_rtr_stream rtr_decode chunks; v_rtr_stream rtr_decode chunks].
Definition run_rtr_v0 (chunks : list (list N)) : val :=
  VL [v_rtr_stream rtr_decode_v0 chunks; v_rtr_stream rtr_decode_v0 chunks].
