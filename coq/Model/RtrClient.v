(* Executable model of the RTR client (property C13):
     packet/src/rpki.rs   Message::from_bytes, Message::to_bytes (the two queries),
                          RtrCodec::decode, and tokio_util's Framed read loop around it
     daemon/src/rpki.rs   RpkiClient::serve_inner (the PDU loop) and RpkiState::update
     daemon/src/table_manager.rs  rpki_insert / rpki_withdraw / rpki_reset / rpki_drop_all
   on top of the table model Model/Rpki.v.  No proofs in this file.

   Two switches reproduce the code before the `fix:` commits of C13 (kept for
   the refutation lemmas): [fx_eod] = the reset vector is applied only at the
   first End-of-Data and then cleared; [fx_skip] = RtrCodec::decode skips a
   complete PDU of a type Message::from_bytes does not know.  The current
   code is [fixed] (both true).

   A client task is a sequence of atomic steps: it runs until its stream has
   nothing more to deliver.  The cache side is a sequence of events: a TCP
   segment (any fragmentation), a soft-reset notification, connection close,
   cancellation.  Two clients share one table (cache identities 0 and 1);
   VRPs of a foreign cache (identity 9) may be installed beforehand. *)
From Coq Require Import List NArith Bool ZArith.
From RB Require Import Base.Val Model.Rpki.
From RB Require Model.Stream Model.Rtr.
Import ListNotations.
Open Scope N_scope.

Record fixes := { fx_eod : bool; fx_skip : bool }.
Definition fixed : fixes := {| fx_eod := true; fx_skip := true |}.
Definition prefix_code : fixes := {| fx_eod := false; fx_skip := false |}.

(* ---- PDUs (packet/src/rpki.rs Message) as serve_inner sees them *)
Inductive msg :=
| SerialNotify (sid serial : N)
| SerialQuery (sid serial : N)
| ResetQuery
| CacheResponse (sid : N)
| IpPrefix (n : net) (flags mx asn : N)
| EndOfData (sid serial refresh retry expire : N)
| CacheReset
| ErrorReport (code : N).

(* The codec is the C03 model of packet/src/rpki.rs (Model/Rtr.v): [Rtr.rtr_decode] is
   <RtrCodec as Decoder>::decode as it is now (frame by the length field; a length below
   8 or a PDU shorter than its type needs is an error that ends the session; complete
   PDUs of unused types are dropped), [Rtr.rtr_decode_v0] the decoder before the
   repairs.  Framed's read loop is Model/Stream.v [drain]. *)
Definition of_rtr (m : Rtr.rtr_msg) : msg :=
  match m with
  | Rtr.RSerialNotify s n => SerialNotify s n
  | Rtr.RSerialQuery s n => SerialQuery s n
  | Rtr.RResetQuery => ResetQuery
  | Rtr.RCacheResponse s => CacheResponse s
  | Rtr.RPrefix ty fl pl ml addr asn =>
      IpPrefix {| n_fam := if ty =? 4 then F4 else F6; n_addr := addr; n_mask := pl |} fl ml asn
  | Rtr.REndOfData s n a b c => EndOfData s n a b c
  | Rtr.RCacheReset => CacheReset
  | Rtr.RErrorReport c => ErrorReport c
  end.

Definition codec (fx : fixes) : list N -> Stream.dres Rtr.rtr_msg unit :=
  if fx_skip fx then Rtr.rtr_decode else Rtr.rtr_decode_v0.

(* Message::to_bytes for the two queries the client sends (codec version 1) *)
Definition be16_bytes (a : N) : list N := [a / 256 mod 256; a mod 256].
Definition be32_bytes (a : N) : list N :=
  [a / 16777216 mod 256; a / 65536 mod 256; a / 256 mod 256; a mod 256].
Definition enc_reset_query : list N := [1; 2; 0; 0; 0; 0; 0; 8].
Definition enc_serial_query (sid serial : N) : list N :=
  [1; 1] ++ be16_bytes sid ++ [0; 0; 0; 12] ++ be32_bytes serial.

(* ---- one client *)
Record cstate := {
  c_v : list (net * roa);      (* `v`: announcements before the first End-of-Data *)
  c_eod : bool;                (* `end_of_data` *)
  c_sid : N;                   (* RpkiState.session_id *)
  c_serial : N;                (* RpkiState.serial *)
  c_eod_count : N;             (* RpkiState.end_of_data *)
  c_up : bool;                 (* RpkiState.up *)
  c_buf : list N;              (* Framed read buffer *)
  c_permit : bool;             (* Notify permit stored by notify_one() *)
  c_done : bool;               (* serve_inner has returned *)
  c_open : bool                (* the cache side of the stream is still open *)
}.

Definition c_init : cstate :=
  {| c_v := []; c_eod := false; c_sid := 0; c_serial := 0; c_eod_count := 0; c_up := true;
     c_buf := []; c_permit := false; c_done := false; c_open := true |}.

Definition set_core (st : cstate) (v : list (net * roa)) (eod : bool) (sid serial cnt : N) : cstate :=
  {| c_v := v; c_eod := eod; c_sid := sid; c_serial := serial; c_eod_count := cnt;
     c_up := c_up st; c_buf := c_buf st; c_permit := c_permit st; c_done := c_done st; c_open := c_open st |}.

(* the `match msg` of serve_inner (after state.update): new state, new table, bytes sent *)
Definition on_msg (fx : fixes) (src : N) (st : cstate) (t : rtab) (m : msg) : cstate * rtab * list N :=
  match m with
  | SerialNotify _ serial =>
      if c_eod st && negb (serial =? c_serial st)
      then (st, t, enc_serial_query (c_sid st) (c_serial st))
      else (st, t, [])
  | CacheResponse sid => (set_core st (c_v st) (c_eod st) sid (c_serial st) (c_eod_count st), t, [])
  | IpPrefix n flags mx asn =>
      let r := mk_roa src mx asn in
      if 0 <? N.land flags 1 then
        if c_eod st then (st, insert n r t, [])
        else (set_core st (c_v st ++ [(n, r)]) (c_eod st) (c_sid st) (c_serial st) (c_eod_count st), t, [])
      else if c_eod st then (st, remove n r t, [])
      else (st, t, [])
  | EndOfData _ serial _ _ _ =>
      if fx_eod fx then
        if c_eod st
        then (set_core st (c_v st) true (c_sid st) serial (c_eod_count st + 1), t, [])
        else (set_core st [] true (c_sid st) serial (c_eod_count st + 1), reset src (c_v st) t, [])
      else (set_core st (c_v st) true (c_sid st) serial (c_eod_count st + 1), reset src (c_v st) t, [])
  | _ => (st, t, [])
  end.

Definition with_buf (st : cstate) (b : list N) : cstate :=
  {| c_v := c_v st; c_eod := c_eod st; c_sid := c_sid st; c_serial := c_serial st;
     c_eod_count := c_eod_count st; c_up := c_up st; c_buf := b;
     c_permit := c_permit st; c_done := c_done st; c_open := c_open st |}.

(* serve_inner over what one Framed drain delivered: every message goes through the
   `match msg`, in order; a decoder error is `Err(_) => break` (the bool says the loop
   was left).  Stream.drain stops at the first error, so no message follows one. *)
Fixpoint run_msgs (fx : fixes) (c : N) (ms : list msg) (st : cstate) (t : rtab) (sent : list N)
  : cstate * rtab * list N :=
  match ms with
  | [] => (st, t, sent)
  | m :: rest => let '(st', t', out) := on_msg fx c st t m in run_msgs fx c rest st' t' (sent ++ out)
  end.

Definition apply_evs (fx : fixes) (src : N) (evs : list (Stream.ev Rtr.rtr_msg unit))
           (st : cstate) (t : rtab) (sent : list N) : cstate * rtab * list N * bool :=
  (run_msgs fx src (map of_rtr (Stream.msgs_of evs)) st t sent,
   match Stream.err_of evs with Some _ => true | None => false end).

Definition with_permit (st : cstate) (p : bool) : cstate :=
  {| c_v := c_v st; c_eod := c_eod st; c_sid := c_sid st; c_serial := c_serial st;
     c_eod_count := c_eod_count st; c_up := c_up st; c_buf := c_buf st;
     c_permit := p; c_done := c_done st; c_open := c_open st |}.

(* the soft_reset arm of the select!, enabled only after the first End-of-Data *)
Definition fire_permit (st : cstate) (sent : list N) : cstate * list N :=
  if c_permit st && c_eod st
  then (with_permit st false, sent ++ enc_serial_query (c_sid st) (c_serial st))
  else (st, sent).

(* leaving the loop: up = false, rpki_drop_all *)
Definition finish_session (src : N) (st : cstate) (t : rtab) : cstate * rtab :=
  ({| c_v := c_v st; c_eod := c_eod st; c_sid := c_sid st; c_serial := c_serial st;
      c_eod_count := c_eod_count st; c_up := false; c_buf := c_buf st;
      c_permit := c_permit st; c_done := true; c_open := c_open st |},
   drop_source src t).

Inductive event :=
| EFeed (c : N) (bytes : list N)
| ESoftReset (c : N)
| EClose (c : N)
| ECancel (c : N).

Definition ev_client (e : event) : N :=
  match e with EFeed c _ | ESoftReset c | EClose c | ECancel c => c end.

(* one event for client [src]; every PDU is at least 8 bytes, so length+1 iterations drain the buffer *)
Definition client_event (fx : fixes) (src : N) (st : cstate) (t : rtab) (e : event)
  : cstate * rtab * list N :=
  if c_done st then (st, t, [])
  else
    match e with
    | EFeed _ bytes =>
        if c_open st then
          let buf := c_buf st ++ bytes in
          match Stream.drain (codec fx) (S (length buf)) buf with
          | None => let (st1, t1) := finish_session src st t in (st1, t1, [])   (* decoder panic: not reachable (C03) *)
          | Some (evs, ds) =>
              let '(st2, t2, sent, ended) := apply_evs fx src evs st t [] in
              if ended then
                let (st3, t3) := finish_session src st2 t2 in (st3, t3, sent)
              else
                let st3 := with_buf st2 (match ds with Stream.Pending rest => rest | Stream.Stopped => [] end) in
                let (st4, sent4) := fire_permit st3 sent in
                (st4, t2, sent4)
          end
        else (st, t, [])
    | ESoftReset _ =>
        let (st1, sent) := fire_permit (with_permit st true) [] in (st1, t, sent)
    | EClose _ =>
        let (st1, t1) := finish_session src {| c_v := c_v st; c_eod := c_eod st; c_sid := c_sid st;
                              c_serial := c_serial st; c_eod_count := c_eod_count st; c_up := c_up st;
                              c_buf := c_buf st; c_permit := c_permit st; c_done := c_done st;
                              c_open := false |} t in
        (st1, t1, [])
    | ECancel _ => let (st1, t1) := finish_session src st t in (st1, t1, [])
    end.

(* ---- the system: clients 0..n-1 over one table *)
Record sys := { s_clients : list cstate; s_tab : rtab }.

Fixpoint set_nth {A} (n : nat) (x : A) (l : list A) : list A :=
  match l, n with
  | [], _ => []
  | _ :: r, O => x :: r
  | y :: r, S n' => y :: set_nth n' x r
  end.

Definition sys_event (fx : fixes) (s : sys) (e : event) : sys * list N :=
  let c := ev_client e in
  match nth_error (s_clients s) (N.to_nat c) with
  | None => (s, [])
  | Some st =>
      let '(st', t', sent) := client_event fx c st (s_tab s) e in
      ({| s_clients := set_nth (N.to_nat c) st' (s_clients s); s_tab := t' |}, sent)
  end.

Definition sys_init (nclients : nat) (pre : list (net * N * N)) : sys :=
  {| s_clients := repeat c_init nclients;
     s_tab := fold_left (fun t x => insert (fst (fst x)) (mk_roa 9 (snd (fst x)) (snd x)) t) pre rtab_new |}.

(* ---- observations *)
Definition v_client (st : cstate) : val :=
  VL [VN (c_sid st); VN (c_serial st); VN (c_eod_count st); VB (c_up st)].

(* bytes written per client since the last observation: only client [c] acted *)
Definition sent_row (n : nat) (c : N) (sent : list N) : val :=
  VL (map (fun i => if N.of_nat i =? c then VNs sent else VNs []) (seq 0 n)).

Definition observe_sys (s : sys) (c : N) (sent : val) : val :=
  match dump (s_tab s) with
  | PPanic => VL [VI (-1)%Z]
  | POk d =>
      VL [VList (fun st => VB (c_done st)) (s_clients s); sent; d;
          match nth_error (s_clients s) (N.to_nat c) with Some st => v_client st | None => VL [] end]
  end.

Fixpoint observe_events (fx : fixes) (s : sys) (evs : list event) : list val :=
  match evs with
  | [] => []
  | e :: rest =>
      let (s', sent) := sys_event fx s e in
      observe_sys s' (ev_client e) (sent_row (length (s_clients s')) (ev_client e) sent)
      :: observe_events fx s' rest
  end.

(* at start every client sends its Reset Query *)
Definition run_case_with (fx : fixes) (nclients : N) (pre : list (net * N * N)) (evs : list event) : val :=
  let s := sys_init (N.to_nat nclients) pre in
  VL (observe_sys s 0 (VL (map (fun _ => VNs enc_reset_query) (s_clients s))) :: observe_events fx s evs).

Definition run_case := run_case_with fixed.
Definition run_case_pre := run_case_with prefix_code.
